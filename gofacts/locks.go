// locks.go — lock facts for C07 (and C06/C15/C17): which mutex fields are held at every
// access to a shared struct field, and which lock is held while which other lock is acquired.
// Output: gen/Locks.v (the table the Coq lemmas C07_fields_protected and
// C07_lock_order_acyclic are computed on) and locks_report.txt (human readable).
//
// The analysis and its approximations (all repeated in lib/props.py, trusted_base of C07):
//   - identity: a lock / a location is Type.field ("one instance per type"); a pointer field
//     that is initialised with the address of a mutex field (`rwLock: &m.txLock`) is that lock.
//   - context-sensitive walk from the roots: a callee is analysed once per distinct set of held
//     locks; its effect on the set (helpers that only lock or only unlock) is the intersection
//     over its normal exits.  Interface calls go to every implementation inside the module.
//   - "held at this statement" is block structured: a branch that ends in return/break/continue/
//     panic does not leak its lock changes, joins intersect (Ex joined with Sh gives Sh), a loop
//     body may run zero times.  `defer mu.Unlock()` releases at function exit; other deferred
//     calls are analysed where the defer statement stands.
//   - function literals are analysed where they are called or passed as an argument (with the
//     locks held there); literals stored elsewhere where they are written; `go` resets the set.
//   - roots: exported methods of the engine facade, storage manager, transaction manager,
//     transactions, transaction registry, compaction manager and coordinator, statistics
//     collector, the iterators handed to clients, and every `go` statement of the covered
//     packages.  Lifecycle methods (Close/Stop/Start/GracefulShutdown) are not roots; code
//     reached only from constructors is pre-publication and never analysed.
//   - a location is listed only if reachable code writes it; composite-literal initialisation and
//     accesses through a local variable that holds a freshly constructed object are not accesses
//     to shared state; fields of sync/atomic types, mutexes and channels are synchronised by
//     construction; fields of thread-confined types (one client, one goroutine: iterators,
//     writers, builders, transaction buffers' owners ...) are listed in confinedTypes.
//   - taking the address of a field (&x.f) counts as a read; writes through such pointers and
//     through method values / reflection are not seen.
//   - maps: `m[k] = v`, `m[k]++` and `delete(m, k)` are WRITES of the field that holds the map,
//     `m[k]`, `range m`, `len(m)` are reads (a map write under a shared lock aborts the process:
//     "concurrent map iteration and map write").
//   - a fresh local (x := &T{...} / New*()) stops being private at the first statement that
//     hands it to other code (call argument, stored into a field / map / slice / composite
//     literal / channel, operand of `go`, captured by a `go` literal): accesses through it
//     after that statement are shared accesses (walker.escape).
//   - pkg/replication, primary side (Primary, ReplicaSession, heartbeatManager, WALBatcher,
//     WALEntriesBuffer, CompressionManager, Manager): roots are the exported methods of
//     replication.Primary (gRPC handlers StreamWAL/Acknowledge/NegativeAcknowledge — started
//     from the network, so without the no-close assumption; the WAL observer callbacks
//     OnWALEntryWritten/OnWALBatchWritten/OnWALSync with wal.WAL.mu held exclusively, which are
//     also reached through the interface call in wal.notify*Observers from every engine write
//     root with the real set; OnWALRotated; the info accessors; Close exclusive) and of
//     replication.Manager (Status, GetNodeInfo, Stop; Start is pre-publication), plus the
//     goroutines: ReplicaSession.sendLoop (one per session), heartbeatManager.monitorLoop,
//     sessionContext's watcher, the gRPC Serve goroutine.  The replica side (replica.go,
//     state.go) is left out: lockExcludeFiles.  Values that are gRPC / protobuf objects are
//     not module types: no accesses are recorded inside them.
//   - allow list: lockAllow; an entry whose reason starts with FINDING is a genuine
//     unprotected access in kevo, reported, not a refinement.
package main

import (
	"fmt"
	"go/ast"
	"go/build"
	"go/importer"
	"go/parser"
	"go/token"
	"go/types"
	"os"
	"path/filepath"
	"sort"
	"strings"
)

func init() { extraGenerators = append(extraGenerators, genLocks) }

// covered packages (relative to the module root)
var lockPkgs = []string{
	"pkg/engine/storage", "pkg/engine", "pkg/memtable", "pkg/compaction", "pkg/engine/compaction",
	"pkg/stats", "pkg/transaction", "pkg/sstable", "pkg/wal", "pkg/config", "pkg/engine/iterator",
	"pkg/replication",
}

// files of covered packages that are left out (functions declared there are not analysed: a
// call into them has no lock effect and no accesses, exactly like a call into an uncovered
// package), with the reason
var lockExcludeFiles = map[string]string{
	"pkg/replication/replica.go": "replica side (state machine of one goroutine plus receive goroutines joined by a WaitGroup: needs goroutine confinement and join edges, which the table does not have); not part of the primary's write path",
	"pkg/replication/state.go":   "replica side (StateTracker, used by Replica only)",
}

// receiver types whose exported methods are roots (with the locks held on entry)
var lockRoots = []struct {
	typ  string
	held string // lock held on entry in shared mode ("" = none)
}{
	{"engine.EngineFacade", ""},
	{"engine/storage.Manager", ""},
	{"transaction.Manager", ""},
	// a transaction holds the isolation lock from BeginTransaction to Commit/Rollback (at least shared)
	{"transaction.TransactionImpl", "transaction.Manager.txLock"},
	{"transaction.RegistryImpl", ""},
	{"engine/compaction.Manager", ""},
	{"compaction.DefaultCompactionCoordinator", ""},
	{"stats.AtomicCollector", ""},
	{"sstable.Iterator", ""},
	{"sstable.IteratorAdapter", ""},
	{"memtable.Iterator", ""},
	{"memtable.IteratorAdapter", ""},
	{"engine/iterator.Factory", ""},
	// replication, primary side (entry sets of the individual methods: rootEntry below)
	{"replication.Primary", ""},
	{"replication.Manager", ""},
}

// rootEntry: entry lock set of single root methods where it differs from the type's default
// ({quiesce shared} + lockRoots.held shared).
//   - the WAL observer callbacks run on the client's write path, called by the WAL from inside
//     Append/AppendBatch/Sync with WAL.mu held exclusively (pkg/wal/wal.go: every
//     notify*Observers call stands between w.mu.Lock() and the deferred Unlock).  They are ALSO
//     reached through the interface call in wal.notify*Observers with the caller's real set; the
//     explicit root keeps them in the table when no engine root reaches them.
//   - the gRPC handlers of the replication service are started by the gRPC server, one goroutine
//     per call, whenever a replica decides to call: like the engine's own goroutines they do NOT
//     hold the no-close assumption (network: true), so Primary.Close is checked against them.
type rootSpec struct {
	held    string // extra lock held on entry
	mode    byte   // 'S' | 'X'
	network bool   // started from the network: not covered by "no Close during client calls"
}

var rootEntry = map[string]rootSpec{
	"replication.Primary.OnWALEntryWritten":   {held: "wal.WAL.mu", mode: 'X'},
	"replication.Primary.OnWALBatchWritten":   {held: "wal.WAL.mu", mode: 'X'},
	"replication.Primary.OnWALSync":           {held: "wal.WAL.mu", mode: 'X'},
	"replication.Primary.StreamWAL":           {network: true},
	"replication.Primary.Acknowledge":         {network: true},
	"replication.Primary.NegativeAcknowledge": {network: true},
}

// Lifecycle methods. The property excludes Close running concurrently with client calls; that
// assumption is itself encoded as a lock: every client root holds `assume:no-close-during-calls`
// shared, Close/Stop/GracefulShutdown hold it exclusively, the engine's own goroutines do not
// hold it.  So Close is still checked against the background goroutines.  Start is only called
// from the constructor.
var lifecycle = map[string]bool{"Close": true, "Stop": true, "GracefulShutdown": true}
var prePublication = map[string]bool{"Start": true}

const quiesce = "assume:no-close-during-calls"

// struct types whose instances belong to one goroutine at a time by construction
var confinedTypes = map[string]string{
	"sstable.Iterator":          "one iterator per client call; guarded by its own mutex anyway",
	"sstable.IteratorAdapter":   "wrapper of one Iterator",
	"memtable.Iterator":         "one iterator per client call",
	"memtable.IteratorAdapter":  "wrapper of one Iterator",
	"sstable.Writer":            "created and finished inside one flush/compaction call",
	"sstable.FileManager":       "part of one Writer",
	"sstable.BlockManager":      "part of one Writer",
	"sstable.IndexBuilder":      "part of one Writer",
	"transaction.Buffer":        "has its own mutex; owned by one transaction",
	"wal.Reader":                "created and used inside one replay call",
	"wal.Batch":                 "value built by one caller",
	"wal.Entry":                 "value built by one caller",
	"compaction.CompactionTask": "value built by one compaction cycle",
	"compaction.SSTableInfo":    "value built by one compaction cycle",
	"memtable.RecoveryOptions":  "value",
	"wal.RecoveryStats":         "value returned by one replay call",
	"sstable.BlockLocator":      "value",
	"sstable.BlockBloomFilter":  "immutable after OpenReader",
	"engine/iterator.Factory":   "stateless",
	"memtable.entry":            "immutable once inserted in the skip list",
	"memtable.node":             "skip-list node: next pointers are atomic, entry immutable",
}

// locations deliberately left out of the table, each with the reason (counted in the evidence)
// An entry whose reason starts with FINDING is NOT a refinement of the translator: it is a
// genuine unprotected access in kevo (two conflicting accesses, no common lock), kept out of the
// table only so that the lemma about the remaining locations still compiles.  The report lists
// them under "FINDING"; gen_findings in Locks.v counts them.
var lockAllow = map[string]string{
	// (empty since /repo fe6e3ed: the four ReplicaSession fields Connected, Active, LastAckSequence and
	// LastActivity, first listed here as FINDING entries, are read under the session mutex now)
}

// ---------------------------------------------------------------------------------------
// loading: every package of the module is type-checked once, by us, so that objects are
// shared between packages (interface satisfaction, call resolution by object)

type lpkg struct {
	rel   string
	pkg   *types.Package
	files []*ast.File
	info  *types.Info
}

type modImporter struct {
	base  types.ImporterFrom
	cache map[string]*lpkg
	busy  map[string]bool
}

var limp *modImporter

func (m *modImporter) Import(path string) (*types.Package, error) { return m.ImportFrom(path, repo, 0) }

func (m *modImporter) ImportFrom(path, dir string, mode types.ImportMode) (*types.Package, error) {
	if strings.HasPrefix(path, modPath+"/") {
		p, err := m.load(strings.TrimPrefix(path, modPath+"/"))
		if err != nil {
			return nil, err
		}
		return p.pkg, nil
	}
	return m.base.ImportFrom(path, dir, mode)
}

func (m *modImporter) load(rel string) (*lpkg, error) {
	if p, ok := m.cache[rel]; ok {
		return p, nil
	}
	if m.busy[rel] {
		return nil, fmt.Errorf("import cycle through %s", rel)
	}
	m.busy[rel] = true
	defer delete(m.busy, rel)
	dir := filepath.Join(repo, rel)
	bp, err := build.Default.ImportDir(dir, 0)
	if err != nil {
		return nil, err
	}
	var files []*ast.File
	names := append([]string{}, bp.GoFiles...)
	sort.Strings(names)
	for _, fn := range names {
		f, err := parser.ParseFile(fset, filepath.Join(dir, fn), nil, parser.ParseComments)
		if err != nil {
			return nil, err
		}
		files = append(files, f)
	}
	info := &types.Info{
		Types:      map[ast.Expr]types.TypeAndValue{},
		Defs:       map[*ast.Ident]types.Object{},
		Uses:       map[*ast.Ident]types.Object{},
		Selections: map[*ast.SelectorExpr]*types.Selection{},
	}
	conf := types.Config{Importer: m, Error: func(err error) {}}
	pkg, _ := conf.Check(modPath+"/"+rel, fset, files, info)
	if pkg == nil {
		return nil, fmt.Errorf("type check of %s failed", rel)
	}
	p := &lpkg{rel: rel, pkg: pkg, files: files, info: info}
	m.cache[rel] = p
	return p, nil
}

// ---------------------------------------------------------------------------------------

type lockSet map[string]byte // lock -> 'S' | 'X'

func (h lockSet) clone() lockSet {
	c := lockSet{}
	for k, v := range h {
		c[k] = v
	}
	return c
}

func (h lockSet) key() string {
	var ks []string
	for k, v := range h {
		ks = append(ks, k+":"+string(v))
	}
	sort.Strings(ks)
	return strings.Join(ks, ",")
}

func meet(a, b lockSet) lockSet {
	c := lockSet{}
	for k, v := range a {
		if w, ok := b[k]; ok {
			if v == 'S' || w == 'S' {
				c[k] = 'S'
			} else {
				c[k] = 'X'
			}
		}
	}
	return c
}

type fnInfo struct {
	name string
	body *ast.BlockStmt
	pkg  *lpkg
	recv *types.Var
	obj  *types.Func
}

type accRow struct {
	loc, fn string
	write   bool
	held    string
	pos     string
}

type ordRow struct{ a, b, fn, pos string }

type lockAn struct {
	pkgs       map[string]*lpkg        // by package path
	funcs      map[*types.Func]*fnInfo // declared functions with bodies
	owner      map[*types.Var]string   // field -> "rel.Type"
	named      []*types.Named          // named types of the covered packages
	alias      map[string]string       // pointer-to-mutex field -> mutex field it is set to
	memo       map[string]lockSet      // fn|held -> exit set
	active     map[string]bool
	rows       map[accRow]bool
	order      map[ordRow]bool
	goTargets  []func(*walker) // bodies started by go statements (analysed as roots)
	goSeen     map[token.Pos]bool
	reached    map[string]bool
	notes      []string
	unbalanced map[string]string
}

func shortRel(path string) string {
	r := strings.TrimPrefix(path, modPath+"/")
	return strings.TrimPrefix(r, "pkg/")
}

func (an *lockAn) isCovered(p *types.Package) bool {
	if p == nil {
		return false
	}
	_, ok := an.pkgs[p.Path()]
	return ok
}

func syncKind(t types.Type) string {
	if p, ok := t.(*types.Pointer); ok {
		t = p.Elem()
	}
	n, ok := t.(*types.Named)
	if !ok || n.Obj().Pkg() == nil {
		if _, isChan := t.Underlying().(*types.Chan); isChan {
			return "chan"
		}
		return ""
	}
	switch n.Obj().Pkg().Path() {
	case "sync":
		if n.Obj().Name() == "Mutex" || n.Obj().Name() == "RWMutex" {
			return "mutex"
		}
		return "sync"
	case "sync/atomic":
		return "atomic"
	}
	if _, isChan := t.Underlying().(*types.Chan); isChan {
		return "chan"
	}
	return ""
}

// externalMutable: named (pointer to) struct types declared outside the module whose methods
// are not safe for concurrent use; sync, atomic, os.File, time.* and context are safe / immutable
func externalMutable(t types.Type) bool {
	if p, ok := t.(*types.Pointer); ok {
		t = p.Elem()
	}
	n, ok := t.(*types.Named)
	if !ok || n.Obj().Pkg() == nil {
		return false
	}
	path := n.Obj().Pkg().Path()
	if strings.HasPrefix(path, modPath) {
		return false
	}
	switch path {
	case "sync", "sync/atomic", "os", "time", "context":
		return false
	}
	_, isStruct := n.Underlying().(*types.Struct)
	return isStruct
}

func (an *lockAn) fieldID(v *types.Var) string {
	if o, ok := an.owner[v]; ok {
		return o + "." + v.Name()
	}
	return ""
}

func (an *lockAn) lockID(v *types.Var) string {
	id := an.fieldID(v)
	if a, ok := an.alias[id]; ok {
		return a
	}
	return id
}

func funcName(f *types.Func) string {
	sig := f.Type().(*types.Signature)
	p := ""
	if f.Pkg() != nil {
		p = shortRel(f.Pkg().Path())
	}
	if sig.Recv() != nil {
		t := sig.Recv().Type()
		star := ""
		if pt, ok := t.(*types.Pointer); ok {
			t = pt.Elem()
			star = "*"
		}
		if n, ok := t.(*types.Named); ok {
			return fmt.Sprintf("%s.(%s%s).%s", p, star, n.Obj().Name(), f.Name())
		}
	}
	return p + "." + f.Name()
}

// ---------------------------------------------------------------------------------------
// walker: one activation of a function body with a concrete set of held locks

type walker struct {
	an       *lockAn
	fn       *fnInfo
	name     string
	held     lockSet
	deferred []string // locks released at exit
	lits     map[types.Object]*ast.FuncLit
	litHeld  map[*ast.FuncLit]lockSet // held set at the definition of a literal not yet analysed
	litDone  map[*ast.FuncLit]bool
	fresh    map[types.Object]bool
	exits    []lockSet
	nlit     int
}

func (w *walker) pos(n ast.Node) string {
	p := fset.Position(n.Pos())
	f := p.Filename
	if i := strings.Index(f, "/pkg/"); i >= 0 {
		f = f[i+1:]
	}
	return fmt.Sprintf("%s:%d", f, p.Line)
}

func (w *walker) info() *types.Info { return w.fn.pkg.info }

func (w *walker) access(v *types.Var, write bool, n ast.Node) {
	id := w.an.fieldID(v)
	if id == "" {
		return
	}
	if k := syncKind(v.Type()); k != "" {
		return
	}
	own := w.an.owner[v]
	if _, ok := confinedTypes[own]; ok {
		return
	}
	w.an.rows[accRow{id, w.name, write, w.held.key(), w.pos(n)}] = true
}

// rootIdent returns the identifier at the base of a selector/index/star chain
func rootIdent(e ast.Expr) *ast.Ident {
	for {
		switch x := e.(type) {
		case *ast.Ident:
			return x
		case *ast.SelectorExpr:
			e = x.X
		case *ast.IndexExpr:
			e = x.X
		case *ast.StarExpr:
			e = x.X
		case *ast.ParenExpr:
			e = x.X
		case *ast.SliceExpr:
			e = x.X
		default:
			return nil
		}
	}
}

func (w *walker) isFreshBase(e ast.Expr) bool {
	// only x.f with x itself the fresh local (not x.f.g: x.f may be shared)
	if id, ok := e.(*ast.Ident); ok {
		if o := w.info().Uses[id]; o != nil && w.fresh[o] {
			return true
		}
	}
	return false
}

// escape: a fresh local that is handed to other code (call argument, stored in a field / map /
// composite literal / channel, operand of a go statement, captured by a go literal) is shared
// from that statement on: later accesses through it are accesses to shared state
// (StreamWAL: `session := &ReplicaSession{...}` ... `p.registerReplicaSession(session)` ...
// `session.LastAckSequence`).  Method calls ON the local do not publish it.
func (w *walker) escape(e ast.Expr) {
	for {
		switch x := e.(type) {
		case *ast.ParenExpr:
			e = x.X
			continue
		case *ast.UnaryExpr:
			if x.Op == token.AND {
				e = x.X
				continue
			}
		case *ast.Ident:
			if o := w.info().Uses[x]; o != nil && w.fresh[o] {
				delete(w.fresh, o)
			}
		}
		return
	}
}

func (w *walker) fieldOf(sel *ast.SelectorExpr) *types.Var {
	if s, ok := w.info().Selections[sel]; ok && s.Kind() == types.FieldVal {
		if v, ok := s.Obj().(*types.Var); ok {
			return v
		}
	}
	return nil
}

// expr visits an expression; write says the value denoted is being stored to
func (w *walker) expr(e ast.Expr, write bool) {
	switch x := e.(type) {
	case nil:
	case *ast.Ident:
		// a call of / reference to a bound function literal is handled in call(); plain use: nothing
	case *ast.SelectorExpr:
		if v := w.fieldOf(x); v != nil {
			if !w.isFreshBase(x.X) {
				w.access(v, write, x)
			}
			w.expr(x.X, false)
			return
		}
		if _, ok := w.info().Selections[x]; ok {
			w.expr(x.X, false) // method value
		}
	case *ast.IndexExpr:
		// element store = write to the container the field refers to
		w.expr(x.X, write)
		w.expr(x.Index, false)
	case *ast.SliceExpr:
		w.expr(x.X, false)
		w.expr(x.Low, false)
		w.expr(x.High, false)
		w.expr(x.Max, false)
	case *ast.StarExpr:
		w.expr(x.X, false)
	case *ast.ParenExpr:
		w.expr(x.X, write)
	case *ast.UnaryExpr:
		w.expr(x.X, false)
	case *ast.BinaryExpr:
		w.expr(x.X, false)
		w.expr(x.Y, false)
	case *ast.KeyValueExpr:
		w.expr(x.Value, false)
	case *ast.CompositeLit:
		for _, el := range x.Elts {
			if kv, ok := el.(*ast.KeyValueExpr); ok {
				if _, isIdent := kv.Key.(*ast.Ident); !isIdent {
					w.expr(kv.Key, false)
				}
				w.expr(kv.Value, false)
				w.escape(kv.Value)
			} else {
				w.expr(el, false)
				w.escape(el)
			}
		}
	case *ast.TypeAssertExpr:
		w.expr(x.X, false)
	case *ast.FuncLit:
		// a literal in value position that is not bound to a local: analysed here
		w.runLit(x, w.held)
	case *ast.CallExpr:
		w.call(x)
	}
}

func (w *walker) runLit(l *ast.FuncLit, held lockSet) {
	w.litDone[l] = true
	w.nlit++
	sub := &walker{an: w.an, fn: &fnInfo{name: w.name, body: l.Body, pkg: w.fn.pkg}, name: fmt.Sprintf("%s$%d", w.fn.name, w.litIndex(l)),
		held: held.clone(), lits: w.lits, litHeld: w.litHeld, litDone: w.litDone, fresh: w.fresh}
	sub.fn.name = w.fn.name
	sub.block(l.Body.List)
}

func (w *walker) litIndex(l *ast.FuncLit) int { return fset.Position(l.Pos()).Line }

// lockOp recognises x.mu.Lock() etc.; returns lock id, op
func (w *walker) lockOp(c *ast.CallExpr) (string, string) {
	sel, ok := c.Fun.(*ast.SelectorExpr)
	if !ok {
		return "", ""
	}
	op := sel.Sel.Name
	if op != "Lock" && op != "Unlock" && op != "RLock" && op != "RUnlock" {
		return "", ""
	}
	tv, ok := w.info().Types[sel.X]
	if !ok || syncKind(tv.Type) != "mutex" {
		return "", ""
	}
	// the mutex expression: x.mu, or *x.ptr / x.ptr
	me := sel.X
	for {
		if p, ok := me.(*ast.ParenExpr); ok {
			me = p.X
		} else if s, ok := me.(*ast.StarExpr); ok {
			me = s.X
		} else {
			break
		}
	}
	if fs, ok := me.(*ast.SelectorExpr); ok {
		if v := w.fieldOf(fs); v != nil {
			if id := w.an.lockID(v); id != "" {
				return id, op
			}
		}
	}
	return "?local", op
}

func (w *walker) acquire(id string, m byte, n ast.Node) {
	for h := range w.held {
		if h == quiesce || strings.HasPrefix(h, "atomic(") {
			continue
		}
		w.an.order[ordRow{h, id, w.name, w.pos(n)}] = true
	}
	if _, ok := w.held[id]; !ok || m == 'X' {
		w.held[id] = m
	}
}

// addressedField finds x.f in &x.f, also under conversions such as
// (*unsafe.Pointer)(unsafe.Pointer(&x.f))
func addressedField(e ast.Expr) *ast.SelectorExpr {
	for {
		switch x := e.(type) {
		case *ast.ParenExpr:
			e = x.X
		case *ast.CallExpr:
			if len(x.Args) != 1 {
				return nil
			}
			e = x.Args[0]
		case *ast.UnaryExpr:
			if x.Op != token.AND {
				return nil
			}
			if s, ok := x.X.(*ast.SelectorExpr); ok {
				return s
			}
			return nil
		default:
			return nil
		}
	}
}

func isAtomicPkgCall(info *types.Info, c *ast.CallExpr) bool {
	if sel, ok := c.Fun.(*ast.SelectorExpr); ok {
		if id, ok := sel.X.(*ast.Ident); ok {
			if pn, ok := info.Uses[id].(*types.PkgName); ok && pn.Imported().Path() == "sync/atomic" {
				return true
			}
		}
	}
	return false
}

func (w *walker) call(c *ast.CallExpr) {
	info := w.info()
	// conversions
	if tv, ok := info.Types[c.Fun]; ok && tv.IsType() {
		for _, a := range c.Args {
			w.expr(a, false)
		}
		return
	}
	// lock operations
	if id, op := w.lockOp(c); op != "" {
		if id == "?local" {
			return
		}
		switch op {
		case "Lock":
			w.acquire(id, 'X', c)
		case "RLock":
			w.acquire(id, 'S', c)
		default:
			delete(w.held, id)
		}
		return
	}
	// sync/atomic functions: an access to the addressed field under the pseudo lock atomic(field)
	if isAtomicPkgCall(info, c) {
		if len(c.Args) > 0 {
			if sel := addressedField(c.Args[0]); sel != nil {
				if v := w.fieldOf(sel); v != nil && !w.isFreshBase(sel.X) {
					fn := c.Fun.(*ast.SelectorExpr).Sel.Name
					id := w.an.fieldID(v)
					if id != "" {
						saved := w.held.clone()
						w.held["atomic("+id+")"] = 'X'
						w.access(v, !strings.HasPrefix(fn, "Load"), sel)
						w.held = saved
					}
				}
				w.expr(sel.X, false)
			} else {
				w.expr(c.Args[0], false)
			}
		}
		for i, a := range c.Args {
			if i == 0 {
				continue
			}
			w.expr(a, false)
		}
		return
	}
	// builtins
	if id, ok := c.Fun.(*ast.Ident); ok {
		if _, isB := info.Uses[id].(*types.Builtin); isB {
			switch id.Name {
			case "delete":
				w.expr(c.Args[0], true)
				for _, a := range c.Args[1:] {
					w.expr(a, false)
				}
			default:
				for _, a := range c.Args {
					w.expr(a, false)
					w.escape(a) // append(x.list, fresh)
				}
			}
			return
		}
	}
	// receiver / function expression
	switch f := c.Fun.(type) {
	case *ast.SelectorExpr:
		if _, ok := info.Selections[f]; ok {
			// x.f.M() with f a value of a type from outside the module that is not safe for
			// concurrent use (bufio.Writer, rand.Rand, bytes.Buffer ...): M may mutate it
			mut := false
			if fs, ok := f.X.(*ast.SelectorExpr); ok {
				if v := w.fieldOf(fs); v != nil && externalMutable(v.Type()) {
					mut = true
				}
			}
			w.expr(f.X, mut)
		}
	case *ast.FuncLit:
		for _, a := range c.Args {
			w.expr(a, false)
		}
		w.runLit(f, w.held)
		return
	case *ast.Ident:
		if o := info.Uses[f]; o != nil {
			if l, ok := w.lits[o]; ok { // operation()
				for _, a := range c.Args {
					w.expr(a, false)
				}
				w.runLit(l, w.held)
				return
			}
		}
	}
	// arguments; a function literal (or a local bound to one) passed as argument runs under the
	// locks held at this call
	for _, a := range c.Args {
		switch x := a.(type) {
		case *ast.FuncLit:
			w.runLit(x, w.held)
			continue
		case *ast.Ident:
			if o := info.Uses[x]; o != nil {
				if l, ok := w.lits[o]; ok {
					w.runLit(l, w.held)
					continue
				}
			}
		}
		w.expr(a, false)
		w.escape(a)
	}
	// callees
	callees := w.an.resolve(info, c)
	if len(callees) == 0 {
		return
	}
	var out lockSet
	for i, fi := range callees {
		ex := w.an.analyse(fi, w.held)
		if i == 0 {
			out = ex
		} else {
			out = meet(out, ex)
		}
	}
	w.held = out.clone()
}

// resolve returns the functions a call may run (bodies inside the covered packages)
func (an *lockAn) resolve(info *types.Info, c *ast.CallExpr) []*fnInfo {
	var obj types.Object
	var recvT types.Type
	switch f := c.Fun.(type) {
	case *ast.Ident:
		obj = info.Uses[f]
	case *ast.SelectorExpr:
		if s, ok := info.Selections[f]; ok {
			if s.Kind() != types.MethodVal {
				return nil // call of a func-typed field: not resolved
			}
			obj = s.Obj()
			recvT = s.Recv()
		} else {
			obj = info.Uses[f.Sel]
		}
	}
	fn, ok := obj.(*types.Func)
	if !ok {
		return nil
	}
	if recvT != nil {
		if _, isI := recvT.Underlying().(*types.Interface); isI {
			// every implementation inside the module
			iface := recvT.Underlying().(*types.Interface)
			var res []*fnInfo
			for _, n := range an.named {
				if _, isI2 := n.Underlying().(*types.Interface); isI2 {
					continue
				}
				var impl types.Type
				if types.Implements(n, iface) {
					impl = n
				} else if types.Implements(types.NewPointer(n), iface) {
					impl = types.NewPointer(n)
				} else {
					continue
				}
				mo, _, _ := types.LookupFieldOrMethod(impl, true, fn.Pkg(), fn.Name())
				if mf, ok := mo.(*types.Func); ok {
					if fi, ok := an.funcs[mf]; ok {
						res = append(res, fi)
					}
				}
			}
			return res
		}
	}
	if fi, ok := an.funcs[fn]; ok {
		return []*fnInfo{fi}
	}
	return nil
}

func (an *lockAn) analyse(fi *fnInfo, held lockSet) lockSet {
	key := fi.name + "|" + held.key()
	if ex, ok := an.memo[key]; ok {
		return ex
	}
	if an.active[key] {
		return held // recursion: assume balanced
	}
	an.active[key] = true
	defer delete(an.active, key)
	an.reached[fi.name] = true
	w := &walker{an: an, fn: fi, name: fi.name, held: held.clone(), lits: map[types.Object]*ast.FuncLit{},
		litHeld: map[*ast.FuncLit]lockSet{}, litDone: map[*ast.FuncLit]bool{}, fresh: map[types.Object]bool{}}
	term := w.block(fi.body.List)
	if !term {
		w.exits = append(w.exits, w.atExit(w.held))
	}
	// literals that were bound but never called or passed: analysed with the set at their definition
	for l, h := range w.litHeld {
		if !w.litDone[l] {
			w.runLit(l, h)
		}
	}
	var ex lockSet
	if len(w.exits) == 0 {
		ex = held.clone() // never returns
	} else {
		ex = w.exits[0]
		for _, e := range w.exits[1:] {
			ex = meet(ex, e)
		}
	}
	if ex.key() != held.key() {
		an.unbalanced[fi.name] = fmt.Sprintf("entry {%s} exit {%s}", held.key(), ex.key())
	}
	an.memo[key] = ex
	return ex
}

func (w *walker) atExit(h lockSet) lockSet {
	c := h.clone()
	for _, d := range w.deferred {
		delete(c, d)
	}
	return c
}

func isConstructorName(n string) bool {
	return strings.HasPrefix(n, "New") || strings.HasPrefix(n, "Open") || strings.HasPrefix(n, "new") || strings.HasPrefix(n, "open")
}

func (w *walker) freshValue(e ast.Expr) bool {
	switch x := e.(type) {
	case *ast.CompositeLit:
		return true
	case *ast.UnaryExpr:
		if x.Op == token.AND {
			_, ok := x.X.(*ast.CompositeLit)
			return ok
		}
	case *ast.CallExpr:
		if id, ok := x.Fun.(*ast.Ident); ok {
			if id.Name == "new" {
				return true
			}
			return isConstructorName(id.Name)
		}
		if sel, ok := x.Fun.(*ast.SelectorExpr); ok {
			if _, isSel := w.info().Selections[sel]; !isSel { // pkg.NewX
				return isConstructorName(sel.Sel.Name)
			}
		}
	}
	return false
}

func (w *walker) assign(lhs []ast.Expr, rhs []ast.Expr, define bool) {
	for _, r := range rhs {
		if l, ok := r.(*ast.FuncLit); ok && len(lhs) == len(rhs) {
			// bound to a local? then it runs where it is used
			bound := false
			for i := range rhs {
				if rhs[i] == r {
					if id, ok := lhs[i].(*ast.Ident); ok {
						o := w.info().Defs[id]
						if o == nil {
							o = w.info().Uses[id]
						}
						if o != nil {
							if _, isVar := o.(*types.Var); isVar && o.Parent() != nil && o.Parent() != o.Pkg().Scope() {
								w.lits[o] = l
								w.litHeld[l] = w.held.clone()
								bound = true
							}
						}
					}
				}
			}
			if bound {
				continue
			}
		}
		w.expr(r, false)
		w.escape(r)
	}
	for i, l := range lhs {
		if id, ok := l.(*ast.Ident); ok {
			if len(lhs) == len(rhs) || (len(rhs) == 1 && i == 0) {
				var r ast.Expr
				if len(lhs) == len(rhs) {
					r = rhs[i]
				} else {
					r = rhs[0]
				}
				o := w.info().Defs[id]
				if o == nil {
					o = w.info().Uses[id]
				}
				if o != nil && o.Parent() != nil && o.Pkg() != nil && o.Parent() != o.Pkg().Scope() {
					if w.freshValue(r) {
						w.fresh[o] = true
					} else if !define {
						delete(w.fresh, o)
					}
				}
			}
			continue
		}
		w.expr(l, true)
	}
}

// block walks statements; returns true if control does not fall off the end
func (w *walker) block(stmts []ast.Stmt) bool {
	for _, s := range stmts {
		if w.stmt(s) {
			return true
		}
	}
	return false
}

func (w *walker) branch(body func() bool) (lockSet, bool) {
	saved := w.held.clone()
	term := body()
	res := w.held
	w.held = saved
	return res, term
}

func (w *walker) stmt(s ast.Stmt) bool {
	switch x := s.(type) {
	case *ast.ExprStmt:
		w.expr(x.X, false)
		if c, ok := x.X.(*ast.CallExpr); ok {
			if id, ok := c.Fun.(*ast.Ident); ok && id.Name == "panic" {
				return true
			}
			if sel, ok := c.Fun.(*ast.SelectorExpr); ok {
				if p, ok := sel.X.(*ast.Ident); ok && p.Name == "os" && sel.Sel.Name == "Exit" {
					return true
				}
			}
		}
	case *ast.AssignStmt:
		if x.Tok != token.ASSIGN && x.Tok != token.DEFINE { // x.f += 1
			for _, l := range x.Lhs {
				w.expr(l, false)
			}
		}
		w.assign(x.Lhs, x.Rhs, x.Tok == token.DEFINE)
	case *ast.IncDecStmt:
		w.expr(x.X, false)
		w.expr(x.X, true)
	case *ast.DeclStmt:
		if gd, ok := x.Decl.(*ast.GenDecl); ok {
			for _, sp := range gd.Specs {
				if vs, ok := sp.(*ast.ValueSpec); ok && len(vs.Values) > 0 {
					var lhs []ast.Expr
					for _, n := range vs.Names {
						lhs = append(lhs, n)
					}
					w.assign(lhs, vs.Values, true)
				}
			}
		}
	case *ast.SendStmt:
		w.expr(x.Chan, false)
		w.expr(x.Value, false)
		w.escape(x.Value)
	case *ast.GoStmt:
		for _, a := range x.Call.Args {
			w.expr(a, false)
			w.escape(a)
		}
		if sel, ok := x.Call.Fun.(*ast.SelectorExpr); ok {
			if _, isSel := w.info().Selections[sel]; isSel {
				w.expr(sel.X, false)
				w.escape(sel.X)
			}
		}
		if l, ok := x.Call.Fun.(*ast.FuncLit); ok {
			ast.Inspect(l.Body, func(n ast.Node) bool {
				if id, ok := n.(*ast.Ident); ok {
					w.escape(id)
				}
				return true
			})
		}
		w.an.goStmt(w, x)
	case *ast.DeferStmt:
		if id, op := w.lockOp(x.Call); op == "Unlock" || op == "RUnlock" {
			if id != "?local" {
				w.deferred = append(w.deferred, id)
			}
			return false
		}
		if l, ok := x.Call.Fun.(*ast.FuncLit); ok {
			// deferred literal: unlocks inside it release at exit; the rest is analysed here
			ast.Inspect(l.Body, func(n ast.Node) bool {
				if c, ok := n.(*ast.CallExpr); ok {
					if id, op := w.lockOp(c); (op == "Unlock" || op == "RUnlock") && id != "?local" {
						w.deferred = append(w.deferred, id)
					}
				}
				return true
			})
			saved := w.held.clone()
			w.runLit(l, w.held)
			w.held = saved
			return false
		}
		saved := w.held.clone()
		w.call(x.Call)
		w.held = saved
	case *ast.ReturnStmt:
		for _, r := range x.Results {
			w.expr(r, false)
		}
		w.exits = append(w.exits, w.atExit(w.held))
		return true
	case *ast.BranchStmt:
		return x.Tok == token.BREAK || x.Tok == token.CONTINUE || x.Tok == token.GOTO
	case *ast.BlockStmt:
		return w.block(x.List)
	case *ast.LabeledStmt:
		return w.stmt(x.Stmt)
	case *ast.IfStmt:
		if x.Init != nil {
			w.stmt(x.Init)
		}
		w.expr(x.Cond, false)
		h1, t1 := w.branch(func() bool { return w.block(x.Body.List) })
		h2, t2 := w.held.clone(), false
		if x.Else != nil {
			h2, t2 = w.branch(func() bool { return w.stmt(x.Else) })
		}
		switch {
		case t1 && t2:
			return true
		case t1:
			w.held = h2
		case t2:
			w.held = h1
		default:
			w.held = meet(h1, h2)
		}
	case *ast.ForStmt:
		if x.Init != nil {
			w.stmt(x.Init)
		}
		w.expr(x.Cond, false)
		hb, _ := w.branch(func() bool {
			t := w.block(x.Body.List)
			if x.Post != nil {
				w.stmt(x.Post)
			}
			return t
		})
		if x.Cond == nil && !hasBreak(x.Body) {
			return true // for { ... } without break never falls through
		}
		w.held = meet(w.held, hb)
	case *ast.RangeStmt:
		w.expr(x.X, false)
		if x.Tok == token.ASSIGN {
			w.expr(x.Key, true)
			w.expr(x.Value, true)
		}
		hb, _ := w.branch(func() bool { return w.block(x.Body.List) })
		w.held = meet(w.held, hb)
	case *ast.SwitchStmt:
		if x.Init != nil {
			w.stmt(x.Init)
		}
		w.expr(x.Tag, false)
		return w.clauses(x.Body, false)
	case *ast.TypeSwitchStmt:
		if x.Init != nil {
			w.stmt(x.Init)
		}
		switch a := x.Assign.(type) {
		case *ast.ExprStmt:
			w.expr(a.X, false)
		case *ast.AssignStmt:
			for _, r := range a.Rhs {
				w.expr(r, false)
			}
		}
		return w.clauses(x.Body, false)
	case *ast.SelectStmt:
		return w.clauses(x.Body, true)
	}
	return false
}

func hasBreak(b *ast.BlockStmt) bool {
	found := false
	ast.Inspect(b, func(n ast.Node) bool {
		switch x := n.(type) {
		case *ast.BranchStmt:
			if x.Tok == token.BREAK || x.Tok == token.GOTO {
				found = true
			}
		case *ast.ForStmt, *ast.RangeStmt, *ast.SwitchStmt, *ast.SelectStmt, *ast.TypeSwitchStmt, *ast.FuncLit:
			// a break inside belongs to the inner statement unless labelled; stay conservative:
			// labelled breaks are rare in this code base, look only for labelled ones inside
			lab := false
			ast.Inspect(x, func(m ast.Node) bool {
				if bs, ok := m.(*ast.BranchStmt); ok && bs.Tok == token.BREAK && bs.Label != nil {
					lab = true
				}
				return true
			})
			if lab {
				found = true
			}
			return n == ast.Node(b)
		}
		return true
	})
	return found
}

func (w *walker) clauses(body *ast.BlockStmt, isSelect bool) bool {
	var outs []lockSet
	hasDefault := false
	allTerm := true
	for _, cl := range body.List {
		var list []ast.Stmt
		switch c := cl.(type) {
		case *ast.CaseClause:
			if c.List == nil {
				hasDefault = true
			}
			for _, e := range c.List {
				w.expr(e, false)
			}
			list = c.Body
		case *ast.CommClause:
			if c.Comm == nil {
				hasDefault = true
			}
			list = c.Body
			h, t := w.branch(func() bool {
				if c.Comm != nil {
					w.stmt(c.Comm)
				}
				return w.block(list)
			})
			if !t {
				outs = append(outs, h)
				allTerm = false
			}
			continue
		}
		h, t := w.branch(func() bool { return w.block(list) })
		if !t {
			outs = append(outs, h)
			allTerm = false
		}
	}
	if !hasDefault && !isSelect {
		outs = append(outs, w.held.clone())
		allTerm = false
	}
	if isSelect && len(body.List) == 0 {
		return true
	}
	if allTerm {
		return true
	}
	res := outs[0]
	for _, o := range outs[1:] {
		res = meet(res, o)
	}
	w.held = res
	return false
}

// goStmt registers the body started by a go statement as a root with no lock held
func (an *lockAn) goStmt(w *walker, g *ast.GoStmt) {
	if an.goSeen[g.Pos()] {
		return
	}
	an.goSeen[g.Pos()] = true
	info := w.info()
	if l, ok := g.Call.Fun.(*ast.FuncLit); ok {
		ww := w
		an.goTargets = append(an.goTargets, func(_ *walker) {
			sub := &walker{an: an, fn: &fnInfo{name: ww.fn.name, body: l.Body, pkg: ww.fn.pkg},
				name: fmt.Sprintf("%s$go%d", ww.fn.name, fset.Position(l.Pos()).Line), held: lockSet{},
				lits: map[types.Object]*ast.FuncLit{}, litHeld: map[*ast.FuncLit]lockSet{}, litDone: map[*ast.FuncLit]bool{}, fresh: map[types.Object]bool{}}
			sub.block(l.Body.List)
		})
		return
	}
	for _, fi := range an.resolve(info, g.Call) {
		fi := fi
		an.goTargets = append(an.goTargets, func(_ *walker) { an.analyse(fi, lockSet{}) })
	}
}

// ---------------------------------------------------------------------------------------

func coqStr(s string) string { return "\"" + strings.ReplaceAll(s, "\"", "\"\"") + "\"" }

func heldCoq(k string) string {
	if k == "" {
		return "[]"
	}
	var ps []string
	for _, p := range strings.Split(k, ",") {
		i := strings.LastIndex(p, ":")
		m := "Sh"
		if p[i+1:] == "X" {
			m = "Ex"
		}
		ps = append(ps, fmt.Sprintf("(%s, %s)", coqStr(p[:i]), m))
	}
	return "[" + strings.Join(ps, "; ") + "]"
}

func genLocks() (string, string) {
	if os.Getenv("GOFACTS_NO_ALLOW") != "" {
		// development aid: show what the table says without the allow list (e.g. on a tree that
		// carries a proposed fix for the FINDING entries)
		lockAllow = map[string]string{}
	}
	// packages from outside the module come from the importer the other generators use (its
	// cache already holds gRPC/protobuf, type-checked from source for ApplierFacts.v: doing that
	// a second time costs minutes); the module's own packages are type-checked here, once
	base, _ := imp.(types.ImporterFrom)
	if base == nil {
		base, _ = importer.ForCompiler(fset, "source", nil).(types.ImporterFrom)
	}
	limp = &modImporter{base: base, cache: map[string]*lpkg{}, busy: map[string]bool{}}
	an := &lockAn{pkgs: map[string]*lpkg{}, funcs: map[*types.Func]*fnInfo{}, owner: map[*types.Var]string{},
		alias: map[string]string{}, memo: map[string]lockSet{}, active: map[string]bool{}, rows: map[accRow]bool{},
		order: map[ordRow]bool{}, goSeen: map[token.Pos]bool{}, reached: map[string]bool{}, unbalanced: map[string]string{}}
	var loadErrs []string
	for _, rel := range lockPkgs {
		p, err := limp.load(rel)
		if err != nil {
			loadErrs = append(loadErrs, fmt.Sprintf("%s: %v", rel, err))
			continue
		}
		an.pkgs[p.pkg.Path()] = p
	}
	// declarations
	for _, p := range an.pkgs {
		sc := p.pkg.Scope()
		for _, n := range sc.Names() {
			tn, ok := sc.Lookup(n).(*types.TypeName)
			if !ok {
				continue
			}
			nt, ok := tn.Type().(*types.Named)
			if !ok {
				continue
			}
			an.named = append(an.named, nt)
			if st, ok := nt.Underlying().(*types.Struct); ok {
				for i := 0; i < st.NumFields(); i++ {
					an.owner[st.Field(i)] = shortRel(p.pkg.Path()) + "." + tn.Name()
				}
			}
		}
		for _, f := range p.files {
			for _, d := range f.Decls {
				fd, ok := d.(*ast.FuncDecl)
				if !ok || fd.Body == nil {
					continue
				}
				if _, skip := lockExcludeFiles[p.rel+"/"+filepath.Base(fset.Position(fd.Pos()).Filename)]; skip {
					continue
				}
				obj, ok := p.info.Defs[fd.Name].(*types.Func)
				if !ok {
					continue
				}
				an.funcs[obj] = &fnInfo{name: funcName(obj), body: fd.Body, pkg: p, obj: obj}
			}
		}
	}
	sort.Slice(an.named, func(i, j int) bool {
		a, b := an.named[i].Obj(), an.named[j].Obj()
		return a.Pkg().Path()+"."+a.Name() < b.Pkg().Path()+"."+b.Name()
	})
	// aliases: ptrField: &x.mutexField (composite literals and assignments)
	for _, p := range an.pkgs {
		for _, f := range p.files {
			ast.Inspect(f, func(n ast.Node) bool {
				rec := func(lhsField *types.Var, rhs ast.Expr) {
					if lhsField == nil || syncKind(lhsField.Type()) != "mutex" {
						return
					}
					u, ok := rhs.(*ast.UnaryExpr)
					if !ok || u.Op != token.AND {
						return
					}
					if s, ok := u.X.(*ast.SelectorExpr); ok {
						if sel, ok := p.info.Selections[s]; ok && sel.Kind() == types.FieldVal {
							if v, ok := sel.Obj().(*types.Var); ok && an.fieldID(v) != "" {
								an.alias[an.fieldID(lhsField)] = an.fieldID(v)
							}
						}
					}
				}
				switch x := n.(type) {
				case *ast.CompositeLit:
					tv, ok := p.info.Types[x]
					if !ok {
						return true
					}
					t := tv.Type
					if pt, ok := t.(*types.Pointer); ok {
						t = pt.Elem()
					}
					st, ok := t.Underlying().(*types.Struct)
					if !ok {
						return true
					}
					for _, el := range x.Elts {
						if kv, ok := el.(*ast.KeyValueExpr); ok {
							if id, ok := kv.Key.(*ast.Ident); ok {
								for i := 0; i < st.NumFields(); i++ {
									if st.Field(i).Name() == id.Name {
										rec(st.Field(i), kv.Value)
									}
								}
							}
						}
					}
				case *ast.AssignStmt:
					if len(x.Lhs) == len(x.Rhs) {
						for i, l := range x.Lhs {
							if s, ok := l.(*ast.SelectorExpr); ok {
								if sel, ok := p.info.Selections[s]; ok && sel.Kind() == types.FieldVal {
									if v, ok := sel.Obj().(*types.Var); ok {
										rec(v, x.Rhs[i])
									}
								}
							}
						}
					}
				}
				return true
			})
		}
	}
	// go statements anywhere in the covered packages (constructors included) are roots
	var fnList []*fnInfo
	for _, fi := range an.funcs {
		fnList = append(fnList, fi)
	}
	sort.Slice(fnList, func(i, j int) bool { return fnList[i].name < fnList[j].name })
	for _, fi := range fnList {
		fi := fi
		ast.Inspect(fi.body, func(n ast.Node) bool {
			if g, ok := n.(*ast.GoStmt); ok {
				w := &walker{an: an, fn: fi, name: fi.name, held: lockSet{}, lits: map[types.Object]*ast.FuncLit{},
					litHeld: map[*ast.FuncLit]lockSet{}, litDone: map[*ast.FuncLit]bool{}, fresh: map[types.Object]bool{}}
				an.goStmt(w, g)
			}
			return true
		})
	}
	// roots: exported methods
	var roots []string
	for _, fi := range fnList {
		sig := fi.obj.Type().(*types.Signature)
		if sig.Recv() == nil || !fi.obj.Exported() || prePublication[fi.obj.Name()] {
			continue
		}
		t := sig.Recv().Type()
		if pt, ok := t.(*types.Pointer); ok {
			t = pt.Elem()
		}
		nt, ok := t.(*types.Named)
		if !ok {
			continue
		}
		tn := shortRel(nt.Obj().Pkg().Path()) + "." + nt.Obj().Name()
		for _, r := range lockRoots {
			if r.typ == tn {
				h := lockSet{quiesce: 'S'}
				if lifecycle[fi.obj.Name()] {
					h[quiesce] = 'X'
				}
				if r.held != "" {
					h[r.held] = 'S'
				}
				if sp, ok := rootEntry[tn+"."+fi.obj.Name()]; ok {
					if sp.network {
						delete(h, quiesce)
					}
					if sp.held != "" {
						h[sp.held] = sp.mode
					}
				}
				roots = append(roots, fi.name)
				an.analyse(fi, h)
			}
		}
	}
	nGo := 0
	for i := 0; i < len(an.goTargets); i++ { // the list may grow while it is processed
		an.goTargets[i](nil)
		nGo++
	}

	// ---- assemble the table
	byLoc := map[string][]accRow{}
	for r := range an.rows {
		byLoc[r.loc] = append(byLoc[r.loc], r)
	}
	var locs []string
	for l := range byLoc {
		locs = append(locs, l)
	}
	sort.Strings(locs)
	type outRow struct {
		loc, fn string
		write   bool
		held    string
	}
	var table []outRow
	var rep strings.Builder
	fmt.Fprintf(&rep, "lock facts generated from %s\npackages: %s\nroots: %d exported methods + %d go statements; functions reached: %d\n\n",
		repo, strings.Join(lockPkgs, " "), len(roots), nGo, len(an.reached))
	for _, e := range loadErrs {
		fmt.Fprintf(&rep, "LOAD ERROR %s\n", e)
	}
	nSkippedRO, nAllowed, nFlag := 0, 0, 0
	var roNames []string
	var allowed, findings []string
	for _, loc := range locs {
		rs := byLoc[loc]
		sort.Slice(rs, func(i, j int) bool {
			if rs[i].fn != rs[j].fn {
				return rs[i].fn < rs[j].fn
			}
			if rs[i].write != rs[j].write {
				return rs[j].write
			}
			if rs[i].held != rs[j].held {
				return rs[i].held < rs[j].held
			}
			return rs[i].pos < rs[j].pos
		})
		hasWrite := false
		for _, r := range rs {
			hasWrite = hasWrite || r.write
		}
		if !hasWrite {
			nSkippedRO++
			roNames = append(roNames, loc)
			continue
		}
		if why, ok := lockAllow[loc]; ok {
			nAllowed++
			allowed = append(allowed, loc)
			if strings.HasPrefix(why, "FINDING") {
				findings = append(findings, loc)
			}
			fmt.Fprintf(&rep, "ALLOWED %s: %s\n", loc, why)
			for _, r := range rs {
				kind := "read "
				if r.write {
					kind = "WRITE"
				}
				fmt.Fprintf(&rep, "    %s %-60s {%s}  %s\n", kind, r.fn, r.held, r.pos)
			}
			rep.WriteString("\n")
			continue
		}
		// report: candidate locks
		cands := map[string]bool{}
		first := true
		for _, r := range rs {
			cur := map[string]bool{}
			if r.held != "" {
				for _, p := range strings.Split(r.held, ",") {
					i := strings.LastIndex(p, ":")
					if !r.write || p[i+1:] == "X" {
						cur[p[:i]] = true
					}
				}
			}
			if first {
				cands = cur
				first = false
			} else {
				for k := range cands {
					if !cur[k] {
						delete(cands, k)
					}
				}
			}
		}
		var cl []string
		for k := range cands {
			cl = append(cl, k)
		}
		sort.Strings(cl)
		status := "protected by " + strings.Join(cl, ", ")
		if len(cl) == 0 {
			status = "UNPROTECTED (no common lock)"
			nFlag++
		}
		fmt.Fprintf(&rep, "%s: %s\n", loc, status)
		seen := map[outRow]bool{}
		for _, r := range rs {
			kind := "read "
			if r.write {
				kind = "WRITE"
			}
			fmt.Fprintf(&rep, "    %s %-60s {%s}  %s\n", kind, r.fn, r.held, r.pos)
			o := outRow{r.loc, r.fn, r.write, r.held}
			if !seen[o] {
				seen[o] = true
				table = append(table, o)
			}
		}
		rep.WriteString("\n")
	}
	// order
	type edge struct{ a, b string }
	edges := map[edge][]ordRow{}
	for o := range an.order {
		e := edge{o.a, o.b}
		edges[e] = append(edges[e], o)
	}
	var el []edge
	for e := range edges {
		el = append(el, e)
	}
	sort.Slice(el, func(i, j int) bool {
		if el[i].a != el[j].a {
			return el[i].a < el[j].a
		}
		return el[i].b < el[j].b
	})
	rep.WriteString("lock order (a held while b is acquired):\n")
	for _, e := range el {
		rs := edges[e]
		sort.Slice(rs, func(i, j int) bool { return rs[i].pos < rs[j].pos })
		mark := ""
		if e.a == e.b {
			mark = "   RE-ACQUIRED"
		}
		fmt.Fprintf(&rep, "    %s  ->  %s%s   (%s %s", e.a, e.b, mark, rs[0].fn, rs[0].pos)
		if len(rs) > 1 {
			fmt.Fprintf(&rep, " and %d more", len(rs)-1)
		}
		rep.WriteString(")\n")
	}
	rep.WriteString("\nfunctions that return with a different lock set than they were entered with:\n")
	var ub []string
	for k, v := range an.unbalanced {
		ub = append(ub, "    "+k+": "+v)
	}
	sort.Strings(ub)
	rep.WriteString(strings.Join(ub, "\n") + "\n")
	var als []string
	for k, v := range an.alias {
		als = append(als, "    "+k+" = &"+v)
	}
	sort.Strings(als)
	rep.WriteString("\nlock aliases:\n" + strings.Join(als, "\n") + "\n")
	rep.WriteString("\nlocations never written by reachable code (initialised before publication, not listed):\n    " + strings.Join(roNames, "\n    ") + "\n")
	var exl []string
	for f, why := range lockExcludeFiles {
		exl = append(exl, "    "+f+": "+why)
	}
	sort.Strings(exl)
	rep.WriteString("\nfiles of covered packages left out:\n" + strings.Join(exl, "\n") + "\n")
	fmt.Fprintf(&rep, "\nsummary: locations=%d rows=%d unprotected=%d allowed=%d findings=%d read_only_after_publication=%d order_edges=%d\n",
		len(locs)-nSkippedRO-nAllowed, len(table), nFlag, nAllowed, len(findings), nSkippedRO, len(el))
	if len(os.Args) >= 3 {
		os.WriteFile(filepath.Join(os.Args[2], "locks_report.txt"), []byte(rep.String()), 0644)
	}

	var b strings.Builder
	b.WriteString("(* GENERATED by /verif/gofacts (locks.go) from the Go source under /repo — do not edit.\n")
	b.WriteString("   gen_accesses: one row per (location, function, kind, locks held on some path from a root);\n")
	b.WriteString("   gen_order: (a, b) = b is acquired somewhere while a is held.  See build/locks_report.txt. *)\n")
	b.WriteString("From Coq Require Import List String.\nFrom KV Require Import LockDiscipline.\nImport ListNotations.\nOpen Scope string_scope.\n\n")
	b.WriteString("Definition gen_accesses : table := [\n")
	for i, r := range table {
		sep := ";"
		if i == len(table)-1 {
			sep = ""
		}
		wr := "false"
		if r.write {
			wr = "true"
		}
		fmt.Fprintf(&b, "  mkAccess %s %s %s %s%s\n", coqStr(r.loc), coqStr(r.fn), wr, heldCoq(r.held), sep)
	}
	b.WriteString("].\n\nDefinition gen_order : order := [\n")
	for i, e := range el {
		sep := ";"
		if i == len(el)-1 {
			sep = ""
		}
		fmt.Fprintf(&b, "  (%s, %s)%s\n", coqStr(e.a), coqStr(e.b), sep)
	}
	b.WriteString("].\n\n(* locations left out on purpose (reason in gofacts/locks.go, lockAllow) *)\nDefinition gen_allowed : list string := [")
	for i, a := range allowed {
		if i > 0 {
			b.WriteString("; ")
		}
		b.WriteString(coqStr(a))
	}
	b.WriteString("].\n(* of these: genuine unprotected accesses in kevo (FINDING entries), not translator refinements *)\nDefinition gen_findings : list string := [")
	for i, a := range findings {
		if i > 0 {
			b.WriteString("; ")
		}
		b.WriteString(coqStr(a))
	}
	b.WriteString("].\n")
	fmt.Fprintf(&b, "Definition gen_roots : nat := %d.\nDefinition gen_functions_reached : nat := %d.\n", len(roots)+nGo, len(an.reached))
	return "Locks.v", b.String()
}
