// conc.go — generator of coq/gen/ConcFacts.v (property C06): the syntactic facts about
// pkg/engine/storage/manager.go, pkg/memtable/mempool.go and pkg/wal/wal.go on which the
// atomic steps of the LTS in coq/EngineConc.v rest: which lock brackets a client section,
// the order of the log append and the memtable insert inside it, the order of the steps of
// rotateWAL, the shape of RetryOnWALRotating, that a retired memtable stays in the pool.
// Purely syntactic (go/parser): "the first two statements are m.mu.Lock(); defer
// m.mu.Unlock() and the body has no other call on m.mu", "call X occurs exactly once and
// textually before call Y". A fact that no longer holds is emitted as false and the lemma
// over the table (coq/ConcFactsOk.v) stops compiling.
package main

import (
	"fmt"
	"go/ast"
	"go/token"
	"strconv"
	"strings"
)

func init() { extraGenerators = append(extraGenerators, genConc) }

// calls lists, in source order, every call expression of the node with the text of its callee
type callAt struct {
	name string
	pos  token.Pos
	call *ast.CallExpr
}

func callsIn(n ast.Node) []callAt {
	var out []callAt
	if n == nil {
		return out
	}
	ast.Inspect(n, func(x ast.Node) bool {
		if c, ok := x.(*ast.CallExpr); ok {
			out = append(out, callAt{exprStr(c.Fun), c.Pos(), c})
		}
		return true
	})
	return out
}

func posOf(cs []callAt, name string) (token.Pos, int) {
	var p token.Pos
	n := 0
	for _, c := range cs {
		if c.name == name {
			if n == 0 {
				p = c.pos
			}
			n++
		}
	}
	return p, n
}

// ordered: every name occurs exactly once and they occur in this order
func ordered(cs []callAt, names ...string) bool {
	var last token.Pos
	for _, nm := range names {
		p, n := posOf(cs, nm)
		if n != 1 || p <= last {
			return false
		}
		last = p
	}
	return true
}

func isCallStmt(s ast.Stmt, name string) bool {
	if es, ok := s.(*ast.ExprStmt); ok {
		if c, ok := es.X.(*ast.CallExpr); ok {
			return exprStr(c.Fun) == name
		}
	}
	return false
}

func isDeferStmt(s ast.Stmt, name string) bool {
	if ds, ok := s.(*ast.DeferStmt); ok {
		return exprStr(ds.Call.Fun) == name
	}
	return false
}

// bracketed: body = { <lock>(); defer <unlock>(); ... } and no further call on the mutex
func bracketed(fd *ast.FuncDecl, mutex, lock, unlock string) bool {
	if fd == nil || len(fd.Body.List) < 2 {
		return false
	}
	if !isCallStmt(fd.Body.List[0], mutex+"."+lock) || !isDeferStmt(fd.Body.List[1], mutex+"."+unlock) {
		return false
	}
	n := 0
	for _, c := range callsIn(fd.Body) {
		if strings.HasPrefix(c.name, mutex+".") {
			n++
		}
	}
	return n == 2
}

// the function literal assigned to "operation" inside a section
func operationLit(fd *ast.FuncDecl) *ast.FuncLit {
	var lit *ast.FuncLit
	if fd == nil {
		return nil
	}
	ast.Inspect(fd.Body, func(x ast.Node) bool {
		if as, ok := x.(*ast.AssignStmt); ok && len(as.Lhs) == 1 && len(as.Rhs) == 1 && exprStr(as.Lhs[0]) == "operation" {
			if fl, ok := as.Rhs[0].(*ast.FuncLit); ok {
				lit = fl
			}
		}
		return true
	})
	return lit
}

func stmtHasCall(s ast.Stmt, names ...string) bool {
	for _, c := range callsIn(s) {
		for _, n := range names {
			if c.name == n {
				return true
			}
		}
	}
	return false
}

// logThenInsert: among the top-level statements of the operation closure, the statement that
// appends to the log is followed directly by "if err != nil { ...; return ... }", the
// memtable is touched only after that block, and the section ends by being handed to
// RetryOnWALRotating
func logThenInsert(fd *ast.FuncDecl, appendCall string, inserts ...string) bool {
	lit := operationLit(fd)
	if lit == nil {
		return false
	}
	iA, iM := -1, -1
	for i, s := range lit.Body.List {
		if stmtHasCall(s, appendCall) && iA < 0 {
			iA = i
		}
		if stmtHasCall(s, inserts...) && iM < 0 {
			iM = i
		}
	}
	if iA < 0 || iM < 0 || iA+1 >= len(lit.Body.List) || iM <= iA+1 {
		return false
	}
	ifs, ok := lit.Body.List[iA+1].(*ast.IfStmt)
	if !ok || ifs.Else != nil || len(ifs.Body.List) == 0 {
		return false
	}
	if be, ok := ifs.Cond.(*ast.BinaryExpr); !ok || be.Op != token.NEQ || exprStr(be.X) != "err" || exprStr(be.Y) != "nil" {
		return false
	}
	if _, ok := ifs.Body.List[len(ifs.Body.List)-1].(*ast.ReturnStmt); !ok {
		return false
	}
	// the closure's result is what the section returns
	last := fd.Body.List[len(fd.Body.List)-1]
	rs, ok := last.(*ast.ReturnStmt)
	if !ok || len(rs.Results) != 1 {
		return false
	}
	c, ok := rs.Results[0].(*ast.CallExpr)
	return ok && exprStr(c.Fun) == "m.RetryOnWALRotating" && len(c.Args) == 1 && exprStr(c.Args[0]) == "operation"
}

// between: the (only) assignment to lhs lies between the first call of lock and the next call of unlock
func assignedUnder(fd *ast.FuncDecl, lhs, lock, unlock string) bool {
	if fd == nil {
		return false
	}
	var apos []token.Pos
	ast.Inspect(fd.Body, func(x ast.Node) bool {
		if as, ok := x.(*ast.AssignStmt); ok {
			for _, l := range as.Lhs {
				if exprStr(l) == lhs {
					apos = append(apos, as.Pos())
				}
			}
		}
		return true
	})
	if len(apos) == 0 {
		return false
	}
	cs := callsIn(fd.Body)
	for _, p := range apos {
		ok := false
		for i, c := range cs {
			if c.name == lock && c.pos < p {
				// next unlock after this lock
				for _, d := range cs[i+1:] {
					if d.name == unlock {
						if d.pos > p {
							ok = true
						}
						break
					}
				}
			}
		}
		if !ok {
			return false
		}
	}
	return true
}

func genConc() (string, string) {
	st := parsePkg("pkg/engine/storage")
	mp := parsePkg("pkg/memtable")
	wl := parsePkg("pkg/wal")
	mgr := methodsOf(st, "Manager")
	pool := methodsOf(mp, "MemTablePool")
	walm := methodsOf(wl, "WAL")

	type fact struct {
		name, what string
		val        bool
	}
	var facts []fact
	add := func(name, what string, v bool) { facts = append(facts, fact{name, what, v}) }

	add("cf_put_exclusive", "Manager.Put = { m.mu.Lock(); defer m.mu.Unlock(); ... } with no other call on m.mu",
		bracketed(mgr["Put"], "m.mu", "Lock", "Unlock"))
	add("cf_delete_exclusive", "Manager.Delete likewise", bracketed(mgr["Delete"], "m.mu", "Lock", "Unlock"))
	add("cf_batch_exclusive", "Manager.ApplyBatch likewise", bracketed(mgr["ApplyBatch"], "m.mu", "Lock", "Unlock"))
	add("cf_get_shared", "Manager.Get = { m.mu.RLock(); defer m.mu.RUnlock(); ... } with no other call on m.mu",
		bracketed(mgr["Get"], "m.mu", "RLock", "RUnlock"))
	add("cf_put_log_then_insert", "Put's operation: currentWAL.Append; if err != nil {..return}; then m.memTablePool.Put; run by RetryOnWALRotating",
		logThenInsert(mgr["Put"], "currentWAL.Append", "m.memTablePool.Put", "m.memTablePool.Delete"))
	add("cf_delete_log_then_insert", "Delete's operation: currentWAL.Append; error return; then m.memTablePool.Delete",
		logThenInsert(mgr["Delete"], "currentWAL.Append", "m.memTablePool.Put", "m.memTablePool.Delete"))
	add("cf_batch_log_then_insert", "ApplyBatch's operation: currentWAL.AppendBatch; error return; then the memtable inserts",
		logThenInsert(mgr["ApplyBatch"], "currentWAL.AppendBatch", "m.memTablePool.Put", "m.memTablePool.Delete"))

	// rotateWAL
	rot := mgr["rotateWAL"]
	rotOrder, handOver := false, false
	if rot != nil {
		cs := callsIn(rot.Body)
		rotOrder = ordered(cs, "currentWAL.SetRotating", "wal.NewWAL", "newWAL.UpdateNextSequence", "atomic.StorePointer", "oldWAL.Close")
		for _, c := range cs {
			if c.name == "newWAL.UpdateNextSequence" && len(c.call.Args) == 1 {
				if a, ok := c.call.Args[0].(*ast.CallExpr); ok && exprStr(a.Fun) == "currentWAL.GetNextSequence" {
					handOver = true
				}
			}
		}
	}
	add("cf_rotate_order", "rotateWAL: SetRotating, then wal.NewWAL, then UpdateNextSequence, then atomic.StorePointer, then oldWAL.Close (each once)", rotOrder)
	add("cf_rotate_hands_over", "rotateWAL: newWAL.UpdateNextSequence(currentWAL.GetNextSequence())", handOver)

	// RetryOnWALRotating
	maxRetries := -1
	retryShape := false
	if fd := mgr["RetryOnWALRotating"]; fd != nil {
		ast.Inspect(fd.Body, func(x ast.Node) bool {
			if as, ok := x.(*ast.AssignStmt); ok && len(as.Lhs) == 1 && exprStr(as.Lhs[0]) == "maxRetries" {
				if bl, ok := as.Rhs[0].(*ast.BasicLit); ok {
					maxRetries, _ = strconv.Atoi(bl.Value)
				}
			}
			return true
		})
		// for ... { err := operation(); if err != wal.ErrWALRotating { return err }; ... }; return <a call>
		okLoop, okLast := false, false
		ast.Inspect(fd.Body, func(x ast.Node) bool {
			if ifs, ok := x.(*ast.IfStmt); ok {
				if be, ok := ifs.Cond.(*ast.BinaryExpr); ok && be.Op == token.NEQ && exprStr(be.X) == "err" && exprStr(be.Y) == "wal.ErrWALRotating" {
					for _, s := range ifs.Body.List {
						if rs, ok := s.(*ast.ReturnStmt); ok && len(rs.Results) == 1 && exprStr(rs.Results[0]) == "err" {
							okLoop = true
						}
					}
				}
			}
			return true
		})
		if rs, ok := fd.Body.List[len(fd.Body.List)-1].(*ast.ReturnStmt); ok && len(rs.Results) == 1 {
			if c, ok := rs.Results[0].(*ast.CallExpr); ok && exprStr(c.Fun) == "fmt.Errorf" {
				okLast = true
			}
		}
		nOps := 0
		for _, c := range callsIn(fd.Body) {
			if c.name == "operation" {
				nOps++
			}
		}
		retryShape = okLoop && okLast && nOps == 1
	}
	add("cf_retry_shape", "RetryOnWALRotating: one call of operation per iteration, returns err unless it is ErrWALRotating, ends with return fmt.Errorf(...)", retryShape)

	// the retired table stays readable
	keeps := false
	if fd := mgr["scheduleFlush"]; fd != nil {
		_, n := posOf(callsIn(fd.Body), "m.memTablePool.SwitchToNewMemTable")
		keeps = n == 1
	}
	for _, f := range st {
		for _, c := range callsIn(f) {
			if strings.HasSuffix(c.name, ".GetImmutablesForFlush") {
				keeps = false
			}
		}
	}
	poolAppends := false
	if fd := pool["SwitchToNewMemTable"]; fd != nil {
		ast.Inspect(fd.Body, func(x ast.Node) bool {
			if as, ok := x.(*ast.AssignStmt); ok && len(as.Lhs) == 1 && exprStr(as.Lhs[0]) == "p.immutables" {
				if c, ok := as.Rhs[0].(*ast.CallExpr); ok && exprStr(c.Fun) == "append" && len(c.Args) == 2 &&
					exprStr(c.Args[0]) == "p.immutables" && exprStr(c.Args[1]) == "oldActive" {
					poolAppends = true
				}
			}
			return true
		})
	}
	add("cf_schedule_keeps_table", "scheduleFlush calls SwitchToNewMemTable once; nothing in pkg/engine/storage calls GetImmutablesForFlush", keeps)
	add("cf_pool_appends_retired", "MemTablePool.SwitchToNewMemTable: p.immutables = append(p.immutables, oldActive)", poolAppends)
	add("cf_flush_takes_queue_under_mu", "FlushMemTables assigns m.immutableMTs only between m.mu.Lock() and m.mu.Unlock()",
		assignedUnder(mgr["FlushMemTables"], "m.immutableMTs", "m.mu.Lock", "m.mu.Unlock"))
	add("cf_publish_under_mu", "flushMemTable assigns m.sstables only between m.mu.Lock() and m.mu.Unlock()",
		assignedUnder(mgr["flushMemTable"], "m.sstables", "m.mu.Lock", "m.mu.Unlock"))

	// WAL.Append reads the status once, before it writes; the sync behind the record does not
	statusOnce := false
	if fd := walm["Append"]; fd != nil {
		cs := callsIn(fd.Body)
		pLoad, nLoad := posOf(cs, "atomic.LoadInt32")
		pW, nW := posOf(cs, "w.writeRecord")
		statusOnce = nLoad == 1 && nW >= 1 && pLoad < pW
	}
	syncPlain := false
	if fd := walm["maybeSync"]; fd != nil {
		cs := callsIn(fd.Body)
		_, nS := posOf(cs, "w.syncLocked")
		_, nL := posOf(cs, "atomic.LoadInt32")
		syncPlain = nS == 0 && nL == 0
	}
	if fd := walm["flushAndSyncLocked"]; fd != nil {
		_, nL := posOf(callsIn(fd.Body), "atomic.LoadInt32")
		syncPlain = syncPlain && nL == 0
	} else {
		syncPlain = false
	}
	add("cf_append_checks_status_once", "WAL.Append: one atomic.LoadInt32 (the status), before the first writeRecord", statusOnce)
	// every entry point that appends refuses while the log is marked as rotating: a
	// `return ..., ErrWALRotating` in front of its first write
	refuses := true
	for _, name := range []string{"Append", "AppendWithSequence", "AppendBatch", "AppendBatchWithSequence", "AppendExactBytes"} {
		fd := walm[name]
		if fd == nil {
			refuses = false
			continue
		}
		found := false
		ast.Inspect(fd.Body, func(n ast.Node) bool {
			if r, ok := n.(*ast.ReturnStmt); ok && len(r.Results) > 0 {
				if id, ok := r.Results[len(r.Results)-1].(*ast.Ident); ok && id.Name == "ErrWALRotating" {
					found = true
				}
			}
			return true
		})
		refuses = refuses && found
	}
	add("cf_appends_refuse_rotating", "WAL.Append / AppendWithSequence / AppendBatch / AppendBatchWithSequence / AppendExactBytes each return ErrWALRotating", refuses)
	add("cf_sync_behind_record_unconditional", "WAL.maybeSync / flushAndSyncLocked do not read the status", syncPlain)

	var b strings.Builder
	b.WriteString("(* GENERATED by /verif/gofacts (conc.go) from pkg/engine/storage, pkg/memtable, pkg/wal — do not edit.\n")
	b.WriteString("   Syntactic facts the atomic steps of coq/EngineConc.v rest on; checked by coq/ConcFactsOk.v. *)\n")
	b.WriteString("From Coq Require Import NArith Bool List.\nImport ListNotations.\nOpen Scope N_scope.\n\n")
	for _, f := range facts {
		fmt.Fprintf(&b, "(* %s *)\nDefinition %s : bool := %v.\n", f.what, f.name, f.val)
	}
	if maxRetries >= 0 {
		fmt.Fprintf(&b, "\n(* maxRetries in Manager.RetryOnWALRotating *)\nDefinition cf_max_retries : N := %d.\n", maxRetries)
	} else {
		b.WriteString("\n(* maxRetries := <literal> not found in Manager.RetryOnWALRotating *)\n")
	}
	b.WriteString("\nDefinition conc_facts : list bool :=\n  [")
	for i, f := range facts {
		if i > 0 {
			b.WriteString("; ")
		}
		b.WriteString(f.name)
	}
	b.WriteString("].\n")
	return "ConcFacts.v", b.String()
}
