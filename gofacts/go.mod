module gofacts

go 1.24.2
