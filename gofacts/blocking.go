// blocking.go — generator of coq/gen/Blocking.v (property C15): a call graph of the client
// read/write paths of the storage engine and of the replication primary, with the mutexes
// held at every call site, the operations that may block on a peer (gRPC stream send/recv,
// unary RPCs, channel send/receive outside a select, WaitGroup/Cond waits, long sleeps), and
// the lock-order edges (lock B acquired while lock A is held).
//
// Purely syntactic (go/parser; type-checking pkg/replication with the "source" importer takes
// minutes because of gRPC): expression types are resolved through declared field, parameter,
// result and variable types of the analysed packages.  Approximations (part of the trusted
// base, repeated in the header of the generated file):
//   * "held at this statement" is block-structured: a branch that ends in return/panic does
//     not leak its lock changes, joins intersect, loops are assumed balanced; `defer x.Unlock()`
//     keeps the lock to the end of the function; one lock per (type, field), instances merged;
//   * interface method calls resolve to every type of the analysed packages that declares all
//     methods of the interface (so WALEntryObserver resolves to replication.Primary);
//   * a function literal bound to a local variable is analysed where the variable is called or
//     passed to a function of the analysed packages (operation := func(){..};
//     m.RetryOnWALRotating(operation)), with the locks held there; `go` statements start a new
//     root with no lock held; calls the resolver cannot type are listed in `unresolved_calls`.
package main

import (
	"fmt"
	"go/ast"
	"go/token"
	"sort"
	"strconv"
	"strings"
)

func init() { extraGenerators = append(extraGenerators, genBlocking) }

var blockingPkgs = []string{"pkg/wal", "pkg/engine/storage", "pkg/replication"}

type bPkg struct {
	rel, name string
	files     []*ast.File
	types     map[string]*ast.TypeSpec
	typeFile  map[string]*ast.File
	funcs     map[string]*bFunc // "Type.Method" or "Func"
}

type bFunc struct {
	pkg  *bPkg
	recv string
	name string
	decl *ast.FuncDecl
	file *ast.File
}

func (f *bFunc) id() string {
	if f.recv != "" {
		return f.pkg.name + "." + f.recv + "." + f.name
	}
	return f.pkg.name + "." + f.name
}

// bTy: a resolved type
type bTy struct {
	kind string // named | ptr | slice | map | chan | func | ext | unknown
	pkg  *bPkg
	name string
	ext  string // import path + "." + name
	elem *bTy
}

var bUnknown = &bTy{kind: "unknown"}

type bAnalysis struct {
	pkgs       map[string]*bPkg // by import path
	byName     map[string]*bPkg
	sites      []bSite
	edges      map[string]bEdge
	reach      map[string]map[string]bool
	unresolved map[string]bool
	memo       map[string]bool
	goRoots    []bGoRoot
	seenGo     map[token.Pos]bool
}

type bSite struct {
	root, fn, op, kind string
	guard             string // "pkg.Type.field" when the site is inside `if x.field == nil {..}`
	held              []string
	path              []string
}

type bEdge struct {
	from, to, mode, fn, root string
	path                     []string
}

type bGoRoot struct {
	fn   *bFunc
	lit  *ast.FuncLit
	call *ast.CallExpr
	env  map[string]*bTy
	lits map[string]*ast.FuncLit
}

func importsOf(f *ast.File) map[string]string {
	m := map[string]string{}
	for _, im := range f.Imports {
		p, _ := strconv.Unquote(im.Path.Value)
		alias := p[strings.LastIndex(p, "/")+1:]
		if im.Name != nil {
			alias = im.Name.Name
		}
		m[alias] = p
	}
	return m
}

func loadBlockingPkgs() *bAnalysis {
	a := &bAnalysis{pkgs: map[string]*bPkg{}, byName: map[string]*bPkg{}, edges: map[string]bEdge{},
		reach: map[string]map[string]bool{}, unresolved: map[string]bool{}, memo: map[string]bool{}, seenGo: map[token.Pos]bool{}}
	for _, rel := range blockingPkgs {
		files := parsePkg(rel)
		if len(files) == 0 {
			continue
		}
		p := &bPkg{rel: rel, name: files[0].Name.Name, files: files, types: map[string]*ast.TypeSpec{},
			typeFile: map[string]*ast.File{}, funcs: map[string]*bFunc{}}
		for _, f := range files {
			for _, d := range f.Decls {
				switch x := d.(type) {
				case *ast.GenDecl:
					for _, s := range x.Specs {
						if ts, ok := s.(*ast.TypeSpec); ok {
							p.types[ts.Name.Name] = ts
							p.typeFile[ts.Name.Name] = f
						}
					}
				case *ast.FuncDecl:
					if x.Body == nil {
						continue
					}
					bf := &bFunc{pkg: p, name: x.Name.Name, decl: x, file: f}
					key := x.Name.Name
					if x.Recv != nil && len(x.Recv.List) == 1 {
						bf.recv = strings.TrimPrefix(exprStr(x.Recv.List[0].Type), "*")
						key = bf.recv + "." + x.Name.Name
					}
					p.funcs[key] = bf
				}
			}
		}
		a.pkgs[modPath+"/"+rel] = p
		a.byName[p.name] = p
	}
	return a
}

// ---- types ------------------------------------------------------------------------------

func (a *bAnalysis) resolveType(p *bPkg, f *ast.File, e ast.Expr) *bTy {
	switch x := e.(type) {
	case *ast.Ident:
		if _, ok := p.types[x.Name]; ok {
			return &bTy{kind: "named", pkg: p, name: x.Name}
		}
		return &bTy{kind: "ext", ext: "builtin." + x.Name}
	case *ast.SelectorExpr:
		if id, ok := x.X.(*ast.Ident); ok {
			if path, ok := importsOf(f)[id.Name]; ok {
				if q, ok := a.pkgs[path]; ok {
					if _, ok := q.types[x.Sel.Name]; ok {
						return &bTy{kind: "named", pkg: q, name: x.Sel.Name}
					}
				}
				return &bTy{kind: "ext", ext: path + "." + x.Sel.Name}
			}
		}
	case *ast.StarExpr:
		return &bTy{kind: "ptr", elem: a.resolveType(p, f, x.X)}
	case *ast.ArrayType:
		return &bTy{kind: "slice", elem: a.resolveType(p, f, x.Elt)}
	case *ast.Ellipsis:
		return &bTy{kind: "slice", elem: a.resolveType(p, f, x.Elt)}
	case *ast.MapType:
		return &bTy{kind: "map", elem: a.resolveType(p, f, x.Value)}
	case *ast.ChanType:
		return &bTy{kind: "chan", elem: a.resolveType(p, f, x.Value)}
	case *ast.FuncType:
		return &bTy{kind: "func"}
	case *ast.ParenExpr:
		return a.resolveType(p, f, x.X)
	}
	return bUnknown
}

func deref(t *bTy) *bTy {
	for t != nil && t.kind == "ptr" {
		t = t.elem
	}
	if t == nil {
		return bUnknown
	}
	return t
}

// fieldType: type of field `name` of the named struct type t (embedded structs followed)
func (a *bAnalysis) fieldType(t *bTy, name string) *bTy {
	t = deref(t)
	if t.kind != "named" {
		return bUnknown
	}
	ts := t.pkg.types[t.name]
	st, ok := ts.Type.(*ast.StructType)
	if !ok {
		return bUnknown
	}
	f := t.pkg.typeFile[t.name]
	for _, fl := range st.Fields.List {
		for _, nm := range fl.Names {
			if nm.Name == name {
				return a.resolveType(t.pkg, f, fl.Type)
			}
		}
	}
	for _, fl := range st.Fields.List {
		if len(fl.Names) == 0 {
			et := a.resolveType(t.pkg, f, fl.Type)
			if deref(et).kind == "named" {
				if r := a.fieldType(et, name); r.kind != "unknown" {
					return r
				}
			}
		}
	}
	return bUnknown
}

func (a *bAnalysis) isInterface(t *bTy) bool {
	t = deref(t)
	if t.kind != "named" {
		return false
	}
	_, ok := t.pkg.types[t.name].Type.(*ast.InterfaceType)
	return ok
}

func (a *bAnalysis) ifaceMethods(t *bTy) []string {
	t = deref(t)
	return interfaceMethods(t.pkg.files, t.name)
}

// implementations of an interface among the analysed packages
func (a *bAnalysis) implementations(t *bTy, method string) []*bFunc {
	need := a.ifaceMethods(t)
	var out []*bFunc
	var names []string
	for path := range a.pkgs {
		names = append(names, path)
	}
	sort.Strings(names)
	for _, path := range names {
		p := a.pkgs[path]
		var tn []string
		for n := range p.types {
			tn = append(tn, n)
		}
		sort.Strings(tn)
		for _, n := range tn {
			if _, isI := p.types[n].Type.(*ast.InterfaceType); isI {
				continue
			}
			all := true
			for _, m := range need {
				if _, ok := p.funcs[n+"."+m]; !ok {
					all = false
					break
				}
			}
			if all && len(need) > 0 {
				if f, ok := p.funcs[n+"."+method]; ok {
					out = append(out, f)
				}
			}
		}
	}
	return out
}

// ---- walking ----------------------------------------------------------------------------

type bCtx struct {
	a    *bAnalysis
	fn   *bFunc
	env  map[string]*bTy
	lits map[string]*ast.FuncLit
	root string
	path []string
	dflt bool // inside a select that has a default clause
	sel  bool // inside a select
	tail []string // functions that run the literal being walked (frames after fn)
	nilGuard string // innermost enclosing `if x.f == nil` on a field of an analysed struct
}

func (c *bCtx) fullPath() []string {
	p := append([]string(nil), c.path...)
	p = append(p, c.fn.id())
	return append(p, c.tail...)
}

func copyHeld(h []string) []string { return append([]string(nil), h...) }

func heldKey(h []string) string {
	s := copyHeld(h)
	sort.Strings(s)
	return strings.Join(s, ",")
}

func lockName(l string) string { // strip mode
	if i := strings.Index(l, ":"); i >= 0 {
		return l[:i]
	}
	return l
}

func removeLock(h []string, name string) []string {
	for i := len(h) - 1; i >= 0; i-- {
		if lockName(h[i]) == name {
			return append(copyHeld(h[:i]), h[i+1:]...)
		}
	}
	return h
}

func intersectHeld(x, y []string) []string {
	var out []string
	for _, l := range x {
		for _, m := range y {
			if l == m {
				out = append(out, l)
				break
			}
		}
	}
	return out
}

func (c *bCtx) typeOf(e ast.Expr) *bTy {
	a := c.a
	switch x := e.(type) {
	case *ast.Ident:
		if t, ok := c.env[x.Name]; ok {
			return t
		}
		return bUnknown
	case *ast.ParenExpr:
		return c.typeOf(x.X)
	case *ast.StarExpr:
		t := c.typeOf(x.X)
		if t.kind == "ptr" {
			return t.elem
		}
		return t
	case *ast.UnaryExpr:
		if x.Op == token.AND {
			return &bTy{kind: "ptr", elem: c.typeOf(x.X)}
		}
		if x.Op == token.ARROW {
			t := deref(c.typeOf(x.X))
			if t.kind == "chan" {
				return t.elem
			}
		}
		return bUnknown
	case *ast.SelectorExpr:
		if id, ok := x.X.(*ast.Ident); ok {
			if _, isVar := c.env[id.Name]; !isVar {
				if _, ok := importsOf(c.fn.file)[id.Name]; ok {
					return bUnknown
				}
			}
		}
		return a.fieldType(c.typeOf(x.X), x.Sel.Name)
	case *ast.IndexExpr:
		t := deref(c.typeOf(x.X))
		if t.kind == "map" || t.kind == "slice" {
			return t.elem
		}
		return bUnknown
	case *ast.SliceExpr:
		return c.typeOf(x.X)
	case *ast.TypeAssertExpr:
		if x.Type != nil {
			return a.resolveType(c.fn.pkg, c.fn.file, x.Type)
		}
		return bUnknown
	case *ast.CompositeLit:
		if x.Type != nil {
			return a.resolveType(c.fn.pkg, c.fn.file, x.Type)
		}
		return bUnknown
	case *ast.FuncLit:
		return &bTy{kind: "func"}
	case *ast.CallExpr:
		rs := c.resultTypes(x)
		if len(rs) > 0 {
			return rs[0]
		}
		return bUnknown
	}
	return bUnknown
}

// resultTypes of a call (or conversion / make / new)
func (c *bCtx) resultTypes(call *ast.CallExpr) []*bTy {
	a := c.a
	if id, ok := call.Fun.(*ast.Ident); ok {
		switch id.Name {
		case "make", "new":
			if len(call.Args) > 0 {
				t := a.resolveType(c.fn.pkg, c.fn.file, call.Args[0])
				if id.Name == "new" {
					t = &bTy{kind: "ptr", elem: t}
				}
				return []*bTy{t}
			}
		case "append":
			if len(call.Args) > 0 {
				return []*bTy{c.typeOf(call.Args[0])}
			}
		}
		if _, ok := c.fn.pkg.types[id.Name]; ok { // conversion
			return []*bTy{{kind: "named", pkg: c.fn.pkg, name: id.Name}}
		}
	}
	var out []*bTy
	for _, f := range c.callees(call, false) {
		if f.decl.Type.Results != nil {
			for _, r := range f.decl.Type.Results.List {
				n := len(r.Names)
				if n == 0 {
					n = 1
				}
				for i := 0; i < n; i++ {
					out = append(out, a.resolveType(f.pkg, f.file, r.Type))
				}
			}
		}
		break
	}
	return out
}

// callees: the functions of the analysed packages a call may reach
func (c *bCtx) callees(call *ast.CallExpr, record bool) []*bFunc {
	a := c.a
	switch fun := call.Fun.(type) {
	case *ast.Ident:
		if f, ok := c.fn.pkg.funcs[fun.Name]; ok {
			if _, shadow := c.env[fun.Name]; !shadow {
				return []*bFunc{f}
			}
		}
	case *ast.SelectorExpr:
		if id, ok := fun.X.(*ast.Ident); ok {
			if _, isVar := c.env[id.Name]; !isVar {
				if path, ok := importsOf(c.fn.file)[id.Name]; ok {
					if q, ok := a.pkgs[path]; ok {
						if f, ok := q.funcs[fun.Sel.Name]; ok {
							return []*bFunc{f}
						}
					}
					return nil
				}
			}
		}
		t := deref(c.typeOf(fun.X))
		if t.kind == "named" {
			if a.isInterface(t) {
				return a.implementations(t, fun.Sel.Name)
			}
			if f, ok := t.pkg.funcs[t.name+"."+fun.Sel.Name]; ok {
				return []*bFunc{f}
			}
			// method of an embedded analysed type
			if st, ok := t.pkg.types[t.name].Type.(*ast.StructType); ok {
				for _, fl := range st.Fields.List {
					if len(fl.Names) == 0 {
						et := deref(a.resolveType(t.pkg, t.pkg.typeFile[t.name], fl.Type))
						if et.kind == "named" {
							if f, ok := et.pkg.funcs[et.name+"."+fun.Sel.Name]; ok {
								return []*bFunc{f}
							}
						}
					}
				}
			}
		}
	}
	return nil
}

// extCallee: "path.Type.Method" / "path.Func" for a call that leaves the analysed packages
func (c *bCtx) extCallee(call *ast.CallExpr) string {
	switch fun := call.Fun.(type) {
	case *ast.SelectorExpr:
		if id, ok := fun.X.(*ast.Ident); ok {
			if _, isVar := c.env[id.Name]; !isVar {
				if path, ok := importsOf(c.fn.file)[id.Name]; ok {
					return path + "." + fun.Sel.Name
				}
			}
		}
		t := deref(c.typeOf(fun.X))
		if t.kind == "ext" {
			return t.ext + "." + fun.Sel.Name
		}
		if t.kind == "named" {
			return "" // handled by callees / no such method
		}
		if t.kind == "unknown" {
			return "?." + fun.Sel.Name
		}
	}
	return ""
}

// lockOf: the lock a sync.Mutex/RWMutex method call acts on
func (c *bCtx) lockOf(recv ast.Expr) string {
	if s, ok := recv.(*ast.SelectorExpr); ok {
		owner := deref(c.typeOf(s.X))
		if owner.kind == "named" {
			return owner.pkg.name + "." + owner.name + "." + s.Sel.Name
		}
	}
	return "?" + exprStr(recv)
}

func sleepMillis(e ast.Expr) int {
	// N * time.Millisecond | time.Millisecond * N | time.Second * N | N * time.Second | time.Second
	unit := func(x ast.Expr) int {
		switch exprStr(x) {
		case "time.Millisecond":
			return 1
		case "time.Second":
			return 1000
		case "time.Minute":
			return 60000
		case "time.Microsecond", "time.Nanosecond":
			return 0
		}
		return -1
	}
	if u := unit(e); u >= 0 {
		return u
	}
	if b, ok := e.(*ast.BinaryExpr); ok && b.Op == token.MUL {
		for _, pr := range [][2]ast.Expr{{b.X, b.Y}, {b.Y, b.X}} {
			if lit, ok := pr[0].(*ast.BasicLit); ok {
				n, err := strconv.Atoi(lit.Value)
				if u := unit(pr[1]); err == nil && u >= 0 {
					return n * u
				}
			}
		}
	}
	return -1 // not a constant the generator understands: treated as unbounded
}

func (c *bCtx) site(op, kind string, held []string) {
	c.a.sites = append(c.a.sites, bSite{root: c.root, fn: c.fn.id(), op: op, kind: kind, guard: c.nilGuard, held: copyHeld(held), path: c.fullPath()})
}

func (c *bCtx) acquire(lock, mode string, held []string) []string {
	for _, h := range held {
		key := lockName(h) + ">" + lock + ">" + c.fn.id() + ">" + mode
		if _, ok := c.a.edges[key]; !ok {
			c.a.edges[key] = bEdge{from: lockName(h), to: lock, mode: strings.TrimPrefix(h[len(lockName(h)):], ":") + ">" + mode, fn: c.fn.id(), root: c.root,
				path: c.fullPath()}
		}
	}
	return append(copyHeld(held), lock+":"+mode)
}

// call: the effect of one call expression on the held set (lock operations) and the recursion
func (c *bCtx) call(call *ast.CallExpr, held []string, deferred bool) []string {
	// arguments first (calls inside arguments)
	for _, arg := range call.Args {
		held = c.exprCalls(arg, held)
	}
	if s, ok := call.Fun.(*ast.SelectorExpr); ok {
		held = c.exprCalls(s.X, held)
	}
	// immediately invoked literal
	if lit, ok := call.Fun.(*ast.FuncLit); ok {
		return c.stmts(lit.Body.List, held)
	}
	// local function value
	if id, ok := call.Fun.(*ast.Ident); ok {
		if lit, ok := c.lits[id.Name]; ok {
			return c.stmts(lit.Body.List, held)
		}
	}
	if fs := c.callees(call, true); len(fs) > 0 {
		// function literals handed to the callee run inside it (with at least the locks held here)
		for _, arg := range call.Args {
			var lit *ast.FuncLit
			if id, ok := arg.(*ast.Ident); ok {
				lit = c.lits[id.Name]
			}
			if l, ok := arg.(*ast.FuncLit); ok {
				lit = l
			}
			if lit != nil {
				sub := *c
				sub.tail = append(append([]string(nil), c.tail...), fs[0].id())
				sub.stmts(lit.Body.List, held)
			}
		}
		for _, f := range fs {
			c.a.visit(f, held, c.fullPath(), c.root)
		}
		return held
	}
	ext := c.extCallee(call)
	if ext == "" {
		if _, isConv := call.Fun.(*ast.ArrayType); !isConv {
			if id, ok := call.Fun.(*ast.Ident); !ok || (!isBuiltin(id.Name) && c.fn.pkg.types[id.Name] == nil) {
				c.a.unresolved[c.fn.id()+": "+exprStr(call.Fun)] = true
			}
		}
		return held
	}
	sel, _ := call.Fun.(*ast.SelectorExpr)
	switch {
	case strings.HasPrefix(ext, "sync.Mutex.") || strings.HasPrefix(ext, "sync.RWMutex."):
		lock := c.lockOf(sel.X)
		switch sel.Sel.Name {
		case "Lock":
			return c.acquire(lock, "W", held)
		case "RLock":
			return c.acquire(lock, "R", held)
		case "Unlock", "RUnlock":
			if deferred {
				return held // stays held to the end of the function
			}
			return removeLock(held, lock)
		}
	case ext == "sync.WaitGroup.Wait" || ext == "sync.Cond.Wait":
		c.site(ext, "wait", held)
	case ext == "time.Sleep":
		ms := -1
		if len(call.Args) == 1 {
			ms = sleepMillis(call.Args[0])
		}
		kind := "sleep_short"
		if ms < 0 || ms >= 1000 {
			kind = "sleep_long"
		}
		c.site(fmt.Sprintf("time.Sleep(%s)", exprStr2(call.Args[0])), kind, held)
	case strings.Contains(ext, "/proto/kevo") || strings.HasPrefix(ext, "google.golang.org/grpc"):
		switch sel.Sel.Name {
		case "Send", "Recv", "SendMsg", "RecvMsg":
			c.site(ext, "grpc_stream", held)
		case "SendHeader", "Context", "Header", "Trailer", "CloseSend", "String", "Code", "Message":
		default:
			if strings.HasSuffix(strings.TrimSuffix(ext, "."+sel.Sel.Name), "Client") {
				c.site(ext, "grpc_call", held)
			}
		}
	case strings.HasPrefix(ext, "?."):
		c.a.unresolved[c.fn.id()+": "+exprStr(call.Fun)] = true
	}
	return held
}

func exprStr2(e ast.Expr) string {
	if b, ok := e.(*ast.BinaryExpr); ok {
		return exprStr2(b.X) + b.Op.String() + exprStr2(b.Y)
	}
	if l, ok := e.(*ast.BasicLit); ok {
		return l.Value
	}
	return exprStr(e)
}

func isBuiltin(n string) bool {
	switch n {
	case "len", "cap", "append", "make", "new", "copy", "delete", "panic", "recover", "close", "min", "max", "print", "println",
		"string", "byte", "int", "int32", "int64", "uint8", "uint16", "uint32", "uint64", "uint", "float64", "bool", "error", "rune", "uintptr", "float32", "int8", "int16":
		return true
	}
	return false
}

// exprCalls: every call inside an expression, in evaluation order (function literals are not entered)
func (c *bCtx) exprCalls(e ast.Expr, held []string) []string {
	if e == nil {
		return held
	}
	switch x := e.(type) {
	case *ast.CallExpr:
		return c.call(x, held, false)
	case *ast.FuncLit:
		return held
	case *ast.UnaryExpr:
		held = c.exprCalls(x.X, held)
		if x.Op == token.ARROW && !c.sel {
			c.site("<-"+exprStr(x.X), "chan_recv", held)
		}
		return held
	case *ast.BinaryExpr:
		return c.exprCalls(x.Y, c.exprCalls(x.X, held))
	case *ast.ParenExpr:
		return c.exprCalls(x.X, held)
	case *ast.SelectorExpr:
		return c.exprCalls(x.X, held)
	case *ast.StarExpr:
		return c.exprCalls(x.X, held)
	case *ast.IndexExpr:
		return c.exprCalls(x.Index, c.exprCalls(x.X, held))
	case *ast.SliceExpr:
		held = c.exprCalls(x.X, held)
		held = c.exprCalls(x.Low, held)
		return c.exprCalls(x.High, held)
	case *ast.TypeAssertExpr:
		return c.exprCalls(x.X, held)
	case *ast.CompositeLit:
		for _, el := range x.Elts {
			held = c.exprCalls(el, held)
		}
		return held
	case *ast.KeyValueExpr:
		return c.exprCalls(x.Value, held)
	}
	return held
}

// nilGuardOf: cond is `x.f == nil` with x of an analysed struct type: "pkg.Type.f"
func (c *bCtx) nilGuardOf(cond ast.Expr) string {
	b, ok := cond.(*ast.BinaryExpr)
	if !ok || b.Op != token.EQL {
		return ""
	}
	x, y := b.X, b.Y
	if id, ok := x.(*ast.Ident); ok && id.Name == "nil" {
		x, y = y, x
	}
	if id, ok := y.(*ast.Ident); !ok || id.Name != "nil" {
		return ""
	}
	sel, ok := x.(*ast.SelectorExpr)
	if !ok {
		return ""
	}
	owner := deref(c.typeOf(sel.X))
	if owner.kind != "named" {
		return ""
	}
	return owner.pkg.name + "." + owner.name + "." + sel.Sel.Name
}

// alwaysSetFields: fields "pkg.Type.f" that every composite literal of Type in the analysed
// (non-test) files sets and that no statement assigns afterwards: never nil at run time for
// values built by this code
func (a *bAnalysis) alwaysSetFields(cands map[string]bool) []string {
	var out []string
	var names []string
	for k := range cands {
		names = append(names, k)
	}
	sort.Strings(names)
	for _, cand := range names {
		parts := strings.Split(cand, ".")
		if len(parts) != 3 {
			continue
		}
		p := a.byName[parts[0]]
		if p == nil {
			continue
		}
		lits, ok := 0, true
		for _, f := range p.files {
			ast.Inspect(f, func(n ast.Node) bool {
				switch x := n.(type) {
				case *ast.CompositeLit:
					if x.Type != nil && exprStr(x.Type) == parts[1] {
						lits++
						set := false
						for _, el := range x.Elts {
							if kv, isKV := el.(*ast.KeyValueExpr); isKV && exprStr(kv.Key) == parts[2] {
								if id, isID := kv.Value.(*ast.Ident); !isID || id.Name != "nil" {
									set = true
								}
							}
						}
						if !set {
							ok = false
						}
					}
				case *ast.AssignStmt:
					for _, l := range x.Lhs {
						if sel, isSel := l.(*ast.SelectorExpr); isSel && sel.Sel.Name == parts[2] {
							ok = false // assigned somewhere: not analysed further
						}
					}
				}
				return true
			})
		}
		if ok && lits > 0 {
			out = append(out, cand)
		}
	}
	return out
}

func terminates(list []ast.Stmt) bool {
	if len(list) == 0 {
		return false
	}
	switch x := list[len(list)-1].(type) {
	case *ast.ReturnStmt:
		return true
	case *ast.BranchStmt:
		return x.Tok == token.BREAK || x.Tok == token.CONTINUE || x.Tok == token.GOTO
	case *ast.ExprStmt:
		if call, ok := x.X.(*ast.CallExpr); ok {
			if id, ok := call.Fun.(*ast.Ident); ok && id.Name == "panic" {
				return true
			}
			if exprStr(call.Fun) == "os.Exit" {
				return true
			}
		}
	case *ast.BlockStmt:
		return terminates(x.List)
	}
	return false
}

func (c *bCtx) bind(lhs ast.Expr, t *bTy) {
	if id, ok := lhs.(*ast.Ident); ok && id.Name != "_" && t != nil {
		c.env[id.Name] = t
	}
}

func (c *bCtx) assign(lhs, rhs []ast.Expr) {
	if len(lhs) == len(rhs) {
		for i := range lhs {
			if lit, ok := rhs[i].(*ast.FuncLit); ok {
				if id, ok := lhs[i].(*ast.Ident); ok {
					c.lits[id.Name] = lit
					c.env[id.Name] = &bTy{kind: "func"}
					continue
				}
			}
			c.bind(lhs[i], c.typeOf(rhs[i]))
		}
		return
	}
	if len(rhs) == 1 {
		switch r := rhs[0].(type) {
		case *ast.CallExpr:
			ts := c.resultTypes(r)
			for i := range lhs {
				if i < len(ts) {
					c.bind(lhs[i], ts[i])
				} else {
					c.bind(lhs[i], bUnknown)
				}
			}
		default:
			c.bind(lhs[0], c.typeOf(rhs[0]))
			for _, l := range lhs[1:] {
				c.bind(l, bUnknown)
			}
		}
	}
}

func (c *bCtx) stmts(list []ast.Stmt, held []string) []string {
	for _, s := range list {
		held = c.stmt(s, held)
	}
	return held
}

func (c *bCtx) branch(list []ast.Stmt, held []string) ([]string, bool) {
	h := c.stmts(list, copyHeld(held))
	return h, terminates(list)
}

func (c *bCtx) stmt(s ast.Stmt, held []string) []string {
	switch x := s.(type) {
	case *ast.ExprStmt:
		return c.exprCalls(x.X, held)
	case *ast.AssignStmt:
		for _, r := range x.Rhs {
			held = c.exprCalls(r, held)
		}
		for _, l := range x.Lhs {
			if _, ok := l.(*ast.Ident); !ok {
				held = c.exprCalls(l, held)
			}
		}
		c.assign(x.Lhs, x.Rhs)
		return held
	case *ast.DeclStmt:
		if gd, ok := x.Decl.(*ast.GenDecl); ok {
			for _, sp := range gd.Specs {
				if vs, ok := sp.(*ast.ValueSpec); ok {
					for _, v := range vs.Values {
						held = c.exprCalls(v, held)
					}
					for i, nm := range vs.Names {
						if vs.Type != nil {
							c.env[nm.Name] = c.a.resolveType(c.fn.pkg, c.fn.file, vs.Type)
						} else if i < len(vs.Values) {
							if lit, ok := vs.Values[i].(*ast.FuncLit); ok {
								c.lits[nm.Name] = lit
							}
							c.env[nm.Name] = c.typeOf(vs.Values[i])
						}
					}
				}
			}
		}
		return held
	case *ast.ReturnStmt:
		for _, r := range x.Results {
			held = c.exprCalls(r, held)
		}
		return held
	case *ast.IncDecStmt:
		return c.exprCalls(x.X, held)
	case *ast.SendStmt:
		held = c.exprCalls(x.Value, held)
		if !c.sel {
			c.site(exprStr(x.Chan)+"<-", "chan_send", held)
		} else if !c.dflt {
			c.site(exprStr(x.Chan)+"<-", "chan_send_select", held)
		}
		return held
	case *ast.DeferStmt:
		if lit, ok := x.Call.Fun.(*ast.FuncLit); ok {
			// runs at function end; lock releases inside it are treated like deferred unlocks
			sub := *c
			sub.stmtsDeferred(lit.Body.List, held)
			return held
		}
		return c.call(x.Call, held, true)
	case *ast.GoStmt:
		if !c.a.seenGo[x.Pos()] {
			c.a.seenGo[x.Pos()] = true
			env := map[string]*bTy{}
			for k, v := range c.env {
				env[k] = v
			}
			lits := map[string]*ast.FuncLit{}
			for k, v := range c.lits {
				lits[k] = v
			}
			g := bGoRoot{fn: c.fn, env: env, lits: lits, call: x.Call}
			if lit, ok := x.Call.Fun.(*ast.FuncLit); ok {
				g.lit = lit
			}
			c.a.goRoots = append(c.a.goRoots, g)
		}
		return held
	case *ast.BlockStmt:
		return c.stmts(x.List, held)
	case *ast.LabeledStmt:
		return c.stmt(x.Stmt, held)
	case *ast.IfStmt:
		if x.Init != nil {
			held = c.stmt(x.Init, held)
		}
		held = c.exprCalls(x.Cond, held)
		var h1 []string
		var t1 bool
		if g := c.nilGuardOf(x.Cond); g != "" {
			sub := *c
			sub.nilGuard = g
			h1, t1 = sub.branch(x.Body.List, held)
		} else {
			h1, t1 = c.branch(x.Body.List, held)
		}
		h2, t2 := held, false
		if x.Else != nil {
			switch e := x.Else.(type) {
			case *ast.BlockStmt:
				h2, t2 = c.branch(e.List, held)
			default:
				h2 = c.stmt(e, copyHeld(held))
			}
		}
		switch {
		case t1 && t2:
			return held
		case t1:
			return h2
		case t2:
			return h1
		}
		return intersectHeld(h1, h2)
	case *ast.ForStmt:
		if x.Init != nil {
			held = c.stmt(x.Init, held)
		}
		held = c.exprCalls(x.Cond, held)
		c.stmts(x.Body.List, copyHeld(held))
		if x.Post != nil {
			c.stmt(x.Post, copyHeld(held))
		}
		return held
	case *ast.RangeStmt:
		held = c.exprCalls(x.X, held)
		t := deref(c.typeOf(x.X))
		if x.Tok == token.DEFINE {
			switch t.kind {
			case "map", "slice":
				if x.Key != nil {
					c.bind(x.Key, bUnknown)
				}
				if x.Value != nil {
					c.bind(x.Value, t.elem)
				}
			case "chan":
				if x.Key != nil {
					c.bind(x.Key, t.elem)
				}
			default:
				if x.Key != nil {
					c.bind(x.Key, bUnknown)
				}
				if x.Value != nil {
					c.bind(x.Value, bUnknown)
				}
			}
		}
		c.stmts(x.Body.List, copyHeld(held))
		return held
	case *ast.SwitchStmt:
		if x.Init != nil {
			held = c.stmt(x.Init, held)
		}
		held = c.exprCalls(x.Tag, held)
		return c.clauses(x.Body.List, held, false)
	case *ast.TypeSwitchStmt:
		if x.Init != nil {
			held = c.stmt(x.Init, held)
		}
		return c.clauses(x.Body.List, held, false)
	case *ast.SelectStmt:
		hasDefault := false
		for _, cl := range x.Body.List {
			if cc, ok := cl.(*ast.CommClause); ok && cc.Comm == nil {
				hasDefault = true
			}
		}
		sub := *c
		sub.sel, sub.dflt = true, hasDefault
		return sub.clauses(x.Body.List, held, true)
	}
	return held
}

// stmtsDeferred: body of a deferred literal: unlocks do not release (they happen at return)
func (c *bCtx) stmtsDeferred(list []ast.Stmt, held []string) {
	for _, s := range list {
		if es, ok := s.(*ast.ExprStmt); ok {
			if call, ok := es.X.(*ast.CallExpr); ok {
				c.call(call, held, true)
				continue
			}
		}
		c.stmt(s, copyHeld(held))
	}
}

func (c *bCtx) clauses(list []ast.Stmt, held []string, isSelect bool) []string {
	var outs [][]string
	hasDefault := false
	for _, cl := range list {
		var body []ast.Stmt
		h := copyHeld(held)
		switch cc := cl.(type) {
		case *ast.CaseClause:
			if cc.List == nil {
				hasDefault = true
			}
			for _, e := range cc.List {
				h = c.exprCalls(e, h)
			}
			body = cc.Body
		case *ast.CommClause:
			if cc.Comm == nil {
				hasDefault = true
			} else {
				h = c.stmt(cc.Comm, h)
			}
			body = cc.Body
		}
		h = c.stmts(body, h)
		if !terminates(body) {
			outs = append(outs, h)
		}
	}
	if !hasDefault && !isSelect {
		outs = append(outs, held)
	}
	if len(outs) == 0 {
		return held
	}
	r := outs[0]
	for _, o := range outs[1:] {
		r = intersectHeld(r, o)
	}
	return r
}

func (a *bAnalysis) newCtx(f *bFunc, root string, path []string) *bCtx {
	c := &bCtx{a: a, fn: f, env: map[string]*bTy{}, lits: map[string]*ast.FuncLit{}, root: root, path: path}
	if f.decl.Recv != nil && len(f.decl.Recv.List) == 1 && len(f.decl.Recv.List[0].Names) == 1 {
		c.env[f.decl.Recv.List[0].Names[0].Name] = a.resolveType(f.pkg, f.file, f.decl.Recv.List[0].Type)
	}
	bindFields := func(fl *ast.FieldList) {
		if fl == nil {
			return
		}
		for _, p := range fl.List {
			for _, nm := range p.Names {
				c.env[nm.Name] = a.resolveType(f.pkg, f.file, p.Type)
			}
		}
	}
	bindFields(f.decl.Type.Params)
	bindFields(f.decl.Type.Results)
	return c
}

func (a *bAnalysis) visit(f *bFunc, held []string, path []string, root string) {
	if len(path) > 40 {
		return
	}
	for _, p := range path {
		if p == f.id() {
			return // recursion
		}
	}
	key := root + "|" + f.id() + "|" + heldKey(held)
	if a.memo[key] {
		return
	}
	a.memo[key] = true
	if a.reach[root] == nil {
		a.reach[root] = map[string]bool{}
	}
	a.reach[root][f.id()] = true
	c := a.newCtx(f, root, path)
	c.stmts(f.decl.Body.List, copyHeld(held))
}

// ---- output -----------------------------------------------------------------------------

func bCoqStr(s string) string { return "\"" + strings.ReplaceAll(s, "\"", "'") + "\"" }

func coqStrs(l []string) string {
	q := make([]string, len(l))
	for i, s := range l {
		q[i] = bCoqStr(s)
	}
	return "[" + strings.Join(q, "; ") + "]"
}

var blockingClientRoots = []string{"storage.Manager.Put", "storage.Manager.Delete", "storage.Manager.ApplyBatch", "storage.Manager.Get",
	"wal.WAL.Append", "wal.WAL.AppendBatch"}

func genBlocking() (string, string) {
	a := loadBlockingPkgs()
	find := func(id string) *bFunc {
		parts := strings.SplitN(id, ".", 2)
		p := a.byName[parts[0]]
		if p == nil {
			return nil
		}
		return p.funcs[parts[1]]
	}
	var missing []string
	for _, r := range blockingClientRoots {
		if f := find(r); f != nil {
			a.visit(f, nil, nil, r)
		} else {
			missing = append(missing, r)
		}
	}
	// service roots: every exported method of the types below (lock order needs the other side
	// of every inversion: stream handlers, acknowledgements, status calls, flush / rotation)
	var svcRoots []string
	for _, t := range []string{"storage.Manager", "wal.WAL", "replication.Primary", "replication.Manager"} {
		parts := strings.SplitN(t, ".", 2)
		p := a.byName[parts[0]]
		if p == nil {
			continue
		}
		var names []string
		for k, f := range p.funcs {
			if f.recv == parts[1] && ast.IsExported(f.name) {
				names = append(names, k)
			}
		}
		sort.Strings(names)
		for _, k := range names {
			id := parts[0] + "." + k
			isClient := false
			for _, r := range blockingClientRoots {
				if r == id {
					isClient = true
				}
			}
			if !isClient {
				svcRoots = append(svcRoots, id)
				a.visit(p.funcs[k], nil, nil, id)
			}
		}
	}
	// goroutines started anywhere in what was visited (heartbeat monitor, background flush, ...)
	for i := 0; i < len(a.goRoots); i++ {
		g := a.goRoots[i]
		root := fmt.Sprintf("go@%s#%d", g.fn.id(), i)
		c := a.newCtx(g.fn, root, nil)
		c.env, c.lits = g.env, g.lits
		if g.lit != nil {
			c.stmts(g.lit.Body.List, nil)
		} else {
			c.call(g.call, nil, false)
		}
		svcRoots = append(svcRoots, root)
	}
	var b strings.Builder
	b.WriteString("(* GENERATED by /verif/gofacts (blocking.go) from the Go source under /repo — do not edit.\n")
	b.WriteString("   Call graph of pkg/wal, pkg/engine/storage and pkg/replication from the client read/write\n")
	b.WriteString("   entry points and from the replication service entry points, with the mutexes held at each\n")
	b.WriteString("   site.  Syntactic analysis; approximations: block-structured lock sets (a branch ending in\n")
	b.WriteString("   return does not leak, joins intersect, loops balanced, deferred unlock = held to the end),\n")
	b.WriteString("   one lock per (type, field), interface calls resolved to every type of these packages that\n")
	b.WriteString("   declares the interface's methods, function literals analysed where they are called or\n")
	b.WriteString("   handed to a function of these packages, `go` statements are roots with no lock held. *)\n")
	b.WriteString("From Coq Require Import List String.\nImport ListNotations.\nOpen Scope string_scope.\n\n")
	b.WriteString("Record bsite := mkBS { bs_root : string; bs_fn : string; bs_op : string; bs_kind : string;\n  bs_guard : string; bs_held : list string; bs_path : list string }.\n")
	b.WriteString("Record ledge := mkLE { le_from : string; le_to : string; le_mode : string; le_fn : string;\n  le_root : string; le_path : list string }.\n\n")
	fmt.Fprintf(&b, "Definition client_roots : list string := %s.\n", coqStrs(blockingClientRoots))
	fmt.Fprintf(&b, "Definition missing_roots : list string := %s.\n", coqStrs(missing))
	fmt.Fprintf(&b, "Definition service_roots : list string := %s.\n\n", coqStrs(svcRoots))
	// sites: dedupe on (root, fn, op, held)
	seen := map[string]bool{}
	var sites []bSite
	for _, s := range a.sites {
		k := s.root + "|" + s.fn + "|" + s.op + "|" + s.guard + "|" + heldKey(s.held)
		if seen[k] {
			continue
		}
		seen[k] = true
		sites = append(sites, s)
	}
	sort.SliceStable(sites, func(i, j int) bool {
		if sites[i].root != sites[j].root {
			return sites[i].root < sites[j].root
		}
		if sites[i].fn != sites[j].fn {
			return sites[i].fn < sites[j].fn
		}
		return sites[i].op+heldKey(sites[i].held) < sites[j].op+heldKey(sites[j].held)
	})
	cands := map[string]bool{}
	for _, s := range sites {
		if s.guard != "" {
			cands[s.guard] = true
		}
	}
	b.WriteString("(* struct fields that every composite literal of their type in these packages sets (to something\n   other than nil) and that nothing assigns afterwards: a site with bs_guard = such a field sits\n   inside `if x.field == nil { .. }` and is not reached for values built by this code *)\n")
	fmt.Fprintf(&b, "Definition always_set_fields : list string := %s.\n\n", coqStrs(a.alwaysSetFields(cands)))
	b.WriteString("(* operations that may wait for another party, with the locks held when they run *)\n")
	b.WriteString("Definition blocking_sites : list bsite := [\n")
	for i, s := range sites {
		sep := ";"
		if i == len(sites)-1 {
			sep = ""
		}
		held := make([]string, len(s.held))
		for j, h := range s.held {
			held[j] = h
		}
		fmt.Fprintf(&b, "  mkBS %s %s %s %s %s %s\n    %s%s\n", bCoqStr(s.root), bCoqStr(s.fn), bCoqStr(s.op), bCoqStr(s.kind), bCoqStr(s.guard), coqStrs(held), coqStrs(s.path), sep)
	}
	b.WriteString("].\n\n")
	var keys []string
	for k := range a.edges {
		keys = append(keys, k)
	}
	sort.Strings(keys)
	b.WriteString("(* lock order: le_to was acquired while le_from was held (first path found; modes held>acquired) *)\n")
	b.WriteString("Definition lock_edges : list ledge := [\n")
	for i, k := range keys {
		e := a.edges[k]
		sep := ";"
		if i == len(keys)-1 {
			sep = ""
		}
		fmt.Fprintf(&b, "  mkLE %s %s %s %s %s\n    %s%s\n", bCoqStr(e.from), bCoqStr(e.to), bCoqStr(e.mode), bCoqStr(e.fn), bCoqStr(e.root), coqStrs(e.path), sep)
	}
	b.WriteString("].\n\n")
	b.WriteString("(* functions reachable from each client root *)\n")
	b.WriteString("Definition reachable : list (string * list string) := [\n")
	for i, r := range blockingClientRoots {
		var fs []string
		for f := range a.reach[r] {
			fs = append(fs, f)
		}
		sort.Strings(fs)
		sep := ";"
		if i == len(blockingClientRoots)-1 {
			sep = ""
		}
		fmt.Fprintf(&b, "  (%s, %s)%s\n", bCoqStr(r), coqStrs(fs), sep)
	}
	b.WriteString("].\n\n")
	var un []string
	for k := range a.unresolved {
		un = append(un, k)
	}
	sort.Strings(un)
	b.WriteString("(* calls whose target the resolver could not determine (function values, untyped receivers) *)\n")
	fmt.Fprintf(&b, "Definition unresolved_calls : list string := %s.\n", coqStrs(un))
	return "Blocking.v", b.String()
}
