(* Block.v — byte-exact model of one block of an SSTable (data blocks and the index block
   share the format): block_builder.go Builder.Finish (encoder), block_reader.go NewReader
   and block_iterator.go decodeNext/decodeCurrent/SeekToFirst/Next/Seek/SeekForPrev/SeekToLast
   (decoder). Model only; theorems are in BlockProofs.v. *)
From KV Require Export Bytes Engine Xxhash.
From KV.gen Require Import Consts.
Open Scope N_scope.

Definition RI : N := block_RestartInterval.
Definition TOMB : N := block_TombstoneMarker.
Definition BFOOT : N := block_BlockFooterSize.

(* ---------- encoder (Builder.Finish) ---------- *)

Definition val_bytes (v : option bytes) : bytes :=
  match v with
  | None => le 4 TOMB
  | Some v => le 4 (len v) ++ v
  end.

Fixpoint common_prefix (a b : bytes) : nat :=
  match a, b with
  | x :: a', y :: b' => if x =? y then S (common_prefix a' b') else O
  | _, _ => O
  end.

(* a restart entry stores [keylen u16 | key], the others [shared u16 | unshared u16 | suffix];
   then [seq u64 | value length u32 or 0xFFFFFFFF | value]. The u16/u32 casts truncate. *)
Definition enc_key (restart : bool) (prev k : bytes) : bytes :=
  if restart then le 2 (len k) ++ k
  else let c := common_prefix prev k in
       le 2 (N.of_nat c) ++ le 2 (len k - N.of_nat c) ++ skipn c k.

Definition enc_entry (restart : bool) (prev : bytes) (e : sentry) : bytes :=
  enc_key restart prev (sk e) ++ le 8 (sseq e) ++ val_bytes (sval e).

(* Finish fails ("wrote incomplete unshared bytes") when the suffix does not fit 16 bits *)
Definition enc_key_ok (restart : bool) (prev k : bytes) : bool :=
  restart || (len k - N.of_nat (common_prefix prev k) <? 65536).

(* entries from offset off on; cnt = restartOffset, first = (i == 0).
   Result: bytes, restart offsets, no error *)
Fixpoint enc_entries (es : list sentry) (first : bool) (cnt : N) (prev : bytes) (off : N)
  : bytes * list N * bool :=
  match es with
  | [] => ([], [], true)
  | e :: r =>
    let restart := first || (RI <=? cnt) in
    let cnt0 := if restart then 0 else cnt in
    let eb := enc_entry restart prev e in
    let '(rb, rs, ok) := enc_entries r false (cnt0 + 1) (sk e) (off + len eb) in
    (eb ++ rb, (if restart then off :: rs else rs), enc_key_ok restart prev (sk e) && ok)
  end.

Definition block_body (es : list sentry) : bytes * list N * bool := enc_entries es true 0 [] 0.

Definition enc_trailer (body : bytes) (rs : list N) : bytes :=
  let pre := body ++ concat (map (le 4) rs) ++ le 4 (N.of_nat (length rs)) in
  pre ++ le 8 (xxh64 pre).

(* None: Finish returns an error (empty block, or a key suffix that does not fit) *)
Definition encode_block (es : list sentry) : option bytes :=
  match es with
  | [] => None
  | _ => let '(body, rs, ok) := block_body es in
         if ok then Some (enc_trailer body rs) else None
  end.

(* ---------- reader (NewReader) ---------- *)

Definition slice (d : bytes) (off n : N) : bytes := firstn (N.to_nat n) (skipn (N.to_nat off) d).

Record breader := mkBR { br_data : bytes; br_restarts : list N; br_end : N }.

Fixpoint read_u32s (n : nat) (d : bytes) : list N :=
  match n with
  | O => []
  | S m => unle (firstn 4 d) :: read_u32s m (skipn 4 d)
  end.

Inductive berr := BTooSmall | BChecksum | BRestarts.

Definition new_reader (d : bytes) : breader + berr :=
  let n := len d in
  if n <? BFOOT then inr BTooSmall else
  let fo := n - BFOOT in
  let nr := unle (slice d fo 4) in
  let ck := unle (slice d (fo + 4) 8) in
  if negb (xxh64 (firstn (N.to_nat (n - 8)) d) =? ck) then inr BChecksum else
  if fo <? nr * 4 then inr BRestarts else
  inl (mkBR d (read_u32s (N.to_nat nr) (skipn (N.to_nat (fo - nr * 4)) d)) (fo - nr * 4)).

(* ---------- iterator ---------- *)

(* currentPos, currentKey (None = nil), currentVal (None = nil), currentSeqNum, initialized *)
Record bit := mkIt { it_pos : N; it_key : option bytes; it_val : option bytes; it_seq : N; it_init : bool }.

Definition it_new : bit := mkIt 0 None None 0 false.

Definition it_invalidate (it : bit) : bit := mkIt (it_pos it) None None 0 (it_init it).
Definition it_set_pos (it : bit) (p : N) : bit := mkIt p (it_key it) (it_val it) (it_seq it) (it_init it).
Definition it_set_kv (it : bit) (k : bytes) (v : option bytes) : bit :=
  mkIt (it_pos it) (Some k) v (it_seq it) (it_init it).
Definition it_set_init (it : bit) : bit := mkIt (it_pos it) (it_key it) (it_val it) (it_seq it) true.

Definition is_restart (r : breader) (p : N) : bool := existsb (N.eqb p) (br_restarts r).

(* [seq u64 if at least 12 bytes remain][value length u32][value]; returns seq, value,
   bytes consumed — or the bytes consumed before the failure *)
Definition dec_seq_val (d : bytes) : (N * option bytes * N) + N :=
  let '(seq, d1, c1) := if 12 <=? len d then (unle (firstn 8 d), skipn 8 d, 8) else (0, d, 0) in
  if len d1 <? 4 then inr c1 else
  let vl := unle (firstn 4 d1) in
  let d2 := skipn 4 d1 in
  if vl =? TOMB then inl (seq, None, c1 + 4)
  else if len d2 <? vl then inr c1
  else inl (seq, Some (firstn (N.to_nat vl) d2), c1 + 4 + vl).

(* decodeNext: the new iterator state (position advanced, sequence number set; the caller
   stores key and value) and the decoded key/value, or the state left behind by a failure *)
Definition decode_next (r : breader) (it : bit) : bit * option (bytes * option bytes) :=
  if br_end r <=? it_pos it then (it, None) else
  let d := skipn (N.to_nat (it_pos it)) (br_data r) in
  let full := is_restart r (it_pos it) || match it_key it with None => true | Some _ => false end in
  let keyres : option (bytes * bytes * N) :=
    if full then
      if len d <? 2 then None else
      let kl := unle (firstn 2 d) in
      let d1 := skipn 2 d in
      if len d1 <? kl then None else Some (firstn (N.to_nat kl) d1, skipn (N.to_nat kl) d1, 2 + kl)
    else
      if len d <? 4 then None else
      let sh := unle (firstn 2 d) in
      let un := unle (firstn 2 (skipn 2 d)) in
      let d1 := skipn 4 d in
      match it_key it with
      | None => None
      | Some ck =>
        if (len ck mod 65536 <? sh) || (len d1 <? un) || (65536 <? sh + un) then None
        else Some (firstn (N.to_nat sh) ck ++ firstn (N.to_nat un) d1, skipn (N.to_nat un) d1, 4 + un)
      end in
  match keyres with
  | None => (it, None)
  | Some (k, d1, c) =>
    let it1 := it_set_pos it (it_pos it + c) in
    match dec_seq_val d1 with
    | inr c1 => (it_set_pos it1 (it_pos it1 + c1), None)
    | inl (seq, v, c2) =>
      (mkIt (it_pos it1 + c2) (it_key it) (it_val it) seq (it_init it), Some (k, v))
    end
  end.

(* decodeCurrent (used by findRestartPoint on restart points only): always a full key; sets
   key, value and sequence number, leaves the position *)
Definition decode_current (r : breader) (it : bit) : bit * option bytes :=
  if br_end r <=? it_pos it then (it, None) else
  let d := skipn (N.to_nat (it_pos it)) (br_data r) in
  if len d <? 2 then (it, None) else
  let kl := unle (firstn 2 d) in
  let d1 := skipn 2 d in
  if len d1 <? kl then (it, None) else
  let k := firstn (N.to_nat kl) d1 in
  match dec_seq_val (skipn (N.to_nat kl) d1) with
  | inr _ => (it, None)
  | inl (seq, v, _) => (mkIt (it_pos it) (Some k) v seq (it_init it), Some k)
  end.

Definition restart_at (r : breader) (i : nat) : N := nth i (br_restarts r) 0.

(* seekToRestartPoint *)
Definition it_to_restart (r : breader) (it : bit) (i : nat) : bit :=
  it_invalidate (it_set_pos it (restart_at r i)).

(* Iterator.Valid (after f30cabd): currentKey != nil; a decoded key, empty or not, is valid *)
Definition it_valid (it : bit) : bool :=
  match it_key it with Some _ => true | None => false end.

Definition it_seek_first (r : breader) (it : bit) : bit :=
  let it := it_set_init it in
  match br_restarts r with
  | [] => it_invalidate it
  | _ => let (it1, kv) := decode_next r (it_to_restart r it 0) in
         match kv with
         | Some (k, v) => it_set_kv it1 k v
         | None => it_invalidate it1
         end
  end.

(* the loop of SeekToLast: decode until decodeNext fails; the last decoded entry stays *)
Fixpoint it_run_last (r : breader) (fuel : nat) (it : bit) : bit :=
  match fuel with
  | O => it
  | S f => let (it1, kv) := decode_next r it in
           match kv with
           | Some (k, v) => it_run_last r f (it_set_kv it1 k v)
           | None => it1
           end
  end.

Definition it_seek_last (r : breader) (it : bit) : bit :=
  let it := it_set_init it in
  match br_restarts r with
  | [] => it_invalidate it
  | rs => it_run_last r (S (length (br_data r))) (it_to_restart r it (length rs - 1))
  end.

(* findRestartPoint: binary search for the last restart point whose key is <= target *)
Fixpoint find_restart (r : breader) (fuel : nat) (it : bit) (t : bytes) (left right : nat) : bit * option nat :=
  match fuel with
  | O => (it, Some left)
  | S f =>
    if Nat.ltb left right then
      let mid := Nat.div (left + right + 1) 2 in
      let (it1, k) := decode_current r (it_set_pos it (restart_at r mid)) in
      match k with
      | None => (it1, None)
      | Some key => if ble key t then find_restart r f it1 t mid right
                    else find_restart r f it1 t left (mid - 1)
      end
    else (it, Some left)
  end.

(* the scan loop of Seek: first key >= target *)
Fixpoint it_run_seek (r : breader) (fuel : nat) (it : bit) (t : bytes) : bit * bool :=
  match fuel with
  | O => (it_invalidate it, false)
  | S f => let (it1, kv) := decode_next r it in
           match kv with
           | None => (it_invalidate it1, false)
           | Some (k, v) => let it2 := it_set_kv it1 k v in
                            if ble t k then (it2, true) else it_run_seek r f it2 t
           end
  end.

Definition it_seek (r : breader) (it : bit) (t : bytes) : bit * bool :=
  let it := it_set_init it in
  match br_restarts r with
  | [] => (it_invalidate it, false)
  | rs =>
    match find_restart r (S (length rs)) it t 0 (length rs - 1) with
    | (it1, None) => (it_invalidate it1, false)
    | (it1, Some i) => it_run_seek r (S (length (br_data r))) (it_to_restart r it1 i) t
    end
  end.

(* the scan loop of SeekForPrev: as long as the next key is <= target *)
Fixpoint it_run_prev (r : breader) (fuel : nat) (it : bit) (t : bytes) : bit :=
  match fuel with
  | O => it
  | S f => let (it1, kv) := decode_next r it in
           match kv with
           | None => it
           | Some (k, v) => if ble k t then it_run_prev r f (it_set_kv it1 k v) t else it
           end
  end.

Definition it_seek_prev (r : breader) (it : bit) (t : bytes) : bit * bool :=
  let it := it_set_init it in
  match br_restarts r with
  | [] => (it_invalidate it, false)
  | rs =>
    match find_restart r (S (length rs)) it t 0 (length rs - 1) with
    | (it1, None) => (it_invalidate it1, false)
    | (it1, Some i) => let it2 := it_run_prev r (S (length (br_data r))) (it_to_restart r it1 i) t in
                       (it2, it_valid it2)
    end
  end.

Definition it_next (r : breader) (it : bit) : bit * bool :=
  if negb (it_init it) then let it1 := it_seek_first r it in (it1, it_valid it1)
  else match it_key it with
       | None => (it, false)
       | Some _ => let (it1, kv) := decode_next r it in
                   match kv with
                   | Some (k, v) => (it_set_kv it1 k v, true)
                   | None => (mkIt (it_pos it1) None None (it_seq it1) (it_init it1), false)
                   end
       end.

(* the entry under the iterator *)
Definition it_entry (it : bit) : option sentry :=
  match it_key it with Some k => Some (mkS k (it_seq it) (it_val it)) | None => None end.

(* for SeekToFirst; Valid; Next *)
Fixpoint it_collect (r : breader) (fuel : nat) (it : bit) : list sentry :=
  match fuel with
  | O => []
  | S f => if it_valid it
           then match it_entry it with
                | Some e => e :: it_collect r f (fst (it_next r it))
                | None => []
                end
           else []
  end.

Definition block_scan (r : breader) : list sentry :=
  it_collect r (S (length (br_data r))) (it_seek_first r it_new).

Definition decode_block (d : bytes) : option (list sentry) :=
  match new_reader d with inl r => Some (block_scan r) | inr _ => None end.
