(* MemtableHeld.v — C18, second sentence: an iterator HELD while the single writer goes on
   inserting (Memtable.v: hiter, after, first_visible, h_new, h_first, h_seek, h_next).
   For every interleaving of writer inserts with Next calls:
     ORDER         the entries the iterator stands on are strictly sorted (key ascending, then
                   sequence number descending): it never goes backwards, never shows an entry twice;
     SOUNDNESS     each of them is in the table at that moment and visible under the snapshot;
     COMPLETENESS  an iterator that runs to exhaustion has shown every entry its snapshot
                   showed when it was positioned (Seek: those with key >= target);
     SNAPSHOT      with a non-zero snapshot nothing numbered above it is shown; when the writer
                   only uses numbers above it (or the table is immutable) the iterator shows
                   EXACTLY the snapshot contents.
   Hypotheses: the table is sorted and no two nodes carry the same (key, sequence number), and
   the writer's new entries are distinct from all (key, seq) pairs present and from each other.
   The engine satisfies this: every write gets its sequence number from the WAL, which hands
   out strictly increasing numbers, so a pair is never reused. *)
From Coq Require Import List NArith Bool Lia ZifyN ZifyBool Sorted Permutation.
From KV Require Import Bytes Memtable MemtableProofs.
Import ListNotations.
Open Scope N_scope.

(* ------------------------------------------------------------------------------------- *)
(* H1. nodes, strict order, strictly sorted lists                                         *)
(* ------------------------------------------------------------------------------------- *)

(* what identifies a skip-list node *)
Definition node (e : mentry) : bytes * N := (mk e, mseq e).

Definition nodup_nodes (l : list mentry) : Prop := NoDup (map node l).

Lemma same_node_true_iff : forall a b, same_node a b = true <-> node a = node b.
Proof.
  intros a b. unfold same_node, node. rewrite andb_true_iff, beq_true_iff, N.eqb_eq. split.
  - intros [H1 H2]. congruence.
  - intros H. injection H as H1 H2. split; assumption.
Qed.

Lemma same_node_refl : forall a, same_node a a = true.
Proof. intros a. apply same_node_true_iff. reflexivity. Qed.

(* computable check of nodup_nodes, for examples *)
Fixpoint nodup_nodesb (l : list mentry) : bool :=
  match l with
  | [] => true
  | x :: r => negb (existsb (same_node x) r) && nodup_nodesb r
  end.

Lemma nodup_nodesb_ok : forall l, nodup_nodesb l = true -> nodup_nodes l.
Proof.
  induction l as [|x r IH]; intros H; [constructor|].
  cbn [nodup_nodesb] in H. apply andb_true_iff in H. destruct H as [H1 H2].
  unfold nodup_nodes. cbn [map]. constructor; [|apply IH; exact H2].
  intros I. apply in_map_iff in I. destruct I as (y & E & Hy).
  apply negb_true_iff in H1.
  assert (X : existsb (same_node x) r = true).
  { apply existsb_exists. exists y. split; [exact Hy|]. apply same_node_true_iff. auto. }
  congruence.
Qed.

(* strictly before in the list order: smaller key, or same key and larger sequence number *)
Definition slt (a b : mentry) : Prop := elt a b = true.
Definition key_seq_lt (a b : mentry) : Prop :=
  bcmp (mk a) (mk b) = Lt \/ (mk a = mk b /\ mseq b < mseq a).

Lemma slt_iff : forall a b, slt a b <-> key_seq_lt a b.
Proof. intros a b. apply elt_true_iff. Qed.

Definition ssorted (l : list mentry) : Prop := StronglySorted slt l.

Lemma slt_trans : forall a b c, slt a b -> slt b c -> slt a c.
Proof. intros a b c. apply elt_trans. Qed.

Lemma slt_irrefl : forall a, ~ slt a a.
Proof. intros a H. unfold slt in H. rewrite elt_irrefl in H. discriminate. Qed.

Lemma slt_asym : forall a b, slt a b -> elt b a = false.
Proof. intros a b H. apply elt_asym. exact H. Qed.

Lemma slt_ele : forall a b, slt a b -> ele a b.
Proof. intros a b H. apply slt_asym. exact H. Qed.

Lemma node_eq_elt_l : forall a b y, node a = node b -> elt a y = elt b y.
Proof.
  intros a b y H. unfold node in H. injection H as H1 H2. unfold elt. rewrite H1, H2. reflexivity.
Qed.

Lemma node_eq_elt_r : forall a b y, node a = node b -> elt y a = elt y b.
Proof.
  intros a b y H. unfold node in H. injection H as H1 H2. unfold elt. rewrite H1, H2. reflexivity.
Qed.

Lemma slt_node_neq : forall a b, slt a b -> node a <> node b.
Proof.
  intros a b H E. unfold slt in H. rewrite (node_eq_elt_l a b b E), elt_irrefl in H. discriminate.
Qed.

Lemma ele_neq_slt : forall a b, ele a b -> node a <> node b -> slt a b.
Proof.
  intros a b H N. unfold slt. destruct (elt a b) eqn:E; [reflexivity|]. exfalso. apply N.
  destruct (ele_antisym a b H E) as [K S]. unfold node. rewrite K, S. reflexivity.
Qed.

Lemma ssorted_of_sorted : forall l, sorted l -> nodup_nodes l -> ssorted l.
Proof.
  induction l as [|x r IH]; intros Hs Hn; [constructor|].
  apply sorted_cons_inv in Hs. destruct Hs as [Hs Hf].
  unfold nodup_nodes in Hn. cbn [map] in Hn. inversion Hn as [|a b Hni Hn']; subst a b.
  constructor; [apply IH; assumption|].
  rewrite Forall_forall in *. intros y Hy. apply ele_neq_slt; [apply Hf; exact Hy|].
  intros E. apply Hni. rewrite E. apply in_map. exact Hy.
Qed.

Lemma ssorted_sorted : forall l, ssorted l -> sorted l.
Proof.
  intros l H. apply sorted_strong. induction H as [|x r Hs IH Hf]; constructor; [exact IH|].
  rewrite Forall_forall in *. intros y Hy. apply slt_ele. apply Hf. exact Hy.
Qed.

Lemma ssorted_nodup : forall l, ssorted l -> nodup_nodes l.
Proof.
  intros l H. unfold nodup_nodes. induction H as [|x r Hs IH Hf]; cbn [map]; constructor; [|exact IH].
  intros I. apply in_map_iff in I. destruct I as (y & E & Hy).
  rewrite Forall_forall in Hf. apply (slt_node_neq x y (Hf y Hy)). auto.
Qed.

Theorem ssorted_iff : forall l, ssorted l <-> sorted l /\ nodup_nodes l.
Proof.
  intros l. split.
  - intros H. split; [apply ssorted_sorted|apply ssorted_nodup]; exact H.
  - intros [H1 H2]. apply ssorted_of_sorted; assumption.
Qed.

Lemma ssorted_cons_inv : forall x l, ssorted (x :: l) -> ssorted l /\ forall y, In y l -> slt x y.
Proof.
  intros x l H. inversion H as [|a b Hs Hf]; subst. split; [exact Hs|].
  rewrite Forall_forall in Hf. exact Hf.
Qed.

Lemma nodup_nodes_perm : forall l1 l2, Permutation l1 l2 -> nodup_nodes l1 -> nodup_nodes l2.
Proof.
  intros l1 l2 P H. unfold nodup_nodes in *.
  eapply Permutation_NoDup; [apply Permutation_map; exact P|exact H].
Qed.

Lemma nodup_nodes_cons : forall e l, nodup_nodes (e :: l) <->
  (forall x, In x l -> node x <> node e) /\ nodup_nodes l.
Proof.
  intros e l. unfold nodup_nodes. cbn [map]. split.
  - intros H. inversion H as [|a b Hni Hn]; subst a b. split; [|exact Hn].
    intros x Hx E. apply Hni. rewrite <- E. apply in_map. exact Hx.
  - intros [H1 H2]. constructor; [|exact H2]. intros I. apply in_map_iff in I.
    destruct I as (y & E & Hy). exact (H1 y Hy E).
Qed.

Lemma nodup_nodes_app_r : forall l1 l2, nodup_nodes (l1 ++ l2) -> nodup_nodes l2.
Proof.
  induction l1 as [|x r IH]; intros l2 H; [exact H|].
  apply IH. cbn [app] in H. apply nodup_nodes_cons in H. apply H.
Qed.

Lemma ssorted_insert : forall e l, ssorted l -> (forall x, In x l -> node x <> node e) ->
  ssorted (insert e l).
Proof.
  intros e l Hs Hf. apply ssorted_of_sorted.
  - apply insert_sorted. apply ssorted_sorted. exact Hs.
  - apply (nodup_nodes_perm (e :: l)); [apply Permutation_sym; apply insert_perm|].
    apply nodup_nodes_cons. split; [exact Hf|apply ssorted_nodup; exact Hs].
Qed.

Lemma ssorted_filter : forall p l, ssorted l -> ssorted (filter p l).
Proof.
  intros p l Hs. induction Hs as [|x r Hs IH Hf]; cbn [filter]; [constructor|].
  destruct (p x); [|exact IH]. constructor; [exact IH|].
  rewrite Forall_forall in *. intros y Hy. apply filter_In in Hy. apply Hf. apply Hy.
Qed.

(* the first entry of a strictly sorted list that passes a test is the least one passing it *)
Lemma ssorted_head : forall p l, ssorted l ->
  match filter p l with
  | [] => forall z, In z l -> p z = false
  | y :: _ => In y l /\ p y = true /\ forall z, In z l -> p z = true -> z = y \/ slt y z
  end.
Proof.
  intros p l Hs. pose proof (ssorted_filter p l Hs) as Hf.
  destruct (filter p l) as [|y rest] eqn:F.
  - intros z Hz. destruct (p z) eqn:P; [|reflexivity]. exfalso.
    assert (I : In z (filter p l)) by (apply filter_In; split; assumption).
    rewrite F in I. exact I.
  - assert (Iy : In y (filter p l)) by (rewrite F; left; reflexivity).
    apply filter_In in Iy. destruct Iy as [Iy Py]. split; [exact Iy|]. split; [exact Py|].
    intros z Hz Pz.
    assert (I : In z (filter p l)) by (apply filter_In; split; assumption).
    rewrite F in I. destruct I as [I|I]; [left; symmetry; exact I|right].
    apply ssorted_cons_inv in Hf. destruct Hf as [_ Hf]. apply Hf. exact I.
Qed.

(* two strictly sorted lists with the same members are equal *)
Lemma ssorted_ext : forall l1 l2, ssorted l1 -> ssorted l2 ->
  (forall x, In x l1 <-> In x l2) -> l1 = l2.
Proof.
  induction l1 as [|a r1 IH]; intros [|b r2] S1 S2 H.
  - reflexivity.
  - exfalso. apply (H b). left. reflexivity.
  - exfalso. apply (H a). left. reflexivity.
  - apply ssorted_cons_inv in S1. destruct S1 as [S1 F1].
    apply ssorted_cons_inv in S2. destruct S2 as [S2 F2].
    assert (E : a = b).
    { assert (Ia : In a (b :: r2)) by (apply H; left; reflexivity).
      assert (Ib : In b (a :: r1)) by (apply H; left; reflexivity).
      destruct Ia as [Ia|Ia]; [auto|]. destruct Ib as [Ib|Ib]; [auto|].
      exfalso. apply (slt_irrefl a). eapply slt_trans; [apply F1; exact Ib|apply F2; exact Ia]. }
    subst b. f_equal. apply IH; [exact S1|exact S2|].
    intros x. split; intros Hx.
    + assert (I : In x (a :: r2)) by (apply H; right; exact Hx).
      destruct I as [I|I]; [|exact I]. subst x. exfalso. exact (slt_irrefl a (F1 a Hx)).
    + assert (I : In x (a :: r1)) by (apply H; right; exact Hx).
      destruct I as [I|I]; [|exact I]. subst x. exfalso. exact (slt_irrefl a (F2 a Hx)).
Qed.

Lemma StronglySorted_impl : forall (A : Type) (R1 R2 : A -> A -> Prop) l,
  (forall a b, R1 a b -> R2 a b) -> StronglySorted R1 l -> StronglySorted R2 l.
Proof.
  intros A R1 R2 l I H. induction H as [|x r Hs IH Hf]; constructor; [exact IH|].
  rewrite Forall_forall in *. intros y Hy. apply I. apply Hf. exact Hy.
Qed.

Lemma Sorted_slt_ssorted : forall l, Sorted slt l -> ssorted l.
Proof. intros l H. apply Sorted_StronglySorted; [|exact H]. intros a b c. apply slt_trans. Qed.

(* ------------------------------------------------------------------------------------- *)
(* H2. the chain after a node: on a strictly sorted list, the entries strictly behind it  *)
(* ------------------------------------------------------------------------------------- *)

Lemma after_incl : forall e l y, In y (after e l) -> In y l.
Proof.
  intros e l y. induction l as [|x r IH]; cbn [after]; [auto|].
  destruct (same_node x e); intros H; [right; exact H|right; apply IH; exact H].
Qed.

Theorem after_filter : forall e l, ssorted l -> In e l -> after e l = filter (elt e) l.
Proof.
  intros e l Hs. induction Hs as [|x r Hs IH Hf]; intros Hin; [destruct Hin|].
  cbn [after filter]. rewrite Forall_forall in Hf.
  destruct (same_node x e) eqn:S.
  - apply same_node_true_iff in S.
    assert (X : elt e x = false) by (rewrite <- (node_eq_elt_l x e x S); apply elt_irrefl).
    rewrite X. symmetry. apply filter_all. intros y Hy.
    rewrite <- (node_eq_elt_l x e y S). apply Hf. exact Hy.
  - destruct Hin as [Hin|Hin].
    + subst x. rewrite same_node_refl in S. discriminate.
    + assert (X : elt e x = false) by (apply slt_asym; apply Hf; exact Hin).
      rewrite X. apply IH. exact Hin.
Qed.

Lemma insert_front : forall x l, (forall z, In z l -> elt z x = false) -> insert x l = x :: l.
Proof.
  intros x [|y r] H; [reflexivity|]. cbn [insert]. rewrite (H y (or_introl eq_refl)). reflexivity.
Qed.

(* filtering commutes with the sorted insert *)
Lemma filter_insert : forall p x l, sorted l ->
  filter p (insert x l) = if p x then insert x (filter p l) else filter p l.
Proof.
  intros p x l. induction l as [|y r IH]; intros Hs.
  - cbn [insert filter]. destruct (p x); reflexivity.
  - pose proof Hs as Hs0. apply sorted_cons_inv in Hs. destruct Hs as [Hs Hf].
    specialize (IH Hs). cbn [insert]. destruct (elt y x) eqn:E.
    + cbn [filter]. rewrite IH. destruct (p x); [|reflexivity].
      destruct (p y); [|reflexivity]. cbn [insert]. rewrite E. reflexivity.
    + change (filter p (x :: y :: r)) with (if p x then x :: filter p (y :: r) else filter p (y :: r)).
      destruct (p x); [|reflexivity]. symmetry. apply insert_front.
      intros z Hz. apply filter_In in Hz. destruct Hz as [Hz _].
      assert (Hyz : ele y z).
      { destruct Hz as [Hz|Hz]; [subst z; apply ele_refl|].
        rewrite Forall_forall in Hf. apply Hf. exact Hz. }
      exact (ele_trans x y z E Hyz).
Qed.

(* the key lemma on the live chain: an insert elsewhere leaves the chain behind the node the
   iterator stands on unchanged, or adds the new entry to it at its sorted place *)
Theorem after_insert : forall e x l, ssorted l -> In e l ->
  (forall z, In z l -> node z <> node x) ->
  after e (insert x l) = if elt e x then insert x (after e l) else after e l.
Proof.
  intros e x l Hs Hin Hf.
  rewrite after_filter by (try apply ssorted_insert; try apply insert_in; auto).
  rewrite after_filter by assumption.
  apply filter_insert. apply ssorted_sorted. exact Hs.
Qed.

Lemma first_visible_some : forall s l y, first_visible s l = Some y ->
  In y l /\ visible s y = true.
Proof.
  intros s l y H. unfold first_visible in H.
  destruct (filter (visible s) l) as [|z rest] eqn:F; [discriminate|]. injection H as ->.
  apply filter_In. rewrite F. left. reflexivity.
Qed.

Lemma first_visible_spec : forall s l, ssorted l ->
  match first_visible s l with
  | None => forall z, In z l -> visible s z = false
  | Some y => In y l /\ visible s y = true /\
              forall z, In z l -> visible s z = true -> z = y \/ slt y z
  end.
Proof.
  intros s l Hs. unfold first_visible. pose proof (ssorted_head (visible s) l Hs) as H.
  destruct (filter (visible s) l); exact H.
Qed.

Lemma seek_ge_incl : forall t l y, In y (seek_ge t l) -> In y l.
Proof.
  intros t l y H. destruct (seek_ge_split t l) as (pre & E & _). rewrite E.
  apply in_or_app. right. exact H.
Qed.

(* ------------------------------------------------------------------------------------- *)
(* H3. interleaved runs                                                                   *)
(* ------------------------------------------------------------------------------------- *)

(* one step of the world: the writer inserts an entry (MemTable.Put/Delete), or the holder of
   the iterator calls Next *)
Inductive hev := HWrite (e : mentry) | HNext.

Definition optl (o : option mentry) : list mentry :=
  match o with Some x => [x] | None => [] end.

(* the table and the iterator after the events, and the entries the iterator came to stand on
   by its Next calls, in order *)
Fixpoint held_run (m : memtable) (h : hiter) (evs : list hev) : memtable * hiter * list mentry :=
  match evs with
  | [] => (m, h, [])
  | HWrite e :: r => held_run (mt_add m e) h r
  | HNext :: r =>
      let h' := h_next m h in
      let '(m', h'', ys) := held_run m h' r in (m', h'', optl (h_cur h') ++ ys)
  end.

Definition held_mt (m : memtable) (h : hiter) (evs : list hev) : memtable := fst (fst (held_run m h evs)).
Definition held_it (m : memtable) (h : hiter) (evs : list hev) : hiter := snd (fst (held_run m h evs)).
Definition held_out (m : memtable) (h : hiter) (evs : list hev) : list mentry := snd (held_run m h evs).

(* everything the iterator showed: where the positioning (First / Seek) put it, then the Nexts *)
Definition held_yield (m : memtable) (h : hiter) (evs : list hev) : list mentry :=
  optl (h_cur h) ++ held_out m h evs.

(* the entries the writer inserts during the run *)
Fixpoint writes (evs : list hev) : list mentry :=
  match evs with
  | [] => []
  | HWrite e :: r => e :: writes r
  | HNext :: r => writes r
  end.

(* well-formedness of the table and of the writer: sorted, and no (key, seq) pair twice among
   the nodes present and the nodes to be written.  (The WAL hands out strictly increasing
   sequence numbers, so the engine's writer satisfies the second part.) *)
Definition held_wf (m : memtable) (evs : list hev) : Prop :=
  sorted (mt_entries m) /\ nodup_nodes (writes evs ++ mt_entries m).

(* the iterator stands on a node of the table that its snapshot shows (or is exhausted) *)
Definition positioned (m : memtable) (h : hiter) : Prop :=
  forall e, h_cur h = Some e -> In e (mt_entries m) /\ visible (h_snap h) e = true.

Lemma held_run_next : forall m h r,
  held_run m h (HNext :: r) =
  (held_mt m (h_next m h) r, held_it m (h_next m h) r,
   optl (h_cur (h_next m h)) ++ held_out m (h_next m h) r).
Proof.
  intros m h r. unfold held_mt, held_it, held_out. cbn [held_run].
  destruct (held_run m (h_next m h) r) as [[m' h''] ys]. reflexivity.
Qed.

Lemma held_mt_next : forall m h r, held_mt m h (HNext :: r) = held_mt m (h_next m h) r.
Proof. intros m h r. unfold held_mt at 1. rewrite held_run_next. reflexivity. Qed.

Lemma held_it_next : forall m h r, held_it m h (HNext :: r) = held_it m (h_next m h) r.
Proof. intros m h r. unfold held_it at 1. rewrite held_run_next. reflexivity. Qed.

Lemma held_out_next : forall m h r,
  held_out m h (HNext :: r) = optl (h_cur (h_next m h)) ++ held_out m (h_next m h) r.
Proof. intros m h r. unfold held_out at 1. rewrite held_run_next. reflexivity. Qed.

Lemma held_mt_write : forall m h e r, held_mt m h (HWrite e :: r) = held_mt (mt_add m e) h r.
Proof. reflexivity. Qed.

Lemma held_it_write : forall m h e r, held_it m h (HWrite e :: r) = held_it (mt_add m e) h r.
Proof. reflexivity. Qed.

Lemma held_out_write : forall m h e r, held_out m h (HWrite e :: r) = held_out (mt_add m e) h r.
Proof. reflexivity. Qed.

Lemma h_next_snap : forall m h, h_snap (h_next m h) = h_snap h.
Proof. intros m h. unfold h_next. destruct (h_cur h); reflexivity. Qed.

Lemma h_next_none : forall m h, h_cur h = None -> h_next m h = h.
Proof. intros m h H. unfold h_next. rewrite H. reflexivity. Qed.

Lemma held_it_snap : forall evs m h, h_snap (held_it m h evs) = h_snap h.
Proof.
  induction evs as [|[w|] r IH]; intros m h.
  - reflexivity.
  - rewrite held_it_write. apply IH.
  - rewrite held_it_next, IH. apply h_next_snap.
Qed.

(* an exhausted iterator stays exhausted and shows nothing more *)
Lemma held_out_none : forall evs m h, h_cur h = None -> held_out m h evs = [].
Proof.
  induction evs as [|[w|] r IH]; intros m h H.
  - reflexivity.
  - rewrite held_out_write. apply IH. exact H.
  - rewrite held_out_next, (h_next_none m h H), H. cbn [optl app]. apply IH. exact H.
Qed.

Lemma held_it_none : forall evs m h, h_cur h = None -> h_cur (held_it m h evs) = None.
Proof.
  induction evs as [|[w|] r IH]; intros m h H.
  - exact H.
  - rewrite held_it_write. apply IH. exact H.
  - rewrite held_it_next, (h_next_none m h H). apply IH. exact H.
Qed.

Lemma mt_add_in : forall m e x, In x (mt_entries m) -> In x (mt_entries (mt_add m e)).
Proof.
  intros m e x H. unfold mt_add. destruct (mt_imm m); [exact H|].
  cbn [mt_entries]. apply insert_in. right. exact H.
Qed.

Lemma mt_add_in_inv : forall m e x, In x (mt_entries (mt_add m e)) -> x = e \/ In x (mt_entries m).
Proof.
  intros m e x H. unfold mt_add in H. destruct (mt_imm m); [right; exact H|].
  cbn [mt_entries] in H. apply insert_in in H. exact H.
Qed.

(* the table only grows, and only by what the writer inserts *)
Lemma held_mt_mono : forall evs m h x, In x (mt_entries m) -> In x (mt_entries (held_mt m h evs)).
Proof.
  induction evs as [|[w|] r IH]; intros m h x H.
  - exact H.
  - rewrite held_mt_write. apply IH. apply mt_add_in. exact H.
  - rewrite held_mt_next. apply IH. exact H.
Qed.

Lemma held_mt_from : forall evs m h x, In x (mt_entries (held_mt m h evs)) ->
  In x (mt_entries m) \/ In x (writes evs).
Proof.
  induction evs as [|[w|] r IH]; intros m h x H.
  - left. exact H.
  - rewrite held_mt_write in H. apply IH in H. cbn [writes]. destruct H as [H|H].
    + apply mt_add_in_inv in H. destruct H as [H|H]; [right; left; auto|left; exact H].
    + right. right. exact H.
  - rewrite held_mt_next in H. apply IH in H. exact H.
Qed.

Lemma held_mt_imm : forall evs m h, mt_imm m = true -> held_mt m h evs = m.
Proof.
  induction evs as [|[w|] r IH]; intros m h H.
  - reflexivity.
  - rewrite held_mt_write, mt_add_imm by exact H. apply IH. exact H.
  - rewrite held_mt_next. apply IH. exact H.
Qed.

Lemma held_wf_ssorted : forall m evs, held_wf m evs -> ssorted (mt_entries m).
Proof.
  intros m evs [H1 H2]. apply ssorted_of_sorted; [exact H1|].
  eapply nodup_nodes_app_r. exact H2.
Qed.

Lemma held_wf_write : forall m e r, held_wf m (HWrite e :: r) -> held_wf (mt_add m e) r.
Proof.
  intros m e r [H1 H2]. cbn [writes app] in H2. unfold held_wf, mt_add.
  destruct (mt_imm m).
  - split; [exact H1|]. apply nodup_nodes_cons in H2. apply H2.
  - cbn [mt_entries]. split; [apply insert_sorted; exact H1|].
    apply (nodup_nodes_perm (e :: writes r ++ mt_entries m)); [|exact H2].
    eapply perm_trans; [apply Permutation_middle|].
    apply Permutation_app_head. apply Permutation_sym. apply insert_perm.
Qed.

Lemma held_wf_next : forall m r, held_wf m (HNext :: r) -> held_wf m r.
Proof. intros m r H. exact H. Qed.

(* the table the iterator walks is strictly sorted at every moment of the run *)
Theorem held_mt_ssorted : forall evs m h, held_wf m evs ->
  sorted (mt_entries (held_mt m h evs)) /\ nodup_nodes (mt_entries (held_mt m h evs)).
Proof.
  induction evs as [|[w|] r IH]; intros m h W.
  - apply ssorted_iff. eapply held_wf_ssorted. exact W.
  - rewrite held_mt_write. apply IH. apply held_wf_write. exact W.
  - rewrite held_mt_next. apply IH. exact W.
Qed.

Lemma positioned_write : forall m h e, positioned m h -> positioned (mt_add m e) h.
Proof.
  intros m h e P x Hx. destruct (P x Hx) as [H1 H2]. split; [apply mt_add_in; exact H1|exact H2].
Qed.

Lemma positioned_next : forall m h, positioned m h -> positioned m (h_next m h).
Proof.
  intros m h P. unfold h_next. destruct (h_cur h) as [e|] eqn:C; [|exact P].
  intros y Hy. cbn [h_cur h_snap] in *. apply first_visible_some in Hy.
  destruct Hy as [H1 H2]. split; [eapply after_incl; exact H1|exact H2].
Qed.

Lemma positioned_first : forall m h, positioned m (h_first m h).
Proof.
  intros m h y Hy. unfold h_first in *. cbn [h_cur h_snap] in *.
  apply first_visible_some in Hy. exact Hy.
Qed.

Lemma positioned_seek : forall t m h, positioned m (h_seek t m h).
Proof.
  intros t m h y Hy. unfold h_seek in *. cbn [h_cur h_snap] in *.
  apply first_visible_some in Hy. destruct Hy as [H1 H2].
  split; [eapply seek_ge_incl; exact H1|exact H2].
Qed.

(* what Next does on a strictly sorted table: it moves to the LEAST node of the table as it
   is now that the snapshot shows and that lies strictly behind the current one *)
Theorem h_next_step : forall m h e, ssorted (mt_entries m) -> h_cur h = Some e ->
  In e (mt_entries m) ->
  match h_cur (h_next m h) with
  | None => forall z, In z (mt_entries m) -> visible (h_snap h) z = true -> ~ slt e z
  | Some y => In y (mt_entries m) /\ visible (h_snap h) y = true /\ slt e y /\
              forall z, In z (mt_entries m) -> visible (h_snap h) z = true -> slt e z ->
                        z = y \/ slt y z
  end.
Proof.
  intros m h e Hs C Hin. unfold h_next. rewrite C. cbn [h_cur]. unfold first_visible.
  rewrite after_filter by assumption.
  pose proof (ssorted_head (visible (h_snap h)) (filter (elt e) (mt_entries m))
                (ssorted_filter _ _ Hs)) as H.
  destruct (filter (visible (h_snap h)) (filter (elt e) (mt_entries m))) as [|y rest].
  - intros z Hz Vz Lz. assert (I : In z (filter (elt e) (mt_entries m))) by (apply filter_In; split; assumption).
    specialize (H z I). congruence.
  - destruct H as (Iy & Vy & Hmin). apply filter_In in Iy. destruct Iy as [Iy Ly].
    split; [exact Iy|]. split; [exact Vy|]. split; [exact Ly|].
    intros z Hz Vz Lz. apply Hmin; [|exact Vz]. apply filter_In. split; assumption.
Qed.

(* ------------------------------------------------------------------------------------- *)
(* H4. ORDER                                                                              *)
(* ------------------------------------------------------------------------------------- *)

Lemma held_order_sorted : forall evs m h, held_wf m evs -> positioned m h ->
  Sorted slt (held_yield m h evs).
Proof.
  induction evs as [|[w|] r IH]; intros m h W P; unfold held_yield.
  - cbn [held_out held_run snd]. rewrite app_nil_r. destruct (h_cur h); repeat constructor.
  - rewrite held_out_write. apply (IH (mt_add m w) h); [apply held_wf_write; exact W|].
    apply positioned_write. exact P.
  - rewrite held_out_next.
    pose proof (IH m (h_next m h) (held_wf_next m r W) (positioned_next m h P)) as S.
    unfold held_yield in S.
    destruct (h_cur h) as [e|] eqn:C.
    + cbn [optl app]. constructor; [exact S|].
      pose proof (h_next_step m h e (held_wf_ssorted m _ W) C (proj1 (P e C))) as N.
      destruct (h_cur (h_next m h)) as [y|] eqn:C'.
      * cbn [optl app]. constructor. apply N.
      * rewrite held_out_none by exact C'. constructor.
    + rewrite (h_next_none m h C) in *. rewrite C in *. exact S.
Qed.

(* ORDER, general form: from any position *)
Theorem held_order : forall m h evs, held_wf m evs -> positioned m h ->
  StronglySorted key_seq_lt (held_yield m h evs).
Proof.
  intros m h evs W P. apply (StronglySorted_impl _ slt); [intros a b; apply slt_iff|].
  apply Sorted_slt_ssorted. apply held_order_sorted; assumption.
Qed.

Lemma held_yield_ssorted : forall m h evs, held_wf m evs -> positioned m h ->
  ssorted (held_yield m h evs).
Proof. intros m h evs W P. apply Sorted_slt_ssorted. apply held_order_sorted; assumption. Qed.

(* in particular: sorted in the table's order, no node twice, no entry twice *)
Corollary held_order_nodup : forall m h evs, held_wf m evs -> positioned m h ->
  sorted (held_yield m h evs) /\ nodup_nodes (held_yield m h evs) /\ NoDup (held_yield m h evs).
Proof.
  intros m h evs W P. pose proof (held_yield_ssorted m h evs W P) as S.
  split; [apply ssorted_sorted; exact S|]. split; [apply ssorted_nodup; exact S|].
  apply (NoDup_map_inv node). apply ssorted_nodup. exact S.
Qed.

Theorem held_first_order : forall m0 evs, held_wf m0 evs ->
  StronglySorted key_seq_lt (held_yield m0 (h_first m0 (h_new m0)) evs).
Proof. intros m0 evs W. apply held_order; [exact W|apply positioned_first]. Qed.

Theorem held_seek_order : forall t m0 evs, held_wf m0 evs ->
  StronglySorted key_seq_lt (held_yield m0 (h_seek t m0 (h_new m0)) evs).
Proof. intros t m0 evs W. apply held_order; [exact W|apply positioned_seek]. Qed.

(* ------------------------------------------------------------------------------------- *)
(* H5. SOUNDNESS                                                                          *)
(* ------------------------------------------------------------------------------------- *)

(* at that time: whatever a positioning or a Next lands on is a node of the table as it is
   at that moment, and the snapshot shows it.  No hypothesis on the table is needed. *)
Theorem h_first_sound : forall m h y, h_cur (h_first m h) = Some y ->
  In y (mt_entries m) /\ visible (h_snap h) y = true.
Proof. intros m h y Hy. exact (positioned_first m h y Hy). Qed.

Theorem h_seek_sound : forall t m h y, h_cur (h_seek t m h) = Some y ->
  In y (mt_entries m) /\ visible (h_snap h) y = true /\
  (sorted (mt_entries m) -> blt (mk y) t = false).
Proof.
  intros t m h y Hy. destruct (positioned_seek t m h y Hy) as [H1 H2].
  split; [exact H1|]. split; [exact H2|]. intros Hs.
  unfold h_seek in Hy. cbn [h_cur] in Hy. apply first_visible_some in Hy.
  pose proof (seek_ge_sorted t _ Hs) as F. rewrite Forall_forall in F. apply F. apply Hy.
Qed.

Theorem h_next_sound : forall m h y, h_cur h <> None -> h_cur (h_next m h) = Some y ->
  In y (mt_entries m) /\ visible (h_snap h) y = true.
Proof.
  intros m h y C Hy. unfold h_next in Hy. destruct (h_cur h) as [e|]; [|congruence].
  cbn [h_cur] in Hy. apply first_visible_some in Hy. destruct Hy as [H1 H2].
  split; [eapply after_incl; exact H1|exact H2].
Qed.

(* over a whole run: everything shown is (still) in the table at the end, came from the
   initial table or from the writer, and is visible under the snapshot *)
Lemma held_sound_gen : forall evs m h y, positioned m h -> In y (held_yield m h evs) ->
  In y (mt_entries (held_mt m h evs)) /\ visible (h_snap h) y = true.
Proof.
  induction evs as [|[w|] r IH]; intros m h y P H; unfold held_yield in H.
  - cbn [held_out held_run snd] in H. rewrite app_nil_r in H.
    destruct (h_cur h) as [e|] eqn:C; [|destruct H]. destruct H as [H|[]]. subst y.
    exact (P e C).
  - rewrite held_out_write in H. rewrite held_mt_write.
    apply (IH (mt_add m w) h y); [apply positioned_write; exact P|exact H].
  - rewrite held_out_next in H. rewrite held_mt_next. apply in_app_or in H. destruct H as [H|H].
    + destruct (h_cur h) as [e|] eqn:C; [|destruct H]. destruct H as [H|[]]. subst y.
      destruct (P e C) as [H1 H2]. split; [apply held_mt_mono; exact H1|exact H2].
    + rewrite <- (h_next_snap m h). apply IH; [apply positioned_next; exact P|exact H].
Qed.

Theorem held_sound : forall m h evs y, positioned m h -> In y (held_yield m h evs) ->
  In y (mt_entries (held_mt m h evs)) /\ visible (h_snap h) y = true /\
  (In y (mt_entries m) \/ In y (writes evs)).
Proof.
  intros m h evs y P H. destruct (held_sound_gen evs m h y P H) as [H1 H2].
  split; [exact H1|]. split; [exact H2|]. eapply held_mt_from. exact H1.
Qed.

Theorem held_first_sound : forall m0 evs y,
  In y (held_yield m0 (h_first m0 (h_new m0)) evs) ->
  In y (mt_entries (held_mt m0 (h_first m0 (h_new m0)) evs)) /\
  visible (mt_snapshot m0) y = true /\
  (In y (mt_entries m0) \/ In y (writes evs)).
Proof. intros m0 evs y H. exact (held_sound m0 _ evs y (positioned_first m0 _) H). Qed.

(* Seek: moreover nothing below the target is ever shown *)
Theorem held_seek_sound : forall t m0 evs y, held_wf m0 evs ->
  In y (held_yield m0 (h_seek t m0 (h_new m0)) evs) ->
  In y (mt_entries (held_mt m0 (h_seek t m0 (h_new m0)) evs)) /\
  visible (mt_snapshot m0) y = true /\
  (In y (mt_entries m0) \/ In y (writes evs)) /\
  blt (mk y) t = false.
Proof.
  intros t m0 evs y W H.
  destruct (held_sound m0 _ evs y (positioned_seek t m0 _) H) as (H1 & H2 & H3).
  split; [exact H1|]. split; [exact H2|]. split; [exact H3|].
  pose proof (held_yield_ssorted m0 _ evs W (positioned_seek t m0 (h_new m0))) as S.
  unfold held_yield in *.
  destruct (h_cur (h_seek t m0 (h_new m0))) as [e|] eqn:C.
  - destruct (h_seek_sound t m0 (h_new m0) e C) as (_ & _ & K). specialize (K (proj1 W)).
    cbn [optl app] in *. apply ssorted_cons_inv in S. destruct S as [_ S].
    destruct H as [H|H]; [subst y; exact K|].
    eapply key_ge_mono; [exact K|]. apply slt_ele. apply S. exact H.
  - rewrite held_out_none in H by exact C. destruct H.
Qed.

(* ------------------------------------------------------------------------------------- *)
(* H6. COMPLETENESS                                                                       *)
(* ------------------------------------------------------------------------------------- *)

(* whatever the snapshot shows behind the current node when the run starts has been shown by
   the time the iterator is exhausted, whatever the writer did in between *)
Lemma held_complete_gen : forall evs m h e x, held_wf m evs -> positioned m h ->
  h_cur h = Some e -> In x (mt_entries m) -> visible (h_snap h) x = true -> slt e x ->
  h_cur (held_it m h evs) = None -> In x (held_out m h evs).
Proof.
  induction evs as [|[w|] r IH]; intros m h e x W P C Hx Vx Lx Hend.
  - cbn in Hend. congruence.
  - rewrite held_it_write in Hend. rewrite held_out_write.
    apply (IH (mt_add m w) h e x); auto using held_wf_write, positioned_write, mt_add_in.
  - rewrite held_it_next in Hend. rewrite held_out_next.
    pose proof (h_next_step m h e (held_wf_ssorted m _ W) C (proj1 (P e C))) as N.
    destruct (h_cur (h_next m h)) as [y|] eqn:C'.
    + destruct N as (_ & _ & _ & Hmin). apply in_or_app.
      destruct (Hmin x Hx Vx Lx) as [E|L]; [left; subst y; left; reflexivity|right].
      apply (IH m (h_next m h) y x); auto using positioned_next.
      rewrite h_next_snap. exact Vx.
    + exfalso. exact (N x Hx Vx Lx).
Qed.

Theorem held_complete : forall m h evs e x, held_wf m evs -> positioned m h ->
  h_cur h = Some e -> In x (mt_entries m) -> visible (h_snap h) x = true -> x = e \/ slt e x ->
  h_cur (held_it m h evs) = None -> In x (held_yield m h evs).
Proof.
  intros m h evs e x W P C Hx Vx [E|L] Hend; unfold held_yield; rewrite C; cbn [optl app].
  - left. auto.
  - right. eapply held_complete_gen; eauto.
Qed.

(* First: "contains at least everything inserted before it started" *)
Theorem held_first_complete : forall m0 evs x, held_wf m0 evs ->
  h_cur (held_it m0 (h_first m0 (h_new m0)) evs) = None ->
  In x (mt_iter_entries m0) -> In x (held_yield m0 (h_first m0 (h_new m0)) evs).
Proof.
  intros m0 evs x W Hend Hx. unfold mt_iter_entries in Hx. apply filter_In in Hx.
  destruct Hx as [Hx Vx].
  pose proof (first_visible_spec (mt_snapshot m0) _ (held_wf_ssorted m0 _ W)) as Hh.
  destruct (first_visible (mt_snapshot m0) (mt_entries m0)) as [e|] eqn:F.
  - destruct Hh as (_ & _ & Hmin).
    apply (held_complete m0 (h_first m0 (h_new m0)) evs e x W (positioned_first m0 _) F Hx Vx (Hmin x Hx Vx) Hend).
  - exfalso. rewrite (Hh x Hx) in Vx. discriminate.
Qed.

(* Seek: the same for the entries with key >= target *)
Theorem held_seek_complete : forall t m0 evs x, held_wf m0 evs ->
  h_cur (held_it m0 (h_seek t m0 (h_new m0)) evs) = None ->
  In x (mt_iter_entries m0) -> blt (mk x) t = false ->
  In x (held_yield m0 (h_seek t m0 (h_new m0)) evs).
Proof.
  intros t m0 evs x W Hend Hx Kx. unfold mt_iter_entries in Hx. apply filter_In in Hx.
  destruct Hx as [Hx Vx].
  assert (Ix : In x (seek_ge t (mt_entries m0))).
  { rewrite seek_ge_filter by apply W. apply filter_In. split; [exact Hx|]. rewrite Kx. reflexivity. }
  assert (Ss : ssorted (seek_ge t (mt_entries m0))).
  { rewrite seek_ge_filter by apply W. apply ssorted_filter. eapply held_wf_ssorted. exact W. }
  pose proof (first_visible_spec (mt_snapshot m0) _ Ss) as Hh.
  destruct (first_visible (mt_snapshot m0) (seek_ge t (mt_entries m0))) as [e|] eqn:F.
  - destruct Hh as (_ & _ & Hmin).
    apply (held_complete m0 (h_seek t m0 (h_new m0)) evs e x W (positioned_seek t m0 _) F Hx Vx (Hmin x Ix Vx) Hend).
  - exfalso. rewrite (Hh x Ix) in Vx. discriminate.
Qed.

(* ------------------------------------------------------------------------------------- *)
(* H7. SNAPSHOT                                                                           *)
(* ------------------------------------------------------------------------------------- *)

Lemma visible_nonzero : forall s e, s <> 0 -> visible s e = true -> mseq e <= s.
Proof.
  intros s e Hs H. unfold visible in H. apply orb_true_iff in H. destruct H as [H|H].
  - apply N.eqb_eq in H. contradiction.
  - apply N.leb_le. exact H.
Qed.

(* snapshot 0 (an immutable table, or a mutable one whose nextSeqNum is still 0 — the empty
   table): the iterator filters nothing *)
Lemma visible_zero : forall e, visible 0 e = true.
Proof. intros e. reflexivity. Qed.

Lemma mt_snapshot_zero_iff : forall m, mt_snapshot m = 0 <-> (mt_imm m = true \/ mt_next m = 0).
Proof.
  intros m. unfold mt_snapshot. destruct (mt_imm m); split; auto.
  intros [H|H]; [discriminate|exact H].
Qed.

Lemma first_visible_zero : forall l,
  first_visible 0 l = match l with [] => None | x :: _ => Some x end.
Proof.
  intros l. unfold first_visible. rewrite filter_all; [reflexivity|]. intros x _. reflexivity.
Qed.

(* nothing numbered above a non-zero snapshot is ever shown *)
Theorem held_no_future : forall m h evs y, positioned m h -> h_snap h <> 0 ->
  In y (held_yield m h evs) -> mseq y <= h_snap h.
Proof.
  intros m h evs y P Z H. apply visible_nonzero; [exact Z|].
  apply (held_sound_gen evs m h y P H).
Qed.

(* (d) a mutable table that is not fresh (snapshot <> 0): what the writer inserts during the
   run with a number above the snapshot is never shown, wherever it lands in the list *)
Theorem held_first_no_future : forall m0 evs w, mt_snapshot m0 <> 0 ->
  In w (writes evs) -> mt_snapshot m0 < mseq w ->
  ~ In w (held_yield m0 (h_first m0 (h_new m0)) evs).
Proof.
  intros m0 evs w Z _ L H.
  pose proof (held_no_future m0 _ evs w (positioned_first m0 (h_new m0)) Z H) as B.
  cbn [h_first h_new h_snap] in B. lia.
Qed.

Theorem held_seek_no_future : forall t m0 evs w, mt_snapshot m0 <> 0 ->
  In w (writes evs) -> mt_snapshot m0 < mseq w ->
  ~ In w (held_yield m0 (h_seek t m0 (h_new m0)) evs).
Proof.
  intros t m0 evs w Z _ L H.
  pose proof (held_no_future m0 _ evs w (positioned_seek t m0 (h_new m0)) Z H) as B.
  cbn [h_seek h_new h_snap] in B. lia.
Qed.

(* the writer cannot be seen by this iterator: the table is immutable (writes are ignored), or
   the snapshot is non-zero and every number the writer uses lies above it *)
Definition writer_hidden (m0 : memtable) (evs : list hev) : Prop :=
  mt_imm m0 = true \/
  (mt_snapshot m0 <> 0 /\ Forall (fun w => mt_snapshot m0 < mseq w) (writes evs)).

Lemma writer_hidden_final : forall m0 h evs y, writer_hidden m0 evs ->
  In y (mt_entries (held_mt m0 h evs)) -> visible (mt_snapshot m0) y = true ->
  In y (mt_entries m0).
Proof.
  intros m0 h evs y [I|[Z F]] Hy Vy.
  - rewrite held_mt_imm in Hy by exact I. exact Hy.
  - apply held_mt_from in Hy. destruct Hy as [Hy|Hy]; [exact Hy|]. exfalso.
    rewrite Forall_forall in F. specialize (F y Hy).
    pose proof (visible_nonzero _ _ Z Vy). lia.
Qed.

Lemma iter_entries_ssorted : forall m0 evs, held_wf m0 evs -> ssorted (mt_iter_entries m0).
Proof. intros m0 evs W. apply ssorted_filter. eapply held_wf_ssorted. exact W. Qed.

(* then an iterator run to exhaustion shows EXACTLY the snapshot contents, in order *)
Theorem held_first_exact : forall m0 evs, held_wf m0 evs -> writer_hidden m0 evs ->
  h_cur (held_it m0 (h_first m0 (h_new m0)) evs) = None ->
  held_yield m0 (h_first m0 (h_new m0)) evs = mt_iter_entries m0.
Proof.
  intros m0 evs W Hid Hend. apply ssorted_ext.
  - apply held_yield_ssorted; [exact W|apply positioned_first].
  - eapply iter_entries_ssorted. exact W.
  - intros x. split; intros H.
    + destruct (held_first_sound m0 evs x H) as (H1 & H2 & _).
      apply filter_In. split; [|exact H2]. eapply writer_hidden_final; eauto.
    + apply held_first_complete; assumption.
Qed.

Lemma seek_iter_in : forall t m0 x, sorted (mt_entries m0) ->
  In x (seek_ge t (mt_iter_entries m0)) <-> In x (mt_iter_entries m0) /\ blt (mk x) t = false.
Proof.
  intros t m0 x Hs. rewrite seek_ge_filter by (apply filter_sorted; exact Hs).
  rewrite filter_In. rewrite negb_true_iff. reflexivity.
Qed.

Theorem held_seek_exact : forall t m0 evs, held_wf m0 evs -> writer_hidden m0 evs ->
  h_cur (held_it m0 (h_seek t m0 (h_new m0)) evs) = None ->
  held_yield m0 (h_seek t m0 (h_new m0)) evs = seek_ge t (mt_iter_entries m0).
Proof.
  intros t m0 evs W Hid Hend. apply ssorted_ext.
  - apply held_yield_ssorted; [exact W|apply positioned_seek].
  - rewrite seek_ge_filter by (apply filter_sorted; apply W).
    apply ssorted_filter. eapply iter_entries_ssorted. exact W.
  - intros x. rewrite seek_iter_in by apply W. split; intros H.
    + destruct (held_seek_sound t m0 evs x W H) as (H1 & H2 & _ & H4).
      split; [|exact H4]. apply filter_In. split; [|exact H2]. eapply writer_hidden_final; eauto.
    + destruct H as [H1 H2]. apply held_seek_complete; assumption.
Qed.

(* the immutable case spelled out: snapshot 0, nothing is filtered, the writer is ignored —
   the iterator shows the whole table *)
Theorem held_first_imm : forall m0 evs, held_wf m0 evs -> mt_imm m0 = true ->
  held_mt m0 (h_first m0 (h_new m0)) evs = m0 /\
  mt_snapshot m0 = 0 /\
  (h_cur (held_it m0 (h_first m0 (h_new m0)) evs) = None ->
   held_yield m0 (h_first m0 (h_new m0)) evs = mt_entries m0).
Proof.
  intros m0 evs W I. split; [apply held_mt_imm; exact I|].
  assert (Z : mt_snapshot m0 = 0) by (unfold mt_snapshot; rewrite I; reflexivity).
  split; [exact Z|]. intros Hend.
  rewrite held_first_exact; [|exact W|left; exact I|exact Hend].
  unfold mt_iter_entries. rewrite Z. apply filter_all. intros x _. reflexivity.
Qed.

(* snapshot 0 on a MUTABLE table (nextSeqNum still 0: the empty table, or one holding only
   entries numbered 0): Next shows the live successor whatever its number *)
Theorem held_next_unfiltered : forall m h e, h_snap h = 0 -> h_cur h = Some e ->
  h_cur (h_next m h) = match after e (mt_entries m) with [] => None | x :: _ => Some x end.
Proof.
  intros m h e Z C. unfold h_next. rewrite C, Z. cbn [h_cur]. apply first_visible_zero.
Qed.

(* ------------------------------------------------------------------------------------- *)
(* H8. non-vacuity                                                                        *)
(* ------------------------------------------------------------------------------------- *)

Definition ex_m0 : memtable :=
  mt_run mt_empty [OPut [1] [10] 1; OPut [3] [30] 2; OPut [5] [50] 3].

Definition ex_evs : list hev :=
  [ HWrite (mkM [4] 9 KVal [40]);    (* ahead of the iterator (it stands on [1]), above the snapshot *)
    HWrite (mkM [0] 10 KVal [0]);    (* behind it *)
    HNext;                           (* -> [3]@2, not [4]@9 *)
    HWrite (mkM [2] 11 KVal [20]);   (* behind it now *)
    HWrite (mkM [5] 12 KDel []);     (* ahead: a newer version of key [5], sorts before [5]@3 *)
    HWrite (mkM [3] 13 KVal [31]);   (* a newer version of the key it stands on: sorts before [3]@2 *)
    HNext;                           (* -> [5]@3 *)
    HNext;                           (* exhausted *)
    HWrite (mkM [7] 14 KVal [70]);   (* behind the end *)
    HNext ].                         (* stays exhausted *)

Example held_first_ex :
  held_wf ex_m0 ex_evs /\ writer_hidden ex_m0 ex_evs /\ mt_snapshot ex_m0 = 4 /\
  mt_iter_entries ex_m0 = [mkM [1] 1 KVal [10]; mkM [3] 2 KVal [30]; mkM [5] 3 KVal [50]] /\
  held_yield ex_m0 (h_first ex_m0 (h_new ex_m0)) ex_evs =
    [mkM [1] 1 KVal [10]; mkM [3] 2 KVal [30]; mkM [5] 3 KVal [50]] /\
  h_cur (held_it ex_m0 (h_first ex_m0 (h_new ex_m0)) ex_evs) = None /\
  mt_entries (held_mt ex_m0 (h_first ex_m0 (h_new ex_m0)) ex_evs) =
    [mkM [0] 10 KVal [0]; mkM [1] 1 KVal [10]; mkM [2] 11 KVal [20]; mkM [3] 13 KVal [31];
     mkM [3] 2 KVal [30]; mkM [4] 9 KVal [40]; mkM [5] 12 KDel []; mkM [5] 3 KVal [50];
     mkM [7] 14 KVal [70]].
Proof.
  split; [split|].
  - vm_compute. repeat constructor.
  - apply nodup_nodesb_ok. vm_compute. reflexivity.
  - split.
    + right. split; [vm_compute; discriminate|]. vm_compute. repeat constructor.
    + vm_compute. repeat split.
Qed.

(* Seek [2] on the same table and events: starts on [3]@2 *)
Example held_seek_ex :
  held_yield ex_m0 (h_seek [2] ex_m0 (h_new ex_m0)) ex_evs =
    [mkM [3] 2 KVal [30]; mkM [5] 3 KVal [50]] /\
  seek_ge [2] (mt_iter_entries ex_m0) = [mkM [3] 2 KVal [30]; mkM [5] 3 KVal [50]] /\
  h_cur (held_it ex_m0 (h_seek [2] ex_m0 (h_new ex_m0)) ex_evs) = None.
Proof. vm_compute. repeat split. Qed.

(* "at least", not "exactly": the snapshot is nextSeqNum (largest number + 1) and the filter is
   seq <= snapshot, so a write numbered exactly nextSeqNum that lands ahead of the iterator IS
   shown (here [4]@4); one numbered above is not ([2]@5 is also behind).  The hypothesis
   writer_hidden of the exactness theorems excludes the first kind. *)
Example held_snapshot_boundary_ex :
  let evs := [HWrite (mkM [4] 4 KVal [40]); HWrite (mkM [2] 5 KVal [20]); HNext; HNext; HNext; HNext] in
  held_wf ex_m0 evs /\ mt_snapshot ex_m0 = 4 /\
  held_yield ex_m0 (h_first ex_m0 (h_new ex_m0)) evs =
    [mkM [1] 1 KVal [10]; mkM [3] 2 KVal [30]; mkM [4] 4 KVal [40]; mkM [5] 3 KVal [50]] /\
  h_cur (held_it ex_m0 (h_first ex_m0 (h_new ex_m0)) evs) = None.
Proof.
  split; [split|].
  - vm_compute. repeat constructor.
  - apply nodup_nodesb_ok. vm_compute. reflexivity.
  - vm_compute. repeat split.
Qed.

(* snapshot 0 on a mutable table: nothing is filtered, a write ahead of the iterator is shown
   whatever its number *)
Example held_snapshot_zero_ex :
  let m0 := mt_run mt_empty [OPut [1] [10] 0; OPut [3] [30] 0] in
  let evs := [HWrite (mkM [2] 77 KVal [20]); HNext; HNext; HNext] in
  held_wf m0 evs /\ mt_imm m0 = false /\ mt_snapshot m0 = 0 /\
  held_yield m0 (h_first m0 (h_new m0)) evs =
    [mkM [1] 0 KVal [10]; mkM [2] 77 KVal [20]; mkM [3] 0 KVal [30]] /\
  h_cur (held_it m0 (h_first m0 (h_new m0)) evs) = None.
Proof.
  split; [split|].
  - vm_compute. repeat constructor.
  - apply nodup_nodesb_ok. vm_compute. reflexivity.
  - vm_compute. repeat split.
Qed.

(* immutable table: the writer is ignored, the whole table is shown *)
Example held_first_imm_ex :
  let m0 := mt_set_imm ex_m0 in
  held_wf m0 ex_evs /\
  held_yield m0 (h_first m0 (h_new m0)) ex_evs = mt_entries ex_m0 /\
  held_mt m0 (h_first m0 (h_new m0)) ex_evs = m0.
Proof.
  split; [split|].
  - vm_compute. repeat constructor.
  - apply nodup_nodesb_ok. vm_compute. reflexivity.
  - vm_compute. split; reflexivity.
Qed.

(* the hypothesis on the writer is needed: when the writer reuses the (key, seq) pair of the
   node the iterator stands on, the new node is linked BEFORE the old one (ties: most recent
   insert first) and the model's Next — which finds its node by (key, seq) — lands on the old
   node again, every time: the same entry is shown over and over and the iterator never gets
   past it.  A boundary of the MODEL (the implementation's iterator holds a pointer, and its
   WAL never reuses a number), recorded so that the hypothesis is not mistaken for decoration. *)
Example held_reused_pair_boundary :
  let evs := [HWrite (mkM [1] 1 KVal [11]); HNext; HNext; HNext] in
  ~ nodup_nodes (writes evs ++ mt_entries ex_m0) /\
  held_yield ex_m0 (h_first ex_m0 (h_new ex_m0)) evs =
    [mkM [1] 1 KVal [10]; mkM [1] 1 KVal [10]; mkM [1] 1 KVal [10]; mkM [1] 1 KVal [10]].
Proof.
  split.
  - intros H. unfold nodup_nodes in H. vm_compute in H. inversion H as [|a b Hn _]. apply Hn.
    left. reflexivity.
  - vm_compute. reflexivity.
Qed.
