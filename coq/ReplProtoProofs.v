(* ReplProtoProofs.v — theorems about the replication protocol model (ReplProto.v). *)
From KV Require Import Bytes Spec WalCodec ReplProto.
From Coq Require Import Lia.
Open Scope N_scope.

(* ---------- witnesses: histories after which a connected replica never converges ---------- *)
Definition put1 (k v : N) : event := EWrite (WSingle OpPut [k] [v]).
Definition goods (n : nat) : list event := repeat (ETick good) n.

(* D18a: join, two writes, caught up; flush (rotation); two more writes *)
Definition w_rotation : list event :=
  [EStart; ETick good; put1 97 1; put1 98 2] ++ goods 6 ++ [EFlush; put1 99 3; put1 100 4].

Example w_rotation_before_flush_converged :
  let s := run ([EStart; ETick good; put1 97 1; put1 98 2] ++ goods 6) sys_init in
  views_agree (fst s) (snd s) = true.
Proof. vm_compute. reflexivity. Qed.
