(* ReplProtoProofs.v — theorems about the replication protocol model (ReplProto.v).

   Structure of the log used by the proofs: the entries of a well-formed log are the
   concatenation of non-empty groups numbered 1, 2, 3, ... (one group per wal.Append /
   wal.AppendBatch); a response of the primary that is not cut inside a transaction is the
   concatenation of a segment of these groups. *)
From KV Require Import Bytes BytesProofs Spec WalCodec MemtableProofs ReplProto.
From Coq Require Import Lia PeanoNat Arith.
Open Scope N_scope.

(* ---------- groups ---------- *)
Definition group := list entry.
Definition const_seq (s : N) (g : group) : Prop := Forall (fun e => eseq e = s) g.

Fixpoint gwf (s : N) (gs : list group) : Prop :=
  match gs with
  | [] => True
  | g :: r => g <> [] /\ const_seq s g /\ gwf (s + 1) r
  end.

Definition nlen {A} (l : list A) : N := N.of_nat (length l).

Lemma gwf_app : forall x y s, gwf s (x ++ y) <-> gwf s x /\ gwf (s + nlen x) y.
Proof.
  induction x as [|g x IH]; intros y s; cbn [app gwf length].
  - unfold nlen. cbn. rewrite N.add_0_r. tauto.
  - rewrite IH. unfold nlen. cbn [length].
    replace (s + 1 + N.of_nat (length x)) with (s + N.of_nat (S (length x))) by lia. tauto.
Qed.

Lemma gwf_firstn : forall n gs s, gwf s gs -> gwf s (firstn n gs).
Proof.
  intros n gs s H. rewrite <- (firstn_skipn n gs) in H. apply gwf_app in H. tauto.
Qed.

Lemma gwf_skipn : forall n gs s, gwf s gs -> gwf (s + nlen (firstn n gs)) (skipn n gs).
Proof.
  intros n gs s H. rewrite <- (firstn_skipn n gs) in H. apply gwf_app in H. tauto.
Qed.

Lemma const_seq_app : forall s a b, const_seq s (a ++ b) <-> const_seq s a /\ const_seq s b.
Proof. intros. unfold const_seq. apply Forall_app. Qed.

(* every entry of groups numbered from s on carries a number >= s, < s + count *)
Lemma gwf_bounds : forall gs s e, gwf s gs -> In e (concat gs) -> s <= eseq e < s + nlen gs.
Proof.
  induction gs as [|g gs IH]; intros s e W Hin; cbn in Hin; [contradiction|].
  destruct W as (_ & C & W). apply in_app_or in Hin. unfold nlen. cbn [length].
  destruct Hin as [Hin|Hin].
  - unfold const_seq in C. rewrite Forall_forall in C. rewrite (C _ Hin). lia.
  - specialize (IH _ _ W Hin). unfold nlen in IH. lia.
Qed.

(* ---------- the applier on whole groups ---------- *)
Lemma entry_eqb_refl : forall e, entry_eqb e e = true.
Proof.
  intros e. unfold entry_eqb, beqb. rewrite !N.eqb_refl, !beq_refl. reflexivity.
Qed.

Lemma contiguous_walk : forall s X Y, const_seq s X -> contiguous s (X ++ Y) = contiguous s Y.
Proof.
  induction X as [|x X IH]; intros Y C; [reflexivity|].
  pose proof (Forall_inv C) as Hx; pose proof (Forall_inv_tail C) as CX; cbv beta in Hx. cbn [app contiguous]. rewrite Hx, N.eqb_refl. cbn [orb andb].
  apply IH. exact CX.
Qed.

Lemma contiguous_groups : forall ds s X, const_seq s X -> gwf (s + 1) ds ->
  contiguous s (X ++ concat ds) = true.
Proof.
  induction ds as [|d ds IH]; intros s X C W.
  - cbn [concat]. rewrite contiguous_walk by exact C. reflexivity.
  - cbn [concat]. rewrite contiguous_walk by exact C.
    destruct W as (Hne & Cd & W). destruct d as [|d0 d']; [congruence|].
    inversion Cd as [|? ? H0 Cd']; subst. cbn [app contiguous]. rewrite H0.
    replace (s + 1 =? s) with false by (symmetry; apply N.eqb_neq; lia).
    rewrite N.eqb_refl. cbn [orb andb]. apply IH; assumption.
Qed.

Lemma drop_below_lt : forall g X Y, Forall (fun e => eseq e < g) X ->
  drop_below g (X ++ Y) = drop_below g Y.
Proof.
  induction X as [|x X IH]; intros Y F; [reflexivity|].
  pose proof (Forall_inv F) as Hx; pose proof (Forall_inv_tail F) as FX; cbv beta in Hx. cbn [app drop_below].
  apply N.ltb_lt in Hx. rewrite Hx. apply IH. exact FX.
Qed.

Lemma drop_below_ge : forall g Y, (forall y, hd_error Y = Some y -> g <= eseq y) -> drop_below g Y = Y.
Proof.
  intros g [|y Y] H; [reflexivity|]. cbn [drop_below].
  specialize (H y eq_refl). replace (eseq y <? g) with false; [reflexivity|].
  symmetry. apply N.ltb_ge. exact H.
Qed.

Lemma groups_lt : forall gs s g, gwf s gs -> s + nlen gs <= g -> Forall (fun e => eseq e < g) (concat gs).
Proof.
  intros gs s g W L. apply Forall_forall. intros e Hin.
  pose proof (gwf_bounds _ _ _ W Hin). lia.
Qed.

Lemma hd_groups : forall gs s y, gwf s gs -> hd_error (concat gs) = Some y -> eseq y = s.
Proof.
  intros [|g gs] s y W H; cbn in H; [discriminate|].
  destruct W as (Hne & C & _). destruct g as [|g0 g']; [congruence|].
  cbn in H. inversion H; subst. exact (Forall_inv C).
Qed.

Lemma run_len_const : forall g X Y, const_seq g X ->
  (forall y, hd_error Y = Some y -> eseq y <> g) -> run_len g (X ++ Y) = length X.
Proof.
  induction X as [|x X IH]; intros Y C H.
  - destruct Y as [|y Y]; [reflexivity|]. cbn [app run_len length].
    specialize (H y eq_refl). apply N.eqb_neq in H. rewrite H. reflexivity.
  - pose proof (Forall_inv C) as Hx; pose proof (Forall_inv_tail C) as CX; cbv beta in Hx. cbn [app run_len length]. rewrite Hx, N.eqb_refl.
    f_equal. apply IH; assumption.
Qed.

Lemma run_len_none : forall g Y, (forall y, hd_error Y = Some y -> eseq y <> g) -> run_len g Y = O.
Proof.
  intros g Y H. apply (run_len_const g [] Y); [constructor|exact H].
Qed.

Lemma prefix_eqb_self : forall X Y, prefix_eqb (length X) (X ++ Y) X = true.
Proof.
  induction X as [|x X IH]; intros Y; [reflexivity|].
  cbn [length app prefix_eqb]. rewrite entry_eqb_refl, IH. reflexivity.
Qed.

Lemma apply_rest_same : forall X g ga st, const_seq g X ->
  apply_rest g ga st X = (g, ga ++ X, st ++ X).
Proof.
  induction X as [|x X IH]; intros g ga st C; cbn [apply_rest].
  - rewrite !app_nil_r. reflexivity.
  - pose proof (Forall_inv C) as Hx; pose proof (Forall_inv_tail C) as CX; cbv beta in Hx. rewrite Hx, N.eqb_refl. rewrite IH by exact CX.
    rewrite <- !app_assoc. reflexivity.
Qed.

Lemma apply_rest_const : forall X s g ga st, const_seq s X -> X <> [] ->
  apply_rest g ga st X = (s, (if g =? s then ga else []) ++ X, st ++ X).
Proof.
  intros [|x X] s g ga st C Hne; [congruence|].
  pose proof (Forall_inv C) as Hx; pose proof (Forall_inv_tail C) as CX; cbv beta in Hx. destruct (N.eqb_spec g s) as [E|NE].
  - rewrite E. apply apply_rest_same. exact C.
  - cbn [apply_rest]. rewrite Hx. apply N.eqb_neq in NE. rewrite N.eqb_sym in NE. rewrite NE.
    rewrite apply_rest_same by exact CX. rewrite <- app_assoc. reflexivity.
Qed.

Lemma apply_rest_app : forall X Y g ga st,
  apply_rest g ga st (X ++ Y) =
  match apply_rest g ga st X with (g', ga', st') => apply_rest g' ga' st' Y end.
Proof.
  induction X as [|x X IH]; intros Y g ga st; cbn [app apply_rest]; [reflexivity|].
  destruct (eseq x =? g); apply IH.
Qed.

Lemma apply_rest_groups : forall ds a g ga st, gwf a ds -> ds <> [] ->
  (g < a \/ (g = a /\ ga = [])) ->
  apply_rest g ga st (concat ds) = (a + nlen ds - 1, last ds [], st ++ concat ds).
Proof.
  induction ds as [|d ds IH]; intros a g ga st W Hne Hg; [congruence|].
  destruct W as (Hd & Cd & W). cbn [concat]. rewrite apply_rest_app.
  rewrite (apply_rest_const d a) by assumption.
  assert (E : (if g =? a then ga else []) ++ d = d).
  { destruct Hg as [L|[-> ->]].
    - replace (g =? a) with false by (symmetry; apply N.eqb_neq; lia). reflexivity.
    - rewrite N.eqb_refl. reflexivity. }
  rewrite E. destruct ds as [|d2 ds'].
  - cbn [concat apply_rest last]. unfold nlen. cbn [length]. rewrite app_nil_r.
    f_equal. f_equal. lia.
  - rewrite (IH (a + 1)); [|exact W|discriminate|left; lia].
    unfold nlen. cbn [length]. rewrite <- app_assoc. cbn [last].
    f_equal. f_equal. lia.
Qed.

Lemma last_in : forall (l : list entry) d, l <> [] -> In (last l d) l.
Proof.
  induction l as [|x l IH]; intros d H; [congruence|].
  destruct l as [|y l']; [left; reflexivity|]. right. apply (IH d). discriminate.
Qed.

Lemma last_app_ne : forall (a b : list entry) d, b <> [] -> last (a ++ b) d = last b d.
Proof.
  induction a as [|x a IH]; intros b d H; [reflexivity|].
  cbn [app]. destruct (a ++ b) eqn:E.
  - destruct a; destruct b; cbn in E; congruence.
  - rewrite <- E. cbn [last]. rewrite E. rewrite <- E. apply IH. exact H.
Qed.

Lemma last_seq_groups : forall ds a, gwf a ds -> ds <> [] -> last_seq (concat ds) = a + nlen ds - 1.
Proof.
  induction ds as [|d ds IH]; intros a W Hne; [congruence|].
  destruct W as (Hd & Cd & W). destruct ds as [|d2 ds'].
  - cbn [concat]. rewrite app_nil_r. unfold last_seq, nlen. cbn [length].
    destruct d as [|d0 d']; [congruence|].
    assert (In (last (d0 :: d') (mkW 0 0 [] [])) (d0 :: d')) by (apply last_in; discriminate).
    unfold const_seq in Cd. rewrite Forall_forall in Cd. rewrite (Cd _ H). lia.
  - cbn [concat]. unfold last_seq.
    assert (NE : concat (d2 :: ds') <> []).
    { destruct W as (Hd2 & _). cbn [concat]. destruct d2; [congruence|discriminate]. }
    rewrite last_app_ne by exact NE.
    change (last_seq (concat (d2 :: ds')) = a + nlen (d :: d2 :: ds') - 1).
    rewrite (IH (a + 1)); [|exact W|discriminate]. unfold nlen. cbn [length]. lia.
Qed.

(* ---------- ApplyEntries on a response made of whole groups ---------- *)
(* the applier's bookkeeping agrees with the log: either nothing is recorded for the next
   number, or the whole group of the previous number is *)
Definition cons_applier (r : rstate) (a : N) (old : list group) : Prop :=
  (r_gseq r = r_exp r /\ r_gapp r = []) \/
  (r_gseq r + 1 = r_exp r /\ r_gapp r <> [] /\ const_seq (r_gseq r) (r_gapp r) /\
   (a + nlen old = r_exp r -> old <> [] -> exists old', old = old' ++ [r_gapp r])).

Definition skipped (r : rstate) (es : list entry) : list entry :=
  let es1 := drop_below (r_gseq r) es in
  let n := Nat.min (run_len (r_gseq r) es1) (length (r_gapp r)) in
  if negb (Nat.eqb n 0) && prefix_eqb n es1 (r_gapp r) then skipn n es1 else es1.

Lemma concat_app2 : forall (a b : list group), concat (a ++ b) = concat a ++ concat b.
Proof. intros. apply concat_app. Qed.

Lemma hd_ne_groups : forall new e g, gwf e new -> g < e ->
  forall y, hd_error (concat new) = Some y -> eseq y <> g.
Proof.
  intros new e g W L y H. rewrite (hd_groups _ _ _ W H). lia.
Qed.

Lemma skipped_groups : forall r a old new,
  gwf a old -> a + nlen old <= r_exp r -> gwf (r_exp r) new ->
  (new <> [] -> a + nlen old = r_exp r) ->
  cons_applier r a old ->
  skipped r (concat (old ++ new)) = concat new.
Proof.
  intros r a old new Wo Lo Wn Hn C. unfold skipped. rewrite concat_app2.
  destruct C as [[G GA]|(G & GA & CG & HL)].
  - (* nothing recorded for the next number *)
    rewrite G, GA. rewrite drop_below_lt by (eapply groups_lt; eauto).
    rewrite drop_below_ge.
    + cbn [length]. rewrite Nat.min_0_r. reflexivity.
    + intros y Hy. rewrite (hd_groups _ _ _ Wn Hy). lia.
  - set (g := r_gseq r) in *. assert (Eg : r_exp r = g + 1) by lia.
    destruct (N.eq_dec (a + nlen old) (r_exp r)) as [E|NE].
    + destruct old as [|o0 old0].
      * (* the response starts at the next number *)
        cbn [concat app]. rewrite drop_below_ge.
        -- rewrite run_len_none by (eapply hd_ne_groups; eauto; lia). reflexivity.
        -- intros y Hy. rewrite (hd_groups _ _ _ Wn Hy). lia.
      * destruct (HL E) as [old' Eo]; [discriminate|]. rewrite Eo in *.
        rewrite concat_app2. cbn [concat]. rewrite app_nil_r. rewrite <- app_assoc.
        apply gwf_app in Wo. destruct Wo as [Wo' _].
        assert (Lg : a + nlen old' <= g).
        { unfold nlen in *. rewrite app_length in E. cbn [length] in E. lia. }
        rewrite drop_below_lt by (eapply groups_lt; eauto).
        rewrite drop_below_ge.
        -- rewrite (run_len_const g (r_gapp r) (concat new)); [|exact CG|eapply hd_ne_groups; eauto; lia].
           rewrite Nat.min_id.
           assert (Hl : Nat.eqb (length (r_gapp r)) 0 = false).
           { destruct (r_gapp r); [congruence|reflexivity]. }
           rewrite Hl, prefix_eqb_self. cbn [negb andb].
           rewrite skipn_app, skipn_all, Nat.sub_diag. reflexivity.
        -- intros y Hy. destruct (r_gapp r) as [|g0 ga'] eqn:Eg0; [congruence|].
           cbn in Hy. inversion Hy; subst y. rewrite (Forall_inv CG). lia.
    + (* everything in the response is older than the recorded group *)
      assert (new = []) by (destruct new; [reflexivity|exfalso; apply NE, Hn; discriminate]).
      subst new. cbn [concat]. rewrite app_nil_r.
      rewrite <- (app_nil_r (concat old)).
      rewrite drop_below_lt by (eapply groups_lt; eauto; lia). reflexivity.
Qed.

Lemma groups_cons : forall ds a, gwf a ds -> ds <> [] ->
  exists e0 tl, concat ds = e0 :: tl /\ eseq e0 = a /\ contiguous a tl = true.
Proof.
  intros [|d ds] a W Hne; [congruence|]. destruct W as (Hd & Cd & W).
  destruct d as [|e0 d']; [congruence|]. exists e0, (d' ++ concat ds). cbn [concat app].
  split; [reflexivity|]. split; [exact (Forall_inv Cd)|].
  apply contiguous_groups; [exact (Forall_inv_tail Cd)|exact W].
Qed.

Lemma apply_entries_gap : forall r ds a, gwf a ds -> ds <> [] -> r_exp r < a ->
  apply_entries r (concat ds) = AGap.
Proof.
  intros r ds a W Hne L. destruct (groups_cons _ _ W Hne) as (e0 & tl & E & S0 & _).
  rewrite E. cbn [apply_entries]. rewrite S0. apply N.ltb_lt in L. rewrite L. reflexivity.
Qed.

Definition applied_state (r : rstate) (new : list group) : rstate :=
  mkR (r_mode r) (r_link r) (r_start r) (r_inbox r) (r_exp r + nlen new)
      (match new with [] => r_gseq r | _ => r_exp r + nlen new - 1 end)
      (match new with [] => r_gapp r | _ => last new [] end)
      (r_store r ++ concat new).

Lemma apply_entries_groups : forall r a old new,
  old ++ new <> [] -> 1 <= r_exp r ->
  gwf a old -> a + nlen old <= r_exp r -> gwf (r_exp r) new ->
  (new <> [] -> a + nlen old = r_exp r) ->
  cons_applier r a old ->
  apply_entries r (concat (old ++ new)) = AOk (applied_state r new).
Proof.
  intros r a old new Hne He Wo Lo Wn Hn C.
  assert (W : gwf a (old ++ new)).
  { apply gwf_app. split; [exact Wo|]. destruct new; [exact I|]. rewrite Hn by discriminate. exact Wn. }
  pose proof (skipped_groups r a old new Wo Lo Wn Hn C) as SK.
  pose proof (last_seq_groups _ _ W Hne) as LS.
  destruct (groups_cons _ _ W Hne) as (e0 & tl & E & S0 & CT).
  unfold skipped in SK. rewrite E in SK, LS. rewrite E. cbn [apply_entries].
  rewrite S0. replace (r_exp r <? a) with false by (symmetry; apply N.ltb_ge; unfold nlen in *; lia).
  rewrite CT. cbn [negb]. rewrite SK. rewrite LS.
  assert (NL : nlen (old ++ new) = nlen old + nlen new).
  { unfold nlen. rewrite app_length. lia. }
  destruct new as [|n0 new'].
  - cbn [concat apply_rest]. unfold applied_state. cbn [concat].
    assert (1 <= nlen old).
    { destruct old; [cbn in Hne; congruence|]. unfold nlen. cbn [length]. lia. }
    rewrite NL. unfold nlen in *. cbn [length] in *.
    match goal with |- context [?x <? ?y] => destruct (N.ltb_spec x y) as [L1|L1] end; [exfalso; lia|].
    rewrite app_nil_r. f_equal. f_equal. lia.
  - assert (Ea : a + nlen old = r_exp r) by (apply Hn; discriminate).
    rewrite (apply_rest_groups (n0 :: new') (r_exp r)); [|exact Wn|discriminate|].
    + unfold applied_state. rewrite NL. unfold nlen in *. cbn [length] in *.
      match goal with |- context [?x <? ?y] => destruct (N.ltb_spec x y) as [L1|L1] end; [|exfalso; lia].
      f_equal. f_equal; lia.
    + destruct C as [[G GA]|(G & _)]; [right; split; assumption|left; lia].
Qed.

(* ---------- segments of the group list ---------- *)
Definition seg (i n : nat) (gs : list group) : list group := firstn n (skipn i gs).

Lemma seg_length : forall i n gs, (i + n <= length gs)%nat -> length (seg i n gs) = n.
Proof. intros. unfold seg. rewrite firstn_length, skipn_length. lia. Qed.

Lemma seg_split : forall i n k gs, (k <= n)%nat ->
  seg i n gs = seg i k gs ++ seg (i + k) (n - k) gs.
Proof.
  intros i n k gs H. unfold seg. rewrite skipn_add.
  generalize (skipn i gs). intros l.
  rewrite <- (firstn_skipn k (firstn n l)) at 1.
  rewrite firstn_firstn, Nat.min_l by exact H. f_equal.
  rewrite skipn_firstn_comm. reflexivity.
Qed.

Lemma firstn_seg : forall i m gs, firstn i gs ++ seg i m gs = firstn (i + m) gs.
Proof.
  intros i m gs. unfold seg. revert gs. induction i as [|i IH]; intros gs; [reflexivity|].
  destruct gs as [|g gs]; [rewrite skipn_nil, !firstn_nil; reflexivity|].
  cbn [firstn skipn Nat.add app]. f_equal. apply IH.
Qed.

Lemma gwf_seg : forall i n gs, gwf 1 gs -> (i <= length gs)%nat -> gwf (1 + N.of_nat i) (seg i n gs).
Proof.
  intros i n gs W L. unfold seg. apply gwf_firstn.
  pose proof (gwf_skipn i gs 1 W) as H. unfold nlen in H.
  rewrite firstn_length, Nat.min_l in H by exact L. exact H.
Qed.

Lemma nth_skipn' : forall (l : list group) i k, nth k (skipn i l) [] = nth (i + k) l [].
Proof.
  induction l as [|x l IH]; intros i k.
  - rewrite skipn_nil. destruct k, i; reflexivity.
  - destruct i as [|i]; [reflexivity|]. cbn [skipn Nat.add nth]. apply IH.
Qed.

Lemma seg_last : forall i n gs, (1 <= n)%nat -> (i + n <= length gs)%nat ->
  last (seg i n gs) [] = nth (i + n - 1) gs [].
Proof.
  intros i n gs Hn L. unfold seg.
  assert (E : firstn n (skipn i gs) = firstn (n - 1) (skipn i gs) ++ [nth (n - 1) (skipn i gs) []]).
  { generalize (skipn i gs) (skipn_length i gs). intros l Hl.
    assert (Ln : (n <= length l)%nat) by lia. clear Hl L.
    revert l Ln. induction n as [|n IH]; intros l Ln; [lia|].
    destruct l as [|x l]; [cbn in Ln; lia|]. destruct n as [|n'].
    - reflexivity.
    - cbn [firstn]. replace (S (S n') - 1)%nat with (S n') by lia. cbn [firstn nth app].
      f_equal. cbn [length] in Ln. specialize (IH (ltac:(lia)) l (ltac:(lia))).
      replace (S n' - 1)%nat with n' in IH by lia. exact IH. }
  rewrite E, last_last. rewrite nth_skipn'. f_equal. lia.
Qed.

(* ---------- fetch returns whole groups ---------- *)
Lemma filter_all_id : forall (f : entry -> bool) l, (forall e, In e l -> f e = true) -> filter f l = l.
Proof.
  intros f l. induction l as [|x l IH]; intros H; [reflexivity|]. cbn [filter].
  rewrite (H x (or_introl eq_refl)). f_equal. apply IH. intros e He. apply H. right. exact He.
Qed.

Lemma from_seq_all : forall gs s from, gwf s gs -> from <= s -> from_seq from (concat gs) = concat gs.
Proof.
  intros gs s from W L. unfold from_seq. apply filter_all_id.
  intros e Hin. pose proof (gwf_bounds _ _ _ W Hin). apply N.leb_le. lia.
Qed.

Lemma from_seq_groups : forall gs s from, gwf s gs -> s <= from ->
  from_seq from (concat gs) = concat (skipn (N.to_nat (from - s)) gs).
Proof.
  induction gs as [|g gs IH]; intros s from W L.
  - rewrite skipn_nil. reflexivity.
  - destruct (N.eq_dec s from) as [E|NE].
    + subst. rewrite N.sub_diag. cbn [N.to_nat skipn]. eapply from_seq_all; [exact W|lia].
    + destruct W as (Hg & Cg & W). cbn [concat]. unfold from_seq. rewrite filter_app.
      replace (filter (fun e => from <=? eseq e) g) with (@nil entry).
      * cbn [app]. fold (from_seq from (concat gs)). rewrite (IH (s + 1)) by (assumption || lia).
        replace (N.to_nat (from - s)) with (S (N.to_nat (from - (s + 1)))) by lia. reflexivity.
      * symmetry. unfold const_seq in Cg. rewrite Forall_forall in Cg. clear Hg.
        induction g as [|x g IHg]; [reflexivity|]. cbn [filter].
        rewrite (Cg x (or_introl eq_refl)).
        replace (from <=? s) with false by (symmetry; apply N.leb_gt; lia).
        apply IHg. intros y Hy. apply Cg. right. exact Hy.
Qed.

Lemma same_seq_const : forall s X Y, const_seq s X ->
  (forall y, hd_error Y = Some y -> eseq y <> s) -> same_seq s (X ++ Y) = X.
Proof.
  induction X as [|x X IH]; intros Y C H.
  - destruct Y as [|y Y]; [reflexivity|]. cbn [app same_seq].
    specialize (H y eq_refl). apply N.eqb_neq in H. rewrite H. reflexivity.
  - cbn [app same_seq]. rewrite (Forall_inv C), N.eqb_refl. f_equal.
    apply IH; [exact (Forall_inv_tail C)|exact H].
Qed.

Lemma const_last : forall s (g : list entry) d, const_seq s g -> g <> [] -> eseq (last g d) = s.
Proof.
  intros s g d C H. unfold const_seq in C. rewrite Forall_forall in C. apply C. apply last_in. exact H.
Qed.

(* the response cut: the first k entries extended to the end of their last number are whole groups *)
Lemma cut_groups : forall gs s k, gwf s gs -> (0 < k)%nat -> gs <> [] ->
  exists n, (1 <= n <= length gs)%nat /\ cut_at k (concat gs) = concat (firstn n gs).
Proof.
  induction gs as [|g gs IH]; intros s k W Hk Hne; [congruence|].
  destruct W as (Hg & Cg & W). cbn [concat].
  assert (HR : forall y, hd_error (concat gs) = Some y -> eseq y <> s).
  { intros y Hy. rewrite (hd_groups _ _ _ W Hy). lia. }
  unfold cut_at.
  destruct (Nat.le_gt_cases k (length g)) as [Le|Gt].
  - (* the cut falls inside (or at the end of) the first group *)
    exists 1%nat. split; [cbn [length]; lia|]. cbn [firstn concat]. rewrite app_nil_r.
    rewrite firstn_app. replace (k - length g)%nat with 0%nat by lia. cbn [firstn]. rewrite app_nil_r.
    rewrite skipn_app. replace (k - length g)%nat with 0%nat by lia. cbn [skipn].
    assert (Cf : const_seq s (firstn k g)).
    { unfold const_seq in *. rewrite Forall_forall in *. intros x Hx. apply Cg.
      rewrite <- (firstn_skipn k g). apply in_or_app. left. exact Hx. }
    assert (Nf : firstn k g <> []).
    { destruct g; [congruence|]. destruct k; [lia|]. discriminate. }
    rewrite (const_last s _ _ Cf Nf).
    rewrite same_seq_const.
    + apply firstn_skipn.
    + unfold const_seq in *. rewrite Forall_forall in *. intros x Hx. apply Cg.
      rewrite <- (firstn_skipn k g). apply in_or_app. right. exact Hx.
    + exact HR.
  - rewrite firstn_app, (firstn_all2 g) by lia. rewrite skipn_app, (skipn_all2 g) by lia. cbn [app].
    destruct gs as [|g2 gs'].
    + exists 1%nat. split; [cbn [length]; lia|]. cbn [concat firstn]. rewrite firstn_nil, skipn_nil, !app_nil_r.
      reflexivity.
    + destruct (IH (s + 1) (k - length g)%nat W ltac:(lia) ltac:(discriminate)) as (n & Hn & En).
      unfold cut_at in En. exists (S n). split; [cbn [length] in *; lia|].
      cbn [firstn concat]. rewrite <- En, <- app_assoc. f_equal. f_equal.
      assert (NE : firstn (k - length g) (concat (g2 :: gs')) <> []).
      { destruct W as (Hg2 & _). cbn [concat]. destruct g2; [congruence|].
        destruct (k - length g)%nat eqn:E; [lia|]. discriminate. }
      rewrite last_app_ne by exact NE. reflexivity.
Qed.

(* the primary's log as groups *)
Record pwf (p : pstate) (gs : list group) : Prop := mkPwf {
  pw_log : p_log p = concat gs;
  pw_gwf : gwf 1 gs;
  pw_next : p_next p = nlen gs + 1
}.

Lemma cur_pwf : forall p gs, pwf p gs -> cur p = nlen gs.
Proof. intros p gs W. unfold cur. rewrite (pw_next _ _ W). lia. Qed.

Lemma fetch_groups : forall p gs from, pwf p gs -> 1 <= from ->
  (nlen gs < from /\ fetch p from = []) \/
  (from <= nlen gs /\ exists n, (1 <= n)%nat /\ (N.to_nat from - 1 + n <= length gs)%nat /\
     fetch p from = concat (seg (N.to_nat from - 1) n gs)).
Proof.
  intros p gs from W Hf. unfold fetch. rewrite (cur_pwf _ _ W).
  destruct (N.ltb_spec (nlen gs) from) as [L|L].
  - left. split; [exact L|]. rewrite orb_true_r. reflexivity.
  - right. split; [exact L|].
    replace (nlen gs =? 0) with false by (symmetry; apply N.eqb_neq; lia). cbn [orb].
    rewrite (pw_log _ _ W).
    rewrite (from_seq_groups gs 1) by (apply (pw_gwf _ _ W) || lia).
    set (i := N.to_nat (from - 1)).
    assert (Hi : (i < length gs)%nat) by (unfold nlen in L; lia).
    destruct (cut_groups (skipn i gs) (1 + nlen (firstn i gs)) MaxFetch) as (n & Hn & En).
    + apply gwf_skipn. exact (pw_gwf _ _ W).
    + unfold MaxFetch. lia.
    + intros E. apply (f_equal (@length group)) in E. rewrite skipn_length in E. cbn in E. lia.
    + rewrite skipn_length in Hn. exists n. replace (N.to_nat from - 1)%nat with i by lia.
      split; [lia|]. split; [lia|]. unfold cut_fetch. rewrite En. reflexivity.
Qed.

(* ---------- the invariant of a replica against the primary ---------- *)
Definition ei (r : rstate) : nat := (N.to_nat (r_exp r) - 1)%nat.   (* groups applied *)

(* a pushed write: one whole group of the log *)
Definition is_push (gs : list group) (m : msg) : Prop :=
  exists i, (i < length gs)%nat /\ m = MPush (concat (seg i 1 gs)).

Inductive inbox_ok (gs : list group) (r : rstate) : list msg -> Prop :=
| IB_push : forall ib, Forall (is_push gs) ib -> inbox_ok gs r ib
| IB_init : forall es n rest, es = concat (seg (ei r) n gs) ->
    (1 <= n)%nat -> (ei r + n <= length gs)%nat -> r_start r = r_exp r ->
    Forall (is_push gs) rest ->
    inbox_ok gs r (MInit es :: rest).

Record rcore (gs : list group) (r : rstate) : Prop := mkRcore {
  ri_exp : 1 <= r_exp r <= nlen gs + 1;
  ri_store : exists old, r_store r = old ++ concat (firstn (ei r) gs) /\ incl old (concat gs);
  ri_app : (r_gseq r = r_exp r /\ r_gapp r = []) \/
           (r_gseq r + 1 = r_exp r /\ 2 <= r_exp r /\ r_gapp r = nth (ei r - 1) gs [])
}.

Definition rmode_ok (gs : list group) (r : rstate) : Prop :=
  match r_mode r with
  | RStreaming => 1 <= r_start r <= r_exp r /\ r_link r = true /\ inbox_ok gs r (r_inbox r)
  | _ => r_inbox r = []
  end.

Definition rinv (gs : list group) (r : rstate) : Prop := rcore gs r /\ rmode_ok gs r.

(* a group of a well-formed list *)
Lemma gwf_nth : forall gs s i, gwf s gs -> (i < length gs)%nat ->
  nth i gs [] <> [] /\ const_seq (s + N.of_nat i) (nth i gs []).
Proof.
  induction gs as [|g gs IH]; intros s i W Hi; [cbn in Hi; lia|].
  destruct W as (Hg & Cg & W). destruct i as [|i].
  - cbn [nth]. rewrite N.add_0_r. split; assumption.
  - cbn [nth length] in *. destruct (IH (s + 1) i W ltac:(lia)) as [A B]. split; [exact A|].
    replace (s + N.of_nat (S i)) with (s + 1 + N.of_nat i) by lia. exact B.
Qed.

Lemma firstn_last_nth : forall (l : list group) k, (1 <= k <= length l)%nat ->
  firstn k l = firstn (k - 1) l ++ [nth (k - 1) l []].
Proof.
  induction l as [|x l IH]; intros k H; [cbn in H; lia|].
  destruct k as [|k]; [lia|]. destruct k as [|k'].
  - reflexivity.
  - cbn [firstn]. replace (S (S k') - 1)%nat with (S k') by lia. cbn [firstn nth app]. f_equal.
    cbn [length] in H. specialize (IH (S k') ltac:(lia)).
    replace (S k' - 1)%nat with k' in IH by lia. exact IH.
Qed.

(* the applier step of the model on a response that is the segment [i, i+n) of the log,
   for a replica that has applied the first ei groups, i <= ei *)
Lemma apply_segment : forall gs r i n,
  gwf 1 gs -> rcore gs r -> (1 <= n)%nat -> (i + n <= length gs)%nat -> (i <= ei r)%nat ->
  let k := Nat.min n (ei r - i) in
  apply_entries r (concat (seg i n gs)) = AOk (applied_state r (seg (i + k) (n - k) gs)).
Proof.
  intros gs r i n W I Hn Hlen Hi k.
  destruct I as [[E1 E2] _ IA].
  assert (Eei : N.of_nat (ei r) + 1 = r_exp r) by (unfold ei; lia).
  rewrite (seg_split i n k gs) by (unfold k; lia).
  assert (Lold : length (seg i k gs) = k) by (apply seg_length; unfold k; lia).
  apply (apply_entries_groups r (1 + N.of_nat i)).
  - rewrite <- seg_split by (unfold k; lia). intros E. apply (f_equal (@length group)) in E.
    rewrite seg_length in E by exact Hlen. cbn in E. lia.
  - lia.
  - apply gwf_seg; [exact W|lia].
  - unfold nlen. rewrite Lold. unfold k. lia.
  - destruct (Nat.eq_dec (n - k) 0) as [Z|NZ].
    + rewrite Z. unfold seg. cbn [firstn]. exact I.
    + assert (Ek : (i + k = ei r)%nat) by (unfold k in *; lia).
      rewrite Ek. replace (r_exp r) with (1 + N.of_nat (ei r)) by lia.
      apply gwf_seg; [exact W|lia].
  - intros Hne. unfold nlen. rewrite Lold.
    assert ((n - k <> 0)%nat).
    { intros Z. apply Hne. rewrite Z. reflexivity. }
    unfold k in *. lia.
  - destruct IA as [A|(G & G2 & GA)]; [left; exact A|right].
    assert (Hlt : (ei r - 1 < length gs)%nat) by (unfold ei, nlen in *; lia).
    destruct (gwf_nth gs 1 (ei r - 1) W Hlt) as [Nn Cn].
    split; [exact G|]. split; [rewrite GA; exact Nn|]. split.
    + rewrite GA. replace (r_gseq r) with (1 + N.of_nat (ei r - 1)) by (unfold ei in *; lia). exact Cn.
    + unfold nlen. rewrite Lold. intros Ea Hne.
      assert (Ek : (i + k = ei r)%nat) by lia.
      assert (Hk : (1 <= k)%nat).
      { destruct k; [|lia]. exfalso. apply Hne. reflexivity. }
      exists (seg i (k - 1) gs). rewrite GA.
      unfold seg. rewrite (firstn_last_nth (skipn i gs) k) by (rewrite skipn_length; lia).
      f_equal. f_equal. rewrite nth_skipn'. f_equal. lia.
Qed.

Lemma seg_ne : forall i n gs, (1 <= n)%nat -> (i + n <= length gs)%nat -> seg i n gs <> [].
Proof.
  intros i n gs Hn L E. apply (f_equal (@length group)) in E. rewrite seg_length in E by exact L.
  cbn in E. lia.
Qed.

Lemma concat_seg_cons : forall gs i n, gwf 1 gs -> (1 <= n)%nat -> (i + n <= length gs)%nat ->
  exists e0 tl, concat (seg i n gs) = e0 :: tl.
Proof.
  intros gs i n W Hn L.
  destruct (groups_cons (seg i n gs) (1 + N.of_nat i)) as (e0 & tl & E & _).
  - apply gwf_seg; [exact W|lia].
  - apply seg_ne; assumption.
  - exists e0, tl. exact E.
Qed.

Lemma core_applied : forall gs r m, gwf 1 gs -> rcore gs r -> (ei r + m <= length gs)%nat ->
  rcore gs (applied_state r (seg (ei r) m gs)) /\
  ei (applied_state r (seg (ei r) m gs)) = (ei r + m)%nat.
Proof.
  intros gs r m W [[E1 E2] (old & ES & EI) IA] L.
  assert (Ln : nlen (seg (ei r) m gs) = N.of_nat m) by (unfold nlen; rewrite seg_length by exact L; reflexivity).
  assert (Eexp : r_exp (applied_state r (seg (ei r) m gs)) = r_exp r + N.of_nat m).
  { unfold applied_state. cbn [r_exp]. rewrite Ln. reflexivity. }
  assert (Eei : ei (applied_state r (seg (ei r) m gs)) = (ei r + m)%nat).
  { unfold ei at 1. rewrite Eexp. unfold ei. lia. }
  split; [|exact Eei]. constructor.
  - rewrite Eexp. unfold ei, nlen in *. lia.
  - exists old. rewrite Eei. split; [|exact EI]. unfold applied_state. cbn [r_store].
    rewrite ES, <- app_assoc, <- concat_app, firstn_seg. reflexivity.
  - rewrite Eei. destruct m as [|m'].
    + unfold seg, applied_state. cbn [firstn r_gseq r_gapp r_exp nlen length].
      unfold nlen. cbn [length]. replace (r_exp r + N.of_nat 0) with (r_exp r) by lia.
      rewrite Nat.add_0_r. exact IA.
    + right. unfold applied_state. cbn [r_gseq r_gapp r_exp].
      destruct (seg (ei r) (S m') gs) as [|s0 sl] eqn:Es.
      { exfalso. eapply seg_ne; [|exact L|exact Es]. lia. }
      rewrite Ln. split; [lia|]. split; [lia|].
      rewrite <- Es. rewrite seg_last by (lia || exact L). f_equal.
Qed.

(* fields the core invariant does not read *)
Lemma rcore_ext : forall gs r r', r_exp r' = r_exp r -> r_store r' = r_store r ->
  r_gseq r' = r_gseq r -> r_gapp r' = r_gapp r -> rcore gs r -> rcore gs r'.
Proof.
  intros gs r r' A B C D [H1 H2 H3].
  assert (E : ei r' = ei r) by (unfold ei; rewrite A; reflexivity).
  constructor; rewrite ?E, ?A, ?B, ?C, ?D; assumption.
Qed.

Definition dist (gs : list group) (r : rstate) : nat := (length gs - ei r)%nat.

Definition mu (p : pstate) (gs : list group) (r : rstate) : nat :=
  if idle p r then O else
  match r_mode r with
  | RDown => O
  | RConnecting => 2 * dist gs r + 2
  | RStreaming => match r_inbox r with MInit _ :: _ => 2 * dist gs r + 1 | _ => 2 * dist gs r + 3 end
  end.

Definition step_ok (p : pstate) (gs : list group) (c : choice) (r r' : rstate) : Prop :=
  rinv gs r' /\ (mu p gs r' <= mu p gs r)%nat /\
  (is_bad c = false -> (0 < mu p gs r)%nat -> (mu p gs r' < mu p gs r)%nat) /\
  r_link r' = r_link r /\ (r_mode r <> RDown -> r_mode r' <> RDown).

Lemma step_ok_same : forall p gs c r, rinv gs r -> idle p r = true -> step_ok p gs c r r.
Proof.
  intros p gs c r I Hid. unfold step_ok, mu. rewrite Hid.
  split; [exact I|]. split; [lia|]. split; [intros _ H; lia|].
  split; [reflexivity|]. intros H; exact H.
Qed.

Lemma rinv_disconnect : forall gs r, rcore gs r -> rinv gs (disconnect r).
Proof.
  intros gs r C. split; [eapply rcore_ext; [..|exact C]; reflexivity|]. reflexivity.
Qed.

Lemma mu_connecting : forall p gs r, r_link r = true ->
  mu p gs (disconnect r) = (2 * dist gs r + 2)%nat.
Proof.
  intros p gs r L. unfold mu, idle, disconnect. cbn [r_mode r_link]. rewrite L. reflexivity.
Qed.

(* a disconnect after the replica made (possibly no) progress *)
Lemma step_ok_disconnect : forall p gs c r r2 b,
  rinv gs r -> r_mode r = RStreaming -> idle p r = false ->
  rcore gs r2 -> r_link r2 = r_link r -> (dist gs r2 <= dist gs r)%nat ->
  (mu p gs r = 2 * dist gs r + 3 \/ (mu p gs r = 2 * dist gs r + 1 /\ dist gs r2 < dist gs r))%nat ->
  b = disconnect r2 -> step_ok p gs c r b.
Proof.
  intros p gs c r r2 b I M Hid C2 L2 D Hmu ->.
  assert (LK : r_link r = true).
  { destruct I as [_ IM]. unfold rmode_ok in IM. rewrite M in IM. tauto. }
  unfold step_ok. split; [apply rinv_disconnect; exact C2|].
  rewrite mu_connecting by (rewrite L2; exact LK).
  assert (Dd : dist gs (disconnect r2) = dist gs r2) by reflexivity.
  split; [lia|]. split; [intros; lia|]. split; [exact L2|]. intros _. discriminate.
Qed.

(* delivering the segment [i, i+n) of the log to a streaming replica whose inbox is ib *)
Lemma deliver_segment : forall p gs c r rest i n,
  pwf p gs -> rinv gs r -> r_mode r = RStreaming -> idle p r = false ->
  Forall (is_push gs) rest -> (1 <= n)%nat -> (i + n <= length gs)%nat ->
  (mu p gs r = 2 * dist gs r + 3 \/ (mu p gs r = 2 * dist gs r + 1 /\ i = ei r))%nat ->
  step_ok p gs c r (deliver c (set_inbox r rest) (concat (seg i n gs))).
Proof.
  intros p gs c r rest i n W I M Hid FP Hn Hl Hmu. pose proof (pw_gwf _ _ W) as GW.
  destruct I as [C IM]. pose proof (conj C IM : rinv gs r) as I.
  assert (Hei : (ei r <= length gs)%nat) by (pose proof (ri_exp _ _ C); unfold ei, nlen in *; lia).
  unfold rmode_ok in IM. rewrite M in IM. destruct IM as (HS & LK & _).
  set (r1 := set_inbox r rest).
  assert (C1 : rcore gs r1) by (eapply rcore_ext; [..|exact C]; reflexivity).
  assert (E1 : ei r1 = ei r) by reflexivity.
  unfold deliver.
  destruct (Nat.le_gt_cases i (ei r)) as [Li|Gi].
  - rewrite (apply_segment gs r1 i n GW C1 Hn Hl ltac:(lia)).
    set (k := Nat.min n (ei r1 - i)).
    assert (Eseg : seg (i + k) (n - k) gs = seg (ei r1) (n - k) gs).
    { destruct (Nat.eq_dec (n - k) 0) as [Z|NZ]; [rewrite Z; reflexivity|].
      f_equal. unfold k in *. lia. }
    rewrite Eseg.
    assert (Lm : (ei r1 + (n - k) <= length gs)%nat) by (unfold k; lia).
    destruct (core_applied gs r1 (n - k) GW C1 Lm) as [C2 E2].
    set (r2 := applied_state r1 (seg (ei r1) (n - k) gs)) in *.
    assert (D2 : (dist gs r2 <= dist gs r)%nat) by (unfold dist; lia).
    assert (D3 : (i = ei r -> dist gs r2 < dist gs r)%nat).
    { intros ->. unfold dist, k in *. lia. }
    destruct (c_stay c) eqn:CSY.
    + unfold step_ok. split.
      { split; [exact C2|]. unfold rmode_ok, r2, applied_state, r1, set_inbox.
        cbn [r_mode r_start r_exp r_link r_inbox]. rewrite M.
        split; [lia|]. split; [exact LK|]. apply IB_push. exact FP. }
      assert (MU2 : (mu p gs r2 <= 2 * dist gs r2 + 3)%nat).
      { unfold mu. destruct (idle p r2); [lia|]. unfold r2, applied_state, r1, set_inbox.
        cbn [r_mode r_inbox]. rewrite M. destruct rest as [|m1 rest']; [lia|].
        destruct (Forall_inv FP) as (j & _ & ->). lia. }
      split; [destruct Hmu as [H|[H Hi]]; [lia|specialize (D3 Hi); lia]|].
      split; [unfold is_bad; rewrite CSY, orb_true_r; discriminate|].
      split; [reflexivity|]. intros _. unfold r2, applied_state. cbn [r_mode]. unfold r1, set_inbox. cbn [r_mode].
      rewrite M. discriminate.
    + eapply (step_ok_disconnect p gs c r r2); try eassumption; try reflexivity.
      destruct Hmu as [H|[H Hi]]; [left; exact H|right; split; [exact H|apply D3, Hi]].
  - (* gap: NACK, reconnect *)
    rewrite (apply_entries_gap r1 (seg i n gs) (1 + N.of_nat i)).
    + eapply (step_ok_disconnect p gs c r r1); try eassumption; try reflexivity.
      destruct Hmu as [H|[H Hi]]; [left; exact H|exfalso; lia].
    + apply gwf_seg; [exact GW|lia].
    + apply seg_ne; assumption.
    + unfold ei in *. change (r_exp r1) with (r_exp r). lia.
Qed.

Lemma tick_step : forall p gs r c, pwf p gs -> rinv gs r -> step_ok p gs c r (tick c p r).
Proof.
  intros p gs r c W I. pose proof (pw_gwf _ _ W) as GW.
  pose proof (cur_pwf _ _ W) as CUR.
  destruct I as [C IM]. pose proof (conj C IM : rinv gs r) as I.
  assert (Hei : (ei r <= length gs)%nat) by (pose proof (ri_exp _ _ C); unfold ei, nlen in *; lia).
  unfold rmode_ok in IM. unfold tick.
  destruct (r_mode r) eqn:M.
  - (* down *)
    apply step_ok_same; [exact I|]. unfold idle. rewrite M. reflexivity.
  - (* connecting *)
    destruct (r_link r) eqn:LK.
    2:{ apply step_ok_same; [exact I|]. unfold idle. rewrite M, LK. reflexivity. }
    assert (MU : mu p gs r = (2 * dist gs r + 2)%nat).
    { unfold mu, idle. rewrite M, LK. reflexivity. }
    destruct C as [[E1 E2] CS CA]. pose proof (mkRcore gs r (conj E1 E2) CS CA) as C.
    unfold connect.
    destruct (fetch_groups p gs (r_exp r) W E1) as [[L F]|(L & n & Hn & Hl & F)]; rewrite F.
    + (* nothing to send: the replica is up to date *)
      set (r' := mkR RStreaming (r_link r) (r_exp r) [] (r_exp r) (r_gseq r) (r_gapp r) (r_store r)).
      assert (Hid : idle p r' = true).
      { unfold idle, poll, r'. cbn [r_mode r_inbox r_start]. rewrite CUR.
        replace (r_exp r <=? nlen gs) with false by (symmetry; apply N.leb_gt; lia). reflexivity. }
      unfold step_ok. split.
      { split; [eapply rcore_ext; [..|exact C]; reflexivity|].
        unfold rmode_ok, r'. cbn [r_mode r_start r_exp r_link r_inbox]. split; [lia|]. split; [exact LK|].
        apply IB_push. constructor. }
      assert (MU' : mu p gs r' = 0%nat) by (unfold mu; rewrite Hid; reflexivity).
      rewrite MU, MU'.
      split; [lia|]. split; [intros; lia|]. split; [reflexivity|]. intros _. discriminate.
    + (* the initial entries *)
      assert (En : (N.to_nat (r_exp r) - 1)%nat = ei r) by reflexivity. rewrite En in *.
      destruct (concat_seg_cons gs (ei r) n GW Hn Hl) as (e0 & tl & Ees). rewrite Ees.
      set (r' := mkR RStreaming (r_link r) (r_exp r) [MInit (e0 :: tl)] (r_exp r) (r_gseq r) (r_gapp r) (r_store r)).
      unfold step_ok. split.
      { split; [eapply rcore_ext; [..|exact C]; reflexivity|].
        unfold rmode_ok, r'. cbn [r_mode r_start r_exp r_link r_inbox]. split; [lia|]. split; [exact LK|].
        apply (IB_init gs _ _ n); try assumption; try reflexivity; [rewrite <- Ees; reflexivity|constructor]. }
      assert (MU' : mu p gs r' = (2 * dist gs r + 1)%nat) by reflexivity.
      rewrite MU, MU'. split; [lia|]. split; [intros; lia|]. split; [reflexivity|]. intros _. discriminate.
  - (* streaming *)
    destruct IM as (HS & LK & IB).
    inversion IB as [ib FP Eib|es n rest Ees Hn Hl ES FP Eib].
    + destruct (r_inbox r) as [|m0 rest] eqn:EI.
      * (* empty inbox: the poll, from the session's start *)
        unfold poll. rewrite CUR.
        destruct (N.leb_spec (r_start r) (nlen gs)) as [LE|GT].
        2:{ apply step_ok_same; [exact I|]. unfold idle, poll. rewrite M, EI, CUR.
            replace (r_start r <=? nlen gs) with false by (symmetry; apply N.leb_gt; lia). reflexivity. }
        destruct (fetch_groups p gs (r_start r) W ltac:(lia)) as [[L F]|(L & n & Hn & Hl & F)]; [lia|].
        rewrite F.
        set (i := (N.to_nat (r_start r) - 1)%nat) in *.
        destruct (concat_seg_cons gs i n GW Hn Hl) as (e0 & tl & Ees). rewrite Ees.
        assert (Hid : idle p r = false).
        { unfold idle, poll. rewrite M, EI, CUR. apply N.leb_le in LE. rewrite LE, F, Ees. reflexivity. }
        assert (MU : mu p gs r = (2 * dist gs r + 3)%nat).
        { unfold mu. rewrite Hid, M, EI. reflexivity. }
        destruct (c_lose c) eqn:CL.
        { unfold step_ok. split; [exact I|]. split; [lia|].
          split; [unfold is_bad; rewrite CL; discriminate|]. split; [reflexivity|]. intros _. rewrite M. discriminate. }
        rewrite <- Ees.
        replace r with (set_inbox r []) at 2 by (destruct r; cbn in EI; subst; reflexivity).
        apply (deliver_segment p gs c r [] i n W I M Hid); try assumption. left; exact MU.
      * (* a pushed write at the head *)
        destruct (Forall_inv FP) as (i & Hi & ->).
        pose proof (Forall_inv_tail FP) as FR.
        assert (Hid : idle p r = false) by (unfold idle; rewrite M, EI; reflexivity).
        assert (MU : mu p gs r = (2 * dist gs r + 3)%nat).
        { unfold mu. rewrite Hid, M, EI. reflexivity. }
        destruct (c_lose c) eqn:CL.
        -- set (r2 := set_inbox r rest).
           unfold step_ok. split.
           { split; [eapply rcore_ext; [..|exact C]; reflexivity|].
             unfold rmode_ok, r2, set_inbox. cbn [r_mode r_start r_exp r_link r_inbox]. rewrite M.
             split; [exact HS|]. split; [exact LK|]. apply IB_push. exact FR. }
           assert (MU2 : (mu p gs r2 <= 2 * dist gs r + 3)%nat).
           { unfold mu. destruct (idle p r2); [lia|]. unfold r2, set_inbox. cbn [r_mode r_inbox]. rewrite M.
             change (dist gs (mkR RStreaming (r_link r) (r_start r) rest (r_exp r) (r_gseq r) (r_gapp r) (r_store r))) with (dist gs r).
             destruct rest as [|m1 rest']; [lia|]. destruct (Forall_inv FR) as (j & _ & ->). lia. }
           rewrite MU. split; [lia|].
           split; [unfold is_bad; rewrite CL; discriminate|]. split; [reflexivity|].
           intros _. unfold r2, set_inbox. cbn [r_mode]. rewrite M. discriminate.
        -- apply (deliver_segment p gs c r rest i 1 W I M Hid); try assumption; [lia|lia|left; exact MU].
    + (* the initial entries at the head *)
      subst es.
      assert (Hid : idle p r = false) by (unfold idle; rewrite M, <- Eib; reflexivity).
      assert (MU : mu p gs r = (2 * dist gs r + 1)%nat).
      { unfold mu. rewrite Hid, M, <- Eib. reflexivity. }
      apply (deliver_segment p gs c r rest (ei r) n W I M Hid); try assumption.
      right. split; [exact MU|reflexivity].
Qed.

(* ---------- many ticks ---------- *)
Definition goods (cs : list choice) : nat := length (filter (fun c => negb (is_bad c)) cs).
Definition bads (cs : list choice) : nat := length (filter is_bad cs).

Lemma goods_bads : forall cs, (goods cs + bads cs = length cs)%nat.
Proof.
  induction cs as [|c cs IH]; [reflexivity|]. unfold goods, bads in *. cbn [filter length].
  destruct (is_bad c); cbn [negb length]; lia.
Qed.

Lemma idle_fix : forall p r c, idle p r = true -> tick c p r = r.
Proof.
  intros p r c H. unfold idle, tick in *. destruct (r_mode r); [reflexivity| |].
  - destruct (r_link r); [discriminate|reflexivity].
  - destruct (r_inbox r); [|discriminate]. destruct (poll p r); [discriminate|reflexivity].
Qed.

Lemma idle_ticks : forall p cs r, idle p r = true -> ticks cs p r = r.
Proof.
  intros p cs. induction cs as [|c cs IH]; intros r H; [reflexivity|].
  unfold ticks in *. cbn [fold_left]. rewrite idle_fix by exact H. apply IH. exact H.
Qed.

Lemma mu_zero_idle : forall p gs r, mu p gs r = O -> idle p r = true.
Proof.
  intros p gs r H. unfold mu in H. destruct (idle p r) eqn:E; [reflexivity|].
  unfold idle in E. destruct (r_mode r); [discriminate|lia|]. destruct (r_inbox r) as [|[] ?]; lia.
Qed.

Lemma ticks_ok : forall p gs cs r, pwf p gs -> rinv gs r ->
  let r' := ticks cs p r in
  rinv gs r' /\ (mu p gs r' <= mu p gs r - goods cs)%nat /\
  r_link r' = r_link r /\ (r_mode r <> RDown -> r_mode r' <> RDown).
Proof.
  intros p gs cs. induction cs as [|c cs IH]; intros r W I.
  - unfold ticks, goods. cbn [fold_left filter length]. split; [exact I|]. split; [lia|].
    split; [reflexivity|]. intros H; exact H.
  - destruct (tick_step p gs r c W I) as (I1 & M1 & M2 & L1 & D1).
    destruct (IH (tick c p r) W I1) as (I2 & M3 & L2 & D2).
    unfold ticks in *. cbn [fold_left]. split; [exact I2|].
    split.
    + unfold goods in *. cbn [filter]. destruct (is_bad c) eqn:B; cbn [negb length].
      * lia.
      * destruct (Nat.eq_dec (mu p gs r) 0) as [Z|NZ]; [lia|]. specialize (M2 eq_refl ltac:(lia)). lia.
    + split; [congruence|]. intros H. apply D2, D1, H.
Qed.

(* ---------- views ---------- *)
Definition eff1 (e : entry) : bytes * option bytes :=
  (w_key e, if w_op e =? OpDel then None else Some (w_val e)).

Lemma flat_hist : forall l, flat (hist l) = map eff1 l.
Proof.
  induction l as [|e l IH]; [reflexivity|]. unfold flat, hist in *. cbn [map flat_map].
  rewrite IH. unfold wop_of, eff1. destruct (w_op e =? OpDel); reflexivity.
Qed.

Lemma last_effect_app' : forall k a b,
  last_effect k (a ++ b) = match last_effect k b with Some x => Some x | None => last_effect k a end.
Proof.
  intros k a b. induction a as [|[k' v] a IH]; cbn [app last_effect].
  - destruct (last_effect k b); reflexivity.
  - rewrite IH. destruct (last_effect k b); reflexivity.
Qed.

Lemma last_effect_none_keys : forall k l, (forall e, In e l -> w_key e <> k) -> last_effect k (map eff1 l) = None.
Proof.
  induction l as [|e l IH]; intros H; [reflexivity|]. cbn [map last_effect]. unfold eff1 at 1.
  rewrite IH by (intros x Hx; apply H; right; exact Hx).
  destruct (beq (w_key e) k) eqn:B; [|reflexivity].
  apply beq_true_iff in B. exfalso. apply (H e); [left; reflexivity|exact B].
Qed.

Lemma last_effect_some_key : forall k l, last_effect k (map eff1 l) = None -> forall e, In e l -> w_key e <> k.
Proof.
  induction l as [|x l IH]; intros H e Hin; [contradiction|]. cbn [map last_effect] in H. unfold eff1 at 1 in H.
  destruct (last_effect k (map eff1 l)) eqn:E; [discriminate|].
  destruct Hin as [<-|Hin].
  - intros K. rewrite K, beq_refl in H. discriminate.
  - apply IH; [reflexivity|exact Hin].
Qed.

Lemma view_get_old : forall old L k, incl old L -> view_get (old ++ L) k = view_get L k.
Proof.
  intros old L k Hin. unfold view_get, spec_get, latest. rewrite !flat_hist, map_app, last_effect_app'.
  destruct (last_effect k (map eff1 L)) eqn:E; [reflexivity|].
  rewrite last_effect_none_keys; [reflexivity|].
  intros e He. apply (last_effect_some_key k L E). apply Hin. exact He.
Qed.

Lemma opt_beq_refl : forall x, opt_beq x x = true.
Proof. intros [x|]; [apply beq_refl|reflexivity]. Qed.

Lemma views_agree_full : forall p r old, r_store r = old ++ p_log p -> incl old (p_log p) ->
  views_agree p r = true.
Proof.
  intros p r old E Hin. unfold views_agree. apply forallb_forall. intros k _.
  rewrite E, view_get_old by exact Hin. apply opt_beq_refl.
Qed.

(* an idle, running, connected replica holds the whole log *)
Lemma idle_converged : forall p gs r, pwf p gs -> rinv gs r ->
  r_mode r <> RDown -> r_link r = true -> idle p r = true ->
  r_exp r = nlen gs + 1 /\ views_agree p r = true.
Proof.
  intros p gs r W [C IM] ND LK Hid.
  assert (E : r_exp r = nlen gs + 1).
  { unfold idle in Hid. unfold rmode_ok in IM. destruct (r_mode r) eqn:M; [congruence| |].
    - rewrite LK in Hid. discriminate.
    - destruct IM as (HS & _ & IB). destruct (r_inbox r) eqn:EI; [|discriminate].
      unfold poll in Hid. rewrite (cur_pwf _ _ W) in Hid.
      destruct (N.leb_spec (r_start r) (nlen gs)) as [LE|GT].
      + exfalso. destruct (fetch_groups p gs (r_start r) W ltac:(lia)) as [[L F]|(L & n & Hn & Hl & F)]; [lia|].
        rewrite F in Hid. destruct (concat_seg_cons gs _ n (pw_gwf _ _ W) Hn Hl) as (e0 & tl & Ees).
        rewrite Ees in Hid. discriminate.
      + pose proof (ri_exp _ _ C) as [_ E2]. lia. }
  split; [exact E|].
  destruct (ri_store _ _ C) as (old & ES & EI).
  apply (views_agree_full p r old).
  - rewrite ES, (pw_log _ _ W). f_equal. f_equal. apply firstn_all2. unfold ei, nlen in *. lia.
  - rewrite (pw_log _ _ W). exact EI.
Qed.

(* ---------- bounded convergence from any state that satisfies the invariant ---------- *)
Theorem converges_from_invariant : forall p gs r cs F,
  pwf p gs -> rinv gs r -> r_mode r <> RDown -> r_link r = true ->
  (bads cs <= F)%nat -> (2 * (length gs - ei r) + 3 + F <= length cs)%nat ->
  let r' := ticks cs p r in
  views_agree p r' = true /\ forall cs', ticks cs' p r' = r'.
Proof.
  intros p gs r cs F W I ND LK HB HL r'.
  destruct (ticks_ok p gs cs r W I) as (I' & M' & L' & D').
  assert (MB : (mu p gs r <= 2 * (length gs - ei r) + 3)%nat).
  { unfold mu, dist. destruct (idle p r); [lia|]. destruct (r_mode r); [lia|lia|].
    destruct (r_inbox r) as [|[] ?]; lia. }
  pose proof (goods_bads cs) as GB.
  assert (Z : mu p gs (ticks cs p r) = O) by lia.
  apply mu_zero_idle in Z. fold r' in Z, I', L', D'.
  destruct (idle_converged p gs r' W I' (D' ND) ltac:(congruence) Z) as [_ V].
  split; [exact V|]. intros cs'. apply idle_ticks. exact Z.
Qed.

(* ---------- the invariant holds along every run ---------- *)
Lemma pwf_init : pwf p_init [].
Proof. constructor; reflexivity || exact I. Qed.

Lemma rinv_init : rinv [] r_init.
Proof.
  split.
  - constructor; cbn.
    + lia.
    + exists []. split; [reflexivity|]. intros x [].
    + left. split; reflexivity.
  - reflexivity.
Qed.

Lemma entries_of_group : forall s w, is_noop w = false ->
  entries_of s w <> [] /\ const_seq s (entries_of s w).
Proof.
  intros s [op k v|ops] H; cbn [entries_of].
  - split; [discriminate|]. constructor; [reflexivity|constructor].
  - destruct ops as [|o ops]; [discriminate|]. split; [discriminate|].
    unfold stamp_ops, const_seq. apply Forall_forall. intros e He. apply in_map_iff in He.
    destruct He as ([[op k] v] & <- & _). reflexivity.
Qed.

Lemma pwf_write : forall p gs w, pwf p gs -> is_noop w = false ->
  pwf (p_write p w) (gs ++ [entries_of (p_next p) w]).
Proof.
  intros p gs w [A B C] H. destruct (entries_of_group (p_next p) w H) as [G1 G2].
  unfold p_write. rewrite H. constructor; cbn [p_log p_next].
  - rewrite A, concat_app. cbn [concat]. rewrite app_nil_r. reflexivity.
  - apply gwf_app. split; [exact B|]. cbn [gwf].
    replace (1 + nlen gs) with (p_next p) by (rewrite C; lia). repeat split; assumption.
  - rewrite C. unfold nlen. rewrite app_length. cbn [length]. lia.
Qed.

Lemma seg_app_l : forall i n (gs more : list group), (i + n <= length gs)%nat -> seg i n (gs ++ more) = seg i n gs.
Proof.
  intros i n gs more H. unfold seg. rewrite skipn_app, firstn_app, skipn_length.
  replace (n - (length gs - i))%nat with 0%nat by lia. cbn [firstn]. rewrite app_nil_r. reflexivity.
Qed.

Lemma firstn_app_l : forall i (gs more : list group), (i <= length gs)%nat -> firstn i (gs ++ more) = firstn i gs.
Proof.
  intros i gs more H. rewrite firstn_app. replace (i - length gs)%nat with 0%nat by lia.
  cbn [firstn]. apply app_nil_r.
Qed.

Lemma rcore_grow : forall gs more r, rcore gs r -> rcore (gs ++ more) r.
Proof.
  intros gs more r [[E1 E2] (old & ES & EI) IA].
  assert (Hei : (ei r <= length gs)%nat) by (unfold ei, nlen in *; lia).
  constructor.
  - unfold nlen in *. rewrite app_length. lia.
  - exists old. rewrite firstn_app_l by exact Hei. split; [exact ES|].
    intros x Hx. rewrite concat_app. apply in_or_app. left. apply EI. exact Hx.
  - destruct IA as [A|(G1 & G2 & G3)]; [left; exact A|right].
    split; [exact G1|]. split; [exact G2|]. rewrite app_nth1 by (unfold ei in *; lia). exact G3.
Qed.

Lemma is_push_grow : forall gs more m, is_push gs m -> is_push (gs ++ more) m.
Proof.
  intros gs more m (i & Hi & ->). exists i. split; [rewrite app_length; lia|].
  rewrite seg_app_l by lia. reflexivity.
Qed.

Lemma inbox_ok_grow : forall gs more r ib, inbox_ok gs r ib -> inbox_ok (gs ++ more) r ib.
Proof.
  intros gs more r ib H.
  assert (FG : forall l, Forall (is_push gs) l -> Forall (is_push (gs ++ more)) l).
  { intros l Hl. eapply Forall_impl; [|exact Hl]. intros m. apply is_push_grow. }
  destruct H as [ib FP|es n rest Ees Hn' Hl ES FP].
  - apply IB_push. apply FG, FP.
  - apply (IB_init _ _ _ n); try assumption.
    + rewrite seg_app_l by exact Hl. exact Ees.
    + rewrite app_length. lia.
    + apply FG, FP.
Qed.

Lemma inbox_ok_push : forall gs r ib m, inbox_ok gs r ib -> is_push gs m -> inbox_ok gs r (ib ++ [m]).
Proof.
  intros gs r ib m H Hm. destruct H as [ib FP|es n rest Ees Hn' Hl ES FP].
  - apply IB_push. apply Forall_app. split; [exact FP|]. constructor; [exact Hm|constructor].
  - cbn [app]. apply (IB_init _ _ _ n); try assumption.
    apply Forall_app. split; [exact FP|]. constructor; [exact Hm|constructor].
Qed.

(* inbox_ok reads only start and exp of the replica *)
Lemma inbox_ok_ext : forall gs r r' ib, r_start r' = r_start r -> r_exp r' = r_exp r ->
  inbox_ok gs r ib -> inbox_ok gs r' ib.
Proof.
  intros gs r r' ib A B H.
  assert (E : ei r' = ei r) by (unfold ei; rewrite B; reflexivity).
  destruct H as [ib FP|es n rest Ees Hn' Hl ES FP].
  - apply IB_push. exact FP.
  - apply (IB_init _ _ _ n); rewrite ?E, ?A, ?B; assumption.
Qed.

Lemma step_inv : forall p r gs e, pwf p gs -> rinv gs r ->
  exists more, pwf (fst (step (p, r) e)) (gs ++ more) /\ rinv (gs ++ more) (snd (step (p, r) e)).
Proof.
  intros p r gs e W [C IM]. pose proof (conj C IM : rinv gs r) as I.
  destruct e as [w| |c| | | |]; cbn [step fst snd].
  - (* write *)
    destruct (is_noop w) eqn:NW.
    + exists []. rewrite app_nil_r. cbn [fst snd]. split; assumption.
    + exists [entries_of (p_next p) w]. cbn [fst snd]. split; [apply pwf_write; assumption|].
      pose proof (rcore_grow gs [entries_of (p_next p) w] r C) as CG.
      unfold push_of. unfold rmode_ok in IM. destruct (r_mode r) eqn:M.
      * split; [exact CG|]. unfold rmode_ok. rewrite M. exact IM.
      * split; [exact CG|]. unfold rmode_ok. rewrite M. exact IM.
      * destruct IM as (HS & LK & IB).
        destruct (r_start r <=? obs_seq (p_next p) w) eqn:PU.
        -- destruct (Nat.leb MaxQueue (length (r_inbox r))).
           ++ apply rinv_disconnect. exact CG.
           ++ split; [eapply rcore_ext; [..|exact CG]; reflexivity|].
              unfold rmode_ok, set_inbox. cbn [r_mode r_start r_exp r_link r_inbox]. rewrite M.
              split; [exact HS|]. split; [exact LK|].
              eapply inbox_ok_ext; [| |apply inbox_ok_push; [apply inbox_ok_grow; exact IB|]]; try reflexivity.
              (* the pushed response is the new group *)
              exists (length gs). split; [rewrite app_length; cbn [length]; lia|].
              unfold seg. rewrite skipn_app, skipn_all, Nat.sub_diag. cbn [skipn app firstn concat].
              rewrite app_nil_r. reflexivity.
        -- split; [exact CG|]. unfold rmode_ok. rewrite M.
           split; [exact HS|]. split; [exact LK|]. apply inbox_ok_grow. exact IB.
  - (* flush: rotation is followed *)
    exists []. rewrite app_nil_r. cbn [fst snd]. split; assumption.
  - (* tick *)
    exists []. rewrite app_nil_r. split; [exact W|].
    destruct (tick_step p gs r c W I) as (I1 & _). exact I1.
  - (* start *)
    exists []. rewrite app_nil_r. split; [exact W|]. destruct (r_mode r) eqn:M; try exact I.
    split; [|reflexivity]. destruct C as [[E1 E2] (old & ES & EI) IA]. constructor; cbn.
    + unfold nlen. lia.
    + exists (r_store r). split; [rewrite app_nil_r; reflexivity|].
      rewrite ES. intros x Hx. apply in_app_or in Hx. destruct Hx as [Hx|Hx]; [apply EI; exact Hx|].
      rewrite <- (firstn_skipn (ei r) gs), concat_app. apply in_or_app. left. exact Hx.
    + left. split; reflexivity.
  - (* stop *)
    exists []. rewrite app_nil_r. split; [exact W|].
    split; [eapply rcore_ext; [..|exact C]; reflexivity|reflexivity].
  - (* cut *)
    exists []. rewrite app_nil_r. split; [exact W|].
    split; [eapply rcore_ext; [..|exact C]; unfold r_cut; destruct (r_mode r); reflexivity|].
    unfold rmode_ok, r_cut. destruct (r_mode r); reflexivity.
  - (* heal *)
    exists []. rewrite app_nil_r. split; [exact W|].
    split; [eapply rcore_ext; [..|exact C]; reflexivity|].
    unfold rmode_ok, r_heal in *. cbn [r_mode r_start r_exp r_link r_inbox].
    destruct (r_mode r); try exact IM. destruct IM as (HS & LK & IB).
    split; [exact HS|]. split; [reflexivity|]. eapply inbox_ok_ext; [..|exact IB]; reflexivity.
Qed.

Lemma run_inv : forall evs p r gs, pwf p gs -> rinv gs r ->
  exists gs', pwf (fst (run evs (p, r))) gs' /\ rinv gs' (snd (run evs (p, r))).
Proof.
  induction evs as [|e evs IH]; intros p r gs W I.
  - exists gs. split; assumption.
  - destruct (step_inv p r gs e W I) as (m1 & W1 & I1).
    unfold run in *. cbn [fold_left] in *.
    destruct (step (p, r) e) as [p1 r1] eqn:ES. cbn [fst snd] in W1, I1.
    apply (IH p1 r1 (gs ++ m1)); assumption.
Qed.

(* what "a connected replica" means: its replication manager runs and the link is up *)
Definition connected (r : rstate) : Prop := r_mode r <> RDown /\ r_link r = true.

(* C14: after ANY history of the primary (single writes, deletes, transactions, flushes and log
   rotations) and of the replica (joining before, during or after the writes, stopped and started
   again, link cut and healed), once the primary stops writing a connected replica agrees with the
   primary within 2*(sequence numbers it lacks)+3 rounds plus the number of rounds in which a
   delivery was swallowed or side-lined, and no later round changes it. *)
Theorem converges : forall evs cs F,
  let p := fst (run evs sys_init) in
  let r := snd (run evs sys_init) in
  connected r ->
  (bads cs <= F)%nat ->
  (2 * N.to_nat (p_next p - r_exp r) + 3 + F <= length cs)%nat ->
  views_agree p (ticks cs p r) = true /\
  forall cs', ticks cs' p (ticks cs p r) = ticks cs p r.
Proof.
  intros evs cs F p r [ND LK] HB HL.
  destruct (run_inv evs p_init r_init [] pwf_init rinv_init) as (gs & W & I).
  fold sys_init in W, I. fold p in W. fold r in I.
  apply (converges_from_invariant p gs r cs F); try assumption.
  pose proof (ri_exp _ _ (proj1 I)) as [E1 E2]. rewrite (pw_next _ _ W) in HL.
  unfold ei, nlen in *. lia.
Qed.

(* the same as an existence of a bound for every fairness budget *)
Definition converges_statement : Prop :=
  forall evs, let p := fst (run evs sys_init) in let r := snd (run evs sys_init) in
  connected r ->
  forall F, exists bound, forall cs, (bads cs <= F)%nat -> (bound <= length cs)%nat ->
  views_agree p (ticks cs p r) = true /\ forall cs', ticks cs' p (ticks cs p r) = ticks cs p r.

Theorem converges_statement_holds : converges_statement.
Proof.
  intros evs p r Hc F. exists (2 * N.to_nat (p_next p - r_exp r) + 3 + F)%nat.
  intros cs HB HL. apply (converges evs cs F Hc HB HL).
Qed.

(* non-vacuity: a history with single writes, a delete, a transaction, a flush (log rotation)
   while the replica is connected, a replica that joins in the middle and is restarted; the
   replica lags behind at the end of it and agrees after the rounds of the bound *)
Definition put1 (k v : N) : event := EWrite (WSingle OpPut [k] [v]).
Definition del1 (k : N) : event := EWrite (WSingle OpDel [k] []).
Definition tx2 (k1 v1 k2 v2 : N) : event := EWrite (WMulti [(OpPut, [k1], [v1]); (OpPut, [k2], [v2])]).
Definition tgood (n : nat) : list event := repeat (ETick good) n.

Definition ex_history : list event :=
  [put1 97 1; put1 98 2; EStart; ETick good; tx2 99 3 100 4; del1 97] ++ tgood 3 ++
  [EFlush; put1 103 8; EStop; put1 101 5; EStart; put1 102 6; EFlush; put1 97 7].

Example converges_applies :
  let p := fst (run ex_history sys_init) in
  let r := snd (run ex_history sys_init) in
  connected r /\ views_agree p r = false /\
  views_agree p (ticks (repeat good 21) p r) = true.
Proof.
  split; [split; [vm_compute; discriminate|vm_compute; reflexivity]|].
  split; vm_compute; reflexivity.
Qed.

(* the histories on which the pinned tree never converged (ReplProtoBefore.v) converge now *)
Definition puts (n : nat) : list event := map (fun i => put1 (N.of_nat i) 1) (seq 1 n).

Definition w_rotation : list event :=
  [EStart; ETick good; put1 97 1; put1 98 2] ++ tgood 6 ++ [EFlush; put1 99 3; put1 100 4].
Definition w_join_after_rotation : list event :=
  [put1 97 1; put1 98 2; EFlush; put1 99 3; EStart; ETick good; ETick good].
Definition w_last_write : list event := [EStart; ETick good; put1 107 118].
Definition w_tx_cut : list event :=
  puts 99 ++ [tx2 200 1 201 2; put1 250 9; EStart] ++ tgood 8.

Definition settled (evs : list event) : bool :=
  let s := run (evs ++ tgood 8) sys_init in views_agree (fst s) (snd s).

Example former_witnesses_converge :
  settled w_rotation = true /\ settled w_join_after_rotation = true /\
  settled w_last_write = true /\ settled w_tx_cut = true.
Proof. repeat split; vm_compute; reflexivity. Qed.
