(* SkipListProofs.v — C18, tower refinement: for every assignment of heights the multi-level
   search of SkipList.v ends at the same level-0 predecessor as the plain level-0 scan, so
   Insert / Find / Seek on the tower structure agree with insert / find / seek_ge of
   Memtable.v; on every level prev[level] is the level's insertion point. *)
From Coq Require Import List NArith Bool Lia ZifyN ZifyNat ZifyBool Sorted Permutation PeanoNat.
From KV Require Import Bytes Memtable MemtableProofs SkipList.
Import ListNotations.

(* ------------------------------------------------------------------------------------- *)
(* the plain level-0 scan: skip the nodes that are `less`                                 *)
(* ------------------------------------------------------------------------------------- *)

Fixpoint dropw (less : mentry -> bool) (t : tower) : tower :=
  match t with
  | [] => []
  | p :: r => if less (fst p) then dropw less r else t
  end.

Fixpoint takew (less : mentry -> bool) (t : tower) : tower :=
  match t with
  | [] => []
  | p :: r => if less (fst p) then p :: takew less r else []
  end.

Definition lessP (less : mentry -> bool) (p : tnode) : Prop := less (fst p) = true.
Definition nlessP (less : mentry -> bool) (p : tnode) : Prop := less (fst p) = false.

(* `less` is downward closed along the chain (true for a sorted chain and the two
   comparisons the code uses) *)
Definition mono (less : mentry -> bool) (t : tower) : Prop :=
  forall a x b, t = a ++ x :: b -> less (fst x) = true -> Forall (lessP less) a.

Definition heights_ok (t : tower) : Prop := Forall (fun p : tnode => (1 <= snd p)%nat) t.

Section Search.
Variable less : mentry -> bool.

Lemma takew_dropw : forall t, takew less t ++ dropw less t = t.
Proof.
  induction t as [|p r IH]; [reflexivity|]. cbn [takew dropw].
  destruct (less (fst p)); [cbn [app]; f_equal; exact IH|reflexivity].
Qed.

Lemma takew_all : forall t, Forall (lessP less) (takew less t).
Proof.
  induction t as [|p r IH]; [constructor|]. cbn [takew].
  destruct (less (fst p)) eqn:L; constructor; assumption.
Qed.

Lemma dropw_head : forall t, match dropw less t with [] => True | p :: _ => less (fst p) = false end.
Proof.
  induction t as [|p r IH]; [exact I|]. cbn [dropw].
  destruct (less (fst p)) eqn:L; [exact IH|exact L].
Qed.

Lemma dropw_app_less : forall a l, Forall (lessP less) a -> dropw less (a ++ l) = dropw less l.
Proof.
  induction a as [|p a IH]; intros l H; [reflexivity|].
  inversion H as [|? ? Hp Ha]; subst. cbn [app dropw]. unfold lessP in Hp. rewrite Hp.
  apply IH. exact Ha.
Qed.

Lemma takew_app_less : forall a l, Forall (lessP less) a -> takew less (a ++ l) = a ++ takew less l.
Proof.
  induction a as [|p a IH]; intros l H; [reflexivity|].
  inversion H as [|? ? Hp Ha]; subst. cbn [app takew]. unfold lessP in Hp. rewrite Hp.
  f_equal. apply IH. exact Ha.
Qed.

Lemma dropw_nless : forall l, Forall (nlessP less) l -> dropw less l = l.
Proof.
  intros [|p r] H; [reflexivity|]. inversion H as [|? ? Hp _]; subst.
  cbn [dropw]. unfold nlessP in Hp. rewrite Hp. reflexivity.
Qed.

Lemma takew_nless : forall l, Forall (nlessP less) l -> takew less l = [].
Proof.
  intros [|p r] H; [reflexivity|]. inversion H as [|? ? Hp _]; subst.
  cbn [takew]. unfold nlessP in Hp. rewrite Hp. reflexivity.
Qed.

Lemma split_unique : forall a b, Forall (lessP less) a -> Forall (nlessP less) b ->
  takew less (a ++ b) = a /\ dropw less (a ++ b) = b.
Proof.
  intros a b Ha Hb. rewrite takew_app_less, dropw_app_less by exact Ha.
  rewrite takew_nless, dropw_nless by exact Hb. rewrite app_nil_r. split; reflexivity.
Qed.

Lemma mono_suffix : forall a b, mono less (a ++ b) -> mono less b.
Proof.
  intros a b H c x d E Lx. subst b.
  assert (F : Forall (lessP less) (a ++ c)).
  { apply (H (a ++ c) x d); [rewrite <- app_assoc; reflexivity|exact Lx]. }
  apply Forall_app in F. apply F.
Qed.

Lemma mono_dropw_nless : forall t, mono less t -> Forall (nlessP less) (dropw less t).
Proof.
  induction t as [|p r IH]; intros M; [constructor|]. cbn [dropw].
  destruct (less (fst p)) eqn:L.
  - apply IH. apply (mono_suffix [p] r). exact M.
  - constructor; [exact L|]. apply Forall_forall. intros y Hy. unfold nlessP.
    destruct (less (fst y)) eqn:Ly; [|reflexivity]. exfalso.
    apply in_split in Hy. destruct Hy as (r1 & r2 & ->).
    assert (F : Forall (lessP less) (p :: r1)) by (apply (M (p :: r1) y r2); [reflexivity|exact Ly]).
    inversion F as [|? ? Hp _]; subst. unfold lessP in Hp. congruence.
Qed.

(* the walk on one level ends at a position further right; everything passed over is `less` *)
Lemma walk_suffix : forall lv scan cur pre, cur = pre ++ scan -> mono less cur ->
  exists q, cur = q ++ walk less lv cur scan /\ Forall (lessP less) q.
Proof.
  intros lv. induction scan as [|p r IH]; intros cur pre E M; cbn [walk].
  - exists []. split; [reflexivity|constructor].
  - destruct (linked lv p).
    + destruct (less (fst p)) eqn:L.
      * assert (Mr : mono less r).
        { apply (mono_suffix (pre ++ [p]) r). rewrite <- app_assoc. cbn [app]. rewrite <- E. exact M. }
        destruct (IH r [] eq_refl Mr) as (q & Eq & Fq).
        exists (pre ++ p :: q). split.
        -- rewrite <- app_assoc. cbn [app]. rewrite <- Eq. exact E.
        -- apply Forall_app. split; [apply (M pre p r E L)|]. constructor; [exact L|exact Fq].
      * exists []. split; [reflexivity|constructor].
    + apply (IH cur (pre ++ [p])); [|exact M]. rewrite <- app_assoc. exact E.
Qed.

(* on level 0 every node is linked: the walk is the plain scan *)
Lemma walk_level0 : forall scan, heights_ok scan -> walk less 0 scan scan = dropw less scan.
Proof.
  induction scan as [|p r IH]; intros H; [reflexivity|].
  inversion H as [|? ? Hp Hr]; subst. cbn [walk dropw].
  assert (Lk : linked 0 p = true) by (unfold linked; apply Nat.ltb_lt; lia).
  rewrite Lk. destruct (less (fst p)); [apply IH; exact Hr|reflexivity].
Qed.

Lemma heights_ok_suffix : forall a b, heights_ok (a ++ b) -> heights_ok b.
Proof. intros a b H. apply Forall_app in H. apply H. Qed.

(* C18_towers, core: whatever the heights and the start level, the descent ends at the
   level-0 predecessor found by the plain scan *)
Lemma descend_dropw : forall lv cur, mono less cur -> heights_ok cur ->
  descend less lv cur = dropw less cur.
Proof.
  induction lv as [|lv IH]; intros cur M H; cbn [descend].
  - apply walk_level0. exact H.
  - destruct (walk_suffix (S lv) cur cur [] eq_refl M) as (q & E & F).
    set (W := walk less (S lv) cur cur) in *.
    rewrite IH.
    + rewrite E. rewrite dropw_app_less by exact F. reflexivity.
    + apply (mono_suffix q). rewrite <- E. exact M.
    + apply (heights_ok_suffix q). rewrite <- E. exact H.
Qed.

Theorem search_level0 : forall height t, (1 <= height)%nat -> heights_ok t -> mono less t ->
  search less height t = dropw less t.
Proof.
  intros [|top] t Hh H M; [lia|]. cbn [search]. apply descend_dropw; assumption.
Qed.

(* the level-lv chain after the walk starts at the first node of that chain that is not less *)
Lemma walk_chain : forall lv scan cur pre, cur = pre ++ scan ->
  Forall (fun p => linked lv p = false) pre ->
  chain lv (walk less lv cur scan) = dropw less (chain lv scan).
Proof.
  intros lv. induction scan as [|p r IH]; intros cur pre E Hpre; cbn [walk].
  - subst cur. rewrite app_nil_r. unfold chain. cbn [filter dropw].
    induction pre as [|a pre IHp]; [reflexivity|]. inversion Hpre as [|? ? Ha Hr]; subst.
    cbn [filter]. rewrite Ha. apply IHp. exact Hr.
  - unfold chain at 2. cbn [filter]. fold (chain lv r). destruct (linked lv p) eqn:Lk.
    + cbn [dropw]. destruct (less (fst p)) eqn:L.
      * apply (IH r []); [reflexivity|constructor].
      * subst cur. unfold chain. rewrite filter_app. cbn [filter]. rewrite Lk.
        assert (N : filter (linked lv) pre = []).
        { clear -Hpre. induction pre as [|a pre IHp]; [reflexivity|].
          inversion Hpre as [|? ? Ha Hr]; subst. cbn [filter]. rewrite Ha. apply IHp. exact Hr. }
        rewrite N. reflexivity.
    + apply (IH cur (pre ++ [p])).
      * rewrite <- app_assoc. exact E.
      * apply Forall_app. split; [exact Hpre|]. constructor; [exact Lk|constructor].
Qed.

Lemma chain_app : forall lv a b, chain lv (a ++ b) = chain lv a ++ chain lv b.
Proof. intros lv a b. apply filter_app. Qed.

Lemma chain_lessP : forall lv a, Forall (lessP less) a -> Forall (lessP less) (chain lv a).
Proof.
  intros lv a H. apply Forall_forall. intros x Hx. apply filter_In in Hx.
  rewrite Forall_forall in H. apply H. apply Hx.
Qed.

Lemma chain_nlessP : forall lv a, Forall (nlessP less) a -> Forall (nlessP less) (chain lv a).
Proof.
  intros lv a H. apply Forall_forall. intros x Hx. apply filter_In in Hx.
  rewrite Forall_forall in H. apply H. apply Hx.
Qed.

(* every prev[l] computed by the descent is the insertion point of the level-l chain *)
Lemma descend_prevs_spec : forall lv cur t q, t = q ++ cur -> Forall (lessP less) q -> mono less t ->
  forall l P, In (l, P) (descend_prevs less lv cur) ->
    (l <= lv)%nat /\ chain l P = dropw less (chain l t) /\
    exists q', t = q' ++ P /\ Forall (lessP less) q'.
Proof.
  induction lv as [|lv IH]; intros cur t q E Fq M l P Hin; cbn [descend_prevs] in Hin.
  - destruct Hin as [Hin|[]]. injection Hin as <- <-.
    assert (Mc : mono less cur) by (apply (mono_suffix q); rewrite <- E; exact M).
    destruct (walk_suffix 0 cur cur [] eq_refl Mc) as (q1 & E1 & F1).
    split; [lia|]. split.
    + rewrite (walk_chain 0 cur cur [] eq_refl (Forall_nil _)).
      rewrite E, chain_app, dropw_app_less by (apply chain_lessP; exact Fq). reflexivity.
    + exists (q ++ q1). split; [rewrite <- app_assoc, <- E1; exact E|].
      apply Forall_app. split; assumption.
  - assert (Mc : mono less cur) by (apply (mono_suffix q); rewrite <- E; exact M).
    destruct (walk_suffix (S lv) cur cur [] eq_refl Mc) as (q1 & E1 & F1).
    destruct Hin as [Hin|Hin].
    + injection Hin as <- <-. split; [lia|]. split.
      * rewrite (walk_chain (S lv) cur cur [] eq_refl (Forall_nil _)).
        rewrite E, chain_app, dropw_app_less by (apply chain_lessP; exact Fq). reflexivity.
      * exists (q ++ q1). split; [rewrite <- app_assoc, <- E1; exact E|].
        apply Forall_app. split; assumption.
    + assert (E2 : t = (q ++ q1) ++ walk less (S lv) cur cur)
        by (rewrite <- app_assoc, <- E1; exact E).
      assert (F2 : Forall (lessP less) (q ++ q1)) by (apply Forall_app; split; assumption).
      destruct (IH _ t (q ++ q1) E2 F2 M l P Hin) as (Hl & Hc & Hq).
      split; [lia|]. split; assumption.
Qed.

End Search.

(* ------------------------------------------------------------------------------------- *)
(* sorted chains are monotone for the two comparisons                                     *)
(* ------------------------------------------------------------------------------------- *)

Lemma sorted_app_mid : forall l1 x l2, sorted (l1 ++ x :: l2) -> Forall (fun y => ele y x) l1.
Proof.
  induction l1 as [|a l1 IH]; intros x l2 H; [constructor|].
  cbn [app] in H. apply sorted_cons_inv in H. destruct H as [Hs Hf]. constructor.
  - rewrite Forall_forall in Hf. apply Hf. apply in_or_app. right. left. reflexivity.
  - apply (IH x l2). exact Hs.
Qed.

Lemma sorted_mono : forall less t,
  (forall x y, ele y x -> less x = true -> less y = true) ->
  sorted (map fst t) -> mono less t.
Proof.
  intros less t Hd Hs a x b E Lx. subst t. rewrite map_app in Hs. cbn [map] in Hs.
  apply sorted_app_mid in Hs. apply Forall_forall. intros y Hy. unfold lessP.
  rewrite Forall_forall in Hs. apply (Hd (fst x) (fst y)); [|exact Lx].
  apply Hs. apply in_map. exact Hy.
Qed.

Lemma sorted_mono_entry : forall e t, sorted (map fst t) -> mono (less_entry e) t.
Proof.
  intros e t. apply sorted_mono. intros x y Hyx Lx. unfold less_entry in *.
  eapply ele_elt_trans; eauto.
Qed.

Lemma sorted_mono_key : forall k t, sorted (map fst t) -> mono (less_key k) t.
Proof.
  intros k t. apply sorted_mono. intros x y Hyx Lx. unfold less_key in *.
  destruct (blt (mk y) k) eqn:B; [reflexivity|].
  rewrite (key_ge_mono k y x B Hyx) in Lx. discriminate.
Qed.

(* ------------------------------------------------------------------------------------- *)
(* the plain scan is what Memtable.v's insert / find / seek_ge do                          *)
(* ------------------------------------------------------------------------------------- *)

Lemma insert_takew_dropw : forall e t,
  insert e (map fst t) =
  map fst (takew (less_entry e) t) ++ e :: map fst (dropw (less_entry e) t).
Proof.
  intros e t. induction t as [|p r IH]; [reflexivity|].
  cbn [map insert takew dropw]. unfold less_entry at 1 3.
  destruct (elt (fst p) e); [|reflexivity]. cbn [map app]. f_equal. exact IH.
Qed.

Lemma find_dropw : forall k t,
  find k (map fst t) =
  match dropw (less_key k) t with
  | [] => None
  | (x, _) :: r => if beq (mk x) k then Some (best_of_run k x (map fst r)) else None
  end.
Proof.
  intros k t. induction t as [|[x h] r IH]; [reflexivity|].
  cbn [map find dropw fst]. unfold less_key at 1. unfold blt, beq.
  destruct (bcmp (mk x) k) eqn:C.
  - rewrite C. reflexivity.
  - exact IH.
  - rewrite C. reflexivity.
Qed.

Lemma seek_dropw : forall k t, seek_ge k (map fst t) = map fst (dropw (less_key k) t).
Proof.
  intros k t. induction t as [|p r IH]; [reflexivity|].
  cbn [map seek_ge dropw]. unfold less_key at 1.
  destruct (blt (mk (fst p)) k); [exact IH|reflexivity].
Qed.

Lemma splice_suffix : forall (p s : tower) n, splice (p ++ s) s n = p ++ n :: s.
Proof.
  intros p s n. unfold splice. rewrite app_length.
  replace (length p + length s - length s)%nat with (length p) by lia.
  rewrite firstn_app, firstn_all, Nat.sub_diag. cbn [firstn]. rewrite app_nil_r. reflexivity.
Qed.

(* ------------------------------------------------------------------------------------- *)
(* Insert / Find / Seek on the tower structure                                            *)
(* ------------------------------------------------------------------------------------- *)

Definition sl_wf (s : skiplist) : Prop :=
  sorted (map fst (sl_nodes s)) /\
  Forall (fun p : tnode => (1 <= snd p <= sl_height s)%nat) (sl_nodes s) /\
  (1 <= sl_height s <= MaxHeight)%nat.

Lemma sl_wf_heights_ok : forall s, sl_wf s -> heights_ok (sl_nodes s).
Proof.
  intros s (_ & H & _). unfold heights_ok. eapply Forall_impl; [|exact H].
  intros p Hp. cbv beta in Hp. lia.
Qed.

Lemma sl_empty_wf : sl_wf sl_empty.
Proof.
  unfold sl_wf, sl_empty, MaxHeight. cbn [sl_nodes sl_height map].
  split; [constructor|]. split; [constructor|lia].
Qed.

Lemma sl_insert_nodes : forall e h s, sl_wf s ->
  sl_nodes (sl_insert e h s) =
  takew (less_entry e) (sl_nodes s) ++ (e, h) :: dropw (less_entry e) (sl_nodes s).
Proof.
  intros e h s W. unfold sl_insert. cbn [sl_nodes].
  rewrite search_level0.
  - rewrite <- (takew_dropw (less_entry e) (sl_nodes s)) at 1. apply splice_suffix.
  - destruct W as (_ & _ & Hh). lia.
  - apply sl_wf_heights_ok. exact W.
  - apply sorted_mono_entry. apply W.
Qed.

Theorem sl_insert_ok : forall e h s, sl_wf s -> (1 <= h <= MaxHeight)%nat ->
  map fst (sl_nodes (sl_insert e h s)) = insert e (map fst (sl_nodes s)) /\
  sl_wf (sl_insert e h s).
Proof.
  intros e h s W Hh.
  assert (E : map fst (sl_nodes (sl_insert e h s)) = insert e (map fst (sl_nodes s))).
  { rewrite sl_insert_nodes by exact W. rewrite insert_takew_dropw, map_app. reflexivity. }
  split; [exact E|]. split; [rewrite E; apply insert_sorted; apply W|]. split.
  - rewrite sl_insert_nodes by exact W. destruct W as (_ & Hn & Hs).
    rewrite <- (takew_dropw (less_entry e) (sl_nodes s)) in Hn. apply Forall_app in Hn.
    destruct Hn as [H1 H2]. unfold sl_insert. cbn [sl_height].
    apply Forall_app. split; [|constructor].
    + eapply Forall_impl; [|exact H1]. intros p Hp. cbv beta in Hp. lia.
    + cbn [snd]. lia.
    + eapply Forall_impl; [|exact H2]. intros p Hp. cbv beta in Hp. lia.
  - unfold sl_insert. cbn [sl_height]. destruct W as (_ & _ & Hs). lia.
Qed.

Theorem sl_find_ok : forall k s, sl_wf s -> sl_find k s = find k (map fst (sl_nodes s)).
Proof.
  intros k s W. unfold sl_find. rewrite search_level0.
  - symmetry. apply find_dropw.
  - destruct W as (_ & _ & Hh). lia.
  - apply sl_wf_heights_ok. exact W.
  - apply sorted_mono_key. apply W.
Qed.

Theorem sl_seek_ok : forall k s, sl_wf s -> sl_seek k s = seek_ge k (map fst (sl_nodes s)).
Proof.
  intros k s W. unfold sl_seek. rewrite search_level0.
  - symmetry. apply seek_dropw.
  - destruct W as (_ & _ & Hh). lia.
  - apply sl_wf_heights_ok. exact W.
  - apply sorted_mono_key. apply W.
Qed.

(* every level's chain is updated by the same sorted insert (levels >= h are untouched) *)
Theorem sl_insert_chain : forall e h s lv, sl_wf s ->
  map fst (chain lv (sl_nodes (sl_insert e h s))) =
  if Nat.ltb lv h then insert e (map fst (chain lv (sl_nodes s)))
  else map fst (chain lv (sl_nodes s)).
Proof.
  intros e h s lv W. rewrite sl_insert_nodes by exact W.
  set (t := sl_nodes s). set (less := less_entry e).
  assert (M : mono less t) by (apply sorted_mono_entry; apply W).
  assert (Ha : Forall (lessP less) (chain lv (takew less t))) by (apply chain_lessP, takew_all).
  assert (Hb : Forall (nlessP less) (chain lv (dropw less t)))
    by (apply chain_nlessP, mono_dropw_nless; exact M).
  assert (Et : chain lv t = chain lv (takew less t) ++ chain lv (dropw less t))
    by (rewrite <- chain_app, takew_dropw; reflexivity).
  rewrite chain_app. unfold chain at 2. cbn [filter]. fold (chain lv (dropw less t)).
  unfold linked at 1. cbn [snd]. destruct (Nat.ltb lv h).
  - rewrite insert_takew_dropw. fold less. rewrite Et.
    destruct (split_unique less _ _ Ha Hb) as [-> ->].
    rewrite map_app. reflexivity.
  - rewrite Et. reflexivity.
Qed.

(* prev[l] (as computed top-down by the code) is the insertion point of the level-l chain *)
Theorem sl_insert_prevs : forall e s top l P, sl_wf s ->
  In (l, P) (descend_prevs (less_entry e) top (sl_nodes s)) ->
  chain l P = dropw (less_entry e) (chain l (sl_nodes s)).
Proof.
  intros e s top l P W Hin.
  destruct (descend_prevs_spec (less_entry e) top (sl_nodes s) (sl_nodes s) [] eq_refl
              (Forall_nil _) (sorted_mono_entry e _ (proj1 W)) l P Hin) as (_ & H & _).
  exact H.
Qed.

(* any sequence of inserts with any heights *)
Lemma sl_build_snoc : forall ehs p,
  sl_build (ehs ++ [p]) = sl_insert (fst p) (snd p) (sl_build ehs).
Proof. intros ehs p. unfold sl_build. rewrite fold_left_app. reflexivity. Qed.

Theorem sl_build_ok : forall ehs,
  Forall (fun p : mentry * nat => (1 <= snd p <= MaxHeight)%nat) ehs ->
  map fst (sl_nodes (sl_build ehs)) = build (map fst ehs) /\ sl_wf (sl_build ehs).
Proof.
  induction ehs as [|p ehs IH] using rev_ind; intros H.
  - split; [reflexivity|apply sl_empty_wf].
  - apply Forall_app in H. destruct H as [H1 H2]. inversion H2 as [|? ? Hp _]; subst.
    destruct (IH H1) as [E W]. rewrite sl_build_snoc.
    destruct (sl_insert_ok (fst p) (snd p) _ W Hp) as [E' W'].
    split; [|exact W']. rewrite E', E, map_app. cbn [map]. rewrite build_snoc. reflexivity.
Qed.

Theorem sl_find_build : forall ehs k,
  Forall (fun p : mentry * nat => (1 <= snd p <= MaxHeight)%nat) ehs ->
  sl_find k (sl_build ehs) = latest_version k (map fst ehs).
Proof.
  intros ehs k H. destruct (sl_build_ok ehs H) as [E W].
  rewrite sl_find_ok by exact W. rewrite E. apply find_build.
Qed.

Theorem C18_towers :
  (forall less height t, (1 <= height)%nat -> heights_ok t -> mono less t ->
     search less height t = dropw less t) /\
  (forall s, sl_wf s ->
     (forall e h, (1 <= h <= MaxHeight)%nat ->
        map fst (sl_nodes (sl_insert e h s)) = insert e (map fst (sl_nodes s)) /\
        sl_wf (sl_insert e h s)) /\
     (forall k, sl_find k s = find k (map fst (sl_nodes s))) /\
     (forall k, sl_seek k s = seek_ge k (map fst (sl_nodes s)))) /\
  (forall ehs, Forall (fun p : mentry * nat => (1 <= snd p <= MaxHeight)%nat) ehs ->
     map fst (sl_nodes (sl_build ehs)) = build (map fst ehs) /\
     forall k, sl_find k (sl_build ehs) = latest_version k (map fst ehs)).
Proof.
  split; [exact search_level0|]. split.
  - intros s W. split; [intros e h Hh; apply sl_insert_ok; assumption|].
    split; [intros k; apply sl_find_ok; exact W|intros k; apply sl_seek_ok; exact W].
  - intros ehs H. split; [apply sl_build_ok; exact H|intros k; apply sl_find_build; exact H].
Qed.

Open Scope N_scope.

(* heights 3,1,2,1,4 — the search from level 3 skips [1] and [2] on the upper levels *)
Example C18_towers_ex :
  let ehs := [(mkM [5] 1 KVal [50], 3%nat); (mkM [2] 2 KVal [20], 1%nat); (mkM [7] 3 KVal [70], 2%nat);
              (mkM [5] 9 KDel [], 1%nat); (mkM [1] 4 KVal [10], 4%nat)] in
  let s := sl_build ehs in
  sl_height s = 4%nat /\
  map fst (sl_nodes s) = build (map fst ehs) /\
  map snd (sl_nodes s) = [4; 1; 1; 3; 2]%nat /\
  map (fun p => mk (fst p)) (chain 1 (sl_nodes s)) = [[1]; [5]; [7]] /\
  map (fun p => mk (fst p)) (chain 2 (sl_nodes s)) = [[1]; [5]] /\
  sl_find [5] s = Some (mkM [5] 9 KDel []) /\
  sl_find [6] s = None /\
  sl_seek [3] s = seek_ge [3] (build (map fst ehs)) /\
  map (fun lp => (fst lp, map (fun p => mk (fst p)) (snd lp)))
      (descend_prevs (less_key [6]) 3 (sl_nodes s)) =
    [(3%nat, [[2]; [5]; [5]; [7]]); (2%nat, [[7]]); (1%nat, [[7]]); (0%nat, [[7]])].
Proof. vm_compute. repeat split. Qed.
