(* WalReuseGen.v — C10, last sentence, for a newest file of ARBITRARY bytes whose replay ends
   cleanly (this closes the gap left by WalReuse.v: altered bytes that the reader accepts):
   what is appended behind it is replayed behind exactly what it delivered. *)
From KV Require Import Bytes BytesProofs WalCodec WalCodecProofs WalReuse.
From Coq Require Import List Arith PeanoNat NArith Lia.
Import ListNotations.
Open Scope N_scope.

Lemma firstn_app_le : forall (A : Type) n (a b : list A),
  (n <= length a)%nat -> firstn n (a ++ b) = firstn n a.
Proof.
  intros A n a b H. rewrite firstn_app. replace (n - length a)%nat with 0%nat by lia.
  cbn [firstn]. apply app_nil_r.
Qed.

Lemma skipn_app_le : forall (A : Type) n (a b : list A),
  (n <= length a)%nat -> skipn n (a ++ b) = skipn n a ++ b.
Proof.
  intros A n a b H. rewrite skipn_app. replace (n - length a)%nat with 0%nat by lia. reflexivity.
Qed.

Lemma read_record_ok_app : forall bs ty d rest x,
  read_record bs = RecOk ty d rest -> read_record (bs ++ x) = RecOk ty d (rest ++ x).
Proof.
  intros bs ty d rest x H. unfold read_record in *.
  destruct bs as [|b0 bs0]; [discriminate|]. set (bs := b0 :: bs0) in *.
  change ((b0 :: bs0) ++ x) with (bs ++ x).
  assert (Hne : exists y ys, bs ++ x = y :: ys) by (exists b0, (bs0 ++ x); reflexivity).
  destruct Hne as [y [ys Hy]]. rewrite Hy. rewrite <- Hy. clear y ys Hy.
  unfold len in *. rewrite HdrSize_val in *.
  destruct (N.of_nat (length bs) <? 7) eqn:E7; [discriminate|].
  apply N.ltb_ge in E7.
  assert (L7 : (7 <= length bs)%nat) by lia.
  assert (E7' : N.of_nat (length (bs ++ x)) <? 7 = false).
  { apply N.ltb_ge. rewrite app_length. lia. }
  rewrite E7'.
  rewrite (firstn_app_le _ 4 bs x) by lia.
  rewrite (skipn_app_le _ 4 bs x) by lia.
  rewrite (firstn_app_le _ 2 (skipn 4 bs) x) by (rewrite skipn_length; lia).
  rewrite (app_nth1 bs x 0) by lia.
  rewrite (skipn_app_le _ 7 bs x) by lia.
  destruct ((nth 6 bs 0 <? RtFull) || (RtLast <? nth 6 bs 0)); [discriminate|].
  set (ln := unle (firstn 2 (skipn 4 bs))) in *.
  destruct (N.of_nat (length (skipn 7 bs)) <? ln) eqn:El; [discriminate|].
  apply N.ltb_ge in El.
  assert (El' : N.of_nat (length (skipn 7 bs ++ x)) <? ln = false).
  { apply N.ltb_ge. rewrite app_length. lia. }
  rewrite El'.
  rewrite (firstn_app_le _ (N.to_nat ln) (skipn 7 bs) x) by lia.
  rewrite (skipn_app_le _ (N.to_nat ln) (skipn 7 bs) x) by lia.
  destruct (crc32 (firstn (N.to_nat ln) (skipn 7 bs)) =? unle (firstn 4 bs)); [|discriminate].
  inversion H; subst. reflexivity.
Qed.

Lemma read_entry_ok_app : forall f bs frags e rest fr x f',
  read_entry f bs frags = EntOk e rest fr -> (f <= f')%nat ->
  read_entry f' (bs ++ x) frags = EntOk e (rest ++ x) fr.
Proof.
  induction f as [|f IH]; intros bs frags e rest fr x f' H Hle; [discriminate|].
  destruct f' as [|f']; [lia|]. rewrite read_entry_S in *.
  destruct (read_record bs) as [ty d r| | |r] eqn:R;
    [|destruct frags; discriminate|discriminate|discriminate].
  rewrite (read_record_ok_app _ _ _ _ x R).
  destruct (ty =? RtFull).
  { destruct frags; [|discriminate]. destruct (parse_entry d); inversion H; reflexivity. }
  destruct (ty =? RtFirst).
  { destruct frags; [|discriminate]. destruct d; [discriminate|]. apply (IH _ _ _ _ _ x f' H). lia. }
  destruct (ty =? RtMiddle).
  { destruct frags; [discriminate|]. apply (IH _ _ _ _ _ x f' H). lia. }
  destruct frags; [discriminate|].
  destruct (parse_entry _); inversion H; reflexivity.
Qed.

Lemma read_entry_eof : forall f bs frags,
  read_entry f bs frags = EntEOF -> bs = [] /\ frags = [].
Proof.
  induction f as [|f IH]; intros bs frags H; [discriminate|].
  rewrite read_entry_S in H.
  destruct (read_record bs) as [ty d r| | |r] eqn:R; try discriminate.
  - exfalso.
    destruct (ty =? RtFull).
    { destruct frags; [|discriminate]. destruct (parse_entry d); discriminate. }
    destruct (ty =? RtFirst).
    { destruct frags; [|discriminate]. destruct d; [discriminate|].
      apply IH in H. destruct H as [_ H]. discriminate. }
    destruct (ty =? RtMiddle).
    { destruct frags; [discriminate|]. apply IH in H. destruct H as [_ H].
      destruct frags; discriminate. }
    destruct frags; [discriminate|]. destruct (parse_entry _); discriminate.
  - destruct frags; [|discriminate]. split; [|reflexivity].
    unfold read_record in R. destruct bs; [reflexivity|].
    destruct (len (n :: bs) <? HdrSize); [discriminate|].
    destruct ((nth 6 (n :: bs) 0 <? RtFull) || (RtLast <? nth 6 (n :: bs) 0)); [discriminate|].
    cbv zeta in R.
    destruct (len (skipn 7 (n :: bs)) <? unle (firstn 2 (skipn 4 (n :: bs)))); [discriminate|].
    destruct (crc32 _ =? _); discriminate.
Qed.

(* a replay that ends cleanly goes on, unchanged, into whatever well-formed log is appended *)
Lemma replay_aux_clean_app : forall fuel bs frags acc A es' fuel',
  replay_file_aux fuel bs frags acc = (A, Clean) ->
  forallb enc_ok es' = true -> (fuel + length es' <= fuel')%nat ->
  replay_file_aux fuel' (bs ++ encode_log es') frags acc = (A ++ map canon es', Clean).
Proof.
  induction fuel as [|fuel IH]; intros bs frags acc A es' fuel' H Hes Hf; [discriminate|].
  rewrite replay_file_aux_S in H.
  destruct (read_entry (S (length bs)) bs frags) as [e rest fr| | |r fr|] eqn:R; try discriminate.
  - destruct fuel' as [|fuel']; [lia|]. rewrite replay_file_aux_S.
    rewrite (read_entry_ok_app _ _ _ _ _ _ (encode_log es') (S (length (bs ++ encode_log es'))) R)
      by (rewrite app_length; lia).
    apply (IH _ _ _ _ _ _ H Hes). lia.
  - apply read_entry_eof in R. destruct R as [-> ->]. inversion H; subst.
    cbn [app]. apply replay_aux_encode; [exact Hes|lia].
Qed.

Theorem C10_clean_then_writes_ok : forall L es',
  snd (replay_file L) = Clean -> forallb enc_ok es' = true ->
  replay_file (L ++ encode_log es') = (fst (replay_file L) ++ map canon es', Clean).
Proof.
  intros L es' Hc Hes. unfold replay_file in *.
  destruct (replay_file_aux (S (length L)) L [] []) as [A st] eqn:E. cbn [fst snd] in *. subst st.
  apply (replay_aux_clean_app _ _ _ _ _ _ _ E Hes).
  rewrite app_length. pose proof (encode_log_length es'). lia.
Qed.

(* ---------- C10, last sentence, for every newest file whatsoever ---------- *)
(* [L] is any byte string (a cut log, a log with altered bytes, garbage), [pre] any older
   files; after the recovery the entries [es'] are written through [reuse_append]. The next
   replay delivers exactly what the first recovery delivered, then every later write; the
   older files are bytewise unchanged; the newest file ends cleanly again. *)
Theorem C10_any_damage_then_writes : forall pre L es',
  forallb wf_entry es' = true ->
  let files' := reuse_append (pre ++ [L]) (encode_log es') in
  replay_dir files' = replay_dir (pre ++ [L]) ++ map canon es' /\
  firstn (length pre) files' = pre /\
  snd (replay_file (last files' [])) = Clean.
Proof.
  intros pre L es' Hes'. cbn zeta.
  destruct (status_clean (snd (replay_file L))) eqn:Ec.
  - assert (Hc : snd (replay_file L) = Clean) by (destruct (snd (replay_file L)); try discriminate; reflexivity).
    rewrite reuse_append_snoc, Ec.
    rewrite !replay_dir_app, !replay_dir_single, last_last, firstn_len_app.
    rewrite (C10_clean_then_writes_ok L es' Hc (forallb_wf_enc_ok _ Hes')). cbn [fst snd].
    rewrite <- app_assoc. repeat split; reflexivity.
  - assert (Hd : snd (replay_file L) <> Clean) by (intro Hx; rewrite Hx in Ec; discriminate).
    destruct (C10_damage_then_writes pre L es' Hd Hes') as [H1 [H2 H3]].
    repeat split; [exact H1| |exact H3].
    rewrite reuse_append_snoc, Ec. apply firstn_len_app.
Qed.

Example C10_any_sat :
  (* altered bytes the reader accepts: a type byte is not covered by the checksum, and a
     whole entry cut off the end leaves a clean file *)
  snd (replay_file (firstn (N.to_nat 23) (encode_log [ex_small; ex_small]))) = Clean /\
  status_clean (snd (replay_file (firstn (N.to_nat 30) (encode_log [ex_small; ex_small])))) = false.
Proof. vm_compute. split; reflexivity. Qed.

(* ---------- cycles of damage, recovery and writes ---------- *)
(* one cycle: the newest file is replaced by ANY bytes [dmg f] (the fault), the database is
   opened (recovery delivers [replay_dir] of the damaged directory) and the entries [es'] are
   written *)
Definition damage_newest (dmg : bytes -> bytes) (files : list bytes) : list bytes :=
  match rev files with
  | [] => []
  | f :: r => rev r ++ [dmg f]
  end.

Definition cycle (files : list bytes) (c : (bytes -> bytes) * list wentry) : list bytes :=
  reuse_append (damage_newest (fst c) files) (encode_log (snd c)).

Lemma damage_newest_snoc : forall dmg pre f, damage_newest dmg (pre ++ [f]) = pre ++ [dmg f].
Proof. intros dmg pre f. unfold damage_newest. rewrite rev_unit, rev_involutive. reflexivity. Qed.

Lemma cycle_nonempty : forall files c, cycle files c <> [].
Proof.
  intros files c. unfold cycle, reuse_append.
  destruct (rev (damage_newest (fst c) files)) as [|f r]; [discriminate|].
  destruct (status_clean _); intro H; apply (f_equal (@length _)) in H;
    rewrite app_length in H; cbn [length] in H; lia.
Qed.

(* every cycle: the next recovery delivers what this recovery delivered and then this cycle's
   writes, whatever the fault did to the newest file; the older files are untouched *)
Theorem C10_cycle_ok : forall files dmg es',
  files <> [] -> forallb wf_entry es' = true ->
  replay_dir (cycle files (dmg, es')) =
    replay_dir (damage_newest dmg files) ++ map canon es' /\
  firstn (length files - 1) (cycle files (dmg, es')) = firstn (length files - 1) files.
Proof.
  intros files dmg es' Hne Hes'.
  destruct (exists_last Hne) as [pre [f ->]].
  unfold cycle. cbn [fst snd]. rewrite damage_newest_snoc.
  destruct (C10_any_damage_then_writes pre (dmg f) es' Hes') as [H1 [H2 _]].
  split; [exact H1|].
  rewrite app_length. cbn [length]. replace (length pre + 1 - 1)%nat with (length pre) by lia.
  rewrite H2, firstn_len_app. reflexivity.
Qed.

(* any number of cycles: the writes of the last cycle are always delivered, behind what the
   last recovery delivered *)
Theorem C10_cycles_ok : forall cs files dmg es',
  files <> [] -> forallb wf_entry es' = true ->
  let files' := fold_left cycle cs files in
  replay_dir (cycle files' (dmg, es')) =
    replay_dir (damage_newest dmg files') ++ map canon es'.
Proof.
  intros cs files dmg es' Hne Hes'. cbn zeta.
  apply C10_cycle_ok; [|exact Hes'].
  revert files Hne. induction cs as [|c cs IH]; intros files Hne; cbn [fold_left]; [exact Hne|].
  apply IH. apply cycle_nonempty.
Qed.
