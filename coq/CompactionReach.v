(* CompactionReach.v — every reachable state of the repaired database with compaction has a
   well-formed SST directory (CompactionMerge.WF), for every workload of non-empty keys. *)
From Coq Require Import Lia Sorted.
From KV Require EngineProofs.
From KV Require Import Compaction CompactionProofs CompactionMerge.
Open Scope N_scope.

Module EP := EngineProofs.

Definition eng_ok2 (e : st) : Prop := eng_ok e.

Lemma put_ok2 : forall e k v, eng_ok2 e -> eng_ok2 (fst (put e k v)).
Proof. intros. apply put_ok; auto. Qed.
Lemma del_ok2 : forall e k, eng_ok2 e -> eng_ok2 (fst (del e k)).
Proof. intros. apply del_ok; auto. Qed.
Lemma apply_batch_ok2 : forall e ops, eng_ok2 e -> eng_ok2 (fst (apply_batch e ops)).
Proof. intros. apply apply_batch_ok; auto. Qed.
Lemma tx_commit_ok2 : forall e ops, eng_ok2 e -> eng_ok2 (fst (tx_commit e ops)).
Proof. intros. apply tx_commit_ok; auto. Qed.

(* ---------- flush: the files it adds ---------- *)

Inductive fresh : N -> list sst -> N -> Prop :=
| fresh_nil : forall c, fresh c [] c
| fresh_cons : forall c t r c',
    s_level t = 0 -> s_ts t = c -> asc (s_entries t) -> s_entries t <> [] ->
    fresh (c + 1) r c' -> fresh c (t :: r) c'.

Lemma fresh_app : forall a l b l' c, fresh a l b -> fresh b l' c -> fresh a (l ++ l') c.
Proof. induction 1; simpl; intros; auto. constructor; auto. Qed.

Lemma fresh_le : forall a l b, fresh a l b -> b = a + N.of_nat (length l).
Proof. induction 1; simpl. lia. rewrite IHfresh. lia. Qed.

Record same_mem (e e' : st) : Prop := mkSM {
  sm_act : active e' = active e; sm_pend : pending e' = pending e; sm_imms : imms e' = imms e;
  sm_wal : wal_files e' = wal_files e; sm_cfg : cfg e' = cfg e
}.

Lemma flush_table_fresh : forall e m, mt_ok m ->
  exists news, ssts (flush_table e m) = ssts e ++ news /\
               fresh (clock e) news (clock (flush_table e m)) /\ same_mem e (flush_table e m).
Proof.
  intros e m Hs. unfold flush_table. destruct (mt_size m =? 0).
  { exists []. rewrite app_nil_r. repeat split; auto. constructor. }
  destruct (collect (mt_iter_entries m)) as [|x r] eqn:E.
  { exists []. rewrite app_nil_r. repeat split; auto. constructor. }
  exists [mkSst 0 (next_file e) (clock e) (x :: r)]. simpl. repeat split; auto.
  assert (A : asc (x :: r)). { rewrite <- E. apply collect_asc. apply filter_sorted. exact Hs. }
  constructor; simpl; auto; try discriminate. constructor.
Qed.

Lemma fold_flush_fresh : forall ps e, Forall mt_ok ps ->
  exists news, ssts (fold_left flush_table ps e) = ssts e ++ news /\
               fresh (clock e) news (clock (fold_left flush_table ps e)) /\
               same_mem e (fold_left flush_table ps e).
Proof.
  induction ps; simpl; intros.
  - exists []. rewrite app_nil_r. repeat split; auto. constructor.
  - inversion H; subst.
    destruct (flush_table_fresh e a H2) as (n1 & A1 & B1 & C1).
    destruct (IHps (flush_table e a) H3) as (n2 & A2 & B2 & C2).
    exists (n1 ++ n2). rewrite A2, A1, app_assoc. split; auto. split. eapply fresh_app; eauto.
    destruct C1, C2. constructor; congruence.
Qed.

Lemma flush_fresh : forall e, eng_ok2 e ->
  exists news, ssts (flush e) = ssts e ++ news /\ fresh (clock e) news (clock (flush e)) /\
               eng_ok2 (flush e).
Proof.
  intros e A. pose proof (flush_ok e A) as FO. unfold eng_ok2. unfold flush in *. destruct (pending e) eqn:P.
  - destruct (0 <? mt_size (active e)).
    + destruct (flush_table_fresh (rotate e) (active e)) as (n & X & Y & Z). apply (eo_active _ A).
      exists n. auto.
    + exists []. rewrite app_nil_r. split; auto. split. constructor. auto.
  - destruct (fold_flush_fresh (m :: l) (rotate (clear_pending e))) as (n & X & Y & Z).
    { rewrite <- P. apply (eo_pending _ A). }
    exists n. auto.
Qed.

(* ---------- the database ---------- *)

Record cst_ok2 (s : cst) : Prop := mkC2 {
  c2_eng : eng_ok2 (eng s);
  c2_wf : WF (disk s) (clock (eng s));
  c2_max : 1 <= cc_sstmax (cc s)
}.

Lemma with_sizes_sst : forall l i z, map d_sst (with_sizes i z l) = l.
Proof. induction l; simpl; intros; auto. f_equal. auto. Qed.

Lemma with_sizes_in : forall l i z f, In f (with_sizes i z l) -> In (d_sst f) l /\ 1 <= d_size f.
Proof.
  induction l; simpl; intros. tauto. destruct H as [<-|H]. simpl. split; auto. apply nth_size_pos.
  apply IHl in H. tauto.
Qed.

Lemma fresh_props : forall a l b, fresh a l b ->
  NoDup (map s_ts l) /\
  forall t, In t l -> s_level t = 0 /\ a <= s_ts t < b /\ asc (s_entries t) /\ s_entries t <> [].
Proof.
  induction 1; simpl. split. constructor. tauto.
  destruct IHfresh as [A B]. pose proof (fresh_le _ _ _ H3). split.
  - constructor; auto. intro C. apply in_map_iff in C. destruct C as (x & E & Hx).
    destruct (B x Hx) as (_ & R & _). lia.
  - intros x [<-|Hx]. repeat split; auto; lia. destruct (B x Hx) as (P1 & P2 & P3 & P4). repeat split; auto; lia.
Qed.

Lemma wf_add_fresh : forall dir c news c' i z, WF dir c -> fresh c news c' ->
  WF (dir ++ with_sizes i z news) c'.
Proof.
  intros dir c news c' i z W F. destruct (fresh_props _ _ _ F) as [ND FP].
  pose proof (fresh_le _ _ _ F) as Hc.
  assert (Hn : forall f, In f (with_sizes i z news) ->
     d_level f = 0 /\ c <= dts f < c' /\ asc (d_entries f) /\ d_entries f <> [] /\ 1 <= d_size f).
  { intros f Hf. apply with_sizes_in in Hf. destruct Hf as [Hf Hs].
    destruct (FP _ Hf) as (A & B & C & D). unfold d_level, dts, d_entries. repeat split; auto; tauto. }
  constructor.
  - intros f Hf. apply in_app_iff in Hf. destruct Hf. apply (wf_asc _ _ W); auto. apply Hn; auto.
  - rewrite map_app. apply NoDup_app_intro. apply (wf_ts _ _ W).
    + unfold dts. rewrite <- (map_map d_sst s_ts), with_sizes_sst. auto.
    + intros x Hx Hy. apply in_map_iff in Hx, Hy. destruct Hx as (f & <- & Hf), Hy as (g & E & Hg).
      pose proof (wf_clock _ _ W f Hf). destruct (Hn g Hg) as (_ & R & _). lia.
  - intros f Hf. apply in_app_iff in Hf. destruct Hf. pose proof (wf_clock _ _ W f H). lia.
    destruct (Hn f H) as (_ & R & _). lia.
  - intros f g k Hf Hg L L1. apply in_app_iff in Hf, Hg.
    destruct Hf as [Hf|Hf]; [|destruct (Hn f Hf) as (Z & _); lia].
    destruct Hg as [Hg|Hg]; [|destruct (Hn g Hg) as (Z & _); lia].
    apply (wf_disj _ _ W); auto.
  - intros f Hf. apply in_app_iff in Hf. destruct Hf. apply (wf_nonempty _ _ W); auto. apply Hn; auto.
  - intros f Hf. apply in_app_iff in Hf. destruct Hf. apply (wf_size _ _ W); auto. apply Hn; auto.
Qed.

Lemma skipn_app_exact : forall (A : Type) (a b : list A), skipn (length a) (a ++ b) = b.
Proof. induction a; simpl; auto. Qed.

Lemma cflush_ok2 : forall s z, cst_ok2 s -> cst_ok2 (cflush s z).
Proof.
  intros s z [A B C]. destruct (flush_fresh _ A) as (news & X & Y & Z).
  unfold cflush. constructor; simpl; auto.
  rewrite X, skipn_app_exact. eapply wf_add_fresh; eauto.
Qed.

Lemma set_clock_ok2 : forall e c, eng_ok2 e -> eng_ok2 (set_clock e c).
Proof. intros e c [A1 A2 A3]. constructor; auto. Qed.

Lemma disk_files_ok : forall s, cst_ok2 s -> Forall file_ok (map d_sst (dsort (disk s))).
Proof.
  intros s [A B C]. rewrite Forall_forall. intros t Ht. apply in_map_iff in Ht.
  destruct Ht as (f & <- & Hf). apply (proj1 (dsort_in _ _)) in Hf. apply (wf_asc _ _ B f Hf).
Qed.

Lemma clock_apply_batch : forall e ops, clock (fst (apply_batch e ops)) = clock e.
Proof.
  intros. unfold apply_batch. destruct ops; auto. destruct (MaxSeq <=? _); auto. cbn [fst].
  assert (G : forall (l : list bop) q e, clock (fold_left (fun a o => set_last (pool_add a (bop_mentry q o)) q) l e) = clock e).
  { induction l; simpl; intros; auto. rewrite IHl. reflexivity. }
  unfold maybe_schedule. destruct (flush_pending _); simpl; rewrite G; reflexivity.
Qed.

Lemma cstep_ok2 : forall o s, cst_ok2 s -> cst_ok2 (cstep s o).
Proof.
  destruct o; simpl; intros s0 S; auto.
  - destruct S as [A B C]. unfold cput. pose proof (put_ok2 (eng s0) k v A).
    assert (clock (fst (put (eng s0) k v)) = clock (eng s0)) by (rewrite EP.put_as_batch; apply clock_apply_batch).
    destruct (put (eng s0) k v). constructor; simpl in *; auto. rewrite H0. auto.
  - destruct S as [A B C]. unfold cdel. pose proof (del_ok2 (eng s0) k A).
    assert (clock (fst (del (eng s0) k)) = clock (eng s0)) by (rewrite EP.del_as_batch; apply clock_apply_batch).
    destruct (del (eng s0) k). constructor; simpl in *; auto. rewrite H0. auto.
  - destruct S as [A B C]. unfold cbatch. pose proof (apply_batch_ok2 (eng s0) ops A).
    pose proof (clock_apply_batch (eng s0) ops).
    destruct (apply_batch (eng s0) ops). constructor; simpl in *; auto. rewrite H0. auto.
  - destruct S as [A B C]. unfold ccommit. pose proof (tx_commit_ok2 (eng s0) ops A).
    assert (clock (fst (tx_commit (eng s0) ops)) = clock (eng s0)) by (rewrite EP.tx_commit_as_batch; apply clock_apply_batch).
    destruct (tx_commit (eng s0) ops). constructor; simpl in *; auto. rewrite H0. auto.
  - apply cflush_ok2; auto.
  - unfold cfull. pose proof (cflush_ok2 s0 sizes S) as S1.
    destruct (pending (eng s0)).
    + destruct S1. constructor; auto.
    + pose proof (cflush_ok2 _ (skipn (nfresh s0) sizes) S1) as [A B C]. constructor; auto.
  - destruct S as [A B C]. unfold ctrigger. destruct (select _ _ _) eqn:E. 2: constructor; auto.
    constructor; simpl; auto. apply set_clock_ok2; auto.
    apply (task_keeps_wf (disk s0) (clock (eng s0)) (c_maxmem (cfg (eng s0))) (cc s0) t); auto.
    left. auto.
  - destruct S as [A B C]. unfold crange. destruct (select_range _ _ _) eqn:E. 2: constructor; auto.
    constructor; simpl; auto. apply set_clock_ok2; auto.
    apply (task_keeps_wf (disk s0) (clock (eng s0)) 0 (cc s0) t); auto.
    right. eauto.
  - pose proof (disk_files_ok s0 S) as DF. destruct S as [A B C]. unfold creopen.
    set (e1 := if retire then upd_wal (eng s0) (wal_next (eng s0)) (skipn (retirable s0) (wal_files (eng s0))) else eng s0).
    constructor; simpl; auto.
    + apply reopen_ok. simpl. auto.
    + assert (clock (reopen (set_ssts e1 (map d_sst (dsort (disk s0))))) = clock (eng s0)).
      { unfold reopen. destruct (recover_tables _ _ _ _) as [[? ?]|]; simpl; unfold e1; destruct retire; reflexivity. }
      rewrite H. auto.
Qed.

Definition cfg_ok (k : ccfg) : Prop := 1 <= cc_sstmax k.

Theorem reachable_wf : forall c k ops, cfg_ok k -> cst_ok2 (crun c k ops).
Proof.
  intros c k ops Hk. unfold crun.
  assert (cst_ok2 (cinit c k)).
  { constructor; simpl; auto.
    - constructor; simpl; auto. apply mt_empty_ok.
    - constructor; simpl; try tauto. constructor. }
  revert H. generalize (cinit c k). induction ops; simpl; auto. intros. apply IHops. apply cstep_ok2; auto.
Qed.
