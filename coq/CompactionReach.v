(* CompactionReach.v — every reachable state of the repaired database with compaction has a
   well-formed SST directory (CompactionMerge.WF), for every workload of non-empty keys. *)
From Coq Require Import Lia Sorted.
From KV Require EngineProofs.
From KV Require Import Compaction CompactionProofs CompactionMerge.
Open Scope N_scope.

Module EP := EngineProofs.

Definition mkeys_ok (m : memtable) : Prop := forall e, In e (mt_entries m) -> mk e <> [].

Record eng_ok2 (e : st) : Prop := mkE2 {
  e2_ok : eng_ok e;
  e2_act : mkeys_ok (active e);
  e2_pend : Forall mkeys_ok (pending e);
  e2_wal : forall f en, In f (wal_files e) -> In en f -> w_key en <> []
}.

(* ---------- programs: keys are not empty ---------- *)

Definition bops_ok (ops : list bop) : Prop := forall o, In o ops -> fst o <> [].

Definition op_ok (o : cop) : Prop :=
  match o with
  | CPut k _ => k <> []
  | CDel k => k <> []
  | CBatch ops => bops_ok ops
  | CCommit ops => bops_ok ops
  | _ => True
  end.

(* ---------- writes ---------- *)

Lemma mt_add_keys : forall m e, mkeys_ok m -> mk e <> [] -> mkeys_ok (mt_add m e).
Proof.
  unfold mkeys_ok, mt_add. intros. destruct (mt_imm m); auto. simpl in H1.
  apply MP.insert_in in H1. destruct H1 as [->|H1]; auto.
Qed.

Lemma pool_add_ok2 : forall e m, eng_ok2 e -> mk m <> [] -> eng_ok2 (pool_add e m).
Proof.
  intros e m [A B C D] Hm. constructor; simpl; auto. apply pool_add_ok; auto. apply mt_add_keys; auto.
Qed.

Lemma maybe_schedule_ok2 : forall e, eng_ok2 e -> eng_ok2 (maybe_schedule e).
Proof.
  intros e [A B C D]. constructor; auto. apply maybe_schedule_ok; auto.
  - unfold maybe_schedule. destruct (flush_pending e); simpl; auto. intros x [].
  - unfold maybe_schedule. destruct (flush_pending e); simpl; auto. apply Forall_app. split; auto.
  - unfold maybe_schedule. destruct (flush_pending e); simpl; auto.
Qed.

Lemma set_last_ok2 : forall e n, eng_ok2 e -> eng_ok2 (set_last e n).
Proof. intros e n [A B C D]. constructor; auto. apply set_last_ok; auto. Qed.

Lemma log_append_in : forall files es f en, In f (log_append files es) -> In en f ->
  In en es \/ exists f', In f' files /\ In en f'.
Proof.
  unfold log_append. intros files es f en Hf He. destruct (rev files) as [|l r] eqn:E.
  - destruct Hf as [<-|[]]. auto.
  - assert (files = rev r ++ [l]). { rewrite <- (rev_involutive files), E. auto. }
    apply in_app_iff in Hf. destruct Hf as [Hf|[<-|[]]].
    + right. exists f. split; auto. rewrite H. apply in_or_app. auto.
    + apply in_app_iff in He. destruct He; auto. right. exists l. split; auto. rewrite H. apply in_or_app. simpl. auto.
Qed.

Lemma upd_wal_ok2 : forall e n es, eng_ok2 e -> (forall en, In en es -> w_key en <> []) ->
  eng_ok2 (upd_wal e n (log_append (wal_files e) es)).
Proof.
  intros e n es [A B C D] H. constructor; auto. apply upd_wal_ok; auto.
  simpl. intros f en Hf He. destruct (log_append_in _ _ _ _ Hf He) as [X|(f' & X & Y)]; eauto.
Qed.

Lemma fold_add_ok2 : forall (ops : list bop) q s, eng_ok2 s -> bops_ok ops ->
  eng_ok2 (fold_left (fun a o => set_last (pool_add a (bop_mentry q o)) q) ops s).
Proof.
  induction ops; simpl; auto. intros. apply IHops.
  - apply set_last_ok2, pool_add_ok2; auto. rewrite EP.mk_bop_mentry. apply H0. simpl; auto.
  - intros o Ho. apply H0. simpl; auto.
Qed.

Lemma bop_entry_key : forall q o, w_key (bop_entry q o) = fst o.
Proof. intros q [k [v|]]; reflexivity. Qed.

Lemma apply_batch_ok2 : forall e ops, eng_ok2 e -> bops_ok ops -> eng_ok2 (fst (apply_batch e ops)).
Proof.
  unfold apply_batch. intros. destruct ops as [|b ops']; auto.
  destruct (MaxSeq <=? wal_next e); auto. cbn [fst].
  apply maybe_schedule_ok2, fold_add_ok2; auto. apply upd_wal_ok2; auto.
  intros en Hen. apply in_map_iff in Hen. destruct Hen as (o & <- & Ho). rewrite bop_entry_key. auto.
Qed.

Lemma put_ok2 : forall e k v, eng_ok2 e -> k <> [] -> eng_ok2 (fst (put e k v)).
Proof.
  intros. rewrite EP.put_as_batch. apply apply_batch_ok2; auto. intros o [<-|[]]. auto.
Qed.
Lemma del_ok2 : forall e k, eng_ok2 e -> k <> [] -> eng_ok2 (fst (del e k)).
Proof.
  intros. rewrite EP.del_as_batch. apply apply_batch_ok2; auto. intros o [<-|[]]. auto.
Qed.

Lemma buf_set_keys : forall o l x, In x (buf_set o l) -> x = o \/ In x l.
Proof.
  induction l; simpl; intros. intuition.
  destruct (bcmp (fst a) (fst o)); simpl in *.
  - destruct H; auto.
  - destruct H; auto. apply IHl in H. tauto.
  - destruct H as [H|[H|H]]; auto.
Qed.

Lemma buffer_ops_ok : forall ops, bops_ok ops -> bops_ok (buffer_ops ops).
Proof.
  unfold buffer_ops. intros ops H.
  assert (G : forall l acc, bops_ok l -> bops_ok acc -> bops_ok (fold_left (fun b o => buf_set o b) l acc)).
  { induction l; simpl; intros; auto. apply IHl. intros o Ho. apply H0; simpl; auto.
    intros x Hx. apply buf_set_keys in Hx. destruct Hx as [->|Hx]; auto. apply H0; simpl; auto. }
  apply G; auto. intros o [].
Qed.

Lemma tx_commit_ok2 : forall e ops, eng_ok2 e -> bops_ok ops -> eng_ok2 (fst (tx_commit e ops)).
Proof.
  intros. rewrite EP.tx_commit_as_batch. apply apply_batch_ok2; auto. apply buffer_ops_ok; auto.
Qed.

(* ---------- flush: the files it adds ---------- *)

Inductive fresh : N -> list sst -> N -> Prop :=
| fresh_nil : forall c, fresh c [] c
| fresh_cons : forall c t r c',
    s_level t = 0 -> s_ts t = c -> asc (s_entries t) -> s_entries t <> [] ->
    (forall e, In e (s_entries t) -> sk e <> []) ->
    fresh (c + 1) r c' -> fresh c (t :: r) c'.

Lemma fresh_app : forall a l b l' c, fresh a l b -> fresh b l' c -> fresh a (l ++ l') c.
Proof. induction 1; simpl; intros; auto. constructor; auto. Qed.

Lemma fresh_le : forall a l b, fresh a l b -> b = a + N.of_nat (length l).
Proof. induction 1; simpl. lia. rewrite IHfresh. lia. Qed.

Lemma collect_keys : forall m, mt_ok m -> mkeys_ok m ->
  forall x, In x (collect (mt_iter_entries m)) -> sk x <> [].
Proof.
  intros m Hs Hk x Hx.
  destruct (EP.collect_spec (mt_iter_entries m)) as (_ & F & _).
  { apply filter_sorted. exact Hs. }
  destruct (F x Hx) as (e & He & ->). rewrite sk_to_sentry. apply Hk.
  unfold mt_iter_entries in He. apply filter_In in He. tauto.
Qed.

Record same_mem (e e' : st) : Prop := mkSM {
  sm_act : active e' = active e; sm_pend : pending e' = pending e; sm_imms : imms e' = imms e;
  sm_wal : wal_files e' = wal_files e; sm_cfg : cfg e' = cfg e
}.

Lemma flush_table_fresh : forall e m, mt_ok m -> mkeys_ok m ->
  exists news, ssts (flush_table e m) = ssts e ++ news /\
               fresh (clock e) news (clock (flush_table e m)) /\ same_mem e (flush_table e m).
Proof.
  intros e m Hs Hk. unfold flush_table. destruct (mt_size m =? 0).
  { exists []. rewrite app_nil_r. repeat split; auto. constructor. }
  destruct (collect (mt_iter_entries m)) as [|x r] eqn:E.
  { exists []. rewrite app_nil_r. repeat split; auto. constructor. }
  exists [mkSst 0 (next_file e) (clock e) (x :: r)]. simpl. repeat split; auto.
  assert (K := collect_keys m Hs Hk). rewrite E in K.
  assert (A : asc (x :: r)). { rewrite <- E. apply collect_asc. apply filter_sorted. exact Hs. }
  constructor; simpl; auto; try discriminate. constructor.
Qed.

Lemma fold_flush_fresh : forall ps e, Forall mt_ok ps -> Forall mkeys_ok ps ->
  exists news, ssts (fold_left flush_table ps e) = ssts e ++ news /\
               fresh (clock e) news (clock (fold_left flush_table ps e)) /\
               same_mem e (fold_left flush_table ps e).
Proof.
  induction ps; simpl; intros.
  - exists []. rewrite app_nil_r. repeat split; auto. constructor.
  - inversion H; inversion H0; subst.
    destruct (flush_table_fresh e a H3 H7) as (n1 & A1 & B1 & C1).
    destruct (IHps (flush_table e a) H4 H8) as (n2 & A2 & B2 & C2).
    exists (n1 ++ n2). rewrite A2, A1, app_assoc. split; auto. split. eapply fresh_app; eauto.
    destruct C1, C2. constructor; congruence.
Qed.

Lemma flush_fresh : forall e, eng_ok2 e ->
  exists news, ssts (flush e) = ssts e ++ news /\ fresh (clock e) news (clock (flush e)) /\
               eng_ok2 (flush e).
Proof.
  intros e [A B C D]. pose proof (flush_ok e A) as FO. unfold flush in *. destruct (pending e) eqn:P.
  - destruct (0 <? mt_size (active e)).
    + destruct (flush_table_fresh (rotate e) (active e)) as (n & X & Y & Z); auto. apply (eo_active _ A).
      exists n. split; auto. split; auto. destruct Z. constructor; auto.
      * rewrite sm_act0. auto.
      * rewrite sm_pend0. simpl. rewrite P. constructor.
      * rewrite sm_wal0. simpl. intros f en Hf He. apply in_app_iff in Hf. destruct Hf as [Hf|[<-|[]]]; [eauto|destruct He].
    + exists []. rewrite app_nil_r. split; auto. split. constructor. constructor; auto. rewrite P. auto.
  - destruct (fold_flush_fresh (m :: l) (rotate (clear_pending e))) as (n & X & Y & Z).
    { rewrite <- P. apply (eo_pending _ A). } { exact C. }
    exists n. split; auto. split; auto. destruct Z. constructor; auto.
    + rewrite sm_act0. auto.
    + rewrite sm_pend0. simpl. constructor.
    + rewrite sm_wal0. simpl. intros f en Hf He. apply in_app_iff in Hf. destruct Hf as [Hf|[<-|[]]]; [eauto|destruct He].
Qed.

(* ---------- reopen ---------- *)

Lemma recover_tables_keys : forall c es tables maxseq r q,
  Forall mkeys_ok tables -> (forall en, In en es -> w_key en <> []) ->
  recover_tables c es tables maxseq = Some (r, q) -> Forall mkeys_ok r.
Proof.
  induction es; simpl; intros. inversion H1; subst. auto.
  destruct tables as [|cur older]; try discriminate. inversion H; subst.
  assert (Hm : forall m, wentry_mentry a = Some m -> mk m <> []).
  { unfold wentry_mentry. intros m E. destruct (w_op a =? OpPut). inversion E; subst. simpl. apply H0; auto.
    destruct (w_op a =? OpDel); inversion E; subst. simpl. apply H0; auto. }
  destruct (c_memsize c <=? mt_size cur).
  - destruct (c_maxmem c <=? _); try discriminate.
    eapply IHes in H1; eauto. constructor; [|constructor; auto].
    destruct (wentry_mentry a) eqn:E. apply mt_add_keys; auto. intros x []. intros x [].
  - eapply IHes in H1; eauto. constructor; auto. destruct (wentry_mentry a) eqn:E; auto. apply mt_add_keys; auto.
Qed.

Lemma reopen_ok2 : forall e, Forall file_ok (ssts e) ->
  (forall f en, In f (wal_files e) -> In en f -> w_key en <> []) -> eng_ok2 (reopen e).
Proof.
  intros e Hs Hw. pose proof (reopen_ok e Hs) as RO. unfold reopen in *.
  set (files := match wal_files e with [] => [[]] | f => f end) in *.
  assert (Hw' : forall en, In en (concat files) -> w_key en <> []).
  { intros en Hen. apply in_concat in Hen. destruct Hen as (f & Hf & He).
    unfold files in Hf. destruct (wal_files e) eqn:E. destruct Hf as [<-|[]]. destruct He.
    eapply Hw; eauto. }
  destruct (recover_tables _ _ _ _) as [[tbls maxseq]|] eqn:R.
  - apply recover_tables_keys in R; auto. 2: { constructor. intros x []. constructor. }
    constructor; simpl; auto.
    + destruct tbls. intros x []. inversion R; auto.
    + rewrite Forall_forall in *. intros m Hm. apply in_map_iff in Hm. destruct Hm as (m0 & <- & Hm0).
      unfold mkeys_ok. simpl. apply R. apply in_rev in Hm0. destruct tbls; simpl in *. tauto. auto.
    + intros f en Hf He. apply Hw'. apply in_concat. eauto.
  - constructor; simpl; auto. intros x []. intros f en [<-|[]] [].
Qed.

(* ---------- the database ---------- *)

Record cst_ok2 (s : cst) : Prop := mkC2 {
  c2_eng : eng_ok2 (eng s);
  c2_wf : WF (disk s) (clock (eng s));
  c2_max : 1 <= cc_sstmax (cc s)
}.

Lemma with_sizes_sst : forall l i z, map d_sst (with_sizes i z l) = l.
Proof. induction l; simpl; intros; auto. f_equal. auto. Qed.

Lemma with_sizes_in : forall l i z f, In f (with_sizes i z l) -> In (d_sst f) l /\ 1 <= d_size f.
Proof.
  induction l; simpl; intros. tauto. destruct H as [<-|H]. simpl. split; auto. apply nth_size_pos.
  apply IHl in H. tauto.
Qed.

Lemma fresh_props : forall a l b, fresh a l b ->
  NoDup (map s_ts l) /\
  forall t, In t l -> s_level t = 0 /\ a <= s_ts t < b /\ asc (s_entries t) /\ s_entries t <> [] /\
                       (forall e, In e (s_entries t) -> sk e <> []).
Proof.
  induction 1; simpl. split. constructor. tauto.
  destruct IHfresh as [A B]. pose proof (fresh_le _ _ _ H4). split.
  - constructor; auto. intro C. apply in_map_iff in C. destruct C as (x & E & Hx).
    destruct (B x Hx) as (_ & R & _). lia.
  - intros x [<-|Hx]. repeat split; auto; lia. destruct (B x Hx) as (P1 & P2 & P3). repeat split; auto; try tauto; lia.
Qed.

Lemma wf_add_fresh : forall dir c news c' i z, WF dir c -> fresh c news c' ->
  WF (dir ++ with_sizes i z news) c'.
Proof.
  intros dir c news c' i z W F. destruct (fresh_props _ _ _ F) as [ND FP].
  pose proof (fresh_le _ _ _ F) as Hc.
  assert (Hn : forall f, In f (with_sizes i z news) ->
     d_level f = 0 /\ c <= dts f < c' /\ asc (d_entries f) /\ d_entries f <> [] /\
     (forall e, In e (d_entries f) -> sk e <> []) /\ 1 <= d_size f).
  { intros f Hf. apply with_sizes_in in Hf. destruct Hf as [Hf Hs].
    destruct (FP _ Hf) as (A & B & C & D & E). unfold d_level, dts, d_entries. repeat split; auto; tauto. }
  constructor.
  - intros f Hf. apply in_app_iff in Hf. destruct Hf. apply (wf_asc _ _ W); auto. apply Hn; auto.
  - rewrite map_app. apply NoDup_app_intro. apply (wf_ts _ _ W).
    + unfold dts. rewrite <- (map_map d_sst s_ts), with_sizes_sst. auto.
    + intros x Hx Hy. apply in_map_iff in Hx, Hy. destruct Hx as (f & <- & Hf), Hy as (g & E & Hg).
      pose proof (wf_clock _ _ W f Hf). destruct (Hn g Hg) as (_ & R & _). lia.
  - intros f Hf. apply in_app_iff in Hf. destruct Hf. pose proof (wf_clock _ _ W f H). lia.
    destruct (Hn f H) as (_ & R & _). lia.
  - intros f g k Hf Hg L L1. apply in_app_iff in Hf, Hg.
    destruct Hf as [Hf|Hf]; [|destruct (Hn f Hf) as (Z & _); lia].
    destruct Hg as [Hg|Hg]; [|destruct (Hn g Hg) as (Z & _); lia].
    apply (wf_disj _ _ W); auto.
  - intros f e Hf He. apply in_app_iff in Hf. destruct Hf. eapply (wf_keys _ _ W); eauto.
    destruct (Hn f H) as (_ & _ & _ & _ & K & _). auto.
  - intros f Hf. apply in_app_iff in Hf. destruct Hf. apply (wf_nonempty _ _ W); auto. apply Hn; auto.
  - intros f Hf. apply in_app_iff in Hf. destruct Hf. apply (wf_size _ _ W); auto. apply Hn; auto.
Qed.

Lemma skipn_app_exact : forall (A : Type) (a b : list A), skipn (length a) (a ++ b) = b.
Proof. induction a; simpl; auto. Qed.

Lemma cflush_ok2 : forall s z, cst_ok2 s -> cst_ok2 (cflush s z).
Proof.
  intros s z [A B C]. destruct (flush_fresh _ A) as (news & X & Y & Z).
  unfold cflush. constructor; simpl; auto.
  rewrite X, skipn_app_exact. eapply wf_add_fresh; eauto.
Qed.

Lemma set_clock_ok2 : forall e c, eng_ok2 e -> eng_ok2 (set_clock e c).
Proof. intros e c [[A1 A2 A3] B C D]. constructor; auto. constructor; auto. Qed.

Lemma disk_files_ok : forall s, cst_ok2 s -> Forall file_ok (map d_sst (dsort (disk s))).
Proof.
  intros s [A B C]. rewrite Forall_forall. intros t Ht. apply in_map_iff in Ht.
  destruct Ht as (f & <- & Hf). apply (proj1 (dsort_in _ _)) in Hf. apply (wf_asc _ _ B f Hf).
Qed.

Lemma set_ssts_ok2 : forall e l, eng_ok2 e -> Forall file_ok l -> eng_ok2 (set_ssts e l).
Proof. intros e l [[A1 A2 A3] B C D] H. constructor; auto. constructor; auto. Qed.

Lemma cstep_ok2 : forall o s, op_ok o -> cst_ok2 s -> cst_ok2 (cstep s o).
Proof.
  destruct o; simpl; intros s0 Ho S; auto.
  - destruct S as [A B C]. unfold cput. pose proof (put_ok2 (eng s0) k v A Ho).
    assert (clock (fst (put (eng s0) k v)) = clock (eng s0)).
    { rewrite EP.put_as_batch. unfold apply_batch. destruct (MaxSeq <=? _); auto. simpl.
      unfold maybe_schedule. destruct (flush_pending _); reflexivity. }
    destruct (put (eng s0) k v). constructor; simpl in *; auto. rewrite H0. auto.
  - destruct S as [A B C]. unfold cdel. pose proof (del_ok2 (eng s0) k A Ho).
    assert (clock (fst (del (eng s0) k)) = clock (eng s0)).
    { rewrite EP.del_as_batch. unfold apply_batch. destruct (MaxSeq <=? _); auto. simpl.
      unfold maybe_schedule. destruct (flush_pending _); reflexivity. }
    destruct (del (eng s0) k). constructor; simpl in *; auto. rewrite H0. auto.
  - destruct S as [A B C]. unfold cbatch. pose proof (apply_batch_ok2 (eng s0) ops A Ho).
    assert (clock (fst (apply_batch (eng s0) ops)) = clock (eng s0)).
    { unfold apply_batch. destruct ops; auto. destruct (MaxSeq <=? _); auto. cbn [fst].
      assert (G : forall (l : list bop) q e, clock (fold_left (fun a o => set_last (pool_add a (bop_mentry q o)) q) l e) = clock e).
      { induction l; simpl; intros; auto. rewrite IHl. reflexivity. }
      unfold maybe_schedule. destruct (flush_pending _); simpl; rewrite G; reflexivity. }
    destruct (apply_batch (eng s0) ops). constructor; simpl in *; auto. rewrite H0. auto.
  - destruct S as [A B C]. unfold ccommit. pose proof (tx_commit_ok2 (eng s0) ops A Ho).
    assert (clock (fst (tx_commit (eng s0) ops)) = clock (eng s0)).
    { unfold tx_commit. destruct (buffer_ops ops) eqn:E; auto.
      unfold apply_batch. destruct (MaxSeq <=? _); auto. cbn [fst].
      assert (G : forall (l : list bop) q e, clock (fold_left (fun a o => set_last (pool_add a (bop_mentry q o)) q) l e) = clock e).
      { induction l0; simpl; intros; auto. rewrite IHl0. reflexivity. }
      unfold maybe_schedule. destruct (flush_pending _); simpl; rewrite G; reflexivity. }
    destruct (tx_commit (eng s0) ops). constructor; simpl in *; auto. rewrite H0. auto.
  - apply cflush_ok2; auto.
  - unfold cfull. pose proof (cflush_ok2 s0 sizes S) as S1.
    destruct (pending (eng s0)).
    + destruct S1. constructor; auto.
    + pose proof (cflush_ok2 _ (skipn (nfresh s0) sizes) S1) as [A B C]. constructor; auto.
  - destruct S as [A B C]. unfold ctrigger. destruct (select _ _ _) eqn:E. 2: constructor; auto.
    constructor; simpl; auto. apply set_clock_ok2; auto.
    apply (task_keeps_wf (disk s0) (clock (eng s0)) (c_maxmem (cfg (eng s0))) (cc s0) t); auto.
    left. auto.
  - destruct S as [A B C]. unfold crange. destruct (select_range _ _ _) eqn:E. 2: constructor; auto.
    constructor; simpl; auto. apply set_clock_ok2; auto.
    apply (task_keeps_wf (disk s0) (clock (eng s0)) 0 (cc s0) t); auto.
    right. eauto.
  - pose proof (disk_files_ok s0 S) as DF. destruct S as [A B C]. unfold creopen.
    set (e1 := if retire then upd_wal (eng s0) (wal_next (eng s0)) (skipn (retirable s0) (wal_files (eng s0))) else eng s0).
    assert (Hw : forall f en, In f (wal_files e1) -> In en f -> w_key en <> []).
    { unfold e1. destruct retire; simpl; intros f en Hf He.
      - apply (e2_wal _ A f en); auto. rewrite <- (firstn_skipn (retirable s0)). apply in_or_app. auto.
      - apply (e2_wal _ A f en); auto. }
    assert (R : eng_ok2 (reopen (set_ssts e1 (map d_sst (dsort (disk s0)))))).
    { apply reopen_ok2; simpl; auto. }
    constructor; simpl; auto.
    + apply set_ssts_ok2; auto. rewrite Forall_forall in *. intros t Ht. apply (proj1 (age_sort_in _ _)) in Ht. auto.
    + assert (clock (reopen (set_ssts e1 (map d_sst (dsort (disk s0))))) = clock (eng s0)).
      { unfold reopen. destruct (recover_tables _ _ _ _) as [[? ?]|]; simpl; unfold e1; destruct retire; reflexivity. }
      rewrite H. auto.
Qed.

Definition cfg_ok (k : ccfg) : Prop := 1 <= cc_sstmax k.

Theorem reachable_wf : forall c k ops, cfg_ok k -> Forall op_ok ops -> cst_ok2 (crun c k ops).
Proof.
  intros c k ops Hk Ho. unfold crun.
  assert (cst_ok2 (cinit c k)).
  { constructor; simpl; auto.
    - constructor; simpl.
      + constructor; simpl; auto. apply mt_empty_ok.
      + intros x [].
      + constructor.
      + intros f en [<-|[]] [].
    - constructor; simpl; try tauto. constructor. }
  revert H. generalize (cinit c k). induction Ho; simpl; auto. intros. apply IHHo. apply cstep_ok2; auto.
Qed.
