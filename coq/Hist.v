(* Hist.v — concurrent histories of a key-value store and linearizability.
   A history is a list of operation records: who called what on which key, what came back,
   and two logical timestamps (a ticket drawn immediately before the call and one drawn
   immediately after the return, from one global counter; in the LTS of EngineConc.v the
   position of the invocation / response label in the trace).
   - [linearizable]      : the definition, over the whole map, against Spec.v's [spec_get];
   - [linearizable_reg]  : the same for one key (a read/write register);
   - [lin_check]         : executable per-key checker (Wing–Gong / Lowe search with a
                           memo table), proved sound in HistProofs.v.
   Model file: definitions only. *)
From Coq Require Import Permutation FMapPositive.
From KV Require Export Bytes Spec.
Open Scope N_scope.

(* ---------- operation records ---------- *)

Inductive okind := KPut (v : bytes) | KDel | KGet.

(* RPending: no response was observed (the call never returned within the history).
   ROk: a write acknowledged.  RFail: the call returned an error.
   RVal v / RNotFound: what a get returned. *)
Inductive ores := RPending | ROk | RFail | RVal (v : bytes) | RNotFound.

Record orec := mkOp {
  o_tid : N; o_key : bytes; o_kind : okind; o_res : ores;
  o_call : N;       (* ticket taken before the invocation *)
  o_ret : N         (* ticket taken after the response; meaningless when pending *)
}.

Definition history := list orec.

Definition is_pending (o : orec) : bool :=
  match o_res o with RPending => true | _ => false end.

(* ---------- linearizability, generic in the sequential specification ---------- *)

Section Lin.
  Variable S : Type.
  Variable apply : S -> orec -> option S.   (* None: the recorded result is impossible here *)

  Fixpoint legal (s : S) (l : list orec) : Prop :=
    match l with
    | [] => True
    | o :: r => match apply s o with Some s' => legal s' r | None => False end
    end.

  (* a returned before b was called *)
  Definition returns_before (a b : orec) : Prop := is_pending a = false /\ o_ret a < o_call b.

  (* the order respects real time: nobody is placed before an operation that had already
     returned when he was called *)
  Definition rt_ok (l : list orec) : Prop := ForallOrdPairs (fun a b => ~ returns_before b a) l.

  (* l is a linearization of h: all completed operations and some of the pending ones, each
     exactly once, in an order that respects real time and is a legal sequential run *)
  Definition linearization (s0 : S) (h l : list orec) : Prop :=
    (exists dropped, Permutation h (l ++ dropped) /\ Forall (fun o => is_pending o = true) dropped)
    /\ rt_ok l /\ legal s0 l.

  Definition linearizable_from (s0 : S) (h : list orec) : Prop := exists l, linearization s0 h l.
End Lin.

(* ---------- the map specification (Spec.v) ---------- *)

Definition obeq (a b : option bytes) : bool :=
  match a, b with
  | Some x, Some y => beq x y
  | None, None => true
  | _, _ => false
  end.

(* state = the sequence of writes that took effect; a get must return [spec_get] of it.
   An acknowledged write takes effect, a failed write does not, a pending write that is part
   of the linearization does; an errored or pending get constrains nothing. *)
Definition spec_apply (w : list wop) (o : orec) : option (list wop) :=
  match o_kind o, o_res o with
  | KPut v, ROk | KPut v, RPending => Some (w ++ [WPut (o_key o) v])
  | KDel, ROk | KDel, RPending => Some (w ++ [WDel (o_key o)])
  | KPut _, RFail | KDel, RFail => Some w
  | KGet, RVal v => if obeq (spec_get w (o_key o)) (Some v) then Some w else None
  | KGet, RNotFound => if obeq (spec_get w (o_key o)) None then Some w else None
  | KGet, RFail | KGet, RPending => Some w
  | _, _ => None
  end.

Definition linearizable (w0 : list wop) (h : history) : Prop := linearizable_from _ spec_apply w0 h.

(* ---------- one key: a register ---------- *)

Definition rstate := option bytes.      (* None = absent *)

Definition reg_apply (s : rstate) (o : orec) : option rstate :=
  match o_kind o, o_res o with
  | KPut v, ROk | KPut v, RPending => Some (Some v)
  | KDel, ROk | KDel, RPending => Some None
  | KPut _, RFail | KDel, RFail => Some s
  | KGet, RVal v => if obeq s (Some v) then Some s else None
  | KGet, RNotFound => if obeq s None then Some s else None
  | KGet, RFail | KGet, RPending => Some s
  | _, _ => None
  end.

Definition key_ops (k : bytes) (h : history) : history := filter (fun o => beq (o_key o) k) h.

Definition linearizable_reg (s0 : rstate) (h : history) : Prop := linearizable_from _ reg_apply s0 h.

(* what the checker establishes: every key's sub-history is linearizable as a register that
   starts absent. (Herlihy–Wing locality — this implies [linearizable []] of the whole
   history when timestamps are those of one global clock — is NOT proved here.) *)
Definition linearizable_per_key (h : history) : Prop :=
  forall k, linearizable_reg None (key_ops k h).

(* ---------- the checker ---------- *)

Inductive verdict := VAccept | VReject | VFuel.

(* memo table: configurations (set of linearized operations, register state) already shown
   to lead nowhere. Soundness does not depend on its content: a hit only prunes. *)
Definition cache := PositiveMap.t (list rstate).
Definition cache_mem (c : cache) (mask : N) (s : rstate) : bool :=
  match PositiveMap.find (N.succ_pos mask) c with
  | Some l => existsb (obeq s) l
  | None => false
  end.
Definition cache_add (c : cache) (mask : N) (s : rstate) : cache :=
  let old := match PositiveMap.find (N.succ_pos mask) c with Some l => l | None => [] end in
  PositiveMap.add (N.succ_pos mask) (s :: old) c.

(* earliest return among the completed operations still to be placed *)
Fixpoint min_ret (rem : list (N * orec)) : option N :=
  match rem with
  | [] => None
  | (_, o) :: r =>
    if is_pending o then min_ret r else
    match min_ret r with
    | Some m => Some (if o_ret o <? m then o_ret o else m)
    | None => Some (o_ret o)
    end
  end.

(* o may come next: it was called before every remaining completed operation returned *)
Definition eligible (mr : option N) (o : orec) : bool :=
  match mr with Some m => o_call o <? m | None => true end.

(* completed operations that leave the register as it is: placing one as soon as it is
   possible loses nothing, so no alternative is explored behind it *)
Definition is_noop (o : orec) : bool :=
  match o_kind o, o_res o with
  | KGet, RVal _ | KGet, RNotFound | KGet, RFail => true
  | KPut _, RFail | KDel, RFail => true
  | _, _ => false
  end.

(* pending gets are never placed (they may always be dropped) *)
Definition skip_op (o : orec) : bool :=
  match o_kind o, o_res o with KGet, RPending => true | _, _ => false end.

Definition all_pending (rem : list (N * orec)) : bool := forallb (fun p => is_pending (snd p)) rem.

(* pruning for histories whose put values are unique (the harness guarantees it; soundness
   does not depend on it): placing write o now is hopeless when
   - the register holds v and a completed get that returned v is still unplaced (v can never
     be current again), or
   - the register is absent, o is a put, a completed get that found nothing is still
     unplaced and no delete is left that could empty the register again *)
Definition reads_val (v : bytes) (p : N * orec) : bool :=
  match o_kind (snd p), o_res (snd p) with KGet, RVal v' => beq v v' | _, _ => false end.
Definition reads_none (p : N * orec) : bool :=
  match o_kind (snd p), o_res (snd p) with KGet, RNotFound => true | _, _ => false end.
Definition live_del (p : N * orec) : bool :=
  match o_kind (snd p), o_res (snd p) with KDel, ROk | KDel, RPending => true | _, _ => false end.
Definition blocked (s : rstate) (o : orec) (rem : list (N * orec)) : bool :=
  if is_noop o then false else
  match s with
  | Some v => existsb (reads_val v) rem
  | None => match o_kind o with
            | KPut _ => existsb reads_none rem && negb (existsb live_del rem)
            | _ => false
            end
  end.

(* one level of the search: try every remaining operation that may come next; [rec] explores
   the rest (it is [search d'] below); rem = rev pre ++ post is the whole level *)
Fixpoint try_ops (rec : list (N * orec) -> N -> rstate -> N * cache -> verdict * (N * cache))
  (mr : option N) (mask : N) (s : rstate) (rem pre post : list (N * orec)) (bc : N * cache)
  {struct post} : verdict * (N * cache) :=
  match post with
  | [] => (VReject, (fst bc, cache_add (snd bc) mask s))
  | p :: post' =>
    let o := snd p in
    if eligible mr o && (negb (skip_op o) && negb (blocked s o rem)) then
      match reg_apply s o with
      | Some s' =>
        let r := rec (rev_append pre post') (N.lor mask (N.shiftl 1 (fst p))) s' bc in
        match fst r with
        | VAccept => r
        | VFuel => r
        | VReject =>
          if is_noop o then (VReject, (fst (snd r), cache_add (snd (snd r)) mask s))
          else try_ops rec mr mask s rem (p :: pre) post' (snd r)
        end
      | None => try_ops rec mr mask s rem (p :: pre) post' bc
      end
    else try_ops rec mr mask s rem (p :: pre) post' bc
  end.

(* depth-first search. d: structural bound (number of operations + 1); rem: operations not
   yet placed, with their bit index; mask: the placed ones; s: register state; bc: remaining
   node budget and memo table. *)
Fixpoint search (d : nat) (rem : list (N * orec)) (mask : N) (s : rstate) (bc : N * cache)
  {struct d} : verdict * (N * cache) :=
  match d with
  | O => (VFuel, bc)
  | S d' =>
    if all_pending rem then (VAccept, bc) else
    if fst bc =? 0 then (VFuel, bc) else
    if cache_mem (snd bc) mask s then (VReject, bc) else
    try_ops (search d') (min_ret rem) mask s rem [] rem (fst bc - 1, snd bc)
  end.

Fixpoint number (i : N) (l : list orec) : list (N * orec) :=
  match l with
  | [] => []
  | o :: r => (i, o) :: number (i + 1) r
  end.

Definition check_key (fuel : N) (k : bytes) (h : history) : verdict :=
  let ops := key_ops k h in
  fst (search (S (length ops)) (number 0 ops) 0 None (fuel, PositiveMap.empty _)).

Fixpoint add_key (k : bytes) (ks : list bytes) : list bytes :=
  match ks with
  | [] => [k]
  | x :: r => if beq x k then ks else x :: add_key k r
  end.
Definition keys_of (h : history) : list bytes := fold_left (fun ks o => add_key (o_key o) ks) h [].

Definition lin_verdicts (fuel : N) (h : history) : list (bytes * verdict) :=
  map (fun k => (k, check_key fuel k h)) (keys_of h).

Definition accepted (v : verdict) : bool := match v with VAccept => true | _ => false end.

(* fuel: search nodes allowed per key *)
Definition lin_check (fuel : N) (h : history) : bool :=
  forallb (fun kv => accepted (snd kv)) (lin_verdicts fuel h).
