(* ReplSessionProofs.v — client-operation progress and session eviction in the session model
   (ReplSession.v), and the table lemmas over the generated call-graph facts (BlockView.v). *)
From Coq Require Import List NArith Bool String Lia.
From KV.gen Require Import Blocking.
From KV Require Import BlockView ReplSession.
Import ListNotations.
Open Scope N_scope.

(* ---------- asynchronous sends: client operations always return ---------- *)
Theorem progress_async : forall now ss, exists ss', client_write false now ss = Done ss'.
Proof. intros. eexists. reflexivity. Qed.

Example progress_async_nonvacuous :
  client_write false 7 [mkS 1 true true false 3 0; mkS 2 true false false 0 0] =
  Done [mkS 1 true true false 3 7].
Proof. reflexivity. Qed.

Lemma send1_id : forall now s s', send1 now s = SSent s' \/ send1 now s = SFailed s' -> s_id s' = s_id s.
Proof.
  intros now s s' H. unfold send1 in H.
  destruct (s_broken s); [destruct H as [H|H]; inversion H; reflexivity|].
  destruct (s_reads s); [destruct H as [H|H]; inversion H; reflexivity|].
  destruct (s_room s); destruct H as [H|H]; inversion H; reflexivity.
Qed.

(* a healthy replica keeps being served whatever the others do *)
Theorem async_serves_healthy : forall now ss s,
  In s ss -> s_connected s = true -> s_reads s = true -> s_broken s = false ->
  forall ss', client_write false now ss = Done ss' ->
  In (mkS (s_id s) true true false (s_room s) now) ss'.
Proof.
  intros now ss s Hin C R B ss' H. cbn in H. inversion H; subst ss'. clear H.
  apply in_flat_map. exists s. split; [exact Hin|]. rewrite C. unfold send1. rewrite B, R.
  left. reflexivity.
Qed.

(* a replica whose stream accepts nothing more is evicted by the next write *)
Theorem async_evicts_stalled : forall now ss s,
  In s ss -> s_connected s = true -> s_reads s = false -> s_broken s = false -> s_room s = O ->
  (forall t, In t ss -> s_id t = s_id s -> t = s) ->
  forall ss', client_write false now ss = Done ss' -> ~ In (s_id s) (topology ss').
Proof.
  intros now ss s Hin C R B Z U ss' H Habs. cbn in H. inversion H; subst ss'. clear H.
  unfold topology in Habs. apply in_map_iff in Habs. destruct Habs as (t' & Eid & Ht').
  apply filter_In in Ht'. destruct Ht' as [Ht' Ct']. apply in_flat_map in Ht'.
  destruct Ht' as (t & Ht & Hf).
  assert (Et : s_id t' = s_id t).
  { destruct (s_connected t).
    - destruct (send1 now t) as [x|x|] eqn:E; try (destruct Hf as [<-|[]]); try contradiction.
      + eapply send1_id. left. exact E.
      + eapply send1_id. right. exact E.
    - destruct Hf as [<-|[]]. reflexivity. }
  assert (t = s) by (apply U; [exact Ht|congruence]). subst t.
  rewrite C in Hf. unfold send1 in Hf. rewrite B, R, Z in Hf. exact Hf.
Qed.

Example async_evicts_stalled_nonvacuous :
  topology (match client_write false 9 [mkS 1 true true false 3 0; mkS 2 true false false 0 0] with
            | Done ss => ss | Blocked _ => [] end) = [1].
Proof. reflexivity. Qed.

(* ---------- the code as it is: one stalled reader blocks the client's write ---------- *)
Theorem sync_blocks : forall now ss s,
  In s ss -> s_connected s = true -> s_reads s = false -> s_broken s = false -> s_room s = O ->
  exists i, client_write true now ss = Blocked i.
Proof.
  intros now ss s Hin C R B Z. cbn [client_write]. induction ss as [|x ss IH]; [contradiction|].
  cbn [client_write_sync]. destruct Hin as [->|Hin].
  - rewrite C. unfold send1. rewrite B, R, Z. eexists. reflexivity.
  - destruct (IH Hin) as (i & Hi). rewrite Hi.
    destruct (s_connected x); [destruct (send1 now x)|]; eexists; reflexivity.
Qed.

Theorem sync_blocks_refuted :
  exists now ss, (exists s, In s ss /\ s_connected s = true /\ s_reads s = true) /\
  exists i, client_write true now ss = Blocked i.
Proof.
  exists 9, [mkS 1 true true false 3 0; mkS 2 true false false 0 0]. split.
  - eexists. split; [left; reflexivity|]. split; reflexivity.
  - eexists. reflexivity.
Qed.

(* ---------- eviction by the heartbeat checker ---------- *)
Lemma hb_check_origin : forall h now ss ss', hb_check h now ss = Done ss' ->
  forall t', In t' ss' -> exists t, In t ss /\ s_id t' = s_id t /\
    (s_connected t' = true -> s_connected t = true /\ (hb_timeout h <? now - s_last t) = false).
Proof.
  intros h now. induction ss as [|s ss IH]; intros ss' H t' Ht'.
  - cbn in H. inversion H; subst. contradiction.
  - cbn [hb_check] in H.
    destruct (hb_check h now ss) as [r'|i] eqn:ER.
    2:{ destruct (negb (s_connected s)); [discriminate|].
        destruct (hb_timeout h <? now - s_last s); [discriminate|].
        destruct (hb_interval h <? now - s_last s); [|discriminate].
        destruct (send1 now s); discriminate. }
    assert (REST : forall keep, Done (keep ++ r') = Done ss' -> In t' keep \/
              exists t, In t ss /\ s_id t' = s_id t /\
              (s_connected t' = true -> s_connected t = true /\ (hb_timeout h <? now - s_last t) = false)).
    { intros keep E. inversion E; subst ss'. apply in_app_or in Ht'. destruct Ht' as [K|K]; [left; exact K|].
      right. apply (IH r' eq_refl t' K). }
    assert (LIFT : (exists t, In t ss /\ s_id t' = s_id t /\
              (s_connected t' = true -> s_connected t = true /\ (hb_timeout h <? now - s_last t) = false)) ->
              exists t, In t (s :: ss) /\ s_id t' = s_id t /\
              (s_connected t' = true -> s_connected t = true /\ (hb_timeout h <? now - s_last t) = false)).
    { intros (t & A & B). exists t. split; [right; exact A|exact B]. }
    destruct (s_connected s) eqn:C; cbn [negb] in H.
    + destruct (hb_timeout h <? now - s_last s) eqn:TO.
      * destruct (REST [] H) as [[]|K]. apply LIFT, K.
      * destruct (hb_interval h <? now - s_last s) eqn:IV.
        -- destruct (send1 now s) as [x|x|] eqn:E; try discriminate.
           ++ destruct (REST [x] H) as [[<-|[]]|K]; [|apply LIFT, K].
              exists s. split; [left; reflexivity|]. split; [eapply send1_id; left; exact E|].
              intros _. split; [exact C|exact TO].
           ++ destruct (REST [] H) as [[]|K]. apply LIFT, K.
        -- destruct (REST [s] H) as [[<-|[]]|K]; [|apply LIFT, K].
           exists s. split; [left; reflexivity|]. split; [reflexivity|]. intros _. split; [exact C|exact TO].
    + destruct (REST [s] H) as [[<-|[]]|K]; [|apply LIFT, K].
      exists s. split; [left; reflexivity|]. split; [reflexivity|]. intros K. congruence.
Qed.

(* a session silent for longer than the timeout is gone from the reported topology after the
   next completed check *)
Theorem dropped_on_timeout : forall h now ss ss' s,
  hb_check h now ss = Done ss' -> In s ss -> s_connected s = true ->
  hb_timeout h < now - s_last s ->
  (forall t, In t ss -> s_id t = s_id s -> t = s) ->
  ~ In (s_id s) (topology ss').
Proof.
  intros h now ss ss' s H Hin C TO U Habs. unfold topology in Habs.
  apply in_map_iff in Habs. destruct Habs as (t' & Eid & Ht'). apply filter_In in Ht'.
  destruct Ht' as [Ht' Ct']. destruct (hb_check_origin h now ss ss' H t' Ht') as (t & A & B & D).
  assert (t = s) by (apply U; [exact A|congruence]). subst t.
  destruct (D Ct') as [_ F]. apply N.ltb_ge in F. lia.
Qed.

Example dropped_on_timeout_nonvacuous :
  hb_check (mkHB 10 30) 100 [mkS 1 true true false 3 95; mkS 2 true false false 3 60] =
  Done [mkS 1 true true false 3 95].
Proof. reflexivity. Qed.

(* ... but the code refreshes LastActivity with its own heartbeats: a peer that never reads and
   never acknowledges is listed for as long as its transport swallows the heartbeats, and once
   it does not, the checker itself blocks in Stream.Send and evicts nobody any more *)
Definition silent_peer : sess := mkS 7 true false false 5 0.

Theorem silent_peer_not_dropped_refuted :
  s_reads silent_peer = false /\
  (forall n, (n <= 5)%nat ->
     match hb_rounds (mkHB 10 30) 11 n 0 [silent_peer; mkS 8 true true false 0 0] with
     | Some ss => In 7 (topology ss)
     | None => False
     end) /\
  hb_rounds (mkHB 10 30) 11 6 0 [silent_peer; mkS 8 true true false 0 0] = None.
Proof.
  split; [reflexivity|]. split; [|reflexivity].
  intros n Hn. do 6 (destruct n as [|n]; [vm_compute; tauto|]). lia.
Qed.

(* ---------- table lemmas over the generated facts ---------- *)
(* every peer-blocking operation reached from a client path under a lock is a replication
   stream send made by the WAL observer callback (nothing else blocks a client path) *)
Lemma only_observer_sends_ok : only_observer_sends = true.
Proof. vm_compute. reflexivity. Qed.

Lemma roots_found : missing_roots = [].
Proof. reflexivity. Qed.

(* the client write path does reach a stream send under the storage lock and the WAL mutex *)
Definition d19_path : list string :=
  ["storage.Manager.Put"; "storage.Manager.RetryOnWALRotating"; "wal.WAL.Append";
   "wal.WAL.notifyEntryObservers"; "replication.Primary.OnWALEntryWritten";
   "replication.Primary.broadcastToReplicas"; "replication.Primary.sendToReplica"]%string.

Lemma blocking_under_lock_refuted :
  no_blocking_under_lock = false /\
  exists s, In s blocking_sites /\ bs_root s = "storage.Manager.Put"%string /\
    bs_kind s = "grpc_stream"%string /\ bs_path s = d19_path /\
    In "storage.Manager.mu:W"%string (bs_held s) /\ In "wal.WAL.mu:W"%string (bs_held s) /\
    In "replication.ReplicaSession.mu:W"%string (bs_held s).
Proof.
  split; [vm_compute; reflexivity|].
  destruct (find (fun s => String.eqb (bs_root s) "storage.Manager.Put" && String.eqb (bs_kind s) "grpc_stream") blocking_sites) as [s|] eqn:F.
  - pose proof (find_some _ _ F) as [Hin _]. exists s. split; [exact Hin|].
    vm_compute in F. inversion F; subst s. cbn. repeat split; tauto.
  - vm_compute in F. discriminate.
Qed.

(* lock order: the table contains both directions between the WAL mutex and each of the two
   replication locks *)
Lemma lock_order_refuted :
  lock_order_acyclic lock_edges = false /\
  (exists e1 e2, In e1 lock_edges /\ In e2 lock_edges /\
     le_from e1 = "wal.WAL.mu"%string /\ le_to e1 = "replication.ReplicaSession.mu"%string /\
     le_fn e1 = "replication.Primary.sendToReplica"%string /\
     le_from e2 = "replication.ReplicaSession.mu"%string /\ le_to e2 = "wal.WAL.mu"%string /\
     le_fn e2 = "wal.WAL.GetNextSequence"%string) /\
  (exists e1 e2, In e1 lock_edges /\ In e2 lock_edges /\
     le_from e1 = "wal.WAL.mu"%string /\ le_to e1 = "replication.Primary.mu"%string /\
     le_fn e1 = "replication.Primary.OnWALSync"%string /\
     le_from e2 = "replication.Primary.mu"%string /\ le_to e2 = "wal.WAL.mu"%string /\
     le_fn e2 = "wal.WAL.GetNextSequence"%string).
Proof.
  split; [vm_compute; reflexivity|].
  assert (P : forall a b f, existsb (fun e => String.eqb (le_from e) a && String.eqb (le_to e) b && String.eqb (le_fn e) f) lock_edges = true ->
              exists e, In e lock_edges /\ le_from e = a /\ le_to e = b /\ le_fn e = f).
  { intros a b f H. apply existsb_exists in H. destruct H as (e & Hin & H).
    apply andb_true_iff in H. destruct H as [H H3]. apply andb_true_iff in H. destruct H as [H1 H2].
    apply String.eqb_eq in H1, H2, H3. exists e. tauto. }
  split.
  - destruct (P "wal.WAL.mu" "replication.ReplicaSession.mu" "replication.Primary.sendToReplica")%string as (e1 & A1 & B1 & C1 & D1); [vm_compute; reflexivity|].
    destruct (P "replication.ReplicaSession.mu" "wal.WAL.mu" "wal.WAL.GetNextSequence")%string as (e2 & A2 & B2 & C2 & D2); [vm_compute; reflexivity|].
    exists e1, e2. tauto.
  - destruct (P "wal.WAL.mu" "replication.Primary.mu" "replication.Primary.OnWALSync")%string as (e1 & A1 & B1 & C1 & D1); [vm_compute; reflexivity|].
    destruct (P "replication.Primary.mu" "wal.WAL.mu" "wal.WAL.GetNextSequence")%string as (e2 & A2 & B2 & C2 & D2); [vm_compute; reflexivity|].
    exists e1, e2. tauto.
Qed.

(* without the fetches made under a replication lock the lock order has no cycle *)
Lemma lock_order_otherwise_ok : lock_order_acyclic_otherwise = true.
Proof. vm_compute. reflexivity. Qed.
