(* ReplSessionProofs.v — client-operation progress and session eviction in the session model
   (ReplSession.v), and the table lemmas over the generated call-graph facts (BlockView.v).
   The statements about the pinned tree (synchronous send under the locks, lock-order cycles)
   are kept in Module BeforeFixes. *)
From Coq Require Import List NArith Bool String Lia PeanoNat.
From KV.gen Require Import Blocking.
From KV Require Import BlockView ReplSession.
Import ListNotations.
Open Scope N_scope.

(* ---------- client operations always return (sends are queued) ---------- *)
Theorem progress_async : forall now ss, exists ss', client_write false now ss = Done ss'.
Proof. intros. eexists. reflexivity. Qed.

Example progress_async_nonvacuous :
  client_write false 7 [mkS 1 true true false 3 0 0; mkS 2 true false false 0 0 0] =
  Done [mkS 1 true true false 3 7 0; mkS 2 true false false 0 0 1].
Proof. reflexivity. Qed.

Lemma send1_id : forall now s s', send1 now s = SSent s' \/ send1 now s = SFailed s' -> s_id s' = s_id s.
Proof.
  intros now s s' H. unfold send1 in H.
  destruct (s_broken s); [destruct H as [H|H]; inversion H; reflexivity|].
  destruct (s_reads s); [destruct H as [H|H]; inversion H; reflexivity|].
  destruct (s_room s); destruct H as [H|H]; inversion H; reflexivity.
Qed.

Lemma enqueue_id : forall now s s', enqueue now s = Some s' -> s_id s' = s_id s.
Proof.
  intros now s s' H. unfold enqueue in H. destruct (send1 now s) as [x|x|] eqn:E.
  - inversion H; subst. eapply send1_id. left. exact E.
  - discriminate.
  - destruct (Nat.ltb (s_queued s) QueueLen); inversion H; reflexivity.
Qed.

(* a healthy replica keeps being served whatever the others do *)
Theorem async_serves_healthy : forall now ss s,
  In s ss -> s_connected s = true -> s_reads s = true -> s_broken s = false ->
  forall ss', client_write false now ss = Done ss' ->
  In (mkS (s_id s) true true false (s_room s) now 0) ss'.
Proof.
  intros now ss s Hin C R B ss' H. cbn in H. inversion H; subst ss'. clear H.
  apply in_flat_map. exists s. split; [exact Hin|]. rewrite C. unfold enqueue, send1. rewrite B, R.
  left. reflexivity.
Qed.

(* a replica whose stream takes nothing more: connected, not reading, no room *)
Definition stalled (s : sess) : Prop :=
  s_connected s = true /\ s_reads s = false /\ s_broken s = false /\ s_room s = O.

(* responses for it pile up in its queue; its activity time is not refreshed *)
Lemma stalled_enqueue : forall now s s', stalled s -> enqueue now s = Some s' ->
  stalled s' /\ s_last s' = s_last s /\ s_queued s' = S (s_queued s) /\ s_id s' = s_id s.
Proof.
  intros now s s' (C & R & B & Z) H. unfold enqueue, send1 in H. rewrite B, R, Z in H.
  destruct (Nat.ltb (s_queued s) QueueLen); inversion H; subst. cbn. repeat split; reflexivity.
Qed.

(* ... and once the queue is full the next write evicts it *)
Theorem async_evicts_stalled : forall now ss s,
  In s ss -> stalled s -> s_queued s = QueueLen ->
  (forall t, In t ss -> s_id t = s_id s -> t = s) ->
  forall ss', client_write false now ss = Done ss' -> ~ In (s_id s) (topology ss').
Proof.
  intros now ss s Hin (C & R & B & Z) Q U ss' H Habs. cbn in H. inversion H; subst ss'. clear H.
  unfold topology in Habs. apply in_map_iff in Habs. destruct Habs as (t' & Eid & Ht').
  apply filter_In in Ht'. destruct Ht' as [Ht' Ct']. apply in_flat_map in Ht'.
  destruct Ht' as (t & Ht & Hf).
  assert (Et : s_id t' = s_id t).
  { destruct (s_connected t).
    - destruct (enqueue now t) as [x|] eqn:E; [|contradiction]. destruct Hf as [<-|[]].
      eapply enqueue_id. exact E.
    - destruct Hf as [<-|[]]. reflexivity. }
  assert (t = s) by (apply U; [exact Ht|congruence]). subst t.
  rewrite C in Hf. unfold enqueue, send1 in Hf. rewrite B, R, Z, Q in Hf.
  rewrite Nat.ltb_irrefl in Hf. exact Hf.
Qed.

Example async_evicts_stalled_nonvacuous :
  topology (match client_write false 9 [mkS 1 true true false 3 0 0; mkS 2 true false false 0 0 256] with
            | Done ss => ss | Blocked _ => [] end) = [1].
Proof. reflexivity. Qed.

(* ---------- eviction by the heartbeat checker ---------- *)
(* a session silent for longer than the timeout is gone from the reported topology after the
   next check (which never waits) *)
Theorem dropped_on_timeout : forall h now ss s,
  In s ss -> s_connected s = true -> hb_timeout h < now - s_last s ->
  (forall t, In t ss -> s_id t = s_id s -> t = s) ->
  ~ In (s_id s) (topology (hb_check_async h now ss)).
Proof.
  intros h now ss s Hin C TO U Habs. unfold topology in Habs.
  apply in_map_iff in Habs. destruct Habs as (t' & Eid & Ht'). apply filter_In in Ht'.
  destruct Ht' as [Ht' Ct']. unfold hb_check_async in Ht'. apply in_flat_map in Ht'.
  destruct Ht' as (t & Ht & Hf).
  assert (Et : s_id t' = s_id t).
  { destruct (negb (s_connected t)); [destruct Hf as [<-|[]]; reflexivity|].
    destruct (hb_timeout h <? now - s_last t); [contradiction|].
    destruct (hb_interval h <? now - s_last t).
    - destruct (enqueue now t) as [x|] eqn:E; [|contradiction]. destruct Hf as [<-|[]].
      eapply enqueue_id. exact E.
    - destruct Hf as [<-|[]]. reflexivity. }
  assert (t = s) by (apply U; [exact Ht|congruence]). subst t.
  rewrite C in Hf. cbn [negb] in Hf. apply N.ltb_lt in TO. rewrite TO in Hf. exact Hf.
Qed.

Example dropped_on_timeout_nonvacuous :
  hb_check_async (mkHB 10 30) 100 [mkS 1 true true false 3 95 0; mkS 2 true false false 3 60 0] =
  [mkS 1 true true false 3 95 0].
Proof. reflexivity. Qed.

(* a peer that never reads and never acknowledges: the primary's own heartbeats do not keep it
   alive any more (they only queue up), so it reaches the timeout and is removed, while the
   healthy replica next to it stays *)
Fixpoint hb_rounds_async (h : hb) (step : N) (n : nat) (now : N) (ss : list sess) : list sess :=
  match n with
  | O => ss
  | S n' => hb_rounds_async h step n' (now + step) (hb_check_async h (now + step) ss)
  end.

Definition silent_peer : sess := mkS 7 true false false 0 0 0.

Theorem silent_peer_dropped :
  stalled silent_peer /\
  topology (hb_rounds_async (mkHB 10 30) 11 2 0 [silent_peer; mkS 8 true true false 0 0 0]) = [7; 8] /\
  topology (hb_rounds_async (mkHB 10 30) 11 3 0 [silent_peer; mkS 8 true true false 0 0 0]) = [8] /\
  forall n, (3 <= n <= 12)%nat ->
    topology (hb_rounds_async (mkHB 10 30) 11 n 0 [silent_peer; mkS 8 true true false 0 0 0]) = [8].
Proof.
  split; [repeat split; reflexivity|]. split; [reflexivity|]. split; [reflexivity|].
  intros n Hn. do 3 (destruct n as [|n]; [lia|]).
  do 10 (destruct n as [|n]; [reflexivity|]). lia.
Qed.

(* ---------- table lemmas over the generated facts ---------- *)
Lemma roots_found : missing_roots = [].
Proof. reflexivity. Qed.

(* no client read/write path reaches an operation that may block on a peer while a lock is held *)
Lemma no_blocking_under_lock_ok : no_blocking_under_lock = true.
Proof. vm_compute. reflexivity. Qed.

(* the check is not vacuous: the table does contain peer-blocking operations (the sender
   goroutine's stream write, the replica's receives), none of them on a client path under a lock;
   and the direct stream write kept for sessions without a sender is in the table, recognised by
   its guard *)
Example blocking_sites_nonvacuous :
  existsb (fun s => peer_blocking s && negb (is_client_site s)) blocking_sites = true /\
  existsb (fun s => is_client_site s && unreached_fallback s && holds_lock s) blocking_sites = true /\
  always_set_fields = ["replication.ReplicaSession.sendQ"%string].
Proof. split; [vm_compute; reflexivity|]. split; [vm_compute; reflexivity|reflexivity]. Qed.

(* lock order: no cycle between different locks, and no lock is acquired while another instance
   of the same (type, field) lock is held (WAL.HandOverObservers copies the observer set and
   releases the old WAL's observer lock before it registers with the new WAL) *)
Lemma lock_order_ok : lock_order_acyclic lock_edges = true.
Proof. vm_compute. reflexivity. Qed.

Lemma self_nestings_none : self_nestings lock_edges = [].
Proof. vm_compute. reflexivity. Qed.

(* ================= the pinned tree, before c7e8cb8 / 5fc1d1b ================= *)
Module BeforeFixes.

  (* D19: synchronous send under the locks — one stalled reader blocks the client's write *)
  Theorem sync_blocks : forall now ss s,
    In s ss -> stalled s -> exists i, client_write true now ss = Blocked i.
  Proof.
    intros now ss s Hin (C & R & B & Z). cbn [client_write]. induction ss as [|x ss IH]; [contradiction|].
    cbn [client_write_sync]. destruct Hin as [->|Hin].
    - rewrite C. unfold send1. rewrite B, R, Z. eexists. reflexivity.
    - destruct (IH Hin) as (i & Hi). rewrite Hi.
      destruct (s_connected x); [destruct (send1 now x)|]; eexists; reflexivity.
  Qed.

  Example sync_blocks_witness :
    client_write true 9 [mkS 1 true true false 3 0 0; mkS 2 true false false 0 0 0] = Blocked 2.
  Proof. reflexivity. Qed.

  (* D19c: the checker refreshed LastActivity with its own heartbeats, so a peer that never read
     was listed for as long as its transport swallowed them, and then the checker itself blocked
     in Stream.Send and evicted nobody any more *)
  Definition silent_peer_old : sess := mkS 7 true false false 5 0 0.

  Example silent_peer_was_not_dropped :
    (forall n, (n <= 5)%nat ->
       match hb_rounds (mkHB 10 30) 11 n 0 [silent_peer_old; mkS 8 true true false 0 0 0] with
       | Some ss => In 7 (topology ss)
       | None => False
       end) /\
    hb_rounds (mkHB 10 30) 11 6 0 [silent_peer_old; mkS 8 true true false 0 0 0] = None.
  Proof.
    split; [|reflexivity]. intros n Hn. do 6 (destruct n as [|n]; [vm_compute; tauto|]). lia.
  Qed.

  (* the rows the generator produced for the pinned tree (frozen copies): the checks flag them *)
  Open Scope string_scope.
  Definition d19_site : bsite :=
    mkBS "storage.Manager.Put" "replication.Primary.sendToReplica"
      "github.com/KevoDB/kevo/proto/kevo/replication.WALReplicationService_StreamWALServer.Send" "grpc_stream" ""
      ["storage.Manager.mu:W"; "wal.WAL.mu:W"; "wal.WAL.observersMu:R"; "replication.Primary.mu:R"; "replication.ReplicaSession.mu:W"]
      ["storage.Manager.Put"; "storage.Manager.RetryOnWALRotating"; "wal.WAL.Append"; "wal.WAL.notifyEntryObservers";
       "replication.Primary.OnWALEntryWritten"; "replication.Primary.broadcastToReplicas"; "replication.Primary.sendToReplica"].

  Example d19_site_flagged : bad_site d19_site = true /\ via_observer_send d19_site = true.
  Proof. split; vm_compute; reflexivity. Qed.

  Definition d19b_edges : list ledge := [
    mkLE "wal.WAL.mu" "replication.ReplicaSession.mu" "W>W" "replication.Primary.sendToReplica" "storage.Manager.Put" [];
    mkLE "replication.ReplicaSession.mu" "wal.WAL.mu" "W>W" "wal.WAL.GetNextSequence" "replication.Primary.StreamWAL" [];
    mkLE "wal.WAL.mu" "replication.Primary.mu" "W>W" "replication.Primary.OnWALSync" "storage.Manager.Put" [];
    mkLE "replication.Primary.mu" "wal.WAL.mu" "R>W" "wal.WAL.GetNextSequence" "replication.Primary.NegativeAcknowledge" []].

  Example d19b_edges_flagged :
    lock_order_acyclic d19b_edges = false /\
    lock_order_acyclic (filter (fun e => negb (fetch_under_replication_lock e)) d19b_edges) = true.
  Proof. split; vm_compute; reflexivity. Qed.

End BeforeFixes.
