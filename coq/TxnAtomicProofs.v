(* TxnAtomicProofs.v — proofs about TxnAtomic.v (C03, concurrent atomicity).
   Part A: the history checker [atomic_check] decides exactly [consistent] (sound and complete).
   Part B: the transition system: every reader step observes the view after a write-granular
           prefix of the acknowledged history (never a strict subset of a batch), on top of the
           invariant [Inv] of EngineProofs (C01); read-only transactions only straddle writes
           that take no transaction lock; every observation the system can produce is
           [consistent], hence accepted by the checker.
   Part C: iterators: the snapshot filter of the code (MemTable.nextSeqNum, "0 = unfiltered")
           does not isolate a scan from later writes — refuted by a witness.
   Part D: facts generated from the Go source (coq/gen/TxnLocks.v). *)
From Coq Require Import Arith PeanoNat Lia ZifyN ZifyNat ZifyBool Sorted.
From KV Require Import Bytes BytesProofs Spec Memtable MemtableProofs WalCodec Engine EngineProofs.
From KV Require Import TxnAtomic.
Open Scope N_scope.
Local Notation find := Memtable.find.

(* ------------------------------------------------------------------------------------ *)
(* Part A: the checker                                                                     *)
(* ------------------------------------------------------------------------------------ *)

Lemma obeq_true_iff : forall a b, obeq a b = true <-> a = b.
Proof.
  intros [a|] [b|]; cbn [obeq]; try (split; [discriminate|congruence]).
  - rewrite beq_true_iff. split; congruence.
  - split; reflexivity.
Qed.

Lemma obs_eqb_true_iff : forall a b, obs_eqb a b = true <-> a = b.
Proof.
  induction a as [|x a IH]; intros [|y b]; cbn [obs_eqb]; try (split; [discriminate|congruence]).
  - split; reflexivity.
  - rewrite andb_true_iff, obeq_true_iff, IH. split; [intros [-> ->]; reflexivity|].
    intros E. injection E as -> ->. split; reflexivity.
Qed.

(* read r is what a reader sees after exactly the first n writes of H *)
Definition read_okP (H : list hentry) (n : nat) (r : read) : Prop :=
  spec_get (firstn n (hwrites H)) (fst r) = snd r.

Definition reachP (H : list hentry) (md : omode) (n m : nat) : Prop :=
  match md with
  | MSection => n = m
  | MFree => (n <= m)%nat
  | MRoTx => (n <= m)%nat /\ Forall (fun e => fst e = KDirect) (firstn (m - n) (skipn n H))
  | MEach => True
  end.

(* an explanation of the reads rs for a reader whose previous read saw n writes: a prefix
   length for every read, inside the window, each reachable from the one before *)
Inductive chain (H : list hentry) (md : omode) (lo hi : nat) : nat -> list read -> Prop :=
| chain_nil : forall n, chain H md lo hi n []
| chain_cons : forall n m r rs,
    (lo <= m <= hi)%nat -> reachP H md n m -> read_okP H m r ->
    chain H md lo hi m rs -> chain H md lo hi n (r :: rs).

(* THE DEFINITION the checker decides: every read of the observation returns the value after
   a write-granular prefix of the history (a batch is one element: wholly in or wholly out),
   the prefixes lie between "acknowledged before the observation began" and "started before
   it ended", and consecutive prefixes are related as the mode allows (MSection: the same
   prefix for all reads) *)
Definition consistent (H : list hentry) (o : obs) : Prop :=
  match o_reads o with
  | [] => True
  | r :: rs => exists m, (o_lo o <= m <= o_hi o)%nat /\ read_okP H m r /\
                         chain H (o_mode o) (o_lo o) (o_hi o) m rs
  end.

Lemma read_ok_iff : forall H n r, read_ok H n r = true <-> read_okP H n r.
Proof. intros. unfold read_ok, read_okP. apply obeq_true_iff. Qed.

Lemma is_direct_iff : forall e, is_direct e = true <-> fst e = KDirect.
Proof. intros [[|] ops]; cbn; split; congruence. Qed.

Lemma reach_iff : forall H md n m, reach H md n m = true <-> reachP H md n m.
Proof.
  intros H md n m. destruct md; cbn [reach reachP].
  - apply Nat.eqb_eq.
  - rewrite andb_true_iff, Nat.leb_le, forallb_forall, Forall_forall.
    split; intros [A B]; (split; [exact A|]); intros e He; apply is_direct_iff, B, He.
  - apply Nat.leb_le.
  - split; reflexivity.
Qed.

Lemma in_cand_range : forall lo hi m, In m (cand_range lo hi) <-> (lo <= m <= hi)%nat.
Proof. intros. unfold cand_range. rewrite in_seq. lia. Qed.

Lemma feasible_spec : forall H md lo hi rs S,
  (exists m, In m (feasible H md (cand_range lo hi) S rs)) <->
  (exists n, In n S /\ chain H md lo hi n rs).
Proof.
  intros H md lo hi rs. induction rs as [|r rs IH]; intros S; cbn [feasible].
  - split.
    + intros (m & Hm). exists m. split; [exact Hm|constructor].
    + intros (n & Hn & _). exists n. exact Hn.
  - rewrite IH. split.
    + intros (m & Hm & C). apply filter_In in Hm. destruct Hm as (Hc & Hb).
      apply andb_true_iff in Hb. destruct Hb as (Hr & He).
      apply existsb_exists in He. destruct He as (n & Hn & Hre).
      exists n. split; [exact Hn|].
      apply (chain_cons H md lo hi n m r rs); [apply in_cand_range; exact Hc| |apply read_ok_iff; exact Hr|exact C].
      apply reach_iff. exact Hre.
    + intros (n & Hn & C). inversion C as [|n' m r' rs' Hw Hre Hr C']; subst.
      exists m. split; [|exact C'].
      apply filter_In. split; [apply in_cand_range; exact Hw|].
      apply andb_true_iff. split; [apply read_ok_iff; exact Hr|].
      apply existsb_exists. exists n. split; [exact Hn|apply reach_iff; exact Hre].
Qed.

(* the checker is sound and complete for [consistent] *)
Theorem atomic_check_correct : forall H o, atomic_check H o = true <-> consistent H o.
Proof.
  intros H o. unfold atomic_check, consistent. destruct (o_reads o) as [|r rs]; [split; reflexivity|].
  pose proof (feasible_spec H (o_mode o) (o_lo o) (o_hi o) rs
                (filter (fun m => read_ok H m r) (cand_range (o_lo o) (o_hi o)))) as F.
  destruct (feasible H (o_mode o) (cand_range (o_lo o) (o_hi o))
              (filter (fun m => read_ok H m r) (cand_range (o_lo o) (o_hi o))) rs) as [|x l] eqn:E.
  - split; [discriminate|]. intros (m & Hw & Hr & C). exfalso.
    destruct (proj2 F) as (y & Hy); [|exact Hy].
    exists m. split; [|exact C]. apply filter_In. split; [apply in_cand_range; exact Hw|].
    apply read_ok_iff. exact Hr.
  - split; [|reflexivity]. intros _.
    destruct (proj1 F) as (n & Hn & C); [exists x; left; reflexivity|].
    apply filter_In in Hn. destruct Hn as (Hc & Hr).
    exists n. split; [apply in_cand_range; exact Hc|]. split; [apply read_ok_iff; exact Hr|exact C].
Qed.

Theorem atomic_check_sound : forall H o, atomic_check H o = true -> consistent H o.
Proof. intros H o. apply atomic_check_correct. Qed.

Lemma first_reject_none : forall H os i,
  first_reject H os i = None <-> Forall (consistent H) os.
Proof.
  intros H os. induction os as [|o r IH]; intros i; cbn [first_reject].
  - split; [constructor|reflexivity].
  - destruct (atomic_check H o) eqn:E.
    + rewrite IH. split; [intros F; constructor; [apply atomic_check_correct; exact E|exact F]|].
      intros F. inversion F; assumption.
    + split; [discriminate|]. intros F. inversion F as [|? ? C _]; subst.
      apply atomic_check_correct in C. congruence.
Qed.

(* non-vacuity: a two-batch history; an observation that mixes the two stamps across the keys
   of one batch is rejected, the views before / between / after are accepted *)
Module CheckerExample.
  Definition ka : bytes := [97]. Definition kb : bytes := [98].
  Definition H : list hentry :=
    [(KTx, [(ka, Some [1]); (kb, Some [1])]); (KDirect, [(ka, Some [2]); (kb, Some [2])])].
  Example accept_before : atomic_check H (mkObs MSection 0 2 [(ka, None); (kb, None)]) = true.
  Proof. vm_compute. reflexivity. Qed.
  Example accept_mid : atomic_check H (mkObs MSection 0 2 [(ka, Some [1]); (kb, Some [1])]) = true.
  Proof. vm_compute. reflexivity. Qed.
  Example reject_mixed : atomic_check H (mkObs MSection 0 2 [(ka, Some [2]); (kb, Some [1])]) = false.
  Proof. vm_compute. reflexivity. Qed.
  Example reject_subset : atomic_check H (mkObs MSection 0 2 [(ka, Some [1]); (kb, None)]) = false.
  Proof. vm_compute. reflexivity. Qed.
  (* a read-only transaction may straddle the direct batch but not the transactional one *)
  Example ro_straddles_direct : atomic_check H (mkObs MRoTx 0 2 [(ka, Some [1]); (kb, Some [2])]) = true.
  Proof. vm_compute. reflexivity. Qed.
  Example ro_not_tx : atomic_check H (mkObs MRoTx 0 2 [(ka, None); (kb, Some [1])]) = false.
  Proof. vm_compute. reflexivity. Qed.
  (* separate gets may straddle any commit, but never go back *)
  Example free_straddles : atomic_check H (mkObs MFree 0 2 [(ka, None); (kb, Some [1])]) = true.
  Proof. vm_compute. reflexivity. Qed.
  Example free_no_return : atomic_check H (mkObs MFree 0 2 [(ka, Some [2]); (kb, Some [1])]) = false.
  Proof. vm_compute. reflexivity. Qed.
  (* the real-time window matters *)
  Example window : atomic_check H (mkObs MSection 1 2 [(ka, None); (kb, None)]) = false.
  Proof. vm_compute. reflexivity. Qed.
End CheckerExample.

(* ------------------------------------------------------------------------------------ *)
(* Part B: the transition system                                                           *)
(* ------------------------------------------------------------------------------------ *)

Lemma hwrites_app : forall a b, hwrites (a ++ b) = hwrites a ++ hwrites b.
Proof. intros. unfold hwrites. apply map_app. Qed.

Lemma hwrites_length : forall a, length (hwrites a) = length a.
Proof. intros. unfold hwrites. apply map_length. Qed.

(* what a step adds to the numbered history of EngineProofs *)
Definition lhist (s : cst) (l : label) (h : hist) : hist :=
  match l with
  | LApply ops => step_hist (eng s) (OBatch ops) h
  | LCommit ops => step_hist (eng s) (OCommit ops) h
  | _ => h
  end.

Lemma Inv_rotate : forall s h, Inv s h -> Inv (rotate s) h.
Proof.
  intros s h I. destruct I as [I1 I2 I3 I4 I5 I6 I7 I8 I9 I10].
  constructor; unfold rotate, upd_wal;
    cbn [cfg wal_next wal_files last_seq active imms pending flush_pending ssts next_file clock lost_log];
    try assumption.
  rewrite concat_snoc_nil. exact I5.
Qed.

Lemma Inv_cstep : forall s l s' h,
  cstep s l = Some s' -> Inv (eng s) h -> Inv (eng s') (lhist s l h).
Proof.
  intros s l s' h E I. destruct l; cbn [cstep] in E; cbn [lhist].
  - injection E as <-. exact (Inv_step (eng s) h (OBatch ops) I).
  - destruct (ro_open s); [|discriminate]. injection E as <-.
    exact (Inv_step (eng s) h (OCommit ops) I).
  - injection E as <-. exact I.
  - injection E as <-. exact (Inv_step (eng s) h OFlush I).
  - injection E as <-. apply Inv_rotate. exact I.
  - destruct (obs_eqb vs (map (get (eng s)) ks)); [|discriminate]. injection E as <-. exact I.
  - destruct (mem_nat r (ro_open s)); [discriminate|]. injection E as <-. exact I.
  - destruct (mem_nat r (ro_open s) && obeq v (get (eng s) k)); [|discriminate].
    injection E as <-. exact I.
  - destruct (mem_nat r (ro_open s) && obs_eqb vs (map (get (eng s)) ks)); [|discriminate].
    injection E as <-. exact I.
  - destruct (mem_nat r (ro_open s)); [|discriminate]. injection E as <-. exact I.
  - injection E as <-. exact I.
  - destruct (iter_lookup i (iters s)) as [it|]; [|discriminate].
    destruct (obeq v (iter_get it (eng s) k)); [|discriminate]. injection E as <-. exact I.
Qed.

Lemma lost_log_cstep : forall s l s', cstep s l = Some s' -> lost_log (eng s') = lost_log (eng s).
Proof.
  intros s l s' E. destruct l; cbn [cstep] in E.
  - injection E as <-. apply lost_log_apply_batch.
  - destruct (ro_open s); [|discriminate]. injection E as <-. cbn [with_eng eng].
    rewrite tx_commit_as_batch. apply lost_log_apply_batch.
  - injection E as <-. reflexivity.
  - injection E as <-. cbn [with_eng eng].
    destruct (flush_spec (eng s)) as (_ & _ & _ & _ & _ & _ & G7 & _). exact G7.
  - injection E as <-. reflexivity.
  - destruct (obs_eqb vs (map (get (eng s)) ks)); [|discriminate]. injection E as <-. reflexivity.
  - destruct (mem_nat r (ro_open s)); [discriminate|]. injection E as <-. reflexivity.
  - destruct (mem_nat r (ro_open s) && obeq v (get (eng s) k)); [|discriminate].
    injection E as <-. reflexivity.
  - destruct (mem_nat r (ro_open s) && obs_eqb vs (map (get (eng s)) ks)); [|discriminate].
    injection E as <-. reflexivity.
  - destruct (mem_nat r (ro_open s)); [|discriminate]. injection E as <-. reflexivity.
  - injection E as <-. reflexivity.
  - destruct (iter_lookup i (iters s)) as [it|]; [|discriminate].
    destruct (obeq v (iter_get it (eng s) k)); [|discriminate]. injection E as <-. reflexivity.
Qed.

Lemma lhist_snd : forall s l h, map snd (lhist s l h) = map snd h ++ hwrites (lwrites s l).
Proof.
  intros s l h.
  destruct l; cbn [lhist lwrites step_hist]; try (cbn [hwrites map]; rewrite app_nil_r; reflexivity).
  - destruct ops as [|o r]; [cbn [hwrites map]; rewrite app_nil_r; reflexivity|].
    destruct (snd (apply_batch (eng s) (o :: r))); cbn [hwrites map snd];
      [rewrite map_app; reflexivity|rewrite app_nil_r; reflexivity].
  - destruct (buffer_ops ops) as [|o r]; [cbn [hwrites map]; rewrite app_nil_r; reflexivity|].
    destruct (snd (tx_commit (eng s) ops)); cbn [hwrites map snd];
      [rewrite map_app; reflexivity|rewrite app_nil_r; reflexivity].
Qed.

Lemma crun_app : forall a b s,
  crun s (a ++ b) = match crun s a with Some s' => crun s' b | None => None end.
Proof.
  induction a as [|l a IH]; intros b s; [reflexivity|].
  cbn [app crun]. destruct (cstep s l); [apply IH|reflexivity].
Qed.

Lemma twrites_app : forall a b s s',
  crun s a = Some s' -> twrites s (a ++ b) = twrites s a ++ twrites s' b.
Proof.
  induction a as [|l a IH]; intros b s s' E.
  - injection E as <-. reflexivity.
  - cbn [app crun twrites] in *. destruct (cstep s l) as [s1|]; [|discriminate].
    rewrite (IH b s1 s' E). rewrite app_assoc. reflexivity.
Qed.

(* the invariant of C01 along a trace; the numbered history grows by the trace's writes *)
Lemma crun_inv : forall tr s s' h,
  crun s tr = Some s' -> Inv (eng s) h -> lost_log (eng s) = false ->
  exists h', Inv (eng s') h' /\ lost_log (eng s') = false /\
             map snd h' = map snd h ++ hwrites (twrites s tr).
Proof.
  induction tr as [|l tr IH]; intros s s' h E I L.
  - injection E as <-. exists h. cbn [twrites hwrites map]. rewrite app_nil_r. auto.
  - cbn [crun twrites] in *. destruct (cstep s l) as [s1|] eqn:C; [|discriminate].
    destruct (IH s1 s' (lhist s l h) E (Inv_cstep s l s1 h C I)) as (h' & I' & L' & M).
    { rewrite (lost_log_cstep s l s1 C). exact L. }
    exists h'. split; [exact I'|]. split; [exact L'|].
    rewrite M, lhist_snd, hwrites_app, app_assoc. reflexivity.
Qed.

Lemma cinit_inv : forall c, Inv (eng (cinit c)) [] /\ lost_log (eng (cinit c)) = false.
Proof. intros c. split; [apply Inv_init|reflexivity]. Qed.

(* a Get in a state whose history is Hpre returns the view after exactly those writes,
   whatever is acknowledged later *)
Lemma get_at : forall s h Hpre X k,
  Inv (eng s) h -> lost_log (eng s) = false -> map snd h = hwrites Hpre ->
  get (eng s) k = spec_get (firstn (length Hpre) (hwrites (Hpre ++ X))) k.
Proof.
  intros s h Hpre X k I L M. rewrite (get_inv (eng s) h k I L), M, hwrites_app.
  rewrite firstn_app_exact by (symmetry; apply hwrites_length). reflexivity.
Qed.

(* THE THEOREM: in every trace, every reader step returns, for each key, the value after the
   write-granular prefix of the acknowledged history that was acknowledged before the step.
   A batch is one element of the history: a reader sees all of it or none of it. *)
Theorem no_partial_view : forall c pre l post s1,
  crun (cinit c) (pre ++ l :: post) = Some s1 ->
  let H := twrites (cinit c) (pre ++ l :: post) in
  let n := length (twrites (cinit c) pre) in
  match l with
  | LRead _ ks vs => vs = map (spec_get (firstn n (hwrites H))) ks
  | LRoGet _ k v => v = spec_get (firstn n (hwrites H)) k
  | LRoScan _ ks vs => vs = map (spec_get (firstn n (hwrites H))) ks
  | _ => True
  end.
Proof.
  intros c pre l post s1 E. cbn zeta.
  rewrite crun_app in E. destruct (crun (cinit c) pre) as [s|] eqn:Ep; [|discriminate].
  rewrite (twrites_app pre (l :: post) (cinit c) s Ep).
  destruct (cinit_inv c) as (I0 & L0).
  destruct (crun_inv pre (cinit c) s [] Ep I0 L0) as (h & I & L & M). cbn [map app] in M.
  cbn [crun] in E. destruct (cstep s l) as [s2|] eqn:C; [|discriminate].
  destruct l; try exact Logic.I; cbn [cstep] in C.
  - destruct (obs_eqb vs (map (get (eng s)) ks)) eqn:O; [|discriminate].
    apply obs_eqb_true_iff in O. rewrite O. apply map_ext. intros k.
    apply (get_at s h _ _ k I L M).
  - destruct (mem_nat r (ro_open s) && obeq v (get (eng s) k)) eqn:O; [|discriminate].
    apply andb_true_iff in O. destruct O as (_ & O). apply obeq_true_iff in O. rewrite O.
    apply (get_at s h _ _ k I L M).
  - destruct (mem_nat r (ro_open s) && obs_eqb vs (map (get (eng s)) ks)) eqn:O; [|discriminate].
    apply andb_true_iff in O. destruct O as (_ & O). apply obs_eqb_true_iff in O. rewrite O.
    apply map_ext. intros k. apply (get_at s h _ _ k I L M).
Qed.

(* ---------- observations of one reader over a stretch of the trace ---------- *)

Lemma reach_refl : forall H md n, reachP H md n n.
Proof.
  intros H md n. destruct md; cbn [reachP]; [reflexivity| |lia|exact Logic.I].
  split; [lia|]. replace (n - n)%nat with 0%nat by lia. constructor.
Qed.

Lemma firstn_plus : forall (A : Type) x y (l : list A),
  firstn (x + y) l = firstn x l ++ firstn y (skipn x l).
Proof.
  intros A x. induction x as [|x IH]; intros y l; [reflexivity|].
  destruct l as [|a l]; [cbn [Nat.add firstn skipn app]; rewrite firstn_nil; reflexivity|].
  cbn [Nat.add firstn skipn app]. rewrite IH. reflexivity.
Qed.

Lemma firstn_skipn_split : forall (A : Type) (l : list A) a b c, (a <= b <= c)%nat ->
  firstn (c - a) (skipn a l) = firstn (b - a) (skipn a l) ++ firstn (c - b) (skipn b l).
Proof.
  intros A l a b c Hle.
  replace (c - a)%nat with ((b - a) + (c - b))%nat by lia.
  rewrite firstn_plus, <- skipn_add. replace (a + (b - a))%nat with b by lia. reflexivity.
Qed.

Lemma reach_trans : forall H md a b c, reachP H md a b -> reachP H md b c -> reachP H md a c.
Proof.
  intros H md a b c. destruct md; cbn [reachP]; [congruence| |lia|auto].
  intros (L1 & F1) (L2 & F2). split; [lia|].
  rewrite (firstn_skipn_split _ H a b c) by lia. apply Forall_app. split; assumption.
Qed.

Lemma chain_start : forall H md lo hi n n' rs,
  reachP H md n n' -> chain H md lo hi n' rs -> chain H md lo hi n rs.
Proof.
  intros H md lo hi n n' rs R C. inversion C as [|? m r rs' Hw Hre Hr C']; subst; [constructor|].
  apply (chain_cons H md lo hi n m r rs'); [exact Hw| |exact Hr|exact C'].
  exact (reach_trans H md n n' m R Hre).
Qed.

Lemma chain_app_here : forall H md lo hi n rs1 rs2, (lo <= n <= hi)%nat ->
  Forall (read_okP H n) rs1 -> chain H md lo hi n rs2 -> chain H md lo hi n (rs1 ++ rs2).
Proof.
  intros H md lo hi n rs1 rs2 Hw F C. induction F as [|r rs1 Hr F IH]; [exact C|].
  cbn [app]. apply (chain_cons H md lo hi n n r (rs1 ++ rs2)); [exact Hw|apply reach_refl|exact Hr|exact IH].
Qed.

Lemma chain_consistent : forall H md lo hi n rs,
  chain H md lo hi n rs -> consistent H (mkObs md lo hi rs).
Proof.
  intros H md lo hi n rs C. unfold consistent. cbn [o_reads o_lo o_hi o_mode].
  inversion C as [|? m r rs' Hw Hre Hr C']; subst; [exact Logic.I|].
  exists m. auto.
Qed.

Section Reader.
  Variable md : omode.
  Variable sel : label -> list read.      (* the reads of the reader at a label *)
  Variable P : cst -> Prop.               (* what holds of the state while the reader runs *)
  Variable okl : label -> Prop.           (* the labels that may occur while the reader runs *)
  Hypothesis sel_correct : forall s l s', P s -> cstep s l = Some s' ->
    Forall (fun r => get (eng s) (fst r) = snd r) (sel l).
  Hypothesis P_step : forall s l s', P s -> okl l -> cstep s l = Some s' -> P s'.
  Hypothesis W_reach : forall s l s' Hpre X, P s -> okl l -> cstep s l = Some s' ->
    reachP (Hpre ++ lwrites s l ++ X) md (length Hpre) (length Hpre + length (lwrites s l)).

  Lemma reader_chain : forall body s s' h Hpre Hpost lo hi,
    P s -> Forall okl body -> crun s body = Some s' ->
    Inv (eng s) h -> lost_log (eng s) = false -> map snd h = hwrites Hpre ->
    (lo <= length Hpre)%nat -> (length Hpre + length (twrites s body) <= hi)%nat ->
    chain (Hpre ++ twrites s body ++ Hpost) md lo hi (length Hpre) (flat_map sel body).
  Proof.
    induction body as [|l body IH]; intros s s' h Hpre Hpost lo hi Ps Fok E I L M Hlo Hhi.
    - cbn [flat_map]. constructor.
    - cbn [crun twrites flat_map] in *. destruct (cstep s l) as [s1|] eqn:C; [|discriminate].
      inversion Fok as [|? ? Okl Fok']; subst.
      rewrite app_length in Hhi.
      assert (IHc : chain ((Hpre ++ lwrites s l) ++ twrites s1 body ++ Hpost) md lo hi
                      (length (Hpre ++ lwrites s l)) (flat_map sel body)).
      { apply (IH s1 s' (lhist s l h)); try assumption.
        - exact (P_step s l s1 Ps Okl C).
        - exact (Inv_cstep s l s1 h C I).
        - rewrite (lost_log_cstep s l s1 C). exact L.
        - rewrite lhist_snd, M, hwrites_app. reflexivity.
        - rewrite app_length. lia.
        - rewrite app_length. lia. }
      rewrite <- !app_assoc in IHc. rewrite <- app_assoc.
      apply chain_app_here; [lia| |].
      + pose proof (sel_correct s l s1 Ps C) as SC. rewrite Forall_forall in *.
        intros r Hr. unfold read_okP. rewrite <- (SC r Hr).
        symmetry. apply (get_at s h Hpre _ (fst r) I L M).
      + apply (chain_start _ md lo hi (length Hpre) (length (Hpre ++ lwrites s l))); [|exact IHc].
        rewrite app_length. apply (W_reach s l s1 Hpre _ Ps Okl C).
  Qed.
End Reader.

(* the reads of client cl (separate shared sections, in program order) *)
Definition sel_client (cl : nat) (l : label) : list read :=
  match l with
  | LRead c' ks vs => if Nat.eqb c' cl then combine ks vs else []
  | _ => []
  end.

(* the reads of read-only transaction r *)
Definition sel_ro (r : nat) (l : label) : list read :=
  match l with
  | LRoGet r' k v => if Nat.eqb r' r then [(k, v)] else []
  | _ => []
  end.

Lemma combine_map_forall : forall (f : bytes -> option bytes) ks,
  Forall (fun r : read => f (fst r) = snd r) (combine ks (map f ks)).
Proof. intros f ks. induction ks as [|k ks IH]; cbn [map combine]; constructor; [reflexivity|exact IH]. Qed.

Lemma sel_client_correct : forall cl s l s', cstep s l = Some s' ->
  Forall (fun r : read => get (eng s) (fst r) = snd r) (sel_client cl l).
Proof.
  intros cl s l s' C. destruct l; cbn [sel_client]; try constructor.
  destruct (Nat.eqb c cl); [|constructor]. cbn [cstep] in C.
  destruct (obs_eqb vs (map (get (eng s)) ks)) eqn:O; [|discriminate].
  apply obs_eqb_true_iff in O. rewrite O. apply combine_map_forall.
Qed.

Lemma sel_ro_correct : forall r s l s', cstep s l = Some s' ->
  Forall (fun rd : read => get (eng s) (fst rd) = snd rd) (sel_ro r l).
Proof.
  intros r s l s' C. destruct l; cbn [sel_ro]; try constructor.
  destruct (Nat.eqb r0 r); [|constructor]. cbn [cstep] in C.
  destruct (mem_nat r0 (ro_open s) && obeq v (get (eng s) k)) eqn:O; [|discriminate].
  apply andb_true_iff in O. destruct O as (_ & O). apply obeq_true_iff in O.
  constructor; [cbn [fst snd]; congruence|constructor].
Qed.

Lemma mem_nat_in : forall r l, mem_nat r l = true <-> In r l.
Proof.
  intros r l. unfold mem_nat. rewrite existsb_exists. split.
  - intros (x & Hx & E). apply Nat.eqb_eq in E. subst. exact Hx.
  - intros Hin. exists r. split; [exact Hin|apply Nat.eqb_refl].
Qed.

Lemma mem_nat_remove : forall r r' l, r <> r' -> mem_nat r l = true -> mem_nat r (remove_nat r' l) = true.
Proof.
  intros r r' l Hne Hm. apply mem_nat_in. apply mem_nat_in in Hm. unfold remove_nat.
  apply filter_In. split; [exact Hm|]. apply negb_true_iff, Nat.eqb_neq. congruence.
Qed.

Definition ro_is_open (r : nat) (s : cst) : Prop := mem_nat r (ro_open s) = true.
Definition not_end (r : nat) (l : label) : Prop := l <> LRoEnd r.

Lemma ro_open_step : forall r s l s', ro_is_open r s -> not_end r l -> cstep s l = Some s' -> ro_is_open r s'.
Proof.
  unfold ro_is_open, not_end. intros r s l s' Ps Hne C. destruct l; cbn [cstep] in C.
  - injection C as <-. exact Ps.
  - destruct (ro_open s); [discriminate Ps|discriminate C].
  - injection C as <-. exact Ps.
  - injection C as <-. exact Ps.
  - injection C as <-. exact Ps.
  - destruct (obs_eqb vs (map (get (eng s)) ks)); [|discriminate]. injection C as <-. exact Ps.
  - destruct (mem_nat r0 (ro_open s)); [discriminate|]. injection C as <-. cbn [ro_open].
    apply mem_nat_in. right. apply mem_nat_in. exact Ps.
  - destruct (mem_nat r0 (ro_open s) && obeq v (get (eng s) k)); [|discriminate].
    injection C as <-. exact Ps.
  - destruct (mem_nat r0 (ro_open s) && obs_eqb vs (map (get (eng s)) ks)); [|discriminate].
    injection C as <-. exact Ps.
  - destruct (mem_nat r0 (ro_open s)); [|discriminate]. injection C as <-. cbn [ro_open].
    apply mem_nat_remove; [|exact Ps]. intros ->. apply Hne. reflexivity.
  - injection C as <-. exact Ps.
  - destruct (iter_lookup i (iters s)) as [it|]; [|discriminate].
    destruct (obeq v (iter_get it (eng s) k)); [|discriminate]. injection C as <-. exact Ps.
Qed.

Lemma reach_window : forall (Hpre W X : list hentry) md,
  (md = MFree \/ (md = MRoTx /\ Forall (fun e => fst e = KDirect) W)) ->
  reachP (Hpre ++ W ++ X) md (length Hpre) (length Hpre + length W).
Proof.
  intros Hpre W X md [->|(-> & F)]; cbn [reachP]; [lia|]. split; [lia|].
  replace (length Hpre + length W - length Hpre)%nat with (length W) by lia.
  rewrite skipn_app_exact by reflexivity. rewrite firstn_app_exact by reflexivity. exact F.
Qed.

Lemma ro_writes_direct : forall r s l s', ro_is_open r s -> cstep s l = Some s' ->
  Forall (fun e : hentry => fst e = KDirect) (lwrites s l).
Proof.
  unfold ro_is_open. intros r s l s' Ps C. destruct l; cbn [lwrites]; try constructor.
  - destruct ops as [|o ops]; [constructor|].
    destruct (snd (apply_batch (eng s) (o :: ops))); constructor; [reflexivity|constructor].
  - cbn [cstep] in C. destruct (ro_open s); [discriminate Ps|discriminate C].
Qed.

(* a client's separate reads, in program order: each sees a prefix, the prefixes never go back *)
Theorem client_consistent : forall c cl pre body post s1 lo hi,
  crun (cinit c) (pre ++ body ++ post) = Some s1 ->
  (lo <= length (twrites (cinit c) pre))%nat ->
  (length (twrites (cinit c) (pre ++ body)) <= hi)%nat ->
  consistent (twrites (cinit c) (pre ++ body ++ post))
             (mkObs MFree lo hi (flat_map (sel_client cl) body)).
Proof.
  intros c cl pre body post s1 lo hi E Hlo Hhi.
  rewrite crun_app in E. destruct (crun (cinit c) pre) as [s|] eqn:Ep; [|discriminate].
  rewrite crun_app in E. destruct (crun s body) as [s'|] eqn:Eb; [|discriminate].
  rewrite (twrites_app pre (body ++ post) (cinit c) s Ep), (twrites_app body post s s' Eb).
  rewrite (twrites_app pre body (cinit c) s Ep), app_length in Hhi.
  destruct (cinit_inv c) as (I0 & L0).
  destruct (crun_inv pre (cinit c) s [] Ep I0 L0) as (h & I & L & M). cbn [map app] in M.
  apply (chain_consistent _ MFree lo hi (length (twrites (cinit c) pre))).
  apply (reader_chain MFree (sel_client cl) (fun _ => True) (fun _ => True)) with (s' := s') (h := h);
    try assumption; try exact Logic.I.
  - intros s0 l s0' _ C. exact (sel_client_correct cl s0 l s0' C).
  - intros; exact Logic.I.
  - intros s0 l s0' Hp X _ _ _. apply reach_window. left. reflexivity.
  - apply Forall_forall. intros; exact Logic.I.
Qed.

(* the reads of one read-only transaction: each sees a prefix; between two of them only writes
   that take no transaction lock are acknowledged — never a transaction commit *)
Theorem ro_tx_consistent : forall c r pre body post s1 lo hi,
  crun (cinit c) (pre ++ LRoBegin r :: body ++ post) = Some s1 ->
  Forall (not_end r) body ->
  (lo <= length (twrites (cinit c) pre))%nat ->
  (length (twrites (cinit c) (pre ++ LRoBegin r :: body)) <= hi)%nat ->
  consistent (twrites (cinit c) (pre ++ LRoBegin r :: body ++ post))
             (mkObs MRoTx lo hi (flat_map (sel_ro r) body)).
Proof.
  intros c r pre body post s1 lo hi E Fne Hlo Hhi.
  replace (pre ++ LRoBegin r :: body ++ post) with ((pre ++ [LRoBegin r]) ++ body ++ post) in *
    by (rewrite <- app_assoc; reflexivity).
  replace (pre ++ LRoBegin r :: body) with ((pre ++ [LRoBegin r]) ++ body) in Hhi
    by (rewrite <- app_assoc; reflexivity).
  assert (Wp : forall s0, crun (cinit c) (pre ++ [LRoBegin r]) = Some s0 ->
               twrites (cinit c) (pre ++ [LRoBegin r]) = twrites (cinit c) pre /\ ro_is_open r s0).
  { intros s0 E0. rewrite crun_app in E0. destruct (crun (cinit c) pre) as [sp|] eqn:Ep; [|discriminate].
    rewrite (twrites_app pre [LRoBegin r] (cinit c) sp Ep). cbn [twrites lwrites app].
    split; [destruct (cstep sp (LRoBegin r)); rewrite app_nil_r; reflexivity|].
    cbn [crun cstep] in E0. destruct (mem_nat r (ro_open sp)); [discriminate|].
    injection E0 as <-. unfold ro_is_open. cbn [ro_open]. apply mem_nat_in. left. reflexivity. }
  rewrite crun_app in E. destruct (crun (cinit c) (pre ++ [LRoBegin r])) as [s|] eqn:Ep; [|discriminate].
  destruct (Wp s eq_refl) as (Wpre & Open).
  rewrite crun_app in E. destruct (crun s body) as [s'|] eqn:Eb; [|discriminate].
  rewrite (twrites_app (pre ++ [LRoBegin r]) (body ++ post) (cinit c) s Ep), (twrites_app body post s s' Eb).
  rewrite (twrites_app (pre ++ [LRoBegin r]) body (cinit c) s Ep), app_length in Hhi.
  destruct (cinit_inv c) as (I0 & L0).
  destruct (crun_inv (pre ++ [LRoBegin r]) (cinit c) s [] Ep I0 L0) as (h & I & L & M).
  cbn [map app] in M. rewrite Wpre in *.
  apply (chain_consistent _ MRoTx lo hi (length (twrites (cinit c) pre))).
  apply (reader_chain MRoTx (sel_ro r) (ro_is_open r) (not_end r)) with (s' := s') (h := h);
    try assumption.
  - intros s0 l s0' _ C. exact (sel_ro_correct r s0 l s0' C).
  - exact (ro_open_step r).
  - intros s0 l s0' Hp X Ps _ C. apply reach_window. right. split; [reflexivity|].
    exact (ro_writes_direct r s0 l s0' Ps C).
Qed.

(* every read of read-only transaction r, scans included *)
Definition sel_ro_all (r : nat) (l : label) : list read :=
  match l with
  | LRoGet r' k v => if Nat.eqb r' r then [(k, v)] else []
  | LRoScan r' ks vs => if Nat.eqb r' r then combine ks vs else []
  | _ => []
  end.

Lemma sel_ro_all_correct : forall r s l s', cstep s l = Some s' ->
  Forall (fun rd : read => get (eng s) (fst rd) = snd rd) (sel_ro_all r l).
Proof.
  intros r s l s' C. destruct l; cbn [sel_ro_all]; try constructor.
  - exact (sel_ro_correct r s (LRoGet r0 k v) s' C).
  - destruct (Nat.eqb r0 r); [|constructor]. cbn [cstep] in C.
    destruct (mem_nat r0 (ro_open s) && obs_eqb vs (map (get (eng s)) ks)) eqn:O; [|discriminate].
    apply andb_true_iff in O. destruct O as (_ & O). apply obs_eqb_true_iff in O. rewrite O.
    apply combine_map_forall.
Qed.

Definition tx_only (r : nat) (l : label) : Prop := not_end r l /\ forall ops, l <> LApply ops.

(* SNAPSHOT of a read-only transaction against transactional writers: while the transaction
   is open no commit is enabled, so if no write bypasses the transaction lock (no LApply)
   during it, ALL its reads — gets and scans — see one and the same prefix: a concurrent
   transaction never observes a strict subset of a committed transaction *)
Theorem ro_tx_snapshot_consistent : forall c r pre body post s1 lo hi,
  crun (cinit c) (pre ++ LRoBegin r :: body ++ post) = Some s1 ->
  Forall (tx_only r) body ->
  (lo <= length (twrites (cinit c) pre) <= hi)%nat ->
  twrites (cinit c) (pre ++ LRoBegin r :: body) = twrites (cinit c) pre /\
  consistent (twrites (cinit c) (pre ++ LRoBegin r :: body ++ post))
             (mkObs MSection lo hi (flat_map (sel_ro_all r) body)).
Proof.
  intros c r pre body post s1 lo hi E Fok Hw.
  replace (pre ++ LRoBegin r :: body ++ post) with ((pre ++ [LRoBegin r]) ++ body ++ post) in *
    by (rewrite <- app_assoc; reflexivity).
  replace (pre ++ LRoBegin r :: body) with ((pre ++ [LRoBegin r]) ++ body)
    by (rewrite <- app_assoc; reflexivity).
  assert (Wp : forall s0, crun (cinit c) (pre ++ [LRoBegin r]) = Some s0 ->
               twrites (cinit c) (pre ++ [LRoBegin r]) = twrites (cinit c) pre /\ ro_is_open r s0).
  { intros s0 E0. rewrite crun_app in E0. destruct (crun (cinit c) pre) as [sp|] eqn:Ep; [|discriminate].
    rewrite (twrites_app pre [LRoBegin r] (cinit c) sp Ep). cbn [twrites lwrites app].
    split; [destruct (cstep sp (LRoBegin r)); rewrite app_nil_r; reflexivity|].
    cbn [crun cstep] in E0. destruct (mem_nat r (ro_open sp)); [discriminate|].
    injection E0 as <-. unfold ro_is_open. cbn [ro_open]. apply mem_nat_in. left. reflexivity. }
  rewrite crun_app in E. destruct (crun (cinit c) (pre ++ [LRoBegin r])) as [s|] eqn:Ep; [|discriminate].
  destruct (Wp s eq_refl) as (Wpre & Open).
  rewrite crun_app in E. destruct (crun s body) as [s'|] eqn:Eb; [|discriminate].
  rewrite (twrites_app (pre ++ [LRoBegin r]) (body ++ post) (cinit c) s Ep), (twrites_app body post s s' Eb).
  rewrite (twrites_app (pre ++ [LRoBegin r]) body (cinit c) s Ep).
  (* no write is acknowledged while the transaction is open *)
  assert (NoW : forall bd s0 s0', ro_is_open r s0 -> Forall (tx_only r) bd -> crun s0 bd = Some s0' ->
                twrites s0 bd = []).
  { induction bd as [|l bd IH]; intros s0 s0' P0 F0 E0; [reflexivity|].
    cbn [crun twrites] in *. destruct (cstep s0 l) as [s2|] eqn:C; [|discriminate].
    inversion F0 as [|? ? (Hne & Hna) F0']; subst.
    rewrite (IH s2 s0' (ro_open_step r s0 l s2 P0 Hne C) F0' E0), app_nil_r.
    destruct l; cbn [lwrites]; try reflexivity.
    - exfalso. apply (Hna ops). reflexivity.
    - cbn [cstep] in C. unfold ro_is_open in P0. destruct (ro_open s0); [discriminate P0|discriminate C]. }
  rewrite (NoW body s s' Open Fok Eb), app_nil_r. split; [exact Wpre|].
  destruct (cinit_inv c) as (I0 & L0).
  destruct (crun_inv (pre ++ [LRoBegin r]) (cinit c) s [] Ep I0 L0) as (h & I & L & M).
  cbn [map app] in M. rewrite Wpre in *.
  pose proof (reader_chain MSection (sel_ro_all r) (ro_is_open r) (tx_only r)) as RC.
  specialize (RC (fun s0 l s0' _ C => sel_ro_all_correct r s0 l s0' C)).
  specialize (RC (fun s0 l s0' P0 (O0 : tx_only r l) C => ro_open_step r s0 l s0' P0 (proj1 O0) C)).
  assert (WR : forall s0 l s0' (Hpre X : list hentry), ro_is_open r s0 -> tx_only r l -> cstep s0 l = Some s0' ->
               reachP (Hpre ++ lwrites s0 l ++ X) MSection (length Hpre) (length Hpre + length (lwrites s0 l))).
  { intros s0 l s0' Hp X P0 (Hne & Hna) C. cbn [reachP].
    assert (lwrites s0 l = []) as ->; [|cbn [length]; lia].
    destruct l; cbn [lwrites]; try reflexivity.
    - exfalso. apply (Hna ops). reflexivity.
    - cbn [cstep] in C. unfold ro_is_open in P0. destruct (ro_open s0); [discriminate P0|discriminate C]. }
  specialize (RC WR body s s' h (twrites (cinit c) pre) (twrites s' post) lo hi Open Fok Eb I L M).
  rewrite (NoW body s s' Open Fok Eb) in RC. cbn [app length] in RC.
  apply (chain_consistent _ MSection lo hi (length (twrites (cinit c) pre))).
  apply RC; lia.
Qed.

(* reads inside one shared section: one prefix for all of them *)
Theorem section_consistent : forall c cl ks vs pre post s1 lo hi,
  crun (cinit c) (pre ++ LRead cl ks vs :: post) = Some s1 ->
  (lo <= length (twrites (cinit c) pre) <= hi)%nat ->
  consistent (twrites (cinit c) (pre ++ LRead cl ks vs :: post))
             (mkObs MSection lo hi (combine ks vs)).
Proof.
  intros c cl ks vs pre post s1 lo hi E Hw.
  pose proof (no_partial_view c pre (LRead cl ks vs) post s1 E) as V. cbn zeta in V.
  set (H := twrites (cinit c) (pre ++ LRead cl ks vs :: post)) in *.
  set (n := length (twrites (cinit c) pre)) in *.
  apply (chain_consistent H MSection lo hi n).
  rewrite <- (app_nil_r (combine ks vs)). apply chain_app_here; [exact Hw| |constructor].
  rewrite V. apply Forall_forall. intros rd Hin. unfold read_okP.
  pose proof (combine_map_forall (spec_get (firstn n (hwrites H))) ks) as F.
  rewrite Forall_forall in F. apply F. exact Hin.
Qed.

(* hence: whatever the system can produce, the checker accepts — a recorded history the
   checker rejects is not a behaviour of the model *)
Corollary lts_accepted_section : forall c cl ks vs pre post s1 lo hi,
  crun (cinit c) (pre ++ LRead cl ks vs :: post) = Some s1 ->
  (lo <= length (twrites (cinit c) pre) <= hi)%nat ->
  atomic_check (twrites (cinit c) (pre ++ LRead cl ks vs :: post))
               (mkObs MSection lo hi (combine ks vs)) = true.
Proof. intros. apply atomic_check_correct. eapply section_consistent; eassumption. Qed.

Corollary lts_accepted_ro : forall c r pre body post s1 lo hi,
  crun (cinit c) (pre ++ LRoBegin r :: body ++ post) = Some s1 ->
  Forall (not_end r) body ->
  (lo <= length (twrites (cinit c) pre))%nat ->
  (length (twrites (cinit c) (pre ++ LRoBegin r :: body)) <= hi)%nat ->
  atomic_check (twrites (cinit c) (pre ++ LRoBegin r :: body ++ post))
               (mkObs MRoTx lo hi (flat_map (sel_ro r) body)) = true.
Proof. intros. apply atomic_check_correct. eapply ro_tx_consistent; eassumption. Qed.

Corollary lts_accepted_client : forall c cl pre body post s1 lo hi,
  crun (cinit c) (pre ++ body ++ post) = Some s1 ->
  (lo <= length (twrites (cinit c) pre))%nat ->
  (length (twrites (cinit c) (pre ++ body)) <= hi)%nat ->
  atomic_check (twrites (cinit c) (pre ++ body ++ post))
               (mkObs MFree lo hi (flat_map (sel_client cl) body)) = true.
Proof. intros. apply atomic_check_correct. eapply client_consistent; eassumption. Qed.

(* non-vacuity: a trace with a 3-key transaction, a direct batch, a flush (the memtable is
   small, so the batches move through immutable tables and SSTables), readers in between *)
Module LtsExample.
  Definition ka : bytes := [97]. Definition kb : bytes := [98]. Definition kc : bytes := [99].
  Definition c0 := mkCfg 40 10.
  Definition tr : list label :=
    [LCommit [(ka, Some [1]); (kb, Some [1]); (kc, Some [1]); (kb, Some [1;1])];
     LRead 0 [ka; kb; kc] [Some [1]; Some [1;1]; Some [1]];
     LRoBegin 7; LRoGet 7 ka (Some [1]);
     LApply [(ka, Some [2]); (kb, None)]; LFlush;
     LRoGet 7 kb None; LRoEnd 7; LRotate;
     LCommit [(kc, None); (ka, Some [3])]; LAbort [(ka, Some [9])];
     LRead 1 [ka; kb; kc] [Some [3]; None; None]].
  Example runs : exists s, crun (cinit c0) tr = Some s.
  Proof. vm_compute. eexists. reflexivity. Qed.
  Example history : twrites (cinit c0) tr =
    [(KTx, [(ka, Some [1]); (kb, Some [1;1]); (kc, Some [1])]);
     (KDirect, [(ka, Some [2]); (kb, None)]); (KTx, [(ka, Some [3]); (kc, None)])].
  Proof. vm_compute. reflexivity. Qed.
  (* a commit is disabled while a read-only transaction is open *)
  Example commit_excluded :
    crun (cinit c0) [LRoBegin 1; LCommit [(ka, Some [1])]] = None.
  Proof. vm_compute. reflexivity. Qed.
  (* an observation of half a batch is not a step of the system *)
  Example no_half_batch :
    crun (cinit c0) [LCommit [(ka, Some [1]); (kb, Some [1])]; LRead 0 [ka; kb] [Some [1]; None]] = None.
  Proof. vm_compute. reflexivity. Qed.
End LtsExample.

(* ------------------------------------------------------------------------------------ *)
(* Part C: the memtable snapshot does not isolate a running scan from later writes         *)
(* (an OBSERVATION about the code, replayed against it by corpus/C03/iter-*.case; such a    *)
(* scan is not an observer of C03, see the header of TxnAtomic.v)                           *)
(* ------------------------------------------------------------------------------------ *)

(* MemTable.nextSeqNum after the write with sequence number 1 is 2 and the iterator shows
   entries with a number <= its snapshot: the batch stamped 2 is visible to an iterator
   created before it. Read before and after that batch, the scan reports kb absent and kc
   present. On an empty table the snapshot is 0, which means "unfiltered". *)
Theorem iter_sees_later_write : exists c ka kb kc v1 v2 s,
  crun (cinit c)
    [LApply [(ka, Some v1)]; LIterNew 0; LIterRead 0 kb None;
     LApply [(kb, Some v2); (kc, Some v2)]; LIterRead 0 kc (Some v2)] = Some s /\
  (exists s', crun (cinit c)
    [LIterNew 0; LIterRead 0 kb None;
     LApply [(kb, Some v2); (kc, Some v2)]; LIterRead 0 kc (Some v2)] = Some s').
Proof.
  exists (mkCfg 4096 10), [97], [98], [99], [1], [2].
  eexists. split; [vm_compute; reflexivity|]. eexists. vm_compute. reflexivity.
Qed.

(* after two writes nextSeqNum is still 2: there the snapshot is exact and the same scan is
   not a run of the system — the behaviour depends on the parity of the write count *)
Example iter_exact_when_even :
  crun (cinit (mkCfg 4096 10))
    [LApply [([97], Some [1])]; LApply [([100], Some [1])]; LIterNew 0; LIterRead 0 [98] None;
     LApply [([98], Some [2]); ([99], Some [2])]; LIterRead 0 [99] (Some [2])] = None.
Proof. vm_compute. reflexivity. Qed.

(* ------------------------------------------------------------------------------------ *)
(* Part E: why the torn-write finding (D13) cannot be repaired by recovery alone           *)
(* ------------------------------------------------------------------------------------ *)
(* Two runs: A commits the transaction {a, b}; B commits {a, b, c} and its final log write
   is torn after two entries. Both commits are acknowledged before the stop. What is on disk
   is IDENTICAL (same log entries, same sequence number, same tables), so whatever recovery
   computes from the disk, it computes the same for both: keeping {a, b} is required for A
   (an acknowledged transaction) and is a strict subset for B; dropping it loses A. Telling
   them apart needs information that the log format does not carry (an entry count or a
   commit marker written with the batch). *)
Theorem torn_needs_commit_marker : exists c opsA opsB n txA txB extra,
  acked (init c) opsA = [WBatch txA] /\ acked (init c) opsB = [WBatch txB] /\
  txB = txA ++ [extra] /\
  lost_log (run c opsA) = false /\ lost_log (run c opsB) = false /\
  crash_torn (run c opsB) n = crash (run c opsA) (wal_next (run c opsA)) /\
  forall rec : st -> st, rec (crash_torn (run c opsB) n) = rec (crash (run c opsA) (wal_next (run c opsA))).
Proof.
  exists (mkCfg 4096 10),
         [OCommit [([97], Some [1]); ([98], Some [1])]],
         [OCommit [([97], Some [1]); ([98], Some [1]); ([99], Some [1])]],
         2%nat, [([97], Some [1]); ([98], Some [1])],
         [([97], Some [1]); ([98], Some [1]); ([99], Some [1])], ([99], Some [1]).
  assert (E : crash_torn (run (mkCfg 4096 10) [OCommit [([97], Some [1]); ([98], Some [1]); ([99], Some [1])]]) 2
            = crash (run (mkCfg 4096 10) [OCommit [([97], Some [1]); ([98], Some [1])]])
                    (wal_next (run (mkCfg 4096 10) [OCommit [([97], Some [1]); ([98], Some [1])]]))).
  { vm_compute. reflexivity. }
  split; [vm_compute; reflexivity|]. split; [vm_compute; reflexivity|].
  split; [reflexivity|]. split; [vm_compute; reflexivity|]. split; [vm_compute; reflexivity|].
  split; [exact E|]. intros rec. rewrite E. reflexivity.
Qed.

(* ------------------------------------------------------------------------------------ *)
(* Part D: the critical sections, from the Go source (coq/gen/TxnLocks.v)                  *)
(* ------------------------------------------------------------------------------------ *)
From Coq Require Import String.
From KV Require Import TxnLocks.

Module Locks.
  Open Scope string_scope.

  Fixpoint calls_of (f : string) (t : list (string * list string)) : list string :=
    match t with
    | [] => ["<missing>"]
    | (g, l) :: r => if String.eqb f g then l else calls_of f r
    end.

  Definition has (e : string) (l : list string) : bool := existsb (String.eqb e) l.

  (* any call that touches mutex m *)
  Definition on_mutex (m : string) (e : string) : bool :=
    has e [m ++ ".Lock"; m ++ ".Unlock"; m ++ ".RLock"; m ++ ".RUnlock"; m ++ ".TryLock"; m ++ ".TryRLock";
           "defer " ++ m ++ ".Lock"; "defer " ++ m ++ ".Unlock"; "defer " ++ m ++ ".RLock";
           "defer " ++ m ++ ".RUnlock"].

  Definition starts_goroutine (e : string) : bool := String.prefix "go " e.

  (* the body begins with m.Lock(); defer m.Unlock(), never touches m again and starts no
     goroutine: everything after the first call runs inside one exclusive section of m *)
  Definition exclusive_section (m : string) (l : list string) : bool :=
    match l with
    | a :: b :: rest =>
        String.eqb a (m ++ ".Lock") && String.eqb b ("defer " ++ m ++ ".Unlock") &&
        negb (existsb (on_mutex m) rest) && negb (existsb starts_goroutine rest)
    | _ => false
    end.

  Definition shared_section (m : string) (l : list string) : bool :=
    match l with
    | a :: b :: rest =>
        String.eqb a (m ++ ".RLock") && String.eqb b ("defer " ++ m ++ ".RUnlock") &&
        negb (existsb (on_mutex m) rest) && negb (existsb starts_goroutine rest)
    | _ => false
    end.

  (* x occurs, and no y occurs before the first x *)
  Fixpoint before (x y : string) (l : list string) : bool :=
    match l with
    | [] => false
    | e :: r => if String.eqb e x then true else if String.eqb e y then false else before x y r
    end.

  Definition untouched (m : string) (l : list string) : bool :=
    negb (existsb (on_mutex m) l) && negb (has "<missing>" l).

  Definition T := txn_calls.

  (* Manager.ApplyBatch: WAL append, then every memtable insert, then the flush scheduling, all
     inside one exclusive section of Manager.mu; the helpers it calls do not touch mu *)
  Definition applybatch_ok : bool :=
    let l := calls_of "Manager.ApplyBatch" T in
    exclusive_section "m.mu" l && has "currentWAL.AppendBatch" l &&
    before "currentWAL.AppendBatch" "m.memTablePool.Put" l &&
    before "currentWAL.AppendBatch" "m.memTablePool.Delete" l &&
    has "m.memTablePool.Put" l && has "m.memTablePool.Delete" l &&
    before "m.memTablePool.Put" "m.scheduleFlush" l &&
    untouched "m.mu" (calls_of "Manager.scheduleFlush" T) &&
    untouched "m.mu" (calls_of "Manager.RetryOnWALRotating" T) &&
    untouched "m.mu" (calls_of "Manager.getWAL" T).

  Definition put_delete_ok : bool :=
    let p := calls_of "Manager.Put" T in
    let d := calls_of "Manager.Delete" T in
    exclusive_section "m.mu" p && before "currentWAL.Append" "m.memTablePool.Put" p &&
    exclusive_section "m.mu" d && before "currentWAL.Append" "m.memTablePool.Delete" d.

  (* Manager.Get reads inside one shared section; GetIterator / GetRangeIterator capture the
     tables and build the iterator inside one shared section *)
  Definition readers_ok : bool :=
    let g := calls_of "Manager.Get" T in
    let i := calls_of "Manager.GetIterator" T in
    let r := calls_of "Manager.GetRangeIterator" T in
    shared_section "m.mu" g && has "m.memTablePool.Get" g &&
    shared_section "m.mu" i && before "m.memTablePool.GetMemTables" "factory.CreateIterator" i &&
    shared_section "m.mu" r && before "m.memTablePool.GetMemTables" "factory.CreateRangeIterator" r.

  (* Commit applies the batch before it gives up the transaction lock; Rollback clears the
     buffer; BeginTransaction takes the transaction lock in both modes *)
  Definition tx_ok : bool :=
    let c := calls_of "TransactionImpl.Commit" T in
    let r := calls_of "TransactionImpl.Rollback" T in
    let b := calls_of "Manager.BeginTransaction" T in
    before "tx.storage.ApplyBatch" "tx.releaseWriteLock" c && has "tx.releaseWriteLock" c &&
    has "tx.buffer.Operations" c &&
    before "tx.buffer.Clear" "tx.releaseWriteLock" r && has "tx.releaseWriteLock" r &&
    has "m.txLock.RLock" b && has "m.txLock.Lock" b.
End Locks.

Lemma locks_applybatch_exclusive : Locks.applybatch_ok = true.
Proof. vm_compute. reflexivity. Qed.
Lemma locks_put_delete_exclusive : Locks.put_delete_ok = true.
Proof. vm_compute. reflexivity. Qed.
Lemma locks_readers_shared : Locks.readers_ok = true.
Proof. vm_compute. reflexivity. Qed.
Lemma locks_tx_commit_under_txlock : Locks.tx_ok = true.
Proof. vm_compute. reflexivity. Qed.

(* the checks are not vacuous: a body that releases the lock between the log append and the
   inserts, or inserts before it logs, fails them *)
Example locks_reject_unlock_in_between :
  Locks.exclusive_section "m.mu"
    ["m.mu.Lock"; "defer m.mu.Unlock"; "currentWAL.AppendBatch"; "m.mu.Unlock"; "m.mu.Lock";
     "m.memTablePool.Put"] = false.
Proof. vm_compute. reflexivity. Qed.
Example locks_reject_insert_first :
  Locks.before "currentWAL.AppendBatch" "m.memTablePool.Put"
    ["m.mu.Lock"; "defer m.mu.Unlock"; "m.memTablePool.Put"; "currentWAL.AppendBatch"] = false.
Proof. vm_compute. reflexivity. Qed.

