(* MemPoolProofs.v — C18 for the memtable pool: whatever way the writer's entries are spread over
   generations of the active table (any placement of SwitchToNewMemTable), a pool lookup returns
   the effect of the LAST write of the key, provided the writer's sequence numbers do not
   decrease (the storage manager stamps them from the log's counter). *)
From Coq Require Import List Arith NArith Sorted Lia.
From KV Require Import Bytes Spec Memtable MemtableProofs Engine EngineProofs MemPool.
Import ListNotations.
Open Scope N_scope.

Inductive pop := PWrite (e : mentry) | PSwitch.

Definition pstep (p : mpool) (o : pop) : mpool :=
  match o with
  | PWrite e => mkPool (mt_add (pl_active p) e) (pl_imms p)
  | PSwitch => pl_switch p
  end.

Definition prun (ops : list pop) : mpool := fold_left pstep ops pl_empty.

Fixpoint writes (ops : list pop) : list mentry :=
  match ops with
  | [] => []
  | PWrite e :: r => e :: writes r
  | PSwitch :: r => writes r
  end.

Lemma writes_app : forall a b, writes (a ++ b) = writes a ++ writes b.
Proof. induction a as [|[e|] a IH]; intros b; cbn [app writes]; rewrite ?IH; reflexivity. Qed.

(* the pool's tables, oldest first, are built from consecutive segments of the write history; the
   active table is mutable *)
Definition PoolInv (p : mpool) (h : list mentry) : Prop :=
  mt_imm (pl_active p) = false /\
  exists segs, Forall2 layer_ok (pl_imms p ++ [pl_active p]) segs /\ concat segs = h.

Lemma Forall2_snoc_inv : forall (A B : Type) (R : A -> B -> Prop) l a l',
  Forall2 R (l ++ [a]) l' -> exists m b, l' = m ++ [b] /\ Forall2 R l m /\ R a b.
Proof.
  intros A B R l a l' H. apply Forall2_app_inv_l in H. destruct H as (m & t & Hm & Ht & ->).
  inversion Ht as [|x y xs ys Hxy Hrest]; subst. inversion Hrest; subst.
  exists m, y. auto.
Qed.

Lemma PoolInv_init : PoolInv pl_empty [].
Proof.
  split; [reflexivity|]. exists [[]]. split; [|reflexivity].
  cbn. constructor; [reflexivity|constructor].
Qed.

Lemma PoolInv_step : forall p h o, PoolInv p h ->
  PoolInv (pstep p o) (h ++ writes [o]).
Proof.
  intros p h o (Hmut & segs & HF & HC). destruct o as [e|]; cbn [pstep writes].
  - destruct (Forall2_snoc_inv _ _ _ _ _ _ HF) as (m & b & -> & HFm & Hb).
    split.
    + cbn [pl_active]. unfold mt_add. rewrite Hmut. reflexivity.
    + exists (m ++ [b ++ [e]]). split.
      * cbn [pl_imms pl_active]. apply Forall2_app; [exact HFm|]. constructor; [|constructor].
        unfold layer_ok in *. unfold mt_add. rewrite Hmut. cbn [mt_entries]. rewrite Hb, build_snoc. reflexivity.
      * rewrite <- HC, !concat_app. cbn [concat]. rewrite !app_nil_r, app_assoc. reflexivity.
  - rewrite app_nil_r. split; [reflexivity|].
    exists (segs ++ [[]]). split.
    + unfold pl_switch. cbn [pl_imms pl_active].
      apply Forall2_app; [|constructor; [reflexivity|constructor]].
      destruct (Forall2_snoc_inv _ _ _ _ _ _ HF) as (m & b & -> & HFm & Hb).
      apply Forall2_app; [exact HFm|]. constructor; [|constructor].
      unfold layer_ok in *. cbn [mt_set_imm mt_entries]. exact Hb.
    + rewrite concat_app. cbn [concat]. rewrite !app_nil_r. exact HC.
Qed.

Lemma PoolInv_run : forall ops, PoolInv (prun ops) (writes ops).
Proof.
  intros ops. unfold prun.
  assert (G : forall l p h, PoolInv p h -> PoolInv (fold_left pstep l p) (h ++ writes l)).
  { induction l as [|o l IH]; intros p h I; cbn [fold_left].
    - cbn [writes]. rewrite app_nil_r. exact I.
    - specialize (IH _ _ (PoolInv_step p h o I)).
      replace (h ++ writes (o :: l)) with ((h ++ writes [o]) ++ writes l); [exact IH|].
      rewrite <- app_assoc. f_equal. destruct o; reflexivity. }
  exact (G ops pl_empty [] PoolInv_init).
Qed.

(* the property: a pool lookup is the last write of the key *)
Theorem pool_get_last_write : forall ops k,
  StronglySorted seq_le (writes ops) ->
  pl_get (prun ops) k = last_effect k (map eff (writes ops)).
Proof.
  intros ops k Hs. destruct (PoolInv_run ops) as (_ & segs & HF & HC).
  unfold pl_get, pl_tables.
  replace (pl_active (prun ops) :: rev (pl_imms (prun ops))) with (rev (pl_imms (prun ops) ++ [pl_active (prun ops)]))
    by (rewrite rev_app_distr; reflexivity).
  rewrite (mems_get_layers k _ segs HF); rewrite HC; [reflexivity|exact Hs].
Qed.

(* GetMemTables: one table per switch plus the active one, the active one first and mutable, the
   others immutable *)
Theorem pool_tables_shape : forall ops,
  length (pl_tables (prun ops)) = S (length (filter (fun o => match o with PSwitch => true | _ => false end) ops)) /\
  mt_imm (pl_active (prun ops)) = false /\
  Forall (fun t => mt_imm t = true) (pl_imms (prun ops)).
Proof.
  intros ops. unfold prun.
  assert (G : forall l p, mt_imm (pl_active p) = false -> Forall (fun t => mt_imm t = true) (pl_imms p) ->
    length (pl_imms (fold_left pstep l p)) = (length (pl_imms p) + length (filter (fun o => match o with PSwitch => true | _ => false end) l))%nat /\
    mt_imm (pl_active (fold_left pstep l p)) = false /\
    Forall (fun t => mt_imm t = true) (pl_imms (fold_left pstep l p))).
  { induction l as [|o l IH]; intros p Ha Hi; cbn [fold_left filter].
    - rewrite Nat.add_0_r. auto.
    - destruct o as [e|]; cbn [pstep].
      + destruct (IH (mkPool (mt_add (pl_active p) e) (pl_imms p))) as (L & A & F).
        * cbn [pl_active]. unfold mt_add. rewrite Ha. reflexivity.
        * exact Hi.
        * cbn [pl_imms] in L. split; [exact L|split; assumption].
      + destruct (IH (pl_switch p)) as (L & A & F).
        * reflexivity.
        * unfold pl_switch. cbn [pl_imms]. apply Forall_app. split; [exact Hi|]. constructor; [reflexivity|constructor].
        * split; [|split; assumption]. rewrite L. unfold pl_switch. cbn [pl_imms length].
          rewrite app_length. cbn [length]. lia. }
  destruct (G ops pl_empty eq_refl (Forall_nil _)) as (L & A & F).
  split; [|split; assumption].
  unfold pl_tables. cbn [length]. rewrite rev_length, L. reflexivity.
Qed.

(* non-vacuity: a key written in three generations *)
Example pool_example :
  let e1 := mkM [107] 1 KVal [1] in let e2 := mkM [107] 2 KVal [2] in let e3 := mkM [107] 3 KDel [] in
  let ops := [PWrite e1; PSwitch; PWrite e2; PSwitch; PWrite e3; PSwitch] in
  StronglySorted seq_le (writes ops) /\ pl_get (prun ops) [107] = Some None /\
  length (pl_tables (prun ops)) = 4%nat.
Proof.
  cbv zeta. split; [|split; vm_compute; reflexivity].
  cbn [writes]. repeat constructor; unfold seq_le; cbn; lia.
Qed.
