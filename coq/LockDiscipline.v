(* LockDiscipline.v — abstract traces of lock acquire/release and memory accesses, the
   happens-before relation the Go memory model gives for sync.Mutex / sync.RWMutex, data
   races, wait-for cycles, and the decision procedures that are run on the table generated
   from the Go source (coq/gen/Locks.v).  Definitions only; proofs are in
   LockDisciplineProofs.v.

   What is modelled: a trace is a list of events of threads (goroutines).  `Acq t l m` is
   the RETURN of l.Lock() (m = Ex) or l.RLock() (m = Sh) in thread t, `Rel t l m` the call
   of l.Unlock() / l.RUnlock().  The runtime is trusted to provide mutual exclusion
   (`wf`: an exclusive acquisition returns only when nobody holds the lock, a shared one
   only when nobody holds it exclusively) and the synchronisation edges of the Go memory
   model: Unlock happens before every later Lock/RLock return; RUnlock happens before every
   later Lock return (NOT before a later RLock). *)
From Coq Require Import List String Bool Arith Relations.
Import ListNotations.

Definition tid := nat.
Definition lock := string.
Definition loc := string.

Inductive mode := Sh | Ex.

Inductive event :=
| Acq (t : tid) (l : lock) (m : mode)
| Rel (t : tid) (l : lock) (m : mode)
| Rd (t : tid) (x : loc)
| Wr (t : tid) (x : loc)
| Fork (t t' : tid).

Definition trace := list event.

Definition thread_of (e : event) : tid :=
  match e with Acq t _ _ | Rel t _ _ | Rd t _ | Wr t _ | Fork t _ => t end.

(* ---- lock state along a trace ---- *)
Definition hold := (tid * lock * mode)%type.

Definition mode_eqb (a b : mode) : bool :=
  match a, b with Sh, Sh | Ex, Ex => true | _, _ => false end.

Definition hold_eqb (a b : hold) : bool :=
  let '(t, l, m) := a in let '(t', l', m') := b in
  Nat.eqb t t' && String.eqb l l' && mode_eqb m m'.

Fixpoint remove_one (x : hold) (h : list hold) : list hold :=
  match h with
  | [] => []
  | y :: h' => if hold_eqb x y then h' else y :: remove_one x h'
  end.

Definition step (h : list hold) (e : event) : list hold :=
  match e with
  | Acq t l m => (t, l, m) :: h
  | Rel t l m => remove_one (t, l, m) h
  | _ => h
  end.

(* mutual exclusion as provided by the runtime *)
Definition step_ok (h : list hold) (e : event) : Prop :=
  match e with
  | Acq t l Ex => forall t' m, ~ In (t', l, m) h
  | Acq t l Sh => forall t', ~ In (t', l, Ex) h
  | Rel t l m => In (t, l, m) h
  | _ => True
  end.

Fixpoint wf_from (h : list hold) (tr : trace) : Prop :=
  match tr with
  | [] => True
  | e :: tr' => step_ok h e /\ wf_from (step h e) tr'
  end.

Fixpoint run (h : list hold) (tr : trace) : list hold :=
  match tr with
  | [] => h
  | e :: tr' => run (step h e) tr'
  end.

Definition wf (tr : trace) : Prop := wf_from [] tr.

(* locks held just before the i-th event *)
Definition state_at (tr : trace) (i : nat) : list hold := run [] (firstn i tr).

(* ---- happens-before ---- *)
Inductive hb1 (tr : trace) : nat -> nat -> Prop :=
| hb_po : forall i j e e', i < j -> nth_error tr i = Some e -> nth_error tr j = Some e' ->
    thread_of e = thread_of e' -> hb1 tr i j
| hb_sync : forall i j t l m t' m', i < j -> nth_error tr i = Some (Rel t l m) ->
    nth_error tr j = Some (Acq t' l m') -> (m = Ex \/ m' = Ex) -> hb1 tr i j
| hb_fork : forall i j t t' e, i < j -> nth_error tr i = Some (Fork t t') ->
    nth_error tr j = Some e -> thread_of e = t' -> hb1 tr i j.

Definition hb (tr : trace) : nat -> nat -> Prop := clos_trans nat (hb1 tr).

(* two accesses to one location from different threads, at least one a write *)
Definition conflict (e e' : event) : Prop :=
  match e, e' with
  | Wr t x, Wr t' x' | Wr t x, Rd t' x' | Rd t x, Wr t' x' => x = x' /\ t <> t'
  | _, _ => False
  end.

Definition race (tr : trace) : Prop :=
  exists i j e e', i < j /\ nth_error tr i = Some e /\ nth_error tr j = Some e' /\
                   conflict e e' /\ ~ hb tr i j.

(* the lockset discipline for one location: every write under l held exclusively, every read
   under l held in some mode *)
Definition guarded (tr : trace) (x : loc) (l : lock) : Prop :=
  forall i t,
    (nth_error tr i = Some (Wr t x) -> In (t, l, Ex) (state_at tr i)) /\
    (nth_error tr i = Some (Rd t x) -> exists m, In (t, l, m) (state_at tr i)).

(* ---- deadlock ---- *)
(* a pending acquisition: thread t is blocked in Lock/RLock of l *)
Definition pending := (tid * lock)%type.

(* t waits for t' : t is blocked on a lock that t' holds *)
Definition waits_for (h : list hold) (pend : list pending) (t t' : tid) : Prop :=
  exists l m', In (t, l) pend /\ In (t', l, m') h.

Definition wait_cycle (h : list hold) (pend : list pending) : Prop :=
  exists t, clos_trans tid (waits_for h pend) t t.

(* every acquisition takes a lock of strictly greater rank than every lock the thread
   holds (in particular it never re-acquires a lock it holds: sync.RWMutex is not
   reentrant, a recursive RLock deadlocks as soon as a writer queues between the two) *)
Definition ordered_acq (rank : lock -> nat) (h : list hold) (t : tid) (l : lock) : Prop :=
  forall l' m', In (t, l', m') h -> rank l' < rank l.

Fixpoint ranked_from (rank : lock -> nat) (h : list hold) (tr : trace) : Prop :=
  match tr with
  | [] => True
  | e :: tr' =>
    match e with Acq t l _ => ordered_acq rank h t l | _ => True end /\
    ranked_from rank (step h e) tr'
  end.

Definition ranked (rank : lock -> nat) (tr : trace) : Prop := ranked_from rank [] tr.

(* ---- the generated table and its decision procedures ---- *)
Record access := mkAccess {
  a_loc : loc;                 (* Type.field *)
  a_fn : string;               (* function containing the access *)
  a_write : bool;
  a_held : list (lock * mode)  (* locks held at the access on every path from a root *)
}.

Definition table := list access.

Definition held_mem (l : lock) (m : mode) (hs : list (lock * mode)) : bool :=
  existsb (fun p => String.eqb (fst p) l && mode_eqb (snd p) m) hs.

Definition guards (l : lock) (r : access) : bool :=
  if a_write r then held_mem l Ex (a_held r)
  else held_mem l Sh (a_held r) || held_mem l Ex (a_held r).

(* rows of one location *)
Definition rows_of (x : loc) (t : table) : table := filter (fun r => String.eqb (a_loc r) x) t.

(* every location has one lock that guards all its rows *)
Definition row_okb (t : table) (r : access) : bool :=
  existsb (fun p => forallb (guards (fst p)) (rows_of (a_loc r) t)) (a_held r).

Definition protectedb (t : table) : bool := forallb (row_okb t) t.

(* the rows of the locations that have no common lock (for reports and for the model runner) *)
Definition flagged_rows (t : table) : table := filter (fun r => negb (row_okb t r)) t.

Definition protected (t : table) : Prop :=
  forall r, In r t -> exists l, forall r', In r' t -> a_loc r' = a_loc r -> guards l r' = true.

(* a trace whose accesses are all instances of table rows, with the row's locks really held *)
Definition conforms (t : table) (tr : trace) : Prop :=
  forall i e, nth_error tr i = Some e ->
    match e with
    | Wr th x => exists r, In r t /\ a_loc r = x /\ a_write r = true /\
                           forall l m, In (l, m) (a_held r) -> In (th, l, m) (state_at tr i)
    | Rd th x => exists r, In r t /\ a_loc r = x /\ a_write r = false /\
                           forall l m, In (l, m) (a_held r) -> In (th, l, m) (state_at tr i)
    | _ => True
    end.

(* lock order: (a, b) = some function acquires b while a is held *)
Definition order := list (lock * lock).

Definition nodes (g : order) : list lock := map fst g ++ map snd g.

Fixpoint lookup (k : lock) (r : list (lock * nat)) : nat :=
  match r with
  | [] => 0
  | (k', v) :: r' => if String.eqb k k' then v else lookup k r'
  end.

(* one round of longest-path relaxation: rank b >= rank a + 1 for every edge (a, b) *)
Definition relax (g : order) (r : list (lock * nat)) : list (lock * nat) :=
  map (fun kv => (fst kv,
        fold_left (fun acc e => if String.eqb (snd e) (fst kv) then Nat.max acc (S (lookup (fst e) r)) else acc)
                  g (snd kv))) r.

Fixpoint iter {A} (n : nat) (f : A -> A) (x : A) : A :=
  match n with O => x | S n' => iter n' f (f x) end.

Definition rank_of (g : order) : list (lock * nat) :=
  iter (List.length (nodes g)) (relax g) (map (fun k => (k, 0)) (nodes g)).

(* the ranking computed by relaxation is CHECKED edge by edge: the result is sound whatever
   the relaxation did; a cycle (or a self edge) makes the check fail *)
Definition acyclicb (g : order) : bool :=
  let r := rank_of g in
  forallb (fun e => Nat.ltb (lookup (fst e) r) (lookup (snd e) r)) g.

Definition acyclic (g : order) : Prop :=
  exists rank : lock -> nat, forall a b, In (a, b) g -> rank a < rank b.

(* a trace whose nested acquisitions are all instances of order edges *)
Fixpoint follows_from (g : order) (h : list hold) (tr : trace) : Prop :=
  match tr with
  | [] => True
  | e :: tr' =>
    match e with
    | Acq t l _ => forall l' m', In (t, l', m') h -> In (l', l) g
    | _ => True
    end /\ follows_from g (step h e) tr'
  end.

Definition follows (g : order) (tr : trace) : Prop := follows_from g [] tr.
