(* ReadOnly.v — executable model of the replica read-only discipline (property C16):
   engine.EngineFacade's readOnly flag and its guards (pkg/engine/facade.go, replication.go),
   the transactions handed out by BeginTransaction (pkg/transaction), the replication
   applier (pkg/replication/engine_applier.go), the way the replication manager sets the flag
   (pkg/replication/manager.go startReplica/setEngineReadOnly), the node information
   (pkg/replication/info_provider.go + KevoServiceServer.GetNodeInfo) and the client RPCs of
   pkg/grpc/service/service.go that write. The data itself is the Engine model: a node is
   an Engine.st plus the flag, the replication configuration and the open transactions.
   Model only; the theorems are in ReadOnlyProofs.v. *)
From KV Require Export Engine.
Open Scope N_scope.

(* ---------- configuration and state ---------- *)

Inductive role := RStandalone | RPrimary | RReplica.          (* ManagerConfig.Mode *)

Record rcfg := mkRcfg {
  has_mgr : bool;          (* a replication manager is handed to the service (cmd/kevo/server.go:
                              only when replication is enabled) *)
  enabled : bool;          (* ManagerConfig.Enabled *)
  mode : role;
  primary_addr : bytes;    (* ManagerConfig.PrimaryAddr *)
  listen_addr : bytes;     (* ManagerConfig.ListenAddr *)
  force_ro : bool          (* ManagerConfig.ForceReadOnly *)
}.

Inductive txmode := TxRO | TxRW.

(* a transaction handle: embedded (interfaces.Transaction held by the caller) or remote (an id
   in the service's registry, removed when the transaction ends) *)
Record txn := mkTx { tx_mode : txmode; tx_buf : list bop; tx_open : bool; tx_remote : bool }.

Record node := mkNode {
  eng : st;                (* the data *)
  ro : bool;               (* EngineFacade.readOnly *)
  rc : rcfg;
  txs : list txn           (* handle h = position in this list *)
}.

Definition set_eng (n : node) (e : st) : node := mkNode e (ro n) (rc n) (txs n).
Definition set_ro (n : node) (b : bool) : node := mkNode (eng n) b (rc n) (txs n).
Definition set_txs (n : node) (t : list txn) : node := mkNode (eng n) (ro n) (rc n) t.

(* Manager.Start on a fresh engine: only an enabled replica with ForceReadOnly touches the flag *)
Definition start (c : rcfg) (e : st) : node :=
  let r := match mode c with RReplica => enabled c && force_ro c | _ => false end in
  mkNode e r c [].

(* ---------- results ---------- *)

Inductive res :=
| ROk
| RRoErr        (* engine.ErrReadOnlyMode: "engine is in read-only mode (replica)" *)
| RRoTx         (* transaction.ErrReadOnlyTransaction / the service's "cannot write to read-only
                   transaction" *)
| RClosed       (* ErrTransactionClosed (embedded handle already finished) *)
| RNotFound     (* no such handle / "transaction not found" *)
| RBlocked      (* the call would wait for the transaction lock (sequential programs: skipped) *)
| RBadType      (* applier: unsupported WAL entry type *)
| ROverflow     (* sequence number space exhausted *)
| RUnknown.     (* an entry point the model does not know and the fact table calls an unguarded
                   mutator *)

Definition ro_class (r : res) : bool := match r with RRoErr | RRoTx => true | _ => false end.

Definition wr (x : st * wr_res) : st * res :=
  (fst x, match snd x with WrOk _ => ROk | WrOverflow => ROverflow end).

(* ---------- transactions ---------- *)

Definition is_open_rw (t : txn) : bool := tx_open t && match tx_mode t with TxRW => true | TxRO => false end.
Definition rw_open (n : node) : bool := existsb is_open_rw (txs n).
Definition any_open (n : node) : bool := existsb tx_open (txs n).

(* Manager.BeginTransaction: a read-write transaction takes the lock exclusively, a read-only
   one shares it. Every begin a client can reach — EngineFacade.BeginTransaction and, since
   /repo b9d5905, the manager handed out by GetTransactionManager (guardedTxManager) — forces
   read-only on a read-only engine. *)
Definition begin_tx (n : node) (remote want_ro : bool) : node * res :=
  let r := if ro n then true else want_ro in
  if (if r then rw_open n else any_open n) then (n, RBlocked)
  else (set_txs n (txs n ++ [mkTx (if r then TxRO else TxRW) [] true remote]), ROk).

Fixpoint upd_nth {A} (l : list A) (i : nat) (x : A) : list A :=
  match l, i with
  | [], _ => []
  | _ :: r, O => x :: r
  | y :: r, S j => y :: upd_nth r j x
  end.

Definition gone (t : txn) : res := if tx_remote t then RNotFound else RClosed.

Definition tx_write (n : node) (h : nat) (o : bop) : node * res :=
  match nth_error (txs n) h with
  | None => (n, RNotFound)
  | Some t =>
    if negb (tx_open t) then (n, gone t) else
    match tx_mode t with
    | TxRO => (n, RRoTx)
    | TxRW => (set_txs n (upd_nth (txs n) h (mkTx TxRW (tx_buf t ++ [o]) true (tx_remote t))), ROk)
    end
  end.

Definition close_tx (t : txn) : txn := mkTx (tx_mode t) [] false (tx_remote t).

Definition tx_commit_h (n : node) (h : nat) : node * res :=
  match nth_error (txs n) h with
  | None => (n, RNotFound)
  | Some t =>
    if negb (tx_open t) then (n, gone t) else
    let n1 := set_txs n (upd_nth (txs n) h (close_tx t)) in
    match tx_mode t with
    | TxRO => (n1, ROk)
    | TxRW => let x := wr (tx_commit (eng n) (tx_buf t)) in (set_eng n1 (fst x), snd x)
    end
  end.

Definition tx_rollback_h (n : node) (h : nat) : node * res :=
  match nth_error (txs n) h with
  | None => (n, RNotFound)
  | Some t =>
    if negb (tx_open t) then (n, gone t)
    else (set_txs n (upd_nth (txs n) h (close_tx t)), ROk)
  end.

(* Buffer lookup of a transaction read: the last buffered operation on the key *)
Fixpoint buf_last (k : bytes) (l : list bop) : option (option bytes) :=
  match l with
  | [] => None
  | o :: r => match buf_last k r with
              | Some x => Some x
              | None => if beq (fst o) k then Some (snd o) else None
              end
  end.

(* ---------- client entry points ---------- *)

Inductive cop :=
(* embedded API: EngineFacade *)
| CPut (k v : bytes) | CDel (k : bytes) | CBatch (ops : list bop)
| CBegin (want_ro : bool)
(* on a handle, embedded or remote (TxPut/TxDelete/CommitTransaction/RollbackTransaction) *)
| CTxPut (h : nat) (k v : bytes) | CTxDel (h : nat) (k : bytes) | CTxCommit (h : nat) | CTxRollback (h : nat)
(* gRPC service *)
| SPut (k v : bytes) | SDel (k : bytes) | SBatch (ops : list bop) | SBegin (want_ro : bool)
| SCompact (force : bool)
(* GetTransactionManager().BeginTransaction: the accessor path (guarded since b9d5905) *)
| CLeakBegin (want_ro : bool)
(* an entry point the model has no constructor for, described by its row of gen/Api.v *)
| CGeneric (mutates guarded : bool).

(* one-shot transaction of BatchWrite (and the empty one of Compact): begin(false), writes, commit *)
Definition oneshot (n : node) (ops : list bop) : node * res :=
  if ro n then
    (* forced read-only: shares the lock; the first write fails, the transaction is rolled back *)
    if rw_open n then (n, RBlocked) else
    match ops with [] => (n, ROk) | _ => (n, RRoTx) end
  else
    if any_open n then (n, RBlocked) else
    let x := wr (tx_commit (eng n) ops) in (set_eng n (fst x), snd x).

Definition step_client (n : node) (c : cop) : node * res :=
  match c with
  | CPut k v | SPut k v =>
      if ro n then (n, RRoErr) else let x := wr (put (eng n) k v) in (set_eng n (fst x), snd x)
  | CDel k | SDel k =>
      if ro n then (n, RRoErr) else let x := wr (del (eng n) k) in (set_eng n (fst x), snd x)
  | CBatch ops =>
      if ro n then (n, RRoErr) else let x := wr (apply_batch (eng n) ops) in (set_eng n (fst x), snd x)
  | CBegin w | CLeakBegin w => begin_tx n false w
  | SBegin w => begin_tx n true w
  | CTxPut h k v => tx_write n h (k, Some v)
  | CTxDel h k => tx_write n h (k, None)
  | CTxCommit h => tx_commit_h n h
  | CTxRollback h => tx_rollback_h n h
  | SBatch [] => (n, ROk)                  (* returns before a transaction is begun *)
  | SBatch ops => oneshot n ops
  | SCompact force =>
      (* an empty read-write transaction (waits for the lock like a writer), then for force a
         memtable flush through the engine; no key is written (/repo 2b4302e) *)
      let x := oneshot n [] in
      match snd x with
      | ROk => ((if force then set_eng (fst x) (flush (eng (fst x))) else fst x), ROk)
      | r => (fst x, r)
      end
  | CGeneric mutates guarded =>
      if negb mutates then (n, ROk)
      else if guarded && ro n then (n, RRoErr)
      else (n, RUnknown)
  end.

(* ---------- reads ---------- *)

Definition node_get (n : node) (k : bytes) : option bytes := get (eng n) k.

(* transaction read: buffer first, then the storage (no snapshot); the result is the error
   when the handle is unknown or finished *)
Definition tx_get (n : node) (h : nat) (k : bytes) : res * option bytes :=
  match nth_error (txs n) h with
  | None => (RNotFound, None)
  | Some t => if negb (tx_open t) then (gone t, None) else
      (ROk, match buf_last k (tx_buf t) with
            | Some x => x
            | None => get (eng n) k
            end)
  end.

(* the live keys among a universe of keys, in the given order (the driver passes the sorted
   keys of the case): what a full scan returns *)
Definition node_scan (n : node) (univ : list bytes) : list (bytes * bytes) :=
  flat_map (fun k => match node_get n k with Some v => [(k, v)] | None => [] end) univ.

(* ---------- replication apply (EngineApplier) ---------- *)

Inductive rop :=
| RPutE (k v : bytes)        (* wal.OpTypePut *)
| RDelE (k : bytes)          (* wal.OpTypeDelete *)
| RMergeE (k v : bytes)      (* wal.OpTypeMerge: accepted, no effect (there is no merge operator; the
                                primary's write path and recovery give such an entry no effect
                                either — /repo 8b33636) *)
| RBadE                      (* any other entry type *)
| RSync.                     (* EngineApplier.Sync = FlushImMemTables *)

(* what an applied entry does to the data of a bare engine *)
Definition apply_eng (e : st) (r : rop) : st * res :=
  match r with
  | RPutE k v => wr (put e k v)
  | RDelE k => wr (del e k)
  | RMergeE _ _ => (e, ROk)
  | RBadE => (e, RBadType)
  | RSync => (flush e, ROk)
  end.

(* EngineApplier.Apply: one facade call in every branch.
   read-only engine: PutInternal / DeleteInternal — the flag is neither read nor written.
   writable engine: engine.Put / engine.Delete. A merge entry returns nil without a call. *)
Definition step_repl (n : node) (r : rop) : node * res :=
  let x := apply_eng (eng n) r in
  (set_eng n (fst x), snd x).

(* ---------- interleavings: atomic actions ---------- *)

Inductive act :=
| AClient (c : cop)
| ARepl (r : rop)                 (* an Apply / Sync: one facade call *)
| ASetRO (b : bool).              (* EngineFacade.SetReadOnly (the replication manager at start-up;
                                     nothing else in the module calls it) *)

Definition step_act (n : node) (a : act) : node * res :=
  match a with
  | AClient c => step_client n c
  | ARepl r => step_repl n r
  | ASetRO b => (set_ro n b, ROk)
  end.

Fixpoint run_acts (n : node) (l : list act) : node * list res :=
  match l with
  | [] => (n, [])
  | a :: r => let x := step_act n a in
              let y := run_acts (fst x) r in
              (fst y, snd x :: snd y)
  end.

(* how Apply(entry) unfolds into facade calls, given the flag it reads first: a single call,
   whatever the entry type and the flag *)
Definition expand (is_ro : bool) (r : rop) : list act := [ARepl r].

(* ---------- node information ---------- *)

Record info := mkInfo { i_role : role; i_paddr : bytes; i_ro : bool }.

(* KevoServiceServer.GetNodeInfo over Manager.GetNodeInfo *)
Definition node_info (n : node) : info :=
  let c := rc n in
  if negb (has_mgr c) then mkInfo RStandalone [] false else
  mkInfo (mode c)
         (match mode c with RReplica => primary_addr c | RPrimary => listen_addr c | RStandalone => [] end)
         (ro n).
