(* SkipConc.v — C18, concurrent readers: a pointer-level model of one writer's
   SkipList.Insert as the sequence of atomic stores the code performs, and of readers whose
   individual pointer loads interleave arbitrarily with those stores. *)
From Coq Require Import List NArith Bool Lia ZifyN ZifyNat ZifyBool Sorted Permutation PeanoNat.
From KV Require Import Bytes Memtable MemtableProofs.
Import ListNotations.
Local Open Scope nat_scope.

(* ------------------------------------------------------------------------------------- *)
(* heap model                                                                             *)
(* ------------------------------------------------------------------------------------- *)

Definition addr := nat.

(* node.entry and node.next[level] (an array of atomic pointers; None = nil) *)
Record node := mkNode { n_entry : mentry; n_next : nat -> option addr }.

Definition heap := addr -> option node.

(* the head sentinel lives at address 0; its entry is never looked at *)
Definition head : addr := O.

Definition dflt_entry : mentry := mkM [] 0%N KVal [].

Definition entry_of (h : heap) (a : addr) : mentry :=
  match h a with Some nd => n_entry nd | None => dflt_entry end.

Definition ents (h : heap) (l : list addr) : list mentry := map (entry_of h) l.

(* n.getNext(lv) *)
Definition load (h : heap) (a : addr) (lv : nat) : option addr :=
  match h a with Some nd => n_next nd lv | None => None end.

(* n.setNext(lv, v) *)
Definition store (h : heap) (a : addr) (lv : nat) (v : option addr) : heap :=
  fun b => if Nat.eqb b a
           then match h a with
                | Some nd => Some (mkNode (n_entry nd)
                                          (fun l => if Nat.eqb l lv then v else n_next nd l))
                | None => None
                end
           else h b.

(* The second loop of Insert, for level = 0 .. height-1:
     Link1 level:  node.next[level] := prev[level].next[level]
     Link2 level:  prev[level].next[level] := node
   (the load inside Link1 reads a location only this writer stores to, so fusing it with
   the store changes nothing a reader can observe) *)
Inductive wop := Link1 (lv : nat) | Link2 (lv : nat).

Definition wexec (n : addr) (prev : nat -> addr) (h : heap) (o : wop) : heap :=
  match o with
  | Link1 lv => store h n lv (load h (prev lv) lv)
  | Link2 lv => store h (prev lv) lv (Some n)
  end.

Fixpoint insert_ops (lv count : nat) : list wop :=
  match count with
  | O => []
  | S c => Link1 lv :: Link2 lv :: insert_ops (S lv) c
  end.

Definition insert_prog (height : nat) : list wop := insert_ops 0 height.

Definition run (n : addr) (prev : nat -> addr) (h : heap) (ops : list wop) : heap :=
  fold_left (wexec n prev) ops h.

(* executable chain traversal (for the examples): follow next[lv] from p *)
Fixpoint chain_of (h : heap) (lv : nat) (fuel : nat) (p : option addr) : option (list addr) :=
  match p with
  | None => Some []
  | Some a =>
      match fuel with
      | O => None
      | S f => match h a with
               | None => None
               | Some nd => match chain_of h lv f (n_next nd lv) with
                            | Some l => Some (a :: l)
                            | None => None
                            end
               end
      end
  end.

(* ------------------------------------------------------------------------------------- *)
(* chains as a relation: seg h lv p l q = following next[lv] from pointer p visits exactly  *)
(* the nodes l and arrives at pointer q                                                   *)
(* ------------------------------------------------------------------------------------- *)

Inductive seg (h : heap) (lv : nat) : option addr -> list addr -> option addr -> Prop :=
| seg_nil : forall p, seg h lv p [] p
| seg_cons : forall a nd l q,
    h a = Some nd -> seg h lv (n_next nd lv) l q -> seg h lv (Some a) (a :: l) q.

(* a finite chain ending in nil *)
Definition path (h : heap) (lv : nat) (p : option addr) (l : list addr) : Prop := seg h lv p l None.

Definition hd_or (l : list addr) (q : option addr) : option addr :=
  match l with [] => q | b :: _ => Some b end.

Lemma store_other : forall h a lv v b, b <> a -> store h a lv v b = h b.
Proof.
  intros h a lv v b Hne. unfold store. destruct (Nat.eqb b a) eqn:E; [|reflexivity].
  apply Nat.eqb_eq in E. contradiction.
Qed.

Lemma store_same : forall h a lv v nd, h a = Some nd ->
  store h a lv v a =
  Some (mkNode (n_entry nd) (fun l => if Nat.eqb l lv then v else n_next nd l)).
Proof. intros h a lv v nd H. unfold store. rewrite Nat.eqb_refl, H. reflexivity. Qed.

Lemma store_alloc : forall h a lv v b,
  (exists nd, h b = Some nd) -> exists nd, store h a lv v b = Some nd.
Proof.
  intros h a lv v b [nd H]. destruct (Nat.eq_dec b a) as [->|Hne].
  - eexists. apply store_same. exact H.
  - exists nd. rewrite store_other by exact Hne. exact H.
Qed.

Lemma entry_store : forall h a lv v b, entry_of (store h a lv v) b = entry_of h b.
Proof.
  intros h a lv v b. unfold entry_of, store. destruct (Nat.eqb b a) eqn:E; [|reflexivity].
  apply Nat.eqb_eq in E. subst b. destruct (h a); reflexivity.
Qed.

Lemma load_store_same : forall h a lv v,
  (exists nd, h a = Some nd) -> load (store h a lv v) a lv = v.
Proof.
  intros h a lv v [nd H]. unfold load. rewrite (store_same h a lv v nd H).
  cbn [n_next]. rewrite Nat.eqb_refl. reflexivity.
Qed.

Lemma load_store_other_level : forall h a lv v b lv',
  lv' <> lv -> load (store h a lv v) b lv' = load h b lv'.
Proof.
  intros h a lv v b lv' Hne. unfold load. destruct (Nat.eq_dec b a) as [->|Hb].
  - destruct (h a) as [nd|] eqn:Ha.
    + rewrite (store_same h a lv v nd Ha). cbn [n_next].
      apply Nat.eqb_neq in Hne. rewrite Hne. reflexivity.
    + unfold store. rewrite Nat.eqb_refl, Ha. reflexivity.
  - rewrite store_other by exact Hb. reflexivity.
Qed.

Lemma load_store_other_addr : forall h a lv v b lv',
  b <> a -> load (store h a lv v) b lv' = load h b lv'.
Proof. intros h a lv v b lv' Hb. unfold load. rewrite store_other by exact Hb. reflexivity. Qed.

Lemma seg_app : forall h lv p l1 m l2 q,
  seg h lv p l1 m -> seg h lv m l2 q -> seg h lv p (l1 ++ l2) q.
Proof.
  intros h lv p l1 m l2 q H1 H2. induction H1 as [p|a nd l m Ha Hs IH]; [exact H2|].
  cbn [app]. econstructor; [exact Ha|]. apply IH. exact H2.
Qed.

Lemma seg_split : forall h lv l1 l2 p q,
  seg h lv p (l1 ++ l2) q -> exists m, seg h lv p l1 m /\ seg h lv m l2 q.
Proof.
  intros h lv. induction l1 as [|a l1 IH]; intros l2 p q H.
  - exists p. split; [constructor|exact H].
  - cbn [app] in H. inversion H as [|a' nd l' q' Ha Hs]; subst.
    destruct (IH l2 _ _ Hs) as (m & H1 & H2).
    exists m. split; [econstructor; eauto|exact H2].
Qed.

Lemma seg_start : forall h lv p a l q, seg h lv p (a :: l) q -> p = Some a.
Proof. intros h lv p a l q H. inversion H; subst. reflexivity. Qed.

Lemma seg_nil_inv : forall h lv p q, seg h lv p [] q -> p = q.
Proof. intros h lv p q H. inversion H; subst. reflexivity. Qed.

Lemma seg_load : forall h lv a l q, seg h lv (Some a) (a :: l) q ->
  load h a lv = hd_or l q /\ seg h lv (load h a lv) l q.
Proof.
  intros h lv a l q H. inversion H as [|a' nd l' q' Ha Hs]; subst.
  unfold load. rewrite Ha. split; [|exact Hs].
  destruct l as [|b l]; cbn [hd_or].
  - apply seg_nil_inv in Hs. exact Hs.
  - apply seg_start in Hs. exact Hs.
Qed.

Lemma seg_store_notin : forall h lv a lv' v p l q,
  ~ In a l -> seg h lv p l q -> seg (store h a lv' v) lv p l q.
Proof.
  intros h lv a lv' v p l q Hn H. induction H as [p|b nd l q Hb Hs IH]; [constructor|].
  econstructor.
  - rewrite store_other; [exact Hb|]. intros ->. apply Hn. left. reflexivity.
  - apply IH. intros Hin. apply Hn. right. exact Hin.
Qed.

Lemma seg_store_other : forall h lv a lv' v p l q,
  lv' <> lv -> seg h lv p l q -> seg (store h a lv' v) lv p l q.
Proof.
  intros h lv a lv' v p l q Hne H. induction H as [p|b nd l q Hb Hs IH]; [constructor|].
  destruct (Nat.eq_dec b a) as [->|Hba].
  - eapply seg_cons; [apply store_same; exact Hb|]. cbn [n_next].
    assert (E : Nat.eqb lv lv' = false) by (apply Nat.eqb_neq; auto).
    rewrite E. exact IH.
  - eapply seg_cons; [rewrite store_other by exact Hba; exact Hb|exact IH].
Qed.

Lemma path_det : forall h lv l1 p l2, path h lv p l1 -> path h lv p l2 -> l1 = l2.
Proof.
  intros h lv. unfold path. induction l1 as [|a l1 IH]; intros p l2 H1 H2.
  - apply seg_nil_inv in H1. subst p. inversion H2; subst. reflexivity.
  - inversion H1 as [|a' nd l' q' Ha Hs]; subst.
    inversion H2 as [|a' nd' l2' q' Ha' Hs']; subst.
    rewrite Ha in Ha'. injection Ha' as <-. f_equal. eapply IH; eauto.
Qed.

Lemma path_nodup : forall h lv l p, path h lv p l -> NoDup l.
Proof.
  intros h lv. unfold path. induction l as [|a l IH]; intros p H; [constructor|].
  pose proof H as H0. inversion H as [|a' nd l' q' Ha Hs]; subst.
  constructor; [|eapply IH; eauto].
  intros Hin. apply in_split in Hin. destruct Hin as (l1 & l2 & E).
  rewrite E in Hs. apply seg_split in Hs. destruct Hs as (m & _ & Hm).
  pose proof (seg_start _ _ _ _ _ _ Hm) as ->.
  pose proof (path_det h lv _ _ _ H0 Hm) as E2. injection E2 as E2.
  rewrite E in E2. apply (f_equal (@length addr)) in E2. rewrite app_length in E2.
  cbn [length] in E2. lia.
Qed.

Lemma chain_of_path : forall h lv fuel p l, chain_of h lv fuel p = Some l -> path h lv p l.
Proof.
  intros h lv. unfold path. induction fuel as [|f IH]; intros p l H.
  - destruct p as [a|]; cbn [chain_of] in H; [discriminate|]. injection H as <-. constructor.
  - destruct p as [a|]; cbn [chain_of] in H; [|injection H as <-; constructor].
    destruct (h a) as [nd|] eqn:Ha; [|discriminate].
    destruct (chain_of h lv f (n_next nd lv)) as [l'|] eqn:C; [|discriminate].
    injection H as <-. econstructor; [exact Ha|]. apply IH. exact C.
Qed.

(* linking n (whose next[lv] already points to the successor) after b *)
Lemma path_splice : forall h lv p P b Bl n,
  path h lv p (P ++ b :: Bl) -> ~ In n (P ++ b :: Bl) ->
  (exists nd, h n = Some nd) -> load h n lv = hd_or Bl None ->
  path (store h b lv (Some n)) lv p (P ++ b :: n :: Bl).
Proof.
  intros h lv p P b Bl n Hp Hn [ndn Hnn] Hl. unfold path in *.
  pose proof (path_nodup h lv _ _ Hp) as Hnd.
  apply NoDup_remove_2 in Hnd.
  assert (HbP : ~ In b P) by (intros X; apply Hnd; apply in_or_app; left; exact X).
  assert (HbB : ~ In b Bl) by (intros X; apply Hnd; apply in_or_app; right; exact X).
  assert (Hnb : n <> b) by (intros ->; apply Hn; apply in_or_app; right; left; reflexivity).
  apply seg_split in Hp. destruct Hp as (m & H1 & H2).
  pose proof (seg_start _ _ _ _ _ _ H2) as ->.
  inversion H2 as [|b' ndb l' q' Hb Hs]; subst.
  assert (Es : n_next ndb lv = hd_or Bl None).
  { destruct Bl as [|c Bl]; cbn [hd_or].
    - apply seg_nil_inv in Hs. exact Hs.
    - apply seg_start in Hs. exact Hs. }
  eapply seg_app; [apply seg_store_notin; [exact HbP|exact H1]|].
  eapply seg_cons; [apply store_same; exact Hb|]. cbn [n_next]. rewrite Nat.eqb_refl.
  eapply seg_cons; [rewrite store_other by exact Hnb; exact Hnn|].
  unfold load in Hl. rewrite Hnn in Hl. rewrite Hl, <- Es.
  apply seg_store_notin; [exact HbB|exact Hs].
Qed.

(* ------------------------------------------------------------------------------------- *)
(* list utilities                                                                         *)
(* ------------------------------------------------------------------------------------- *)

Section TW.
Context {T : Type} (p : T -> bool).

Fixpoint takeW (l : list T) : list T :=
  match l with [] => [] | x :: r => if p x then x :: takeW r else [] end.
Fixpoint dropW (l : list T) : list T :=
  match l with [] => [] | x :: r => if p x then dropW r else l end.

Lemma takeW_dropW : forall l, takeW l ++ dropW l = l.
Proof.
  induction l as [|x r IH]; [reflexivity|]. cbn [takeW dropW].
  destruct (p x); [cbn [app]; f_equal; exact IH|reflexivity].
Qed.

Lemma takeW_all : forall l, Forall (fun x => p x = true) (takeW l).
Proof.
  induction l as [|x r IH]; [constructor|]. cbn [takeW].
  destruct (p x) eqn:E; constructor; assumption.
Qed.

Lemma split_filter : forall a b,
  Forall (fun x => p x = true) a -> Forall (fun x => p x = false) b ->
  filter p (a ++ b) = a /\ filter (fun x => negb (p x)) (a ++ b) = b.
Proof.
  induction a as [|x a IH]; intros b Ha Hb.
  - cbn [app]. split.
    + induction b as [|y b IHb]; [reflexivity|]. inversion Hb as [|? ? Hy Hr]; subst.
      cbn [filter]. rewrite Hy. apply IHb. exact Hr.
    + induction b as [|y b IHb]; [reflexivity|]. inversion Hb as [|? ? Hy Hr]; subst.
      cbn [filter]. rewrite Hy. cbn [negb]. f_equal. apply IHb. exact Hr.
  - inversion Ha as [|? ? Hx Hr]; subst. destruct (IH b Hr Hb) as [E1 E2].
    cbn [app filter]. rewrite Hx. cbn [negb]. split; [f_equal; exact E1|exact E2].
Qed.
End TW.

(* lastd d l = last element of d :: l, initd d l = d :: l without it *)
Fixpoint lastd (d : addr) (l : list addr) : addr :=
  match l with [] => d | a :: r => lastd a r end.
Fixpoint initd (d : addr) (l : list addr) : list addr :=
  match l with [] => [] | a :: r => d :: initd a r end.

Lemma initd_lastd : forall l d, d :: l = initd d l ++ [lastd d l].
Proof.
  induction l as [|a l IH]; intros d; [reflexivity|].
  cbn [initd lastd app]. f_equal. apply IH.
Qed.

Inductive subseq {T : Type} : list T -> list T -> Prop :=
| ss_nil : subseq [] []
| ss_skip : forall x l1 l2, subseq l1 l2 -> subseq l1 (x :: l2)
| ss_take : forall x l1 l2, subseq l1 l2 -> subseq (x :: l1) (x :: l2).

Lemma subseq_refl : forall (T : Type) (l : list T), subseq l l.
Proof. induction l; constructor; assumption. Qed.

Lemma subseq_nil_l : forall (T : Type) (l : list T), subseq [] l.
Proof. induction l; constructor; assumption. Qed.

Lemma subseq_trans : forall (T : Type) (l2 l3 : list T),
  subseq l2 l3 -> forall l1, subseq l1 l2 -> subseq l1 l3.
Proof.
  intros T l2 l3 H. induction H as [|x l2 l3 H IH|x l2 l3 H IH]; intros l1 H1.
  - exact H1.
  - apply ss_skip. apply IH. exact H1.
  - inversion H1 as [|y a b Hs|y a b Hs]; subst.
    + apply ss_skip. apply IH. exact Hs.
    + apply ss_take. apply IH. exact Hs.
Qed.

Lemma subseq_app : forall (T : Type) (a1 a2 b1 b2 : list T),
  subseq a1 a2 -> subseq b1 b2 -> subseq (a1 ++ b1) (a2 ++ b2).
Proof.
  intros T a1 a2 b1 b2 Ha Hb. induction Ha; cbn [app]; [exact Hb| |]; constructor; assumption.
Qed.

Lemma subseq_filter : forall (T : Type) (p : T -> bool) (l1 l2 : list T),
  subseq l1 l2 -> subseq (filter p l1) (filter p l2).
Proof.
  intros T p l1 l2 H. induction H as [|x l1 l2 H IH|x l1 l2 H IH]; cbn [filter].
  - constructor.
  - destruct (p x); [apply ss_skip|]; exact IH.
  - destruct (p x); [apply ss_take|]; exact IH.
Qed.

Lemma subseq_map : forall (T U : Type) (f : T -> U) (l1 l2 : list T),
  subseq l1 l2 -> subseq (map f l1) (map f l2).
Proof. intros T U f l1 l2 H. induction H; cbn [map]; constructor; assumption. Qed.

Lemma subseq_incl : forall (T : Type) (l1 l2 : list T), subseq l1 l2 -> incl l1 l2.
Proof.
  intros T l1 l2 H. induction H as [|x l1 l2 H IH|x l1 l2 H IH]; intros y Hy.
  - exact Hy.
  - right. apply IH. exact Hy.
  - destruct Hy as [->|Hy]; [left; reflexivity|right; apply IH; exact Hy].
Qed.

Lemma subseq_mid : forall (T : Type) (a b : list T) x, subseq (a ++ b) (a ++ x :: b).
Proof.
  intros T a b x. apply subseq_app; [apply subseq_refl|]. apply ss_skip. apply subseq_refl.
Qed.

Lemma sorted_subseq : forall l1 l2 : list mentry, subseq l1 l2 -> sorted l2 -> sorted l1.
Proof.
  intros l1 l2 H. induction H as [|x l1 l2 H IH|x l1 l2 H IH]; intros Hs.
  - exact Hs.
  - apply sorted_cons_inv in Hs. apply IH. apply Hs.
  - apply sorted_cons_inv in Hs. destruct Hs as [Hs Hf].
    apply sorted_strong. constructor; [apply sorted_strong; apply IH; exact Hs|].
    apply Forall_forall. intros y Hy. rewrite Forall_forall in Hf. apply Hf.
    apply (subseq_incl _ _ _ H). exact Hy.
Qed.

Lemma insert_split : forall e a b,
  Forall (fun x => elt x e = true) a -> Forall (fun x => elt x e = false) b ->
  insert e (a ++ b) = a ++ e :: b.
Proof.
  intros e. induction a as [|x a IH]; intros b Ha Hb.
  - cbn [app]. destruct b as [|y b]; [reflexivity|]. inversion Hb as [|? ? Hy _]; subst.
    cbn [insert]. rewrite Hy. reflexivity.
  - inversion Ha as [|? ? Hx Hr]; subst. cbn [app insert]. rewrite Hx. f_equal.
    apply IH; assumption.
Qed.

Lemma nodup_split_unique : forall (x1 y1 x2 y2 : list addr) a,
  NoDup (x1 ++ a :: y1) -> x1 ++ a :: y1 = x2 ++ a :: y2 -> x1 = x2 /\ y1 = y2.
Proof.
  induction x1 as [|b x1 IH]; intros y1 x2 y2 a Hnd E.
  - destruct x2 as [|c x2]; cbn [app] in E.
    + injection E as E. split; [reflexivity|exact E].
    + injection E as E1 E2. subst c. exfalso. cbn [app] in Hnd. inversion Hnd as [|? ? Hn _]; subst.
      apply Hn. apply in_or_app. right. left. reflexivity.
  - destruct x2 as [|c x2]; cbn [app] in E.
    + injection E as E1 E2. subst b. exfalso. cbn [app] in Hnd. inversion Hnd as [|? ? Hn _]; subst.
      apply Hn. apply in_or_app. right. left. reflexivity.
    + injection E as E1 E2. subst c. cbn [app] in Hnd. inversion Hnd as [|? ? _ Hnd']; subst.
      destruct (IH _ _ _ _ Hnd' E2) as [-> ->]. split; reflexivity.
Qed.

(* ------------------------------------------------------------------------------------- *)
(* well-formed heaps and the specification of prev[]                                      *)
(* ------------------------------------------------------------------------------------- *)

(* ls lv = the nodes after head on level lv. Level 0 is sorted and finite, every level is a
   finite chain ending in nil and a sub-chain of the level below. *)
Definition wf_heap (h : heap) (ls : nat -> list addr) : Prop :=
  (forall lv, path h lv (Some head) (head :: ls lv)) /\
  sorted (ents h (ls 0)) /\
  (forall lv, subseq (ls (S lv)) (ls lv)).

(* the node being inserted: allocated by newNode, not yet linked anywhere *)
Definition fresh_node (h : heap) (ls : nat -> list addr) (n : addr) (e : mentry) : Prop :=
  n <> head /\ (exists nd, h n = Some nd /\ n_entry nd = e) /\ (forall lv, ~ In n (ls lv)).

(* compareWithEntry(e) < 0 on the node at address a *)
Definition lessA (h : heap) (e : mentry) (a : addr) : bool := elt (entry_of h a) e.

Definition before (h : heap) (e : mentry) (l : list addr) : list addr := takeW (lessA h e) l.
Definition after (h : heap) (e : mentry) (l : list addr) : list addr := dropW (lessA h e) l.

(* what the search loop leaves in prev[lv]: the last node of the level-lv chain that is
   smaller than e, head if there is none *)
Definition pred_of (h : heap) (e : mentry) (l : list addr) : addr := lastd head (before h e l).

(* a chain with n linked at its sorted position *)
Definition linked_in (h : heap) (e : mentry) (n : addr) (l : list addr) : list addr :=
  before h e l ++ n :: after h e l.

Lemma ents_ext : forall h h' l, (forall a, entry_of h' a = entry_of h a) -> ents h' l = ents h l.
Proof. intros h h' l H. unfold ents. apply map_ext. exact H. Qed.

Lemma after_nless : forall h e l, sorted (ents h l) ->
  Forall (fun a => lessA h e a = false) (after h e l).
Proof.
  intros h e l. unfold after. induction l as [|a r IH]; intros Hs; [constructor|].
  unfold ents in Hs. cbn [map] in Hs. fold (ents h r) in Hs.
  apply sorted_cons_inv in Hs. destruct Hs as [Hs Hf]. cbn [dropW].
  destruct (lessA h e a) eqn:L; [apply IH; exact Hs|].
  constructor; [exact L|]. apply Forall_forall. intros b Hb. unfold lessA in *.
  destruct (elt (entry_of h b) e) eqn:Lb; [|reflexivity].
  rewrite Forall_forall in Hf.
  assert (Hab : ele (entry_of h a) (entry_of h b)) by (apply Hf; unfold ents; apply in_map; exact Hb).
  rewrite (ele_elt_trans _ _ _ Hab Lb) in L. discriminate.
Qed.

Lemma before_less : forall h e l, Forall (fun a => lessA h e a = true) (before h e l).
Proof. intros h e l. apply takeW_all. Qed.

Lemma before_after : forall h e l, before h e l ++ after h e l = l.
Proof. intros h e l. apply takeW_dropW. Qed.

Lemma before_filter : forall h e l, sorted (ents h l) ->
  before h e l = filter (lessA h e) l /\
  after h e l = filter (fun a => negb (lessA h e a)) l.
Proof.
  intros h e l Hs.
  destruct (split_filter (lessA h e) (before h e l) (after h e l)
              (before_less h e l) (after_nless h e l Hs)) as [E1 E2].
  rewrite before_after in E1, E2. split; symmetry; assumption.
Qed.

Lemma ents_linked_in : forall h e n l, sorted (ents h l) -> entry_of h n = e ->
  ents h (linked_in h e n l) = insert e (ents h l).
Proof.
  intros h e n l Hs Hn. unfold linked_in, ents. rewrite map_app. cbn [map]. rewrite Hn.
  transitivity (insert e (map (entry_of h) (before h e l ++ after h e l)));
    [|rewrite before_after; reflexivity].
  rewrite map_app. symmetry. apply insert_split.
  - apply Forall_forall. intros x Hx. apply in_map_iff in Hx. destruct Hx as (a & <- & Ha).
    pose proof (before_less h e l) as F. rewrite Forall_forall in F. exact (F a Ha).
  - apply Forall_forall. intros x Hx. apply in_map_iff in Hx. destruct Hx as (a & <- & Ha).
    pose proof (after_nless h e l Hs) as F. rewrite Forall_forall in F. exact (F a Ha).
Qed.

Lemma wf_level_sorted : forall h ls, wf_heap h ls -> forall lv, sorted (ents h (ls lv)).
Proof.
  intros h ls (Hp & Hs & Hsub). induction lv as [|lv IH]; [exact Hs|].
  eapply sorted_subseq; [|exact IH]. unfold ents. apply subseq_map. apply Hsub.
Qed.

(* ------------------------------------------------------------------------------------- *)
(* C1: the invariant along the store sequence of one Insert                               *)
(* ------------------------------------------------------------------------------------- *)

Section OneInsert.
Variables (h0 : heap) (ls : nat -> list addr) (e : mentry) (n : addr).
Hypothesis Hwf : wf_heap h0 ls.
Hypothesis Hfresh : fresh_node h0 ls n e.

Let A (lv : nat) : list addr := before h0 e (ls lv).
Let B (lv : nat) : list addr := after h0 e (ls lv).
Let prev (lv : nat) : addr := pred_of h0 e (ls lv).

(* j levels are completely linked; half = Link1 j has been done as well *)
Definition Inv (j : nat) (half : bool) (h : heap) : Prop :=
  (forall a, entry_of h a = entry_of h0 a) /\
  (exists nd, h n = Some nd) /\
  (forall lv, (lv < j)%nat -> path h lv (Some head) (head :: linked_in h0 e n (ls lv))) /\
  (forall lv, (j <= lv)%nat -> path h lv (Some head) (head :: ls lv)) /\
  (half = true -> load h n j = hd_or (B j) None).

Lemma chain_split : forall lv, head :: ls lv = initd head (A lv) ++ prev lv :: B lv.
Proof.
  intros lv. unfold A, B, prev, pred_of.
  rewrite <- (before_after h0 e (ls lv)) at 1.
  rewrite app_comm_cons, (initd_lastd (before h0 e (ls lv)) head), <- app_assoc. reflexivity.
Qed.

Lemma linked_split : forall lv,
  head :: linked_in h0 e n (ls lv) = initd head (A lv) ++ prev lv :: n :: B lv.
Proof.
  intros lv. unfold linked_in. fold (A lv) (B lv). unfold prev, pred_of. fold (A lv).
  rewrite app_comm_cons, (initd_lastd (A lv) head), <- app_assoc. reflexivity.
Qed.

Lemma n_notin : forall lv, ~ In n (head :: ls lv).
Proof.
  intros lv [H|H].
  - destruct Hfresh as (Hh & _). congruence.
  - destruct Hfresh as (_ & _ & Hn). exact (Hn lv H).
Qed.

Lemma inv_init : Inv 0 false h0.
Proof.
  split; [reflexivity|]. split.
  - destruct Hfresh as (_ & (nd & Hn & _) & _). exists nd. exact Hn.
  - split; [intros lv Hlv; lia|]. split; [intros lv _; apply Hwf|discriminate].
Qed.

Lemma inv_link1 : forall j h, Inv j false h -> Inv j true (wexec n prev h (Link1 j)).
Proof.
  intros j h (He & Hn & Hlo & Hhi & _). cbn [wexec].
  split; [intros a; rewrite entry_store; apply He|].
  split; [apply store_alloc; exact Hn|]. split; [|split].
  - intros lv Hlv. apply seg_store_other; [lia|]. apply Hlo. exact Hlv.
  - intros lv Hlv. destruct (Nat.eq_dec lv j) as [->|Hne].
    + apply seg_store_notin; [apply n_notin|]. apply Hhi. lia.
    + apply seg_store_other; [lia|]. apply Hhi. exact Hlv.
  - intros _. rewrite load_store_same by exact Hn.
    pose proof (Hhi j (Nat.le_refl j)) as Hp. unfold path in Hp. rewrite chain_split in Hp.
    apply seg_split in Hp. destruct Hp as (m & _ & Hm).
    pose proof (seg_start _ _ _ _ _ _ Hm) as ->.
    apply seg_load in Hm. apply Hm.
Qed.

Lemma inv_link2 : forall j h, Inv j true h -> Inv (S j) false (wexec n prev h (Link2 j)).
Proof.
  intros j h (He & Hn & Hlo & Hhi & Hld). cbn [wexec].
  split; [intros a; rewrite entry_store; apply He|].
  split; [apply store_alloc; exact Hn|]. split; [|split].
  - intros lv Hlv. destruct (Nat.eq_dec lv j) as [->|Hne].
    + rewrite linked_split. apply path_splice.
      * rewrite <- chain_split. apply Hhi. lia.
      * rewrite <- chain_split. apply n_notin.
      * exact Hn.
      * apply Hld. reflexivity.
    + apply seg_store_other; [lia|]. apply Hlo. lia.
  - intros lv Hlv. apply seg_store_other; [lia|]. apply Hhi. lia.
  - discriminate.
Qed.

Lemma inv_prefix : forall c j h k, Inv j false h ->
  exists j' half', Inv j' half' (run n prev h (firstn k (insert_ops j c))) /\
                   (j' <= j + c)%nat.
Proof.
  induction c as [|c IH]; intros j h k H.
  - cbn [insert_ops]. rewrite firstn_nil. exists j, false. split; [exact H|lia].
  - cbn [insert_ops]. destruct k as [|[|k]].
    + exists j, false. split; [exact H|lia].
    + exists j, true. split; [apply inv_link1; exact H|lia].
    + cbn [firstn run fold_left]. fold (run n prev).
      destruct (IH (S j) _ k (inv_link2 j _ (inv_link1 j h H))) as (j' & hf & Hi & Hj).
      exists j', hf. split; [exact Hi|lia].
Qed.

Lemma inv_complete : forall c j h, Inv j false h ->
  Inv (j + c) false (run n prev h (insert_ops j c)).
Proof.
  induction c as [|c IH]; intros j h H.
  - cbn [insert_ops run fold_left]. rewrite Nat.add_0_r. exact H.
  - cbn [insert_ops run fold_left]. fold (run n prev).
    replace (j + S c)%nat with (S j + c)%nat by lia.
    apply IH. apply inv_link2. apply inv_link1. exact H.
Qed.

(* the chains a reader can see in a state satisfying Inv j _ *)
Definition ls_at (j : nat) (lv : nat) : list addr :=
  if Nat.ltb lv j then linked_in h0 e n (ls lv) else ls lv.

Lemma entry_n : entry_of h0 n = e.
Proof. destruct Hfresh as (_ & (nd & Hn & He) & _). unfold entry_of. rewrite Hn. exact He. Qed.

Lemma linked_subseq : forall lv,
  subseq (linked_in h0 e n (ls (S lv))) (linked_in h0 e n (ls lv)).
Proof.
  intros lv. unfold linked_in.
  destruct (before_filter h0 e _ (wf_level_sorted h0 ls Hwf lv)) as [-> ->].
  destruct (before_filter h0 e _ (wf_level_sorted h0 ls Hwf (S lv))) as [-> ->].
  destruct Hwf as (_ & _ & Hsub).
  apply subseq_app; [apply subseq_filter; apply Hsub|].
  apply ss_take. apply subseq_filter. apply Hsub.
Qed.

Lemma inv_wf : forall j half h, Inv j half h ->
  wf_heap h (ls_at j) /\
  (forall lv, sorted (ents h (ls_at j lv))) /\
  (forall lv, ents h (ls_at j lv) =
              if Nat.ltb lv j then insert e (ents h0 (ls lv)) else ents h0 (ls lv)) /\
  (forall lv, incl (ls lv) (ls_at j lv)).
Proof.
  intros j half h (He & Hn & Hlo & Hhi & _).
  assert (Hents : forall lv, ents h (ls_at j lv) =
            if Nat.ltb lv j then insert e (ents h0 (ls lv)) else ents h0 (ls lv)).
  { intros lv. rewrite (ents_ext h0 h _ He). unfold ls_at. destruct (Nat.ltb lv j); [|reflexivity].
    apply ents_linked_in; [apply (wf_level_sorted h0 ls Hwf)|apply entry_n]. }
  assert (Hsorted : forall lv, sorted (ents h (ls_at j lv))).
  { intros lv. rewrite Hents. destruct (Nat.ltb lv j).
    - apply insert_sorted. apply (wf_level_sorted h0 ls Hwf).
    - apply (wf_level_sorted h0 ls Hwf). }
  split; [|split; [exact Hsorted|split; [exact Hents|]]].
  - split; [|split; [apply Hsorted|]].
    + intros lv. unfold ls_at. destruct (Nat.ltb lv j) eqn:L.
      * apply Hlo. apply Nat.ltb_lt. exact L.
      * apply Hhi. apply Nat.ltb_ge. exact L.
    + intros lv. unfold ls_at. destruct (Nat.ltb (S lv) j) eqn:L1; destruct (Nat.ltb lv j) eqn:L2.
      * apply linked_subseq.
      * apply Nat.ltb_lt in L1. apply Nat.ltb_ge in L2. lia.
      * eapply subseq_trans; [|apply Hwf]. unfold linked_in.
        rewrite <- (before_after h0 e (ls lv)) at 1. apply subseq_mid.
      * apply Hwf.
  - intros lv. unfold ls_at. destruct (Nat.ltb lv j); [|apply incl_refl].
    unfold linked_in. rewrite <- (before_after h0 e (ls lv)) at 1.
    apply subseq_incl. apply subseq_mid.
Qed.

End OneInsert.

(* C1: after EVERY prefix of the store sequence the heap is well formed: every level is a
   finite sorted chain, each a sub-chain of the one below, nothing that was there is lost,
   no entry is modified, and every level shows either the old content or old + e *)
Theorem C18_wellformed_always : forall h0 ls e n height k,
  wf_heap h0 ls -> fresh_node h0 ls n e ->
  let prev := fun lv => pred_of h0 e (ls lv) in
  let h := run n prev h0 (firstn k (insert_prog height)) in
  exists ls',
    wf_heap h ls' /\
    (forall lv, sorted (ents h (ls' lv))) /\
    (forall a, entry_of h a = entry_of h0 a) /\
    (forall lv, incl (ls lv) (ls' lv)) /\
    (forall lv, ents h (ls' lv) = ents h0 (ls lv) \/
                ents h (ls' lv) = insert e (ents h0 (ls lv))).
Proof.
  intros h0 ls e n height k Hwf Hfr prev h.
  destruct (inv_prefix h0 ls e n Hfr height 0 h0 k (inv_init h0 ls e n Hwf Hfr))
    as (j & half & Hi & _).
  fold prev in Hi. unfold insert_prog in h. fold h in Hi.
  destruct (inv_wf h0 ls e n Hwf Hfr j half h Hi) as (W & S & E & I).
  exists (ls_at h0 ls e n j). split; [exact W|]. split; [exact S|]. split; [apply Hi|].
  split; [exact I|]. intros lv. rewrite E. destruct (Nat.ltb lv j); [right|left]; reflexivity.
Qed.

(* the finished Insert: node n is linked at its sorted position on levels < height *)
Theorem C18_insert_complete : forall h0 ls e n height,
  wf_heap h0 ls -> fresh_node h0 ls n e ->
  let prev := fun lv => pred_of h0 e (ls lv) in
  let h := run n prev h0 (insert_prog height) in
  let ls' := fun lv => if Nat.ltb lv height then linked_in h0 e n (ls lv) else ls lv in
  wf_heap h ls' /\
  (forall lv, ents h (ls' lv) =
              if Nat.ltb lv height then insert e (ents h0 (ls lv)) else ents h0 (ls lv)).
Proof.
  intros h0 ls e n height Hwf Hfr prev h ls'.
  pose proof (inv_complete h0 ls e n Hfr height 0 h0 (inv_init h0 ls e n Hwf Hfr)) as Hi.
  cbn [Nat.add] in Hi. fold prev in Hi. unfold insert_prog in h. fold h in Hi.
  destruct (inv_wf h0 ls e n Hwf Hfr height false h Hi) as (W & _ & E & _).
  split; [exact W|exact E].
Qed.

(* ------------------------------------------------------------------------------------- *)
(* C2: readers whose loads interleave with the writer's stores                            *)
(* ------------------------------------------------------------------------------------- *)

(* a level-0 traversal (iterator SeekToFirst/Next, the loop at the end of Find): r_cur is
   the node whose next[0] is loaded next, r_done the nodes visited so far (head first) *)
Record reader := mkR { r_cur : option addr; r_done : list addr }.

Definition r_init : reader := mkR (Some head) [].

(* one atomic load *)
Definition r_step (h : heap) (r : reader) : reader :=
  match r_cur r with
  | None => r
  | Some a => mkR (load h a 0) (r_done r ++ [a])
  end.

Record sys := mkSys { s_heap : heap; s_ops : list wop; s_readers : list reader }.

(* the scheduler: the writer performs its next store, or reader i performs its next load *)
Inductive tick := TW | TR (i : nat).

Fixpoint upd_nth {T : Type} (i : nat) (f : T -> T) (l : list T) : list T :=
  match l, i with
  | [], _ => []
  | x :: r, O => f x :: r
  | x :: r, S i' => x :: upd_nth i' f r
  end.

Definition sys_step (n : addr) (prev : nat -> addr) (s : sys) (t : tick) : sys :=
  match t with
  | TW => match s_ops s with
          | [] => s
          | o :: r => mkSys (wexec n prev (s_heap s) o) r (s_readers s)
          end
  | TR i => mkSys (s_heap s) (s_ops s) (upd_nth i (r_step (s_heap s)) (s_readers s))
  end.

Definition sys_run (n : addr) (prev : nat -> addr) (s : sys) (sched : list tick) : sys :=
  fold_left (sys_step n prev) sched s.

(* a reader positioned somewhere on the chain as it was before the insert began *)
Definition reader_ok (h0 : heap) (ls : nat -> list addr) (r : reader) : Prop :=
  exists rest, path h0 0 (r_cur r) rest /\ r_done r ++ rest = head :: ls 0.

Lemma upd_nth_Forall : forall (T : Type) (P : T -> Prop) (f : T -> T) l i,
  (forall x, P x -> P (f x)) -> Forall P l -> Forall P (upd_nth i f l).
Proof.
  intros T P f l. induction l as [|x r IH]; intros i Hf H; [destruct i; constructor|].
  inversion H as [|? ? Hx Hr]; subst. destruct i as [|i]; cbn [upd_nth].
  - constructor; [apply Hf; exact Hx|exact Hr].
  - constructor; [exact Hx|apply IH; assumption].
Qed.

Lemma upd_nth_length : forall (T : Type) (f : T -> T) l i, length (upd_nth i f l) = length l.
Proof.
  intros T f l. induction l as [|x r IH]; intros i; [destruct i; reflexivity|].
  destruct i; cbn [upd_nth length]; [reflexivity|f_equal; apply IH].
Qed.

Section Readers.
Variables (h0 : heap) (ls : nat -> list addr) (e : mentry) (n : addr).
Hypothesis Hwf : wf_heap h0 ls.
Hypothesis Hfresh : fresh_node h0 ls n e.

Let prev (lv : nat) : addr := pred_of h0 e (ls lv).
Let old : list addr := head :: ls 0.
Let new : list addr := head :: linked_in h0 e n (ls 0).

Definition RI (j : nat) (h : heap) (r : reader) : Prop :=
  exists rest, path h 0 (r_cur r) rest /\
    (r_done r ++ rest = old \/ (1 <= j /\ r_done r ++ rest = new)).

Lemma RI_link1 : forall j h r, Inv h0 ls e n j false h -> RI j h r ->
  RI j (wexec n prev h (Link1 j)) r.
Proof.
  intros j h r Hi (rest & Hp & Hd). exists rest. split; [|exact Hd]. cbn [wexec].
  destruct (Nat.eq_dec j 0) as [->|Hj].
  - destruct Hd as [Hd|[Hd _]]; [|lia].
    apply seg_store_notin; [|exact Hp]. intros Hin.
    apply (n_notin h0 ls e n Hfresh 0). fold old. rewrite <- Hd. apply in_or_app. right. exact Hin.
  - apply seg_store_other; [exact Hj|exact Hp].
Qed.

Lemma RI_link2 : forall j h r, Inv h0 ls e n j true h -> RI j h r ->
  RI (S j) (wexec n prev h (Link2 j)) r.
Proof.
  intros j h r Hi (rest & Hp & Hd). cbn [wexec].
  destruct (Nat.eq_dec j 0) as [->|Hj].
  - destruct Hd as [Hd|[Hd _]]; [|lia].
    destruct (in_dec Nat.eq_dec (prev 0) rest) as [Hin|Hnin].
    + apply in_split in Hin. destruct Hin as (r1 & r2 & ->).
      assert (Hnd : NoDup old).
      { unfold old. eapply path_nodup. apply Hwf. }
      pose proof (chain_split h0 ls e 0) as Hc. fold old in Hc. fold (prev 0) in Hc.
      assert (E : (r_done r ++ r1) ++ prev 0 :: r2 = old) by (rewrite <- app_assoc; exact Hd).
      rewrite Hc in E.
      assert (Hnd' : NoDup ((r_done r ++ r1) ++ prev 0 :: r2)) by (rewrite E, <- Hc; exact Hnd).
      destruct (nodup_split_unique _ _ _ _ _ Hnd' E) as [E1 E2].
      exists (r1 ++ prev 0 :: n :: r2). split.
      * apply path_splice.
        -- exact Hp.
        -- intros Hin. apply (n_notin h0 ls e n Hfresh 0). fold old. rewrite <- Hd.
           apply in_or_app. right. exact Hin.
        -- apply Hi.
        -- destruct Hi as (_ & _ & _ & _ & Hl). rewrite E2. apply Hl. reflexivity.
      * right. split; [lia|]. unfold new. rewrite (linked_split h0 ls e n 0).
        fold (prev 0). rewrite <- E1, <- E2, <- app_assoc. reflexivity.
    + exists rest. split; [|left; exact Hd]. apply seg_store_notin; assumption.
  - exists rest. split; [apply seg_store_other; [exact Hj|exact Hp]|].
    destruct Hd as [Hd|[_ Hd]]; [left; exact Hd|right; split; [lia|exact Hd]].
Qed.

Lemma RI_rstep : forall j h r, RI j h r -> RI j h (r_step h r).
Proof.
  intros j h r (rest & Hp & Hd). unfold r_step. destruct (r_cur r) as [a|] eqn:C.
  - destruct rest as [|b rest].
    + apply seg_nil_inv in Hp. discriminate.
    + pose proof (seg_start _ _ _ _ _ _ Hp) as Eb. injection Eb as <-.
      apply seg_load in Hp. destruct Hp as [_ Hp].
      exists rest. cbn [r_cur r_done]. split; [exact Hp|].
      rewrite <- app_assoc. exact Hd.
  - exists rest. rewrite C. split; assumption.
Qed.

Definition pending (j : nat) (half : bool) (c : nat) : list wop :=
  if half then Link2 j :: insert_ops (S j) c else insert_ops j c.

Definition G (s : sys) : Prop :=
  exists j half c, Inv h0 ls e n j half (s_heap s) /\ s_ops s = pending j half c /\
                   Forall (RI j (s_heap s)) (s_readers s).

Lemma G_step : forall s t, G s -> G (sys_step n prev s t).
Proof.
  intros s t (j & half & c & Hi & Ho & Hr). destruct t as [|i]; cbn [sys_step].
  - destruct (s_ops s) as [|o r] eqn:Eo; [exists j, half, c; rewrite Eo; auto|].
    destruct half; cbn [pending] in Ho.
    + injection Ho as -> ->. exists (S j), false, c. cbn [s_heap s_ops s_readers].
      split; [apply (inv_link2 h0 ls e n Hfresh); exact Hi|]. split; [reflexivity|].
      eapply Forall_impl; [|exact Hr]. intros r. apply RI_link2. exact Hi.
    + destruct c as [|c]; cbn [insert_ops] in Ho; [discriminate|].
      injection Ho as -> ->. exists j, true, c. cbn [s_heap s_ops s_readers].
      split; [apply (inv_link1 h0 ls e n Hfresh); exact Hi|]. split; [reflexivity|].
      eapply Forall_impl; [|exact Hr]. intros r. apply RI_link1. exact Hi.
  - exists j, half, c. cbn [s_heap s_ops s_readers]. split; [exact Hi|]. split; [exact Ho|].
    apply upd_nth_Forall; [|exact Hr]. intros r. apply RI_rstep.
Qed.

Lemma G_run : forall sched s, G s -> G (sys_run n prev s sched).
Proof.
  induction sched as [|t sched IH]; intros s H; [exact H|].
  cbn [sys_run fold_left]. apply IH. apply G_step. exact H.
Qed.

Lemma G_init : forall height rs, Forall (reader_ok h0 ls) rs ->
  G (mkSys h0 (insert_prog height) rs).
Proof.
  intros height rs Hr. exists 0, false, height. cbn [s_heap s_ops s_readers].
  split; [apply inv_init; assumption|]. split; [reflexivity|].
  eapply Forall_impl; [|exact Hr]. intros r (rest & Hp & Hd).
  exists rest. split; [exact Hp|left; exact Hd].
Qed.

Lemma sys_run_length : forall sched s,
  length (s_readers (sys_run n prev s sched)) = length (s_readers s).
Proof.
  induction sched as [|t sched IH]; intros s; [reflexivity|].
  change (length (s_readers (sys_run n prev (sys_step n prev s t) sched)) = length (s_readers s)).
  rewrite IH.
  destruct t as [|i]; cbn [sys_step].
  - destruct (s_ops s); reflexivity.
  - cbn [s_readers]. apply upd_nth_length.
Qed.

Lemma G_reader : forall s r, G s -> In r (s_readers s) ->
  (exists rest, r_done r ++ rest = old \/ r_done r ++ rest = new) /\
  (r_cur r = None ->
     let out := ents (s_heap s) (tl (r_done r)) in
     (out = ents h0 (ls 0) \/ out = insert e (ents h0 (ls 0))) /\ sorted out /\
     (forall x, In x (ents h0 (ls 0)) -> In x out)).
Proof.
  intros s r (j & half & c & Hi & _ & Hr) Hin.
  rewrite Forall_forall in Hr. destruct (Hr r Hin) as (rest & Hp & Hd).
  split; [exists rest; destruct Hd as [Hd|[_ Hd]]; [left|right]; exact Hd|].
  intros Hc out. rewrite Hc in Hp. inversion Hp; subst. rewrite app_nil_r in Hd.
  assert (He : forall a, entry_of (s_heap s) a = entry_of h0 a) by apply Hi.
  assert (Hs0 : sorted (ents h0 (ls 0))) by apply Hwf.
  unfold out. rewrite (ents_ext h0 (s_heap s) _ He).
  destruct Hd as [Hd|[_ Hd]]; unfold old, new in Hd; rewrite Hd; cbn [tl].
  - split; [left; reflexivity|]. split; [exact Hs0|auto].
  - rewrite (ents_linked_in h0 e n (ls 0) Hs0 (entry_n h0 ls e n Hfresh)).
    split; [right; reflexivity|]. split; [apply insert_sorted; exact Hs0|].
    intros x Hx. apply insert_in. right. exact Hx.
Qed.

End Readers.

Lemma reader_ok_init : forall h0 ls, wf_heap h0 ls -> reader_ok h0 ls r_init.
Proof.
  intros h0 ls Hwf. exists (head :: ls 0). split; [apply Hwf|reflexivity].
Qed.

(* C2: any number of readers, each load interleaved arbitrarily with the stores of one
   Insert (readers may already be under way when the insert begins, may start during it,
   and may still run after it has finished). Whatever a reader has seen so far is a prefix
   of the old or of the new chain; a reader that has reached nil returns a sorted list that
   is exactly the old content or the old content with e inserted. *)
Theorem C18_reader : forall h0 ls e n height rs sched,
  wf_heap h0 ls -> fresh_node h0 ls n e ->
  Forall (reader_ok h0 ls) rs ->
  let prev := fun lv => pred_of h0 e (ls lv) in
  let s := sys_run n prev (mkSys h0 (insert_prog height) rs) sched in
  length (s_readers s) = length rs /\
  forall r, In r (s_readers s) ->
    (exists rest, r_done r ++ rest = head :: ls 0 \/
                  r_done r ++ rest = head :: linked_in h0 e n (ls 0)) /\
    (r_cur r = None ->
       let out := ents (s_heap s) (tl (r_done r)) in
       (out = ents h0 (ls 0) \/ out = insert e (ents h0 (ls 0))) /\ sorted out /\
       (forall x, In x (ents h0 (ls 0)) -> In x out)).
Proof.
  intros h0 ls e n height rs sched Hwf Hfr Hrs prev s. split.
  - unfold s, prev. rewrite sys_run_length. reflexivity.
  - intros r Hin. apply (G_reader h0 ls e n Hwf Hfr s r); [|exact Hin].
    unfold s, prev. apply G_run; try assumption. apply G_init; assumption.
Qed.

(* ------------------------------------------------------------------------------------- *)
(* the first loop of Insert on the heap: the top-down search computes exactly pred_of     *)
(* ------------------------------------------------------------------------------------- *)

(* next := current.getNext(lv); for next != nil && next.entry.compareWithEntry(e) < 0 {...} *)
Fixpoint h_walk (h : heap) (e : mentry) (lv : nat) (fuel : nat) (cur : addr) : addr :=
  match fuel with
  | O => cur
  | S f => match load h cur lv with
           | None => cur
           | Some nx => if lessA h e nx then h_walk h e lv f nx else cur
           end
  end.

(* for level := lv downto 0 { walk; prev[level] = current } *)
Fixpoint h_descend (h : heap) (e : mentry) (fuel : nat) (lv : nat) (cur : addr)
                   (prevs : nat -> addr) : nat -> addr :=
  let c := h_walk h e lv fuel cur in
  let prevs' := fun l => if Nat.eqb l lv then c else prevs l in
  match lv with
  | O => prevs'
  | S lv' => h_descend h e fuel lv' c prevs'
  end.

Definition h_prevs (h : heap) (e : mentry) (fuel : nat) (height : nat) : nat -> addr :=
  match height with
  | O => fun _ => head
  | S top => h_descend h e fuel top head (fun _ => head)
  end.

Lemma lastd_app : forall P d c R, lastd d (P ++ c :: R) = lastd c R.
Proof. induction P as [|a P IH]; intros d c R; [reflexivity|]. cbn [app lastd]. apply IH. Qed.

Lemma after_head : forall h e l,
  match after h e l with [] => True | b :: _ => lessA h e b = false end.
Proof.
  intros h e l. unfold after. induction l as [|a r IH]; [exact I|]. cbn [dropW].
  destruct (lessA h e a) eqn:L; [exact IH|exact L].
Qed.

Lemma h_walk_spec : forall h e lv l R1 P cur fuel,
  path h lv (Some head) (P ++ cur :: R1 ++ after h e l) ->
  Forall (fun a => lessA h e a = true) R1 -> length R1 <= fuel ->
  h_walk h e lv fuel cur = lastd cur R1.
Proof.
  intros h e lv l. induction R1 as [|x R1 IH]; intros P cur fuel Hp Hl Hf.
  - cbn [lastd]. destruct fuel as [|f]; [reflexivity|]. cbn [h_walk].
    unfold path in Hp. apply seg_split in Hp. destruct Hp as (m & _ & Hm).
    pose proof (seg_start _ _ _ _ _ _ Hm) as ->. apply seg_load in Hm. destruct Hm as [Hm _].
    rewrite Hm. cbn [app]. pose proof (after_head h e l) as Hh.
    destruct (after h e l) as [|b Bf]; cbn [hd_or]; [reflexivity|]. rewrite Hh. reflexivity.
  - cbn [length] in Hf. destruct fuel as [|f]; [lia|]. cbn [h_walk lastd].
    inversion Hl as [|? ? Hx Hr]; subst.
    pose proof Hp as Hp0. unfold path in Hp. apply seg_split in Hp. destruct Hp as (m & _ & Hm).
    pose proof (seg_start _ _ _ _ _ _ Hm) as ->. apply seg_load in Hm. destruct Hm as [Hm _].
    rewrite Hm. cbn [app hd_or]. rewrite Hx.
    apply (IH (P ++ [cur])); [|exact Hr|lia].
    rewrite <- app_assoc. exact Hp0.
Qed.

Lemma subseq_length : forall (T : Type) (l1 l2 : list T), subseq l1 l2 -> length l1 <= length l2.
Proof. intros T l1 l2 H. induction H; cbn [length]; lia. Qed.

Section HeapSearch.
Variables (h : heap) (ls : nat -> list addr) (e : mentry) (fuel : nat).
Hypothesis Hwf : wf_heap h ls.
Hypothesis Hfuel : forall lv, length (ls lv) <= fuel.

(* cur sits on the level-lv chain and everything between it and the first non-smaller
   node is smaller *)
Definition on_chain (lv : nat) (cur : addr) : Prop :=
  exists P R1, head :: before h e (ls lv) = P ++ cur :: R1.

Lemma on_chain_walk : forall lv cur, on_chain lv cur ->
  h_walk h e lv fuel cur = pred_of h e (ls lv).
Proof.
  intros lv cur (P & R1 & E).
  assert (Hl : Forall (fun a => lessA h e a = true) R1).
  { pose proof (before_less h e (ls lv)) as F. destruct P as [|p P]; cbn [app] in E.
    - injection E as _ E. rewrite E in F. exact F.
    - injection E as _ E. rewrite E in F. apply Forall_app in F. destruct F as [_ F].
      inversion F; assumption. }
  assert (Hlen : length R1 <= fuel).
  { specialize (Hfuel lv). rewrite <- (before_after h e (ls lv)) in Hfuel.
    rewrite app_length in Hfuel. apply (f_equal (@length addr)) in E.
    cbn [length] in E. rewrite app_length in E. cbn [length] in E. lia. }
  rewrite (h_walk_spec h e lv (ls lv) R1 P cur fuel); [|  |exact Hl|exact Hlen].
  - unfold pred_of. destruct P as [|p P]; cbn [app] in E.
    + injection E as <- <-. reflexivity.
    + injection E as _ E. rewrite E, lastd_app. reflexivity.
  - replace (P ++ cur :: R1 ++ after h e (ls lv)) with (head :: ls lv); [apply Hwf|].
    rewrite <- (before_after h e (ls lv)) at 1.
    rewrite app_comm_cons, E, <- app_assoc. reflexivity.
Qed.

Lemma pred_on_chain_below : forall lv, on_chain lv (pred_of h e (ls (S lv))).
Proof.
  intros lv. unfold on_chain.
  assert (Hin : In (pred_of h e (ls (S lv))) (head :: before h e (ls lv))).
  { unfold pred_of.
    assert (Hsub : subseq (head :: before h e (ls (S lv))) (head :: before h e (ls lv))).
    { apply ss_take.
      destruct (before_filter h e _ (wf_level_sorted h ls Hwf lv)) as [-> _].
      destruct (before_filter h e _ (wf_level_sorted h ls Hwf (S lv))) as [-> _].
      apply subseq_filter. apply Hwf. }
    apply (subseq_incl _ _ _ Hsub).
    rewrite (initd_lastd (before h e (ls (S lv))) head). apply in_or_app. right. left. reflexivity. }
  apply in_split in Hin. destruct Hin as (P & R1 & E). exists P, R1. exact E.
Qed.

Lemma h_descend_spec : forall lv cur prevs, on_chain lv cur ->
  forall l, h_descend h e fuel lv cur prevs l =
            if Nat.leb l lv then pred_of h e (ls l) else prevs l.
Proof.
  induction lv as [|lv IH]; intros cur prevs Hc l; cbn [h_descend].
  - rewrite (on_chain_walk 0 cur Hc). destruct l as [|l]; reflexivity.
  - rewrite (on_chain_walk (S lv) cur Hc).
    rewrite IH by apply pred_on_chain_below.
    destruct (Nat.leb l lv) eqn:L1.
    + apply Nat.leb_le in L1. assert (L2 : Nat.leb l (S lv) = true) by (apply Nat.leb_le; lia).
      rewrite L2. reflexivity.
    + apply Nat.leb_gt in L1. destruct (Nat.eqb l (S lv)) eqn:L3.
      * apply Nat.eqb_eq in L3. subst l. rewrite Nat.leb_refl. reflexivity.
      * apply Nat.eqb_neq in L3. assert (L2 : Nat.leb l (S lv) = false) by (apply Nat.leb_gt; lia).
        rewrite L2. reflexivity.
Qed.

(* the prev[] array the code computes is the specification used in C1/C2 *)
Theorem h_prevs_spec : forall height lv, lv < height ->
  h_prevs h e fuel height lv = pred_of h e (ls lv).
Proof.
  intros [|top] lv Hlv; [lia|]. cbn [h_prevs]. rewrite h_descend_spec.
  - assert (L : Nat.leb lv top = true) by (apply Nat.leb_le; lia). rewrite L. reflexivity.
  - exists [], (before h e (ls top)). reflexivity.
Qed.

End HeapSearch.

Definition op_level (o : wop) : nat := match o with Link1 lv | Link2 lv => lv end.

Lemma insert_ops_levels : forall c j, Forall (fun o => j <= op_level o < j + c) (insert_ops j c).
Proof.
  induction c as [|c IH]; intros j; cbn [insert_ops]; [constructor|].
  constructor; [cbn [op_level]; lia|]. constructor; [cbn [op_level]; lia|].
  eapply Forall_impl; [|apply IH]. intros o Ho. cbv beta in Ho. lia.
Qed.

Lemma wexec_ext : forall n prev prev' h o, prev (op_level o) = prev' (op_level o) ->
  wexec n prev h o = wexec n prev' h o.
Proof. intros n prev prev' h [lv|lv] E; cbn [wexec op_level] in *; rewrite E; reflexivity. Qed.

Lemma sys_run_ext : forall n prev prev' sched s,
  Forall (fun o => prev (op_level o) = prev' (op_level o)) (s_ops s) ->
  sys_run n prev s sched = sys_run n prev' s sched.
Proof.
  intros n prev prev'. induction sched as [|t sched IH]; intros s H; [reflexivity|].
  cbn [sys_run fold_left]. fold (sys_run n prev). fold (sys_run n prev').
  assert (E : sys_step n prev s t = sys_step n prev' s t).
  { destruct t as [|i]; cbn [sys_step]; [|reflexivity].
    destruct (s_ops s) as [|o r]; [reflexivity|]. inversion H as [|? ? Ho _]; subst.
    rewrite (wexec_ext n prev prev' _ o Ho). reflexivity. }
  rewrite E. apply IH.
  destruct t as [|i]; cbn [sys_step]; [|exact H].
  destruct (s_ops s) as [|o r] eqn:Eo; [rewrite Eo; exact H|]. cbn [s_ops].
  inversion H; assumption.
Qed.

Lemma run_ext : forall n prev prev' ops h,
  Forall (fun o => prev (op_level o) = prev' (op_level o)) ops ->
  run n prev h ops = run n prev' h ops.
Proof.
  intros n prev prev'. induction ops as [|o ops IH]; intros h H; [reflexivity|].
  inversion H as [|? ? Ho Hr]; subst. cbn [run fold_left]. fold (run n prev). fold (run n prev').
  rewrite (wexec_ext n prev prev' h o Ho). apply IH. exact Hr.
Qed.

Lemma wf_length : forall h ls, wf_heap h ls -> forall lv, length (ls lv) <= length (ls 0).
Proof.
  intros h ls (_ & _ & Hsub). induction lv as [|lv IH]; [lia|].
  pose proof (subseq_length _ _ _ (Hsub lv)). lia.
Qed.

Lemma prog_agree : forall h0 ls e fuel height, wf_heap h0 ls -> length (ls 0) <= fuel ->
  Forall (fun o => h_prevs h0 e fuel height (op_level o) = pred_of h0 e (ls (op_level o)))
         (insert_prog height).
Proof.
  intros h0 ls e fuel height Hwf Hf. unfold insert_prog.
  eapply Forall_impl; [|apply insert_ops_levels]. intros o Ho. cbv beta in Ho.
  apply (h_prevs_spec h0 ls e fuel Hwf); [|lia].
  intros lv. pose proof (wf_length h0 ls Hwf lv). lia.
Qed.

Lemma Forall_firstn : forall (T : Type) (P : T -> Prop) k l, Forall P l -> Forall P (firstn k l).
Proof.
  intros T P k. induction k as [|k IH]; intros l H; [constructor|].
  destruct l as [|x l]; [constructor|]. inversion H; subst. cbn [firstn]. constructor; auto.
Qed.

(* C1 and C2 for the whole Insert as the code runs it: prev[] computed by the top-down
   search on the heap, then the stores *)
Theorem C18_wellformed_always_search : forall h0 ls e n height fuel k,
  wf_heap h0 ls -> fresh_node h0 ls n e -> length (ls 0) <= fuel ->
  let h := run n (h_prevs h0 e fuel height) h0 (firstn k (insert_prog height)) in
  exists ls',
    wf_heap h ls' /\
    (forall lv, sorted (ents h (ls' lv))) /\
    (forall a, entry_of h a = entry_of h0 a) /\
    (forall lv, incl (ls lv) (ls' lv)) /\
    (forall lv, ents h (ls' lv) = ents h0 (ls lv) \/
                ents h (ls' lv) = insert e (ents h0 (ls lv))).
Proof.
  intros h0 ls e n height fuel k Hwf Hfr Hf h.
  assert (E : h = run n (fun lv => pred_of h0 e (ls lv)) h0 (firstn k (insert_prog height))).
  { unfold h. apply run_ext. apply Forall_firstn. apply prog_agree; assumption. }
  rewrite E. apply C18_wellformed_always; assumption.
Qed.

Theorem C18_reader_search : forall h0 ls e n height fuel rs sched,
  wf_heap h0 ls -> fresh_node h0 ls n e -> length (ls 0) <= fuel ->
  Forall (reader_ok h0 ls) rs ->
  let s := sys_run n (h_prevs h0 e fuel height) (mkSys h0 (insert_prog height) rs) sched in
  length (s_readers s) = length rs /\
  forall r, In r (s_readers s) ->
    (exists rest, r_done r ++ rest = head :: ls 0 \/
                  r_done r ++ rest = head :: linked_in h0 e n (ls 0)) /\
    (r_cur r = None ->
       let out := ents (s_heap s) (tl (r_done r)) in
       (out = ents h0 (ls 0) \/ out = insert e (ents h0 (ls 0))) /\ sorted out /\
       (forall x, In x (ents h0 (ls 0)) -> In x out)).
Proof.
  intros h0 ls e n height fuel rs sched Hwf Hfr Hf Hrs s.
  assert (E : s = sys_run n (fun lv => pred_of h0 e (ls lv))
                    (mkSys h0 (insert_prog height) rs) sched).
  { unfold s. apply sys_run_ext. cbn [s_ops]. apply prog_agree; assumption. }
  rewrite E. apply C18_reader; assumption.
Qed.

(* ------------------------------------------------------------------------------------- *)
(* readers spanning any number of inserts                                                 *)
(* ------------------------------------------------------------------------------------- *)

(* what a reader has seen plus what lies ahead of it (done ++ rest) is always a sub-chain
   of the current level-0 chain C and contains the chain S it started on *)
Definition RB (h : heap) (C S : list addr) (r : reader) : Prop :=
  exists rest, path h 0 (r_cur r) rest /\
    subseq S (r_done r ++ rest) /\ subseq (r_done r ++ rest) C.

Lemma subseq_split_nodup : forall (P Q X Y : list addr) a,
  NoDup (P ++ a :: Q) -> subseq (X ++ a :: Y) (P ++ a :: Q) -> subseq X P /\ subseq Y Q.
Proof.
  induction P as [|p P IH]; intros Q X Y a Hnd H; cbn [app] in *.
  - inversion Hnd as [|? ? Hn _]; subst.
    inversion H as [|x l1 l2 Hs|x l1 l2 Hs]; subst.
    + exfalso. apply Hn. apply (subseq_incl _ _ _ Hs). apply in_or_app. right. left. reflexivity.
    + destruct X as [|x X]; cbn [app] in *.
      * match goal with E : _ :: _ = _ :: _ |- _ => injection E as E end. subst.
        split; [constructor|exact Hs].
      * match goal with E : _ :: _ = _ :: _ |- _ => injection E as E1 E2 end. subst.
        exfalso. apply Hn. apply (subseq_incl _ _ _ Hs). apply in_or_app. right. left. reflexivity.
  - inversion Hnd as [|? ? Hn Hnd']; subst.
    inversion H as [|x l1 l2 Hs|x l1 l2 Hs]; subst.
    + destruct (IH _ _ _ _ Hnd' Hs) as [H1 H2]. split; [apply ss_skip; exact H1|exact H2].
    + destruct X as [|x X]; cbn [app] in *.
      * match goal with E : _ :: _ = _ :: _ |- _ => injection E as E1 E2 end. subst.
        exfalso. apply Hn. apply in_or_app. right. left. reflexivity.
      * match goal with E : _ :: _ = _ :: _ |- _ => injection E as E1 E2 end. subst.
        destruct (IH _ _ _ _ Hnd' Hs) as [H1 H2]. split; [apply ss_take; exact H1|exact H2].
Qed.

Lemma subseq_mid2 : forall (T : Type) (a b : list T) x y, subseq (a ++ x :: b) (a ++ x :: y :: b).
Proof.
  intros T a b x y. apply subseq_app; [apply subseq_refl|]. apply ss_take. apply ss_skip.
  apply subseq_refl.
Qed.

Lemma rest_suffix : forall h C cur rest,
  path h 0 (Some head) C -> path h 0 cur rest ->
  (forall a, cur = Some a -> In a C) -> exists pre, C = pre ++ rest.
Proof.
  intros h C cur rest HC Hr Hin. destruct cur as [a|].
  - specialize (Hin a eq_refl). apply in_split in Hin. destruct Hin as (p & q & ->).
    unfold path in HC. apply seg_split in HC. destruct HC as (m & _ & Hm).
    pose proof (seg_start _ _ _ _ _ _ Hm) as ->.
    rewrite (path_det h 0 _ _ _ Hr Hm). exists p. reflexivity.
  - inversion Hr; subst. exists C. rewrite app_nil_r. reflexivity.
Qed.

Lemma RB_cur_in : forall h C S r a, RB h C S r -> r_cur r = Some a -> In a C.
Proof.
  intros h C S r a (rest & Hp & _ & Hs) Hc. rewrite Hc in Hp.
  destruct rest as [|b rest]; [apply seg_nil_inv in Hp; discriminate|].
  pose proof (seg_start _ _ _ _ _ _ Hp) as E. injection E as <-.
  apply (subseq_incl _ _ _ Hs). apply in_or_app. right. left. reflexivity.
Qed.

Lemma RB_rstep : forall h C S r, RB h C S r -> RB h C S (r_step h r).
Proof.
  intros h C S r (rest & Hp & H1 & H2). unfold r_step. destruct (r_cur r) as [a|] eqn:Cu.
  - destruct rest as [|b rest]; [apply seg_nil_inv in Hp; discriminate|].
    pose proof (seg_start _ _ _ _ _ _ Hp) as Eb. injection Eb as <-.
    apply seg_load in Hp. destruct Hp as [_ Hp].
    exists rest. cbn [r_cur r_done]. rewrite <- app_assoc. cbn [app]. auto.
  - exists rest. rewrite Cu. auto.
Qed.

Section MultiStep.
Variables (h0 : heap) (ls : nat -> list addr) (e : mentry) (n : addr).
Hypothesis Hwf : wf_heap h0 ls.
Hypothesis Hfresh : fresh_node h0 ls n e.

Let prev (lv : nat) : addr := pred_of h0 e (ls lv).

(* the level-0 chain in a state satisfying Inv j _ *)
Definition Cj (j : nat) : list addr := head :: ls_at h0 ls e n j 0.

Lemma Cj_path : forall j half h, Inv h0 ls e n j half h -> path h 0 (Some head) (Cj j).
Proof.
  intros j half h Hi. destruct (inv_wf h0 ls e n Hwf Hfresh j half h Hi) as ((Hp & _) & _).
  apply Hp.
Qed.

Lemma Cj_0 : Cj 0 = head :: ls 0.
Proof. reflexivity. Qed.

Lemma Cj_S : forall j, Cj (S j) = head :: linked_in h0 e n (ls 0).
Proof. reflexivity. Qed.

Lemma RB_link1 : forall j h St r, Inv h0 ls e n j false h -> RB h (Cj j) St r ->
  RB (wexec n prev h (Link1 j)) (Cj j) St r.
Proof.
  intros j h St r Hi (rest & Hp & H1 & H2). exists rest. split; [|split; assumption]. cbn [wexec].
  destruct (Nat.eq_dec j 0) as [->|Hj].
  - apply seg_store_notin; [|exact Hp]. intros Hin.
    apply (n_notin h0 ls e n Hfresh 0). rewrite <- Cj_0.
    apply (subseq_incl _ _ _ H2). apply in_or_app. right. exact Hin.
  - apply seg_store_other; [exact Hj|exact Hp].
Qed.

Lemma RB_link2 : forall j h St r, Inv h0 ls e n j true h -> RB h (Cj j) St r ->
  RB (wexec n prev h (Link2 j)) (Cj (S j)) St r.
Proof.
  intros j h St r Hi HB. cbn [wexec]. destruct j as [|j].
  - pose proof (Cj_path 0 true h Hi) as HC.
    pose proof HB as (rest & Hp & H1 & H2).
    destruct (rest_suffix h (Cj 0) (r_cur r) rest HC Hp
                (fun a Ha => RB_cur_in h (Cj 0) St r a HB Ha)) as (pre & Epre).
    pose proof (path_nodup h 0 _ _ HC) as Hnd.
    pose proof (chain_split h0 ls e 0) as Hc. rewrite <- Cj_0 in Hc.
    change (pred_of h0 e (ls 0)) with (prev 0) in Hc.
    rewrite Cj_S, (linked_split h0 ls e n 0). change (pred_of h0 e (ls 0)) with (prev 0).
    set (I0 := initd head (before h0 e (ls 0))) in *. set (B0 := after h0 e (ls 0)) in *.
    destruct (@in_dec addr Nat.eq_dec (prev 0) rest) as [Hin|Hnin].
    + apply (@in_split addr) in Hin. destruct Hin as (r1 & r2 & ->).
      assert (E : (pre ++ r1) ++ prev 0 :: r2 = I0 ++ prev 0 :: B0)
        by (rewrite <- app_assoc; exact (eq_trans (eq_sym Epre) Hc)).
      assert (Hnd' : NoDup ((pre ++ r1) ++ prev 0 :: r2)) by (rewrite E, <- Hc; exact Hnd).
      destruct (nodup_split_unique _ _ _ _ _ Hnd' E) as [E1 E2].
      exists (r1 ++ prev 0 :: n :: r2). split; [|split].
      * apply path_splice.
        -- exact Hp.
        -- intros X. apply (n_notin h0 ls e n Hfresh 0). rewrite <- Cj_0.
           apply (subseq_incl _ _ _ H2). apply in_or_app. right. exact X.
        -- apply Hi.
        -- destruct Hi as (_ & _ & _ & _ & Hl). rewrite E2. apply Hl. reflexivity.
      * eapply subseq_trans; [|exact H1]. apply subseq_app; [apply subseq_refl|].
        apply subseq_mid2.
      * rewrite Hc in H2, Hnd.
        rewrite (app_assoc (r_done r) r1 (prev 0 :: r2)) in H2.
        destruct (subseq_split_nodup _ _ _ _ _ Hnd H2) as [S1 S2].
        rewrite (app_assoc (r_done r) r1 (prev 0 :: n :: r2)).
        apply subseq_app; [exact S1|]. apply ss_take. apply ss_take. exact S2.
    + exists rest. split; [apply seg_store_notin; assumption|]. split; [exact H1|].
      eapply subseq_trans; [|exact H2]. rewrite Hc. apply subseq_mid2.
  - destruct HB as (rest & Hp & H1 & H2). exists rest.
    split; [apply seg_store_other; [discriminate|exact Hp]|]. split; assumption.
Qed.

End MultiStep.

(* newNode: a node at an address that holds nothing yet (an occupied address is left alone) *)
Definition alloc (h : heap) (a : addr) (e : mentry) : heap :=
  fun b => if Nat.eqb b a
           then match h b with
                | Some nd => Some nd
                | None => Some (mkNode e (fun _ => None))
                end
           else h b.

Record ins := mkIns { i_addr : addr; i_entry : mentry; i_height : nat }.

Record msys := mkMS {
  m_heap : heap; m_node : addr; m_prev : nat -> addr; m_ops : list wop;
  m_todo : list ins; m_readers : list reader }.

(* MW: the writer's next step — the next store of the running Insert, or (when none is
   running) allocation of the next node plus the read-only search that fills prev[];
   MR i: reader i's next load; MSpawn: a new reader appears *)
Inductive mtick := MW | MR (i : nat) | MSpawn.

Definition m_step (fuel : nat) (s : msys) (t : mtick) : msys :=
  match t with
  | MW =>
      match m_ops s with
      | o :: r => mkMS (wexec (m_node s) (m_prev s) (m_heap s) o) (m_node s) (m_prev s) r
                       (m_todo s) (m_readers s)
      | [] =>
          match m_todo s with
          | [] => s
          | i :: todo =>
              let h := alloc (m_heap s) (i_addr i) (i_entry i) in
              mkMS h (i_addr i) (h_prevs h (i_entry i) fuel (i_height i))
                   (insert_prog (i_height i)) todo (m_readers s)
          end
      end
  | MR i => mkMS (m_heap s) (m_node s) (m_prev s) (m_ops s) (m_todo s)
                 (upd_nth i (r_step (m_heap s)) (m_readers s))
  | MSpawn => mkMS (m_heap s) (m_node s) (m_prev s) (m_ops s) (m_todo s)
                   (m_readers s ++ [r_init])
  end.

Definition m_run (fuel : nat) (s : msys) (sched : list mtick) : msys :=
  fold_left (m_step fuel) sched s.

Definition m_init (h : heap) (todo : list ins) : msys :=
  mkMS h head (fun _ => head) [] todo [].

(* allocated nodes stay allocated and keep their entry *)
Definition ext (h h' : heap) : Prop :=
  forall a, h a <> None -> h' a <> None /\ entry_of h' a = entry_of h a.

Lemma ext_refl : forall h, ext h h.
Proof. intros h a H. split; [exact H|reflexivity]. Qed.

Lemma ext_trans : forall h1 h2 h3, ext h1 h2 -> ext h2 h3 -> ext h1 h3.
Proof.
  intros h1 h2 h3 H12 H23 a Ha. destruct (H12 a Ha) as [H2 E2]. destruct (H23 a H2) as [H3 E3].
  split; [exact H3|congruence].
Qed.

Lemma ext_store : forall h a lv v, ext h (store h a lv v).
Proof.
  intros h a lv v b Hb. split; [|apply entry_store].
  destruct (h b) as [nd|] eqn:E; [|congruence].
  destruct (store_alloc h a lv v b (ex_intro _ nd E)) as [nd' E']. congruence.
Qed.

Lemma ext_alloc : forall h a e, ext h (alloc h a e).
Proof.
  intros h a e b Hb. unfold entry_of, alloc. destruct (Nat.eqb b a); [|split; [exact Hb|reflexivity]].
  destruct (h b); [split; [discriminate|reflexivity]|congruence].
Qed.

Lemma ext_wexec : forall n prev h o, ext h (wexec n prev h o).
Proof. intros n prev h [lv|lv]; cbn [wexec]; apply ext_store. Qed.

Lemma m_step_ext : forall fuel s t, ext (m_heap s) (m_heap (m_step fuel s t)).
Proof.
  intros fuel s [|i|]; cbn [m_step]; try apply ext_refl.
  destruct (m_ops s) as [|o r]; [|apply ext_wexec].
  destruct (m_todo s) as [|i todo]; [apply ext_refl|apply ext_alloc].
Qed.

Lemma m_run_ext : forall fuel sched s, ext (m_heap s) (m_heap (m_run fuel s sched)).
Proof.
  intros fuel. induction sched as [|t sched IH]; intros s; [apply ext_refl|].
  cbn [m_run fold_left]. eapply ext_trans; [apply m_step_ext|apply IH].
Qed.

Lemma store_none : forall h a lv v b, h b = None -> store h a lv v b = None.
Proof.
  intros h a lv v b H. unfold store. destruct (Nat.eqb b a) eqn:E; [|exact H].
  apply Nat.eqb_eq in E. subst b. rewrite H. reflexivity.
Qed.

Lemma wexec_none : forall n prev h o b, h b = None -> wexec n prev h o b = None.
Proof. intros n prev h [lv|lv] b H; cbn [wexec]; apply store_none; exact H. Qed.

Lemma alloc_other : forall h a e b, b <> a -> alloc h a e b = h b.
Proof.
  intros h a e b H. unfold alloc. destruct (Nat.eqb b a) eqn:E; [|reflexivity].
  apply Nat.eqb_eq in E. contradiction.
Qed.

Lemma alloc_fresh : forall h a e, h a = None -> alloc h a e a = Some (mkNode e (fun _ => None)).
Proof. intros h a e H. unfold alloc. rewrite Nat.eqb_refl, H. reflexivity. Qed.

Lemma seg_allocated : forall h lv p l q, seg h lv p l q -> forall b, In b l -> h b <> None.
Proof.
  intros h lv p l q H. induction H as [p|a nd l q Ha Hs IH]; intros b Hb; [destruct Hb|].
  destruct Hb as [<-|Hb]; [congruence|apply IH; exact Hb].
Qed.

Lemma seg_alloc : forall h a e lv p l q, h a = None -> seg h lv p l q -> seg (alloc h a e) lv p l q.
Proof.
  intros h a e lv p l q Ha H. induction H as [p|b nd l q Hb Hs IH]; [constructor|].
  econstructor; [|exact IH]. rewrite alloc_other; [exact Hb|]. intros ->. congruence.
Qed.

Lemma ents_alloc : forall h a e l, ~ In a l -> ents (alloc h a e) l = ents h l.
Proof.
  intros h a e l H. unfold ents. apply map_ext_in. intros b Hb. unfold entry_of.
  rewrite alloc_other; [reflexivity|]. intros ->. contradiction.
Qed.

Lemma wf_alloc : forall h ls a e, wf_heap h ls -> h a = None ->
  wf_heap (alloc h a e) ls /\ fresh_node (alloc h a e) ls a e.
Proof.
  intros h ls a e (Hp & Hs & Hsub) Ha.
  assert (Hn : forall lv, ~ In a (head :: ls lv)).
  { intros lv Hin. exact (seg_allocated _ _ _ _ _ (Hp lv) a Hin Ha). }
  split; [split; [|split]|split; [|split]].
  - intros lv. apply seg_alloc; [exact Ha|apply Hp].
  - rewrite ents_alloc; [exact Hs|]. intros X. apply (Hn 0). right. exact X.
  - exact Hsub.
  - intros ->. apply (Hn 0). left. reflexivity.
  - eexists. split; [apply alloc_fresh; exact Ha|reflexivity].
  - intros lv X. apply (Hn lv). right. exact X.
Qed.

Definition todo_ok (h : heap) (todo : list ins) : Prop :=
  NoDup (map i_addr todo) /\ Forall (fun i => h (i_addr i) = None) todo.

(* the writer is idle on a well-formed heap, or inside one Insert (the invariant of C1) *)
Definition phase (fuel : nat) (s : msys) (C : list addr) : Prop :=
  (m_ops s = [] /\
   exists ls, wf_heap (m_heap s) ls /\ C = head :: ls 0 /\
              length (ls 0) + length (m_todo s) <= fuel)
  \/
  (exists hb lb e j half c,
     wf_heap hb lb /\ fresh_node hb lb (m_node s) e /\
     Inv hb lb e (m_node s) j half (m_heap s) /\
     m_ops s = pending j half c /\
     Forall (fun o => m_prev s (op_level o) = pred_of hb e (lb (op_level o))) (m_ops s) /\
     C = Cj hb lb e (m_node s) j /\
     length (lb 0) + 1 + length (m_todo s) <= fuel).

(* Ss: for every reader the level-0 chain (with head) at the moment it appeared *)
Definition GM (fuel : nat) (s : msys) (Ss : list (list addr)) : Prop :=
  exists C, phase fuel s C /\ todo_ok (m_heap s) (m_todo s) /\
            Forall2 (fun r St => RB (m_heap s) C St r) (m_readers s) Ss.

Lemma linked_in_length : forall h e n l, length (linked_in h e n l) = S (length l).
Proof.
  intros h e n l. unfold linked_in. rewrite <- (before_after h e l) at 3.
  rewrite !app_length. cbn [length]. lia.
Qed.

Lemma phase_idle : forall fuel s C, phase fuel s C -> m_ops s = [] ->
  exists ls, wf_heap (m_heap s) ls /\ C = head :: ls 0 /\
             length (ls 0) + length (m_todo s) <= fuel.
Proof.
  intros fuel s C [[_ H]|(hb & lb & e & j & half & c & Hwf & Hfr & Hi & Ho & _ & HC & Hb)] Hops;
    [exact H|].
  rewrite Hops in Ho. destruct half; cbn [pending] in Ho; [discriminate|].
  destruct c; cbn [insert_ops] in Ho; [|discriminate].
  destruct (inv_wf hb lb e (m_node s) Hwf Hfr j false (m_heap s) Hi) as (W & _).
  exists (ls_at hb lb e (m_node s) j). split; [exact W|]. split; [exact HC|].
  unfold ls_at. destruct (Nat.ltb 0 j); [rewrite linked_in_length|]; lia.
Qed.

Lemma phase_path : forall fuel s C, phase fuel s C ->
  path (m_heap s) 0 (Some head) C /\ sorted (ents (m_heap s) (tl C)).
Proof.
  intros fuel s C [[_ (ls & W & -> & _)]|(hb & lb & e & j & half & c & Hwf & Hfr & Hi & _ & _ & -> & _)].
  - split; [apply W|apply W].
  - destruct (inv_wf hb lb e (m_node s) Hwf Hfr j half (m_heap s) Hi) as (W & _).
    split; [apply W|apply W].
Qed.

Lemma Forall2_upd_nth : forall (T U : Type) (P : T -> U -> Prop) (f : T -> T) l l' i,
  (forall x y, P x y -> P (f x) y) -> Forall2 P l l' -> Forall2 P (upd_nth i f l) l'.
Proof.
  intros T U P f l l' i Hf H. revert i. induction H as [|x y l l' Hxy H IH]; intros i.
  - destruct i; constructor.
  - destruct i as [|i]; cbn [upd_nth]; constructor; auto.
Qed.

Lemma Forall2_impl : forall (T U : Type) (P Q : T -> U -> Prop) l l',
  (forall x y, P x y -> Q x y) -> Forall2 P l l' -> Forall2 Q l l'.
Proof. intros T U P Q l l' H F. induction F; constructor; auto. Qed.

Lemma RB_alloc : forall h a e C St r, h a = None -> RB h C St r -> RB (alloc h a e) C St r.
Proof.
  intros h a e C St r Ha (rest & Hp & H1 & H2). exists rest.
  split; [apply seg_alloc; assumption|]. split; assumption.
Qed.

Lemma GM_step : forall fuel s Ss t, GM fuel s Ss ->
  exists Ss', GM fuel (m_step fuel s t) Ss' /\
    match t with
    | MSpawn => exists C, path (m_heap s) 0 (Some head) C /\ Ss' = Ss ++ [C]
    | _ => Ss' = Ss
    end.
Proof.
  intros fuel s Ss t (C & Hph & (Hnd & Hnone) & Hrs). destruct t as [|i|]; cbn [m_step].
  - (* writer *)
    exists Ss. split; [|reflexivity].
    destruct (m_ops s) as [|o r] eqn:Eo.
    + destruct (phase_idle fuel s C Hph Eo) as (ls & W & -> & Hb).
      destruct (m_todo s) as [|i todo] eqn:Et.
      * exists (head :: ls 0). split; [exact Hph|]. split; [rewrite Et; split; assumption|exact Hrs].
      * cbn [map] in Hnd. inversion Hnd as [|? ? Hni Hnd']; subst.
        inversion Hnone as [|? ? Hi0 Hnone']; subst.
        destruct (wf_alloc (m_heap s) ls (i_addr i) (i_entry i) W Hi0) as [W' F'].
        exists (head :: ls 0). split; [|split].
        -- right. exists (alloc (m_heap s) (i_addr i) (i_entry i)), ls, (i_entry i), 0, false, (i_height i).
           cbn [m_heap m_node m_prev m_ops m_todo]. cbn [length] in Hb.
           split; [exact W'|]. split; [exact F'|]. split; [apply inv_init; assumption|].
           split; [reflexivity|]. split; [apply prog_agree; [exact W'|lia]|].
           split; [reflexivity|lia].
        -- cbn [m_heap m_todo]. split; [exact Hnd'|].
           apply Forall_forall. intros i' Hi'. rewrite Forall_forall in Hnone'.
           rewrite alloc_other; [apply Hnone'; exact Hi'|].
           intros E. apply Hni. rewrite <- E. apply in_map. exact Hi'.
        -- cbn [m_heap m_readers]. eapply Forall2_impl; [|exact Hrs].
           intros x y. apply RB_alloc. exact Hi0.
    + destruct Hph as [[Hops _]|(hb & lb & e & j & half & c & Hwf & Hfr & Hi & Ho & Hag & -> & Hb)];
        [rewrite Eo in Hops; discriminate|].
      rewrite Eo in Ho, Hag. inversion Hag as [|? ? Ho1 Hag']; subst.
      rewrite (wexec_ext (m_node s) (m_prev s) (fun lv => pred_of hb e (lb lv)) (m_heap s) o Ho1).
      assert (Htodo : todo_ok (wexec (m_node s) (fun lv => pred_of hb e (lb lv)) (m_heap s) o) (m_todo s)).
      { split; [exact Hnd|]. eapply Forall_impl; [|exact Hnone]. intros i' Hi'. cbv beta in Hi'.
        apply wexec_none. exact Hi'. }
      destruct half; cbn [pending] in Ho.
      * injection Ho as -> ->. exists (Cj hb lb e (m_node s) (S j)). split; [|split].
        -- right. exists hb, lb, e, (S j), false, c. cbn [m_heap m_node m_prev m_ops m_todo].
           split; [exact Hwf|]. split; [exact Hfr|].
           split; [apply (inv_link2 hb lb e (m_node s) Hfr); exact Hi|].
           split; [reflexivity|]. split; [exact Hag'|]. split; [reflexivity|exact Hb].
        -- exact Htodo.
        -- cbn [m_heap m_readers]. eapply Forall2_impl; [|exact Hrs].
           intros x y. apply RB_link2; assumption.
      * destruct c as [|c]; cbn [insert_ops] in Ho; [discriminate|].
        injection Ho as -> ->. exists (Cj hb lb e (m_node s) j). split; [|split].
        -- right. exists hb, lb, e, j, true, c. cbn [m_heap m_node m_prev m_ops m_todo].
           split; [exact Hwf|]. split; [exact Hfr|].
           split; [apply (inv_link1 hb lb e (m_node s) Hfr); exact Hi|].
           split; [reflexivity|]. split; [exact Hag'|]. split; [reflexivity|exact Hb].
        -- exact Htodo.
        -- cbn [m_heap m_readers]. eapply Forall2_impl; [|exact Hrs].
           intros x y. apply RB_link1; assumption.
  - (* reader i *)
    exists Ss. split; [|reflexivity]. exists C. split; [exact Hph|]. split; [split; assumption|].
    cbn [m_heap m_readers]. apply Forall2_upd_nth; [|exact Hrs]. intros x y. apply RB_rstep.
  - (* a new reader *)
    destruct (phase_path fuel s C Hph) as [HC _].
    exists (Ss ++ [C]). split; [|exists C; split; [exact HC|reflexivity]].
    exists C. split; [exact Hph|]. split; [split; assumption|].
    cbn [m_heap m_readers]. apply Forall2_app; [exact Hrs|]. constructor; [|constructor].
    exists C. cbn [r_init r_cur r_done app]. split; [exact HC|]. split; apply subseq_refl.
Qed.

Lemma GM_run : forall fuel sched s Ss, GM fuel s Ss ->
  exists more, GM fuel (m_run fuel s sched) (Ss ++ more).
Proof.
  intros fuel. induction sched as [|t sched IH]; intros s Ss H.
  - exists []. rewrite app_nil_r. exact H.
  - cbn [m_run fold_left]. fold (m_run fuel).
    destruct (GM_step fuel s Ss t H) as (Ss' & H' & Ht).
    destruct (IH _ _ H') as (more & Hm).
    destruct t as [|i|].
    + subst Ss'. exists more. exact Hm.
    + subst Ss'. exists more. exact Hm.
    + destruct Ht as (C & _ & ->). exists ([C] ++ more). rewrite app_assoc. exact Hm.
Qed.

Lemma GM_init : forall fuel h ls todo,
  wf_heap h ls -> todo_ok h todo -> length (ls 0) + length todo <= fuel ->
  GM fuel (m_init h todo) [].
Proof.
  intros fuel h ls todo W T B. exists (head :: ls 0). split; [|split; [exact T|constructor]].
  left. split; [reflexivity|]. exists ls. cbn [m_init m_heap m_todo]. auto.
Qed.

Lemma Forall2_nth_both : forall (T U : Type) (P : T -> U -> Prop) l l' n d d',
  Forall2 P l l' -> n < length l' -> P (nth n l d) (nth n l' d').
Proof.
  intros T U P l l' n d d' H. revert n. induction H as [|x y l l' Hxy H IH]; intros n Hn.
  - cbn [length] in Hn. lia.
  - destruct n as [|n]; cbn [nth]; [exact Hxy|]. apply IH. cbn [length] in Hn. lia.
Qed.

Lemma Forall2_len : forall (T U : Type) (P : T -> U -> Prop) l l', Forall2 P l l' -> length l = length l'.
Proof. intros T U P l l' H. induction H; cbn [length]; lia. Qed.

Lemma head_strip : forall (hd : addr) c1 c2 d,
  NoDup (hd :: c2) -> subseq (hd :: c1) d -> subseq d (hd :: c2) ->
  exists d', d = hd :: d' /\ subseq c1 d' /\ subseq d' c2.
Proof.
  intros hd c1 c2 d Hnd H1 H2. inversion Hnd as [|? ? Hn _]; subst.
  assert (Hin : In hd d) by (apply (subseq_incl _ _ _ H1); left; reflexivity).
  destruct d as [|x d]; [destruct Hin|].
  inversion H2 as [|y l1 l2 Hs|y l1 l2 Hs]; subst.
  - exfalso. apply Hn. apply (subseq_incl _ _ _ Hs). exact Hin.
  - exists d. split; [reflexivity|]. split; [|exact Hs].
    inversion H1 as [|y l1 l2 Hs1|y l1 l2 Hs1]; subst; [|exact Hs1].
    exfalso. apply Hn. apply (subseq_incl _ _ _ Hs). apply (subseq_incl _ _ _ Hs1). left. reflexivity.
Qed.

Lemma path_head : forall h lv a C, path h lv (Some a) C -> exists c, C = a :: c.
Proof.
  intros h lv a C H. destruct C as [|b c]; [apply seg_nil_inv in H; discriminate|].
  apply seg_start in H. injection H as ->. exists c. reflexivity.
Qed.

(* C2 across any number of inserts: the writer works through a list of inserts (each:
   allocate the node, search, then the stores), readers appear at arbitrary moments and
   their loads interleave arbitrarily with everything the writer does. For a reader that
   appears after sched1: whatever it has seen plus what lies ahead of it is a sub-chain of
   the current sorted level-0 chain C2 and contains the whole chain C1 that existed when it
   appeared; when it reaches nil it returns a sorted list containing every entry of C1. *)
Theorem C18_reader_multi : forall fuel h0 ls0 todo sched1 sched2,
  wf_heap h0 ls0 -> todo_ok h0 todo -> length (ls0 0) + length todo <= fuel ->
  let s1 := m_run fuel (m_init h0 todo) sched1 in
  let s2 := m_run fuel (m_step fuel s1 MSpawn) sched2 in
  let r := nth (length (m_readers s1)) (m_readers s2) r_init in
  exists C1 C2,
    path (m_heap s1) 0 (Some head) C1 /\
    path (m_heap s2) 0 (Some head) C2 /\ sorted (ents (m_heap s2) (tl C2)) /\
    (exists rest, subseq C1 (r_done r ++ rest) /\ subseq (r_done r ++ rest) C2) /\
    (r_cur r = None ->
       let out := ents (m_heap s2) (tl (r_done r)) in
       sorted out /\ subseq (tl C1) (tl (r_done r)) /\ subseq (tl (r_done r)) (tl C2) /\
       (forall x, In x (ents (m_heap s1) (tl C1)) -> In x out)).
Proof.
  intros fuel h0 ls0 todo sched1 sched2 W T B s1 s2 r.
  destruct (GM_run fuel sched1 _ _ (GM_init fuel h0 ls0 todo W T B)) as (Ss1 & G1).
  cbn [app] in G1. fold s1 in G1.
  assert (L1 : length (m_readers s1) = length Ss1).
  { destruct G1 as (C & _ & _ & F). exact (Forall2_len _ _ _ _ _ F). }
  destruct (GM_step fuel s1 Ss1 MSpawn G1) as (Ss1' & G1' & (C1 & HC1 & ->)).
  destruct (GM_run fuel sched2 _ _ G1') as (more & G2). fold s2 in G2.
  destruct G2 as (C2 & Hph & _ & F2).
  destruct (phase_path fuel s2 C2 Hph) as [HC2 HS2].
  assert (HB : RB (m_heap s2) C2 C1 r).
  { pose proof (Forall2_nth_both _ _ _ _ _ (length Ss1) r_init [] F2) as X. cbv beta in X.
    unfold r. rewrite L1.
    replace (nth (length Ss1) ((Ss1 ++ [C1]) ++ more) []) with C1 in X.
    - apply X. rewrite !app_length. cbn [length]. lia.
    - rewrite <- app_assoc. rewrite app_nth2 by lia. rewrite Nat.sub_diag. reflexivity. }
  exists C1, C2. split; [exact HC1|]. split; [exact HC2|]. split; [exact HS2|].
  destruct HB as (rest & Hp & H1 & H2). split; [exists rest; split; assumption|].
  intros Hc out. rewrite Hc in Hp. inversion Hp; subst. rewrite app_nil_r in H1, H2.
  destruct (path_head _ _ _ _ HC1) as (c1 & ->). destruct (path_head _ _ _ _ HC2) as (c2 & ->).
  destruct (head_strip head c1 c2 (r_done r) (path_nodup _ _ _ _ HC2) H1 H2) as (d & Ed & S1 & S2).
  unfold out. rewrite Ed. cbn [tl] in *.
  split; [eapply sorted_subseq; [apply subseq_map; exact S2|exact HS2]|].
  split; [exact S1|]. split; [exact S2|].
  intros x Hx. unfold ents in Hx. apply in_map_iff in Hx. destruct Hx as (a & <- & Ha).
  assert (Hal : m_heap s1 a <> None).
  { apply (seg_allocated _ _ _ _ _ HC1). right. exact Ha. }
  assert (Hext : ext (m_heap s1) (m_heap s2)).
  { unfold s2. eapply ext_trans; [apply (m_step_ext fuel s1 MSpawn)|apply m_run_ext]. }
  destruct (Hext a Hal) as [_ <-]. unfold ents. apply in_map. apply (subseq_incl _ _ _ S1). exact Ha.
Qed.

(* ------------------------------------------------------------------------------------- *)
(* a concrete instance                                                                    *)
(* ------------------------------------------------------------------------------------- *)

Module Ex.
Local Open Scope N_scope.
Definition e1 := mkM [1] 1 KVal [10].
Definition e2 := mkM [3] 1 KVal [30].
Definition e3 := mkM [5] 2 KVal [50].
Definition e4 := mkM [3] 7 KDel [].          (* newer version of key [3]: goes before e2 *)
Definition e5 := mkM [2] 3 KVal [20].
Definition e6 := mkM [0] 9 KVal [].
Local Close Scope N_scope.

Definition nx (l : list (option addr)) : nat -> option addr := fun lv => nth lv l None.

(* head -> 1 -> 2 -> 3 on level 0, head -> 1 -> 3 on level 1, head -> 3 on level 2;
   node 4 is allocated but not linked *)
Definition h_ex : heap := fun a =>
  match a with
  | 0 => Some (mkNode dflt_entry (nx [Some 1; Some 1; Some 3]))
  | 1 => Some (mkNode e1 (nx [Some 2; Some 3]))
  | 2 => Some (mkNode e2 (nx [Some 3]))
  | 3 => Some (mkNode e3 (nx []))
  | 4 => Some (mkNode e4 (nx []))
  | _ => None
  end.

Definition ls_ex (lv : nat) : list addr :=
  match lv with 0 => [1; 2; 3] | 1 => [1; 3] | 2 => [3] | _ => [] end.

Definition prev_ex (lv : nat) : addr := pred_of h_ex e4 (ls_ex lv).

Lemma wf_ex : wf_heap h_ex ls_ex.
Proof.
  split; [|split].
  - intros [|[|[|lv]]]; try (apply chain_of_path with (fuel := 10); reflexivity).
    unfold path. eapply seg_cons; [reflexivity|]. cbn [n_next nx nth ls_ex]. destruct lv; constructor.
  - cbn. repeat constructor.
  - intros [|[|[|lv]]]; cbn [ls_ex].
    + apply ss_take. apply ss_skip. apply ss_take. apply ss_nil.
    + apply ss_skip. apply ss_take. apply ss_nil.
    + apply subseq_nil_l.
    + apply ss_nil.
Qed.

Lemma fresh_ex : fresh_node h_ex ls_ex 4 e4.
Proof.
  split; [discriminate|]. split; [eexists; split; reflexivity|].
  intros [|[|[|lv]]]; cbn [ls_ex In]; intuition discriminate.
Qed.

(* the three chains after 0, 1, 2, 3, 4 stores of an Insert with height 2 *)
Example wellformed_always_ex :
  prev_ex 0 = 1 /\ prev_ex 1 = 1 /\
  map (fun k => map (fun lv => chain_of (run 4 prev_ex h_ex (firstn k (insert_prog 2))) lv 10
                                        (Some head)) [0; 1; 2]) [0; 1; 2; 3; 4] =
  [ [Some [0; 1; 2; 3];    Some [0; 1; 3];    Some [0; 3]];
    [Some [0; 1; 2; 3];    Some [0; 1; 3];    Some [0; 3]];
    [Some [0; 1; 4; 2; 3]; Some [0; 1; 3];    Some [0; 3]];
    [Some [0; 1; 4; 2; 3]; Some [0; 1; 3];    Some [0; 3]];
    [Some [0; 1; 4; 2; 3]; Some [0; 1; 4; 3]; Some [0; 3]] ].
Proof. vm_compute. repeat split. Qed.

(* reader 0 loads head.next and node1.next before the writer links level 0, reader 1 starts
   afterwards; reader 0 returns the old content, reader 1 the new one *)
Example reader_ex :
  let sched := [TR 0; TR 0; TW; TW; TR 1; TR 1; TR 1; TW; TR 1; TR 1; TR 0; TR 0; TW; TR 0] in
  let s := sys_run 4 prev_ex (mkSys h_ex (insert_prog 2) [r_init; r_init]) sched in
  map (fun r => (r_cur r, r_done r)) (s_readers s) =
    [(None, [0; 1; 2; 3]); (None, [0; 1; 4; 2; 3])] /\
  map (fun r => ents (s_heap s) (tl (r_done r))) (s_readers s) =
    [[e1; e2; e3]; [e1; e4; e2; e3]] /\
  s_ops s = [].
Proof. vm_compute. repeat split. Qed.

(* the top-down search on the heap finds the same prev[] *)
Example h_prevs_ex :
  map (h_prevs h_ex e4 10 3) [0; 1; 2] = [1; 1; 0] /\ map prev_ex [0; 1; 2] = [1; 1; 0].
Proof. vm_compute. split; reflexivity. Qed.

(* two inserts (addresses 5 and 6); the reader appears when 5 is linked on level 0, has
   passed head before 6 is linked in front, and still returns everything it started with *)
Example reader_multi_ex :
  let todo := [mkIns 5 e5 1; mkIns 6 e6 3] in
  let s1 := m_run 10 (m_init h_ex todo) [MW; MW; MW] in
  let s2 := m_run 10 (m_step 10 s1 MSpawn)
                  [MR 0; MR 0; MW; MW; MW; MR 0; MW; MW; MR 0; MW; MW; MR 0; MR 0] in
  chain_of (m_heap s1) 0 10 (Some head) = Some [0; 1; 5; 2; 3] /\
  map (fun lv => chain_of (m_heap s2) lv 10 (Some head)) [0; 1; 2; 3] =
    [Some [0; 6; 1; 5; 2; 3]; Some [0; 6; 1; 3]; Some [0; 6; 3]; Some [0]] /\
  map (fun r => (r_cur r, r_done r)) (m_readers s2) = [(None, [0; 1; 5; 2; 3])] /\
  m_ops s2 = [] /\ m_todo s2 = [].
Proof. vm_compute. repeat split. Qed.

(* the general theorems instantiated *)
Example wellformed_always_inst : forall k,
  exists ls', wf_heap (run 4 prev_ex h_ex (firstn k (insert_prog 2))) ls'.
Proof.
  intros k. destruct (C18_wellformed_always h_ex ls_ex e4 4 2 k wf_ex fresh_ex) as (ls' & W & _).
  exists ls'. exact W.
Qed.

End Ex.
