(* Iter.v — executable model of the iterator stack of kevo, as the code implements it:
     pkg/memtable/iterator_adapter.go + skiplist.go (Iterator)      -> [src] of kind KMem
     pkg/sstable/iterator.go + iterator_adapter.go                  -> [src] of kind KSst
     pkg/transaction/buffer.go (BufferIterator)                     -> [src] of kind KBuf
     pkg/common/iterator/composite/hierarchical.go                  -> [hier_iter]
     pkg/common/iterator/bounded/bounded.go                         -> [bounded_iter]
     pkg/common/iterator/filtered/filtered.go                       -> [filtered_iter]
     pkg/engine/iterator/factory.go, storage.Manager.GetIterator    -> [eng_iter], [eng_it], [eng_range_it]
     pkg/transaction/transaction.go NewIterator / NewRangeIterator  -> [tx_full], [tx_range]
     pkg/grpc/service/service.go Scan / TxScan consumer loop        -> [scan_loop], [scan]
   An iterator is a dictionary of functions over a state type (the Go interface
   iterator.Iterator); wrappers are functions from dictionaries to dictionaries, so the stacks
   the code builds are built here the same way. A nil []byte is modelled as the empty key /
   the value None; keys are assumed non-empty (service limit 1..4096 bytes), which is what
   makes "prevKey != nil" in findNextUniqueKey equivalent to "there is a previous key".
   Values are byte lists, so "a put of a nil value" is not expressible: the model is the code
   since Buffer.Put and MemTable.Put store an empty value for nil (before that repair a
   transactional put of nil read as a deletion inside the transaction, defect D26).
   An SSTable is its logical entry list (that the file format reads back what was written is
   property C11).
   Loops of the Go code that have no structural bound here run on fuel = [i_fuel] (an upper
   bound of the number of entries ahead); IterProofs.v shows the loops finish within it (the
   results are proved equal to closed forms that do not mention fuel).
   Model only; proofs are in IterProofs.v. *)
From KV Require Export Bytes Memtable Engine.
Open Scope N_scope.

(* one iterator entry: key and value; None = nil value = deletion marker *)
Definition kv := (bytes * option bytes)%type.

Record Iter (S : Type) : Type := mkIter {
  i_first : S -> S;                    (* SeekToFirst *)
  i_seek : bytes -> S -> S * bool;     (* Seek(target) and its result *)
  i_next : S -> S * bool;              (* Next() and its result *)
  i_last : S -> S;                     (* SeekToLast *)
  i_valid : S -> bool;
  i_key : S -> bytes;                  (* [] stands for nil *)
  i_value : S -> option bytes;         (* None stands for nil *)
  i_tomb : S -> bool;                  (* IsTombstone *)
  i_fuel : S -> nat
}.
Arguments i_first {S}. Arguments i_seek {S}. Arguments i_next {S}. Arguments i_last {S}.
Arguments i_valid {S}. Arguments i_key {S}. Arguments i_value {S}. Arguments i_tomb {S}.
Arguments i_fuel {S}.

(* ------------------------------------------------------------------------------------ *)
(* 1. Sources: an entry list and the part of it that lies ahead of the position            *)
(* ------------------------------------------------------------------------------------ *)

Inductive skind := KMem | KSst | KBuf.
Record src := mkSrc { s_kind : skind; s_all : list kv; s_cur : list kv }.

(* first entry with key >= t onwards / first entry with key > k onwards *)
Fixpoint from_ge (t : bytes) (l : list kv) : list kv :=
  match l with
  | [] => []
  | x :: r => if blt (fst x) t then from_ge t r else l
  end.
Fixpoint from_gt (k : bytes) (l : list kv) : list kv :=
  match l with
  | [] => []
  | x :: r => if ble (fst x) k then from_gt k r else l
  end.

Definition nonempty {A : Type} (l : list A) : bool := match l with [] => false | _ => true end.
Definition hd_key (l : list kv) : bytes := match l with [] => [] | x :: _ => fst x end.
Definition hd_val (l : list kv) : option bytes := match l with [] => None | x :: _ => snd x end.

Fixpoint last_suffix (l : list kv) : list kv :=
  match l with
  | [] => []
  | [x] => [x]
  | _ :: r => last_suffix r
  end.

Definition src_set (s : src) (c : list kv) : src := mkSrc (s_kind s) (s_all s) c.

(* memtable adapter: SeekToFirst, walk to the end remembering the last key, Seek(lastKey) —
   lands on the first (newest) version of the last key. SSTable: last entry of the last block.
   Buffer: position len-1. *)
Definition src_last (s : src) : src :=
  match s_kind s with
  | KMem => match last_suffix (s_all s) with
            | [] => src_set s []
            | x :: _ => src_set s (from_ge (fst x) (s_all s))
            end
  | _ => src_set s (last_suffix (s_all s))
  end.

(* Next on an invalid position: memtable adapter and (initialised) SSTable iterator stay where
   they are; BufferIterator.Next with position < 0 calls SeekToFirst (it wraps around). An
   SSTable iterator that was never positioned would also start at the first entry on Next; no
   caller in the stack calls Next on an invalid source, the case is not modelled. *)
Definition src_next (s : src) : src * bool :=
  match s_cur s with
  | [] => match s_kind s with
          | KBuf => (src_set s (s_all s), nonempty (s_all s))
          | _ => (s, false)
          end
  | _ :: r => (src_set s r, nonempty r)
  end.

Definition src_seek (t : bytes) (s : src) : src * bool :=
  let c := from_ge t (s_all s) in (src_set s c, nonempty c).

Definition src_iter : Iter src := {|
  i_first := fun s => src_set s (s_all s);
  i_seek := src_seek;
  i_next := src_next;
  i_last := src_last;
  i_valid := fun s => nonempty (s_cur s);
  i_key := fun s => hd_key (s_cur s);
  i_value := fun s => hd_val (s_cur s);
  i_tomb := fun s => nonempty (s_cur s) && match hd_val (s_cur s) with None => true | Some _ => false end;
  i_fuel := fun s => S (length (s_all s))
|}.

(* ------------------------------------------------------------------------------------ *)
(* 2. HierarchicalIterator                                                                *)
(* ------------------------------------------------------------------------------------ *)

Record hier (S : Type) := mkH { h_srcs : list S; h_valid : bool; h_key : bytes; h_val : option bytes }.
Arguments mkH {S}. Arguments h_srcs {S}. Arguments h_valid {S}. Arguments h_key {S}. Arguments h_val {S}.

Definition hier_new {S : Type} (srcs : list S) : hier S := mkH srcs false [] None.

Section Hier.
  Context {S : Type} (I : Iter S).

  (* for iter.Valid() && Compare(iter.Key(), prev) <= 0 { if !iter.Next() { break } } *)
  Fixpoint advance (fuel : nat) (p : bytes) (s : S) : S :=
    match fuel with
    | O => s
    | Datatypes.S f =>
      if i_valid I s && ble (i_key I s) p then
        let (s', r) := i_next I s in
        if r then advance f p s' else s'
      else s
    end.

  Definition best := option (nat * bytes * option bytes).

  (* first pass of findNextUniqueKey: sources left to right; a source at a key <= prev is
     advanced; the candidate replaces the best only if its key is strictly smaller *)
  Fixpoint pass1 (prev : option bytes) (srcs : list S) (i : nat) (b : best) : list S * best :=
    match srcs with
    | [] => ([], b)
    | s :: r =>
      let s' :=
        if i_valid I s then
          match prev with
          | Some p => if ble (i_key I s) p then advance (i_fuel I s) p s else s
          | None => s
          end
        else s in
      let b' :=
        if i_valid I s' then
          match b with
          | None => Some (i, i_key I s', i_value I s')
          | Some (_, bk, _) => if blt (i_key I s') bk then Some (i, i_key I s', i_value I s') else b
          end
        else b in
      let (r', b'') := pass1 prev r (Datatypes.S i) b' in
      (s' :: r', b'')
    end.

  (* second pass: the first source before the best one that stands on the same key gives the value *)
  Fixpoint pass2 (srcs : list S) (n : nat) (bk : bytes) (dflt : option bytes) : option bytes :=
    match n, srcs with
    | Datatypes.S n', s :: r =>
      if i_valid I s && beq (i_key I s) bk then i_value I s else pass2 r n' bk dflt
    | _, _ => dflt
    end.

  Definition settle (h : hier S) (srcs : list S) (b : best) : hier S * bool :=
    match b with
    | Some (i, bk, bv) => (mkH srcs true bk (pass2 srcs i bk bv), true)
    | None => (mkH srcs false (h_key h) (h_val h), false)
    end.

  Definition find_next (h : hier S) (prev : option bytes) : hier S * bool :=
    let (srcs, b) := pass1 prev (h_srcs h) 0 None in settle h srcs b.

  Definition hier_first (h : hier S) : hier S :=
    fst (find_next (mkH (map (i_first I) (h_srcs h)) (h_valid h) (h_key h) (h_val h)) None).

  Definition hier_next (h : hier S) : hier S * bool :=
    if h_valid h then find_next h (Some (h_key h)) else (h, false).

  (* Seek: every source seeks; candidates with a key < target are skipped *)
  Fixpoint seek_pass (t : bytes) (srcs : list S) (i : nat) (b : best) : best :=
    match srcs with
    | [] => b
    | s :: r =>
      let b' :=
        if i_valid I s && negb (blt (i_key I s) t) then
          match b with
          | None => Some (i, i_key I s, i_value I s)
          | Some (_, bk, _) => if blt (i_key I s) bk then Some (i, i_key I s, i_value I s) else b
          end
        else b in
      seek_pass t r (Datatypes.S i) b'
    end.

  Definition hier_seek (t : bytes) (h : hier S) : hier S * bool :=
    let srcs := map (fun s => fst (i_seek I t s)) (h_srcs h) in
    settle h srcs (seek_pass t srcs 0 None).

  (* SeekToLast: every source to its last key; the greatest key wins, the first source that
     has it gives the value (strict comparison); no second pass *)
  Fixpoint last_pass (srcs : list S) (b : option kv) : option kv :=
    match srcs with
    | [] => b
    | s :: r =>
      let b' :=
        if i_valid I s then
          match b with
          | None => Some (i_key I s, i_value I s)
          | Some (bk, _) => if blt bk (i_key I s) then Some (i_key I s, i_value I s) else b
          end
        else b in
      last_pass r b'
    end.

  Definition hier_last (h : hier S) : hier S :=
    let srcs := map (i_last I) (h_srcs h) in
    match last_pass srcs None with
    | Some (k, v) => mkH srcs true k v
    | None => mkH srcs false (h_key h) (h_val h)
    end.

  Definition hier_iter : Iter (hier S) := {|
    i_first := hier_first;
    i_seek := hier_seek;
    i_next := hier_next;
    i_last := hier_last;
    i_valid := fun h => h_valid h;
    i_key := fun h => if h_valid h then h_key h else [];
    i_value := fun h => if h_valid h then h_val h else None;
    i_tomb := fun h => h_valid h && match h_val h with None => true | Some _ => false end;
    i_fuel := fun h => Datatypes.S (fold_right (fun s n => (i_fuel I s + n)%nat) O (h_srcs h))
  |}.
End Hier.

(* ------------------------------------------------------------------------------------ *)
(* 3. BoundedIterator: start inclusive, end exclusive; None = no bound (nil)               *)
(* ------------------------------------------------------------------------------------ *)

(* which BoundedIterator.Seek the tree has (see b_seek_gen): false = the pinned code (defect
   D25), true = since the repair "a failed bounded Seek leaves the iterator invalid" *)
Definition bounded_seek_miss_moves : bool := true.

Section Bounded.
  Context {S : Type} (I : Iter S) (lo hi : option bytes).

  Definition in_lo (k : bytes) : bool := match lo with Some a => negb (blt k a) | None => true end.
  Definition in_hi (k : bytes) : bool := match hi with Some e => blt k e | None => true end.

  (* checkBounds *)
  Definition b_check (s : S) : bool := i_valid I s && in_lo (i_key I s) && in_hi (i_key I s).

  Definition b_first (s : S) : S :=
    match lo with Some a => fst (i_seek I a s) | None => i_first I s end.

  (* target clamped to start. In the pinned code a target at or behind the end bound returns
     false WITHOUT moving the wrapped iterator, so that Valid/Key keep showing the position of
     an earlier call ([miss_moves] = false); the repaired code has no such early return and the
     wrapped iterator ends on a key outside the range or off the end ([miss_moves] = true). *)
  Definition b_seek_gen (miss_moves : bool) (t : bytes) (s : S) : S * bool :=
    let t' := match lo with Some a => if blt t a then a else t | None => t end in
    if negb miss_moves && (match hi with Some e => negb (blt t' e) | None => false end) then (s, false)
    else let (s', r) := i_seek I t' s in
         if r then (s', b_check s') else (s', false).
  Definition b_seek := b_seek_gen bounded_seek_miss_moves.

  Definition b_next (s : S) : S * bool :=
    if b_check s then
      let (s', r) := i_next I s in
      if r then (s', b_check s') else (s', false)
    else (s, false).

  (* walk from the current position while the key is below the end bound, remembering the
     last key seen *)
  Fixpoint b_walk (fuel : nat) (e : bytes) (s : S) (lastk : option bytes) : S * option bytes :=
    match fuel with
    | O => (s, lastk)
    | Datatypes.S f =>
      if i_valid I s && blt (i_key I s) e
      then b_walk f e (fst (i_next I s)) (Some (i_key I s))
      else (s, lastk)
    end.

  (* SeekToLast (greatest key k with start <= k < end, invalid if there is none): with an end
     bound, walk forward for the last key below it and seek there. The repaired bounded.go
     starts the walk at Seek(start) instead of SeekToFirst, which is observationally the same
     (the position before the walk is not observable and the result is re-sought). *)
  Definition b_last (s : S) : S :=
    match hi with
    | Some e =>
      let s0 := i_first I s in
      let (s1, lastk) := b_walk (i_fuel I s0) e s0 None in
      match lastk with
      | Some k => fst (i_seek I k s1)
      | None => s1
      end
    | None => i_last I s
    end.

  (* SeekToLast of the pinned tree (defect D24, repaired since): backs up only when Seek(end)
     lands on a key EQUAL to the end bound. Kept for the refutation example in ScanProofs.v. *)
  Definition b_last_pinned (s : S) : S :=
    match hi with
    | Some e =>
      let (s0, _) := i_seek I e s in
      if i_valid I s0 && beq (i_key I s0) e then
        let s1 := i_first I s0 in
        let (s2, lastk) := b_walk (i_fuel I s1) e s1 None in
        match lastk with
        | Some k => fst (i_seek I k s2)
        | None => i_first I s2
        end
      else s0
    | None => i_last I s
    end.

  Definition bounded_iter : Iter S := {|
    i_first := b_first;
    i_seek := b_seek;
    i_next := b_next;
    i_last := b_last;
    i_valid := b_check;
    i_key := fun s => if b_check s then i_key I s else [];
    i_value := fun s => if b_check s then i_value I s else None;
    i_tomb := fun s => b_check s && i_tomb I s;
    i_fuel := i_fuel I
  |}.
End Bounded.

(* ------------------------------------------------------------------------------------ *)
(* 4. FilteredIterator                                                                    *)
(* ------------------------------------------------------------------------------------ *)

Section Filtered.
  Context {S : Type} (I : Iter S) (f : bytes -> bool).

  (* for fi.iter.Next() { if fi.keyFilter(fi.iter.Key()) { return true } }; return false *)
  Fixpoint f_next_loop (fuel : nat) (s : S) : S * bool :=
    match fuel with
    | O => (s, false)
    | Datatypes.S n =>
      let (s', r) := i_next I s in
      if r then (if f (i_key I s') then (s', true) else f_next_loop n s') else (s', false)
    end.
  Definition f_next (s : S) : S * bool := f_next_loop (i_fuel I s) s.

  Definition f_valid (s : S) : bool := i_valid I s && f (i_key I s).

  Definition f_first (s : S) : S :=
    let s1 := i_first I s in
    if i_valid I s1 && negb (f (i_key I s1)) then fst (f_next s1) else s1.

  Definition f_seek (t : bytes) (s : S) : S * bool :=
    let (s1, r) := i_seek I t s in
    if r then (if f (i_key I s1) then (s1, true) else f_next s1) else (s1, false).

  (* scan from the first key remembering the last key that passes the filter *)
  Fixpoint f_walk (fuel : nat) (s : S) (lastk : option bytes) : S * option bytes :=
    match fuel with
    | O => (s, lastk)
    | Datatypes.S n =>
      if i_valid I s
      then f_walk n (fst (i_next I s)) (if f (i_key I s) then Some (i_key I s) else lastk)
      else (s, lastk)
    end.

  Definition f_last (s : S) : S :=
    let s1 := i_last I s in
    if i_valid I s1 && negb (f (i_key I s1)) then
      let s2 := i_first I s1 in
      let (s3, lastk) := f_walk (i_fuel I s2) s2 None in
      match lastk with
      | Some k => fst (i_seek I k s3)
      | None => i_first I s3
      end
    else s1.

  Definition filtered_iter : Iter S := {|
    i_first := f_first;
    i_seek := f_seek;
    i_next := f_next;
    i_last := f_last;
    i_valid := f_valid;
    i_key := i_key I;
    i_value := i_value I;
    i_tomb := i_tomb I;
    i_fuel := i_fuel I
  |}.
End Filtered.

Definition prefix_filter (p : bytes) : bytes -> bool := fun k => has_prefix p k.
Definition suffix_filter (p : bytes) : bytes -> bool := fun k => has_suffix p k.

(* ------------------------------------------------------------------------------------ *)
(* 5. Two kinds of iterator behind one interface (a slice of iterator.Iterator values)      *)
(* ------------------------------------------------------------------------------------ *)

Section Sum.
  Context {A B : Type} (IA : Iter A) (IB : Iter B).
  Definition sum_iter : Iter (A + B) := {|
    i_first := fun s => match s with inl a => inl (i_first IA a) | inr b => inr (i_first IB b) end;
    i_seek := fun t s => match s with
                         | inl a => let (a', r) := i_seek IA t a in (inl a', r)
                         | inr b => let (b', r) := i_seek IB t b in (inr b', r)
                         end;
    i_next := fun s => match s with
                       | inl a => let (a', r) := i_next IA a in (inl a', r)
                       | inr b => let (b', r) := i_next IB b in (inr b', r)
                       end;
    i_last := fun s => match s with inl a => inl (i_last IA a) | inr b => inr (i_last IB b) end;
    i_valid := fun s => match s with inl a => i_valid IA a | inr b => i_valid IB b end;
    i_key := fun s => match s with inl a => i_key IA a | inr b => i_key IB b end;
    i_value := fun s => match s with inl a => i_value IA a | inr b => i_value IB b end;
    i_tomb := fun s => match s with inl a => i_tomb IA a | inr b => i_tomb IB b end;
    i_fuel := fun s => match s with inl a => i_fuel IA a | inr b => i_fuel IB b end
  |}.
End Sum.

(* ------------------------------------------------------------------------------------ *)
(* 6. The stacks the engine and the transactions build                                     *)
(* ------------------------------------------------------------------------------------ *)

Definition kv_of_mentry (e : mentry) : kv :=
  (mk e, match mkind e with KDel => None | KVal => Some (mval e) end).
Definition kv_of_sentry (e : sentry) : kv := (sk e, sval e).

(* MemTable.NewIterator: snapshot filter of a mutable table, none for an immutable one *)
Definition mem_src (m : memtable) : src := mkSrc KMem (map kv_of_mentry (mt_iter_entries m)) [].
Definition sst_src (t : sst) : src := mkSrc KSst (map kv_of_sentry (s_entries t)) [].

(* Factory.createBaseIterator: memtables newest first (GetMemTables), then the SSTables from
   the last of Manager.sstables to the first *)
Definition eng_sources (s : st) : list src :=
  map mem_src (mem_layers s) ++ map sst_src (rev (ssts s)).

Definition eng_it : Iter (hier src) := hier_iter src_iter.
Definition eng_iter (s : st) : hier src := hier_new (eng_sources s).
Definition eng_range_it (lo hi : option bytes) : Iter (hier src) := bounded_iter eng_it lo hi.

(* Buffer.NewIterator: operations sorted by key, position -1 *)
Definition buf_src (ops : list bop) : src := mkSrc KBuf (buffer_ops ops) [].

(* Transaction.NewIterator: the storage iterator itself when the buffer is empty, otherwise
   hierarchical [buffer; storage] *)
Definition txS := (hier src + hier (src + hier src))%type.
Definition tx_it : Iter txS := sum_iter eng_it (hier_iter (sum_iter src_iter eng_it)).
Definition tx_full (s : st) (ops : list bop) : txS :=
  match buffer_ops ops with
  | [] => inl (eng_iter s)
  | _ => inr (hier_new [inl (buf_src ops); inr (eng_iter s)])
  end.

(* Transaction.NewRangeIterator: the storage range iterator when the buffer is empty,
   otherwise hierarchical [bounded buffer; bounded storage] *)
Definition tx_range_it (lo hi : option bytes) : Iter txS :=
  sum_iter (eng_range_it lo hi) (hier_iter (sum_iter (bounded_iter src_iter lo hi) (eng_range_it lo hi))).
Definition tx_range (s : st) (ops : list bop) : txS := tx_full s ops.

(* ------------------------------------------------------------------------------------ *)
(* 7. The consumer: service.Scan / TxScan                                                  *)
(* ------------------------------------------------------------------------------------ *)

Section Scan.
  Context {S : Type} (I : Iter S).

  (* for iter.Valid() { if limit > 0 && count >= limit { break }
                        if !iter.IsTombstone() { send(Key, Value); count++ }; iter.Next() } *)
  Fixpoint scan_loop (fuel : nat) (limit count : N) (s : S) : list (bytes * bytes) :=
    match fuel with
    | O => []
    | Datatypes.S n =>
      if i_valid I s then
        if (0 <? limit) && (limit <=? count) then []
        else
          let s' := fst (i_next I s) in
          if i_tomb I s then scan_loop n limit count s'
          else (i_key I s, match i_value I s with Some v => v | None => [] end)
                 :: scan_loop n limit (count + 1) s'
      else []
    end.

  Definition scan (limit : N) (s : S) : list (bytes * bytes) :=
    let s0 := i_first I s in scan_loop (i_fuel I s0) limit 0 s0.

  (* everything the iterator surfaces from its position on, deletion markers included *)
  Fixpoint collect_loop (fuel : nat) (s : S) : list kv :=
    match fuel with
    | O => []
    | Datatypes.S n =>
      if i_valid I s then (i_key I s, i_value I s) :: collect_loop n (fst (i_next I s)) else []
    end.
  Definition collect (s : S) : list kv := let s0 := i_first I s in collect_loop (i_fuel I s0) s0.
End Scan.

(* ------------------------------------------------------------------------------------ *)
(* 8. A scan that runs while other clients write                                           *)
(* ------------------------------------------------------------------------------------ *)

(* A writer's insert into the skip list a memtable source iterates, as this iterator sees it
   (entries hidden by the snapshot filter are no step at all): the entry joins the list at
   index i (the theorems demand that the list stays key-sorted); it lies ahead of the iterator
   iff it is linked in behind the node the iterator stands on. An exhausted or not yet
   positioned iterator (current == nil / head) has nothing ahead either way. *)
Fixpoint ins_at (i : nat) (e : kv) (l : list kv) : list kv :=
  match i, l with
  | O, _ => e :: l
  | Datatypes.S n, x :: r => x :: ins_at n e r
  | Datatypes.S _, [] => [e]
  end.

Definition src_write (i : nat) (e : kv) (s : src) : src :=
  let before := (length (s_all s) - length (s_cur s))%nat in
  mkSrc (s_kind s) (ins_at i e (s_all s))
        (match s_cur s with
         | [] => []
         | _ => if Nat.leb i before then s_cur s else ins_at (i - before)%nat e (s_cur s)
         end).

(* the steps of an interleaving: the scan calls Next, or a writer changes the sources *)
Inductive cstep (S : Type) := CNext | CWrite (key : bytes) (srcs' : list S).
Arguments CNext {S}. Arguments CWrite {S}.

Section Conc.
  Context {S : Type} (I : Iter S).
  Definition set_srcs (h : hier S) (srcs : list S) : hier S := mkH srcs (h_valid h) (h_key h) (h_val h).
  Definition hpos (h : hier S) : list kv := if h_valid h then [(h_key h, h_val h)] else [].

  (* the entries the scan has surfaced, in order *)
  Fixpoint crun (h : hier S) (steps : list (cstep S)) (out : list kv) : hier S * list kv :=
    match steps with
    | [] => (h, out)
    | CNext :: r => let h' := fst (hier_next I h) in
                    crun h' r (if h_valid h then out ++ hpos h' else out)
    | CWrite _ srcs' :: r => crun (set_srcs h srcs') r out
    end.

  Definition cscan (srcs : list S) (steps : list (cstep S)) : hier S * list kv :=
    let h0 := hier_first I (hier_new srcs) in crun h0 steps (hpos h0).
End Conc.
