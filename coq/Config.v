(* Config.v — executable model of pkg/config/config.go (Config, Validate, SaveManifest,
   LoadConfigFromManifest) and of the load-or-create step of engine.NewEngineFacade.

   What is modelled, and how closely:
   * Config: the 25 exported fields; Go int/int64 fields are Z (the theorems carry the typing
     guard `in_range`: every integer fits int64, which the Go types guarantee); the two
     directory strings are byte lists; `compaction_ratio` (float64) is `fval`: NaN, +-Inf or an
     exact DECIMAL sign * m * 10^e.  A decimal stands for the float64 whose shortest
     round-trip representation it is (strconv 'shortest' formatting, which encoding/json uses);
     that Go's ParseFloat/FormatFloat agree with the decimal arithmetic here on such values is
     the one external assumption (listed in lib/props.d/C20.py, exercised by every generated case).
   * Validate: the comparisons of Config.Validate in source order, first failure reported
     (`checks` below is compared with the table gofacts extracts from the Go AST:
     ConfigProofs.validate_table_matches_source).  This is the code after fix commits 64f1612
     (ratio must be a finite number > 1), f006bc0 (directory names valid UTF-8) and b55f9f4
     (upper bounds of max_memtables and compaction_interval).
   * json.MarshalIndent(c, "", "  ") for this struct: byte-exact text (`encode`), including the
     string escaping of encoding/json (quotes, backslash, control characters, <>&, U+2028/9,
     invalid UTF-8 -> U+FFFD) and the float formatting ('f' / 'e' switch at 1e-6 and 1e21).
   * json.Unmarshal(data, &cfg): a full JSON parser (`pv`: objects, arrays, strings with all
     escapes and surrogate pairs, numbers, literals, whitespace, trailing-data check) followed by
     the struct decoding rules of encoding/json (`decode`): case-insensitive key match
     (including the two non-ASCII folds U+017F and U+212A), unknown keys skipped, duplicate
     keys last-wins, null ignored, any type mismatch / integer overflow / float overflow is an
     error, non-object top level is an error except null.
   * the database directory: does it exist, the MANIFEST bytes, a left-over MANIFEST.tmp,
     everything else in it (`dirst`); `save`, `load`, `open_db` (after fix commit 18e2d38: a
     missing manifest means "new database" only in an otherwise empty directory).
   Not modelled: nesting depth limit 10000 of encoding/json, I/O errors other than "not found",
   file permissions, the second manifest API of pkg/config/manifest.go (covered by the harness
   oracle only; it is not used by the engine).
   Model only: proofs are in ConfigProofs.v. *)
From KV Require Export Bytes.
From KV.gen Require Import ConfigFacts.
From Coq Require Import ZArith String Ascii Decimal.
Import List ListNotations.   (* List.length etc. shadow the String functions again *)
Open Scope N_scope.

(* ---------- byte strings from literals ---------- *)
Fixpoint bs (s : string) : bytes :=
  match s with
  | EmptyString => []
  | String a r => N_of_ascii a :: bs r
  end.

Definition is_nil {A} (l : list A) : bool := match l with [] => true | _ => false end.

(* ---------- float values as exact decimals ---------- *)
Inductive fval :=
  | FNaN
  | FInf (neg : bool)
  | FNum (neg : bool) (m : N) (e : Z).   (* (-1)^neg * m * 10^e *)

Inductive kind := KInt | KStr | KFloat.

Record config := mkConfig {
  c_version : Z;
  c_wal_dir : bytes;
  c_wal_sync_mode : Z;
  c_wal_sync_bytes : Z;
  c_wal_max_size : Z;
  c_memtable_size : Z;
  c_max_memtables : Z;
  c_max_memtable_age : Z;
  c_memtable_pool_cap : Z;
  c_sst_dir : bytes;
  c_sstable_block_size : Z;
  c_sstable_index_size : Z;
  c_sstable_max_size : Z;
  c_sstable_restart_size : Z;
  c_compaction_levels : Z;
  c_compaction_ratio : fval;
  c_compaction_threads : Z;
  c_compaction_interval : Z;
  c_max_level_with_tombstones : Z;
  c_read_only_tx_ttl : Z;
  c_read_write_tx_ttl : Z;
  c_idle_tx_timeout : Z;
  c_tx_cleanup_interval : Z;
  c_tx_warning_threshold : Z;
  c_tx_critical_threshold : Z
}.

Inductive fld :=
  | F_version
  | F_wal_dir
  | F_wal_sync_mode
  | F_wal_sync_bytes
  | F_wal_max_size
  | F_memtable_size
  | F_max_memtables
  | F_max_memtable_age
  | F_memtable_pool_cap
  | F_sst_dir
  | F_sstable_block_size
  | F_sstable_index_size
  | F_sstable_max_size
  | F_sstable_restart_size
  | F_compaction_levels
  | F_compaction_ratio
  | F_compaction_threads
  | F_compaction_interval
  | F_max_level_with_tombstones
  | F_read_only_tx_ttl
  | F_read_write_tx_ttl
  | F_idle_tx_timeout
  | F_tx_cleanup_interval
  | F_tx_warning_threshold
  | F_tx_critical_threshold.

Definition all_fields : list fld :=
  [F_version; F_wal_dir; F_wal_sync_mode; F_wal_sync_bytes; F_wal_max_size; F_memtable_size; F_max_memtables; F_max_memtable_age; F_memtable_pool_cap; F_sst_dir; F_sstable_block_size; F_sstable_index_size; F_sstable_max_size; F_sstable_restart_size; F_compaction_levels; F_compaction_ratio; F_compaction_threads; F_compaction_interval; F_max_level_with_tombstones; F_read_only_tx_ttl; F_read_write_tx_ttl; F_idle_tx_timeout; F_tx_cleanup_interval; F_tx_warning_threshold; F_tx_critical_threshold].

(* the JSON names (struct tags); evaluated here so that the extracted code has no Coq strings *)
Definition name_of : fld -> bytes := Eval cbv in fun f =>
  match f with
  | F_version => bs "version"
  | F_wal_dir => bs "wal_dir"
  | F_wal_sync_mode => bs "wal_sync_mode"
  | F_wal_sync_bytes => bs "wal_sync_bytes"
  | F_wal_max_size => bs "wal_max_size"
  | F_memtable_size => bs "memtable_size"
  | F_max_memtables => bs "max_memtables"
  | F_max_memtable_age => bs "max_memtable_age"
  | F_memtable_pool_cap => bs "memtable_pool_cap"
  | F_sst_dir => bs "sst_dir"
  | F_sstable_block_size => bs "sstable_block_size"
  | F_sstable_index_size => bs "sstable_index_size"
  | F_sstable_max_size => bs "sstable_max_size"
  | F_sstable_restart_size => bs "sstable_restart_size"
  | F_compaction_levels => bs "compaction_levels"
  | F_compaction_ratio => bs "compaction_ratio"
  | F_compaction_threads => bs "compaction_threads"
  | F_compaction_interval => bs "compaction_interval"
  | F_max_level_with_tombstones => bs "max_level_with_tombstones"
  | F_read_only_tx_ttl => bs "read_only_tx_ttl"
  | F_read_write_tx_ttl => bs "read_write_tx_ttl"
  | F_idle_tx_timeout => bs "idle_tx_timeout"
  | F_tx_cleanup_interval => bs "tx_cleanup_interval"
  | F_tx_warning_threshold => bs "tx_warning_threshold"
  | F_tx_critical_threshold => bs "tx_critical_threshold"
  end.

Definition kind_of (f : fld) : kind :=
  match f with
  | F_version => KInt
  | F_wal_dir => KStr
  | F_wal_sync_mode => KInt
  | F_wal_sync_bytes => KInt
  | F_wal_max_size => KInt
  | F_memtable_size => KInt
  | F_max_memtables => KInt
  | F_max_memtable_age => KInt
  | F_memtable_pool_cap => KInt
  | F_sst_dir => KStr
  | F_sstable_block_size => KInt
  | F_sstable_index_size => KInt
  | F_sstable_max_size => KInt
  | F_sstable_restart_size => KInt
  | F_compaction_levels => KInt
  | F_compaction_ratio => KFloat
  | F_compaction_threads => KInt
  | F_compaction_interval => KInt
  | F_max_level_with_tombstones => KInt
  | F_read_only_tx_ttl => KInt
  | F_read_write_tx_ttl => KInt
  | F_idle_tx_timeout => KInt
  | F_tx_cleanup_interval => KInt
  | F_tx_warning_threshold => KInt
  | F_tx_critical_threshold => KInt
  end.

Definition get_int (f : fld) (c : config) : Z :=
  match f with
  | F_version => c_version c
  | F_wal_sync_mode => c_wal_sync_mode c
  | F_wal_sync_bytes => c_wal_sync_bytes c
  | F_wal_max_size => c_wal_max_size c
  | F_memtable_size => c_memtable_size c
  | F_max_memtables => c_max_memtables c
  | F_max_memtable_age => c_max_memtable_age c
  | F_memtable_pool_cap => c_memtable_pool_cap c
  | F_sstable_block_size => c_sstable_block_size c
  | F_sstable_index_size => c_sstable_index_size c
  | F_sstable_max_size => c_sstable_max_size c
  | F_sstable_restart_size => c_sstable_restart_size c
  | F_compaction_levels => c_compaction_levels c
  | F_compaction_threads => c_compaction_threads c
  | F_compaction_interval => c_compaction_interval c
  | F_max_level_with_tombstones => c_max_level_with_tombstones c
  | F_read_only_tx_ttl => c_read_only_tx_ttl c
  | F_read_write_tx_ttl => c_read_write_tx_ttl c
  | F_idle_tx_timeout => c_idle_tx_timeout c
  | F_tx_cleanup_interval => c_tx_cleanup_interval c
  | F_tx_warning_threshold => c_tx_warning_threshold c
  | F_tx_critical_threshold => c_tx_critical_threshold c
  | _ => 0%Z
  end.

Definition set_int (f : fld) (v : Z) (c : config) : config :=
  match f with
  | F_version => mkConfig v (c_wal_dir c) (c_wal_sync_mode c) (c_wal_sync_bytes c) (c_wal_max_size c) (c_memtable_size c) (c_max_memtables c) (c_max_memtable_age c) (c_memtable_pool_cap c) (c_sst_dir c) (c_sstable_block_size c) (c_sstable_index_size c) (c_sstable_max_size c) (c_sstable_restart_size c) (c_compaction_levels c) (c_compaction_ratio c) (c_compaction_threads c) (c_compaction_interval c) (c_max_level_with_tombstones c) (c_read_only_tx_ttl c) (c_read_write_tx_ttl c) (c_idle_tx_timeout c) (c_tx_cleanup_interval c) (c_tx_warning_threshold c) (c_tx_critical_threshold c)
  | F_wal_sync_mode => mkConfig (c_version c) (c_wal_dir c) v (c_wal_sync_bytes c) (c_wal_max_size c) (c_memtable_size c) (c_max_memtables c) (c_max_memtable_age c) (c_memtable_pool_cap c) (c_sst_dir c) (c_sstable_block_size c) (c_sstable_index_size c) (c_sstable_max_size c) (c_sstable_restart_size c) (c_compaction_levels c) (c_compaction_ratio c) (c_compaction_threads c) (c_compaction_interval c) (c_max_level_with_tombstones c) (c_read_only_tx_ttl c) (c_read_write_tx_ttl c) (c_idle_tx_timeout c) (c_tx_cleanup_interval c) (c_tx_warning_threshold c) (c_tx_critical_threshold c)
  | F_wal_sync_bytes => mkConfig (c_version c) (c_wal_dir c) (c_wal_sync_mode c) v (c_wal_max_size c) (c_memtable_size c) (c_max_memtables c) (c_max_memtable_age c) (c_memtable_pool_cap c) (c_sst_dir c) (c_sstable_block_size c) (c_sstable_index_size c) (c_sstable_max_size c) (c_sstable_restart_size c) (c_compaction_levels c) (c_compaction_ratio c) (c_compaction_threads c) (c_compaction_interval c) (c_max_level_with_tombstones c) (c_read_only_tx_ttl c) (c_read_write_tx_ttl c) (c_idle_tx_timeout c) (c_tx_cleanup_interval c) (c_tx_warning_threshold c) (c_tx_critical_threshold c)
  | F_wal_max_size => mkConfig (c_version c) (c_wal_dir c) (c_wal_sync_mode c) (c_wal_sync_bytes c) v (c_memtable_size c) (c_max_memtables c) (c_max_memtable_age c) (c_memtable_pool_cap c) (c_sst_dir c) (c_sstable_block_size c) (c_sstable_index_size c) (c_sstable_max_size c) (c_sstable_restart_size c) (c_compaction_levels c) (c_compaction_ratio c) (c_compaction_threads c) (c_compaction_interval c) (c_max_level_with_tombstones c) (c_read_only_tx_ttl c) (c_read_write_tx_ttl c) (c_idle_tx_timeout c) (c_tx_cleanup_interval c) (c_tx_warning_threshold c) (c_tx_critical_threshold c)
  | F_memtable_size => mkConfig (c_version c) (c_wal_dir c) (c_wal_sync_mode c) (c_wal_sync_bytes c) (c_wal_max_size c) v (c_max_memtables c) (c_max_memtable_age c) (c_memtable_pool_cap c) (c_sst_dir c) (c_sstable_block_size c) (c_sstable_index_size c) (c_sstable_max_size c) (c_sstable_restart_size c) (c_compaction_levels c) (c_compaction_ratio c) (c_compaction_threads c) (c_compaction_interval c) (c_max_level_with_tombstones c) (c_read_only_tx_ttl c) (c_read_write_tx_ttl c) (c_idle_tx_timeout c) (c_tx_cleanup_interval c) (c_tx_warning_threshold c) (c_tx_critical_threshold c)
  | F_max_memtables => mkConfig (c_version c) (c_wal_dir c) (c_wal_sync_mode c) (c_wal_sync_bytes c) (c_wal_max_size c) (c_memtable_size c) v (c_max_memtable_age c) (c_memtable_pool_cap c) (c_sst_dir c) (c_sstable_block_size c) (c_sstable_index_size c) (c_sstable_max_size c) (c_sstable_restart_size c) (c_compaction_levels c) (c_compaction_ratio c) (c_compaction_threads c) (c_compaction_interval c) (c_max_level_with_tombstones c) (c_read_only_tx_ttl c) (c_read_write_tx_ttl c) (c_idle_tx_timeout c) (c_tx_cleanup_interval c) (c_tx_warning_threshold c) (c_tx_critical_threshold c)
  | F_max_memtable_age => mkConfig (c_version c) (c_wal_dir c) (c_wal_sync_mode c) (c_wal_sync_bytes c) (c_wal_max_size c) (c_memtable_size c) (c_max_memtables c) v (c_memtable_pool_cap c) (c_sst_dir c) (c_sstable_block_size c) (c_sstable_index_size c) (c_sstable_max_size c) (c_sstable_restart_size c) (c_compaction_levels c) (c_compaction_ratio c) (c_compaction_threads c) (c_compaction_interval c) (c_max_level_with_tombstones c) (c_read_only_tx_ttl c) (c_read_write_tx_ttl c) (c_idle_tx_timeout c) (c_tx_cleanup_interval c) (c_tx_warning_threshold c) (c_tx_critical_threshold c)
  | F_memtable_pool_cap => mkConfig (c_version c) (c_wal_dir c) (c_wal_sync_mode c) (c_wal_sync_bytes c) (c_wal_max_size c) (c_memtable_size c) (c_max_memtables c) (c_max_memtable_age c) v (c_sst_dir c) (c_sstable_block_size c) (c_sstable_index_size c) (c_sstable_max_size c) (c_sstable_restart_size c) (c_compaction_levels c) (c_compaction_ratio c) (c_compaction_threads c) (c_compaction_interval c) (c_max_level_with_tombstones c) (c_read_only_tx_ttl c) (c_read_write_tx_ttl c) (c_idle_tx_timeout c) (c_tx_cleanup_interval c) (c_tx_warning_threshold c) (c_tx_critical_threshold c)
  | F_sstable_block_size => mkConfig (c_version c) (c_wal_dir c) (c_wal_sync_mode c) (c_wal_sync_bytes c) (c_wal_max_size c) (c_memtable_size c) (c_max_memtables c) (c_max_memtable_age c) (c_memtable_pool_cap c) (c_sst_dir c) v (c_sstable_index_size c) (c_sstable_max_size c) (c_sstable_restart_size c) (c_compaction_levels c) (c_compaction_ratio c) (c_compaction_threads c) (c_compaction_interval c) (c_max_level_with_tombstones c) (c_read_only_tx_ttl c) (c_read_write_tx_ttl c) (c_idle_tx_timeout c) (c_tx_cleanup_interval c) (c_tx_warning_threshold c) (c_tx_critical_threshold c)
  | F_sstable_index_size => mkConfig (c_version c) (c_wal_dir c) (c_wal_sync_mode c) (c_wal_sync_bytes c) (c_wal_max_size c) (c_memtable_size c) (c_max_memtables c) (c_max_memtable_age c) (c_memtable_pool_cap c) (c_sst_dir c) (c_sstable_block_size c) v (c_sstable_max_size c) (c_sstable_restart_size c) (c_compaction_levels c) (c_compaction_ratio c) (c_compaction_threads c) (c_compaction_interval c) (c_max_level_with_tombstones c) (c_read_only_tx_ttl c) (c_read_write_tx_ttl c) (c_idle_tx_timeout c) (c_tx_cleanup_interval c) (c_tx_warning_threshold c) (c_tx_critical_threshold c)
  | F_sstable_max_size => mkConfig (c_version c) (c_wal_dir c) (c_wal_sync_mode c) (c_wal_sync_bytes c) (c_wal_max_size c) (c_memtable_size c) (c_max_memtables c) (c_max_memtable_age c) (c_memtable_pool_cap c) (c_sst_dir c) (c_sstable_block_size c) (c_sstable_index_size c) v (c_sstable_restart_size c) (c_compaction_levels c) (c_compaction_ratio c) (c_compaction_threads c) (c_compaction_interval c) (c_max_level_with_tombstones c) (c_read_only_tx_ttl c) (c_read_write_tx_ttl c) (c_idle_tx_timeout c) (c_tx_cleanup_interval c) (c_tx_warning_threshold c) (c_tx_critical_threshold c)
  | F_sstable_restart_size => mkConfig (c_version c) (c_wal_dir c) (c_wal_sync_mode c) (c_wal_sync_bytes c) (c_wal_max_size c) (c_memtable_size c) (c_max_memtables c) (c_max_memtable_age c) (c_memtable_pool_cap c) (c_sst_dir c) (c_sstable_block_size c) (c_sstable_index_size c) (c_sstable_max_size c) v (c_compaction_levels c) (c_compaction_ratio c) (c_compaction_threads c) (c_compaction_interval c) (c_max_level_with_tombstones c) (c_read_only_tx_ttl c) (c_read_write_tx_ttl c) (c_idle_tx_timeout c) (c_tx_cleanup_interval c) (c_tx_warning_threshold c) (c_tx_critical_threshold c)
  | F_compaction_levels => mkConfig (c_version c) (c_wal_dir c) (c_wal_sync_mode c) (c_wal_sync_bytes c) (c_wal_max_size c) (c_memtable_size c) (c_max_memtables c) (c_max_memtable_age c) (c_memtable_pool_cap c) (c_sst_dir c) (c_sstable_block_size c) (c_sstable_index_size c) (c_sstable_max_size c) (c_sstable_restart_size c) v (c_compaction_ratio c) (c_compaction_threads c) (c_compaction_interval c) (c_max_level_with_tombstones c) (c_read_only_tx_ttl c) (c_read_write_tx_ttl c) (c_idle_tx_timeout c) (c_tx_cleanup_interval c) (c_tx_warning_threshold c) (c_tx_critical_threshold c)
  | F_compaction_threads => mkConfig (c_version c) (c_wal_dir c) (c_wal_sync_mode c) (c_wal_sync_bytes c) (c_wal_max_size c) (c_memtable_size c) (c_max_memtables c) (c_max_memtable_age c) (c_memtable_pool_cap c) (c_sst_dir c) (c_sstable_block_size c) (c_sstable_index_size c) (c_sstable_max_size c) (c_sstable_restart_size c) (c_compaction_levels c) (c_compaction_ratio c) v (c_compaction_interval c) (c_max_level_with_tombstones c) (c_read_only_tx_ttl c) (c_read_write_tx_ttl c) (c_idle_tx_timeout c) (c_tx_cleanup_interval c) (c_tx_warning_threshold c) (c_tx_critical_threshold c)
  | F_compaction_interval => mkConfig (c_version c) (c_wal_dir c) (c_wal_sync_mode c) (c_wal_sync_bytes c) (c_wal_max_size c) (c_memtable_size c) (c_max_memtables c) (c_max_memtable_age c) (c_memtable_pool_cap c) (c_sst_dir c) (c_sstable_block_size c) (c_sstable_index_size c) (c_sstable_max_size c) (c_sstable_restart_size c) (c_compaction_levels c) (c_compaction_ratio c) (c_compaction_threads c) v (c_max_level_with_tombstones c) (c_read_only_tx_ttl c) (c_read_write_tx_ttl c) (c_idle_tx_timeout c) (c_tx_cleanup_interval c) (c_tx_warning_threshold c) (c_tx_critical_threshold c)
  | F_max_level_with_tombstones => mkConfig (c_version c) (c_wal_dir c) (c_wal_sync_mode c) (c_wal_sync_bytes c) (c_wal_max_size c) (c_memtable_size c) (c_max_memtables c) (c_max_memtable_age c) (c_memtable_pool_cap c) (c_sst_dir c) (c_sstable_block_size c) (c_sstable_index_size c) (c_sstable_max_size c) (c_sstable_restart_size c) (c_compaction_levels c) (c_compaction_ratio c) (c_compaction_threads c) (c_compaction_interval c) v (c_read_only_tx_ttl c) (c_read_write_tx_ttl c) (c_idle_tx_timeout c) (c_tx_cleanup_interval c) (c_tx_warning_threshold c) (c_tx_critical_threshold c)
  | F_read_only_tx_ttl => mkConfig (c_version c) (c_wal_dir c) (c_wal_sync_mode c) (c_wal_sync_bytes c) (c_wal_max_size c) (c_memtable_size c) (c_max_memtables c) (c_max_memtable_age c) (c_memtable_pool_cap c) (c_sst_dir c) (c_sstable_block_size c) (c_sstable_index_size c) (c_sstable_max_size c) (c_sstable_restart_size c) (c_compaction_levels c) (c_compaction_ratio c) (c_compaction_threads c) (c_compaction_interval c) (c_max_level_with_tombstones c) v (c_read_write_tx_ttl c) (c_idle_tx_timeout c) (c_tx_cleanup_interval c) (c_tx_warning_threshold c) (c_tx_critical_threshold c)
  | F_read_write_tx_ttl => mkConfig (c_version c) (c_wal_dir c) (c_wal_sync_mode c) (c_wal_sync_bytes c) (c_wal_max_size c) (c_memtable_size c) (c_max_memtables c) (c_max_memtable_age c) (c_memtable_pool_cap c) (c_sst_dir c) (c_sstable_block_size c) (c_sstable_index_size c) (c_sstable_max_size c) (c_sstable_restart_size c) (c_compaction_levels c) (c_compaction_ratio c) (c_compaction_threads c) (c_compaction_interval c) (c_max_level_with_tombstones c) (c_read_only_tx_ttl c) v (c_idle_tx_timeout c) (c_tx_cleanup_interval c) (c_tx_warning_threshold c) (c_tx_critical_threshold c)
  | F_idle_tx_timeout => mkConfig (c_version c) (c_wal_dir c) (c_wal_sync_mode c) (c_wal_sync_bytes c) (c_wal_max_size c) (c_memtable_size c) (c_max_memtables c) (c_max_memtable_age c) (c_memtable_pool_cap c) (c_sst_dir c) (c_sstable_block_size c) (c_sstable_index_size c) (c_sstable_max_size c) (c_sstable_restart_size c) (c_compaction_levels c) (c_compaction_ratio c) (c_compaction_threads c) (c_compaction_interval c) (c_max_level_with_tombstones c) (c_read_only_tx_ttl c) (c_read_write_tx_ttl c) v (c_tx_cleanup_interval c) (c_tx_warning_threshold c) (c_tx_critical_threshold c)
  | F_tx_cleanup_interval => mkConfig (c_version c) (c_wal_dir c) (c_wal_sync_mode c) (c_wal_sync_bytes c) (c_wal_max_size c) (c_memtable_size c) (c_max_memtables c) (c_max_memtable_age c) (c_memtable_pool_cap c) (c_sst_dir c) (c_sstable_block_size c) (c_sstable_index_size c) (c_sstable_max_size c) (c_sstable_restart_size c) (c_compaction_levels c) (c_compaction_ratio c) (c_compaction_threads c) (c_compaction_interval c) (c_max_level_with_tombstones c) (c_read_only_tx_ttl c) (c_read_write_tx_ttl c) (c_idle_tx_timeout c) v (c_tx_warning_threshold c) (c_tx_critical_threshold c)
  | F_tx_warning_threshold => mkConfig (c_version c) (c_wal_dir c) (c_wal_sync_mode c) (c_wal_sync_bytes c) (c_wal_max_size c) (c_memtable_size c) (c_max_memtables c) (c_max_memtable_age c) (c_memtable_pool_cap c) (c_sst_dir c) (c_sstable_block_size c) (c_sstable_index_size c) (c_sstable_max_size c) (c_sstable_restart_size c) (c_compaction_levels c) (c_compaction_ratio c) (c_compaction_threads c) (c_compaction_interval c) (c_max_level_with_tombstones c) (c_read_only_tx_ttl c) (c_read_write_tx_ttl c) (c_idle_tx_timeout c) (c_tx_cleanup_interval c) v (c_tx_critical_threshold c)
  | F_tx_critical_threshold => mkConfig (c_version c) (c_wal_dir c) (c_wal_sync_mode c) (c_wal_sync_bytes c) (c_wal_max_size c) (c_memtable_size c) (c_max_memtables c) (c_max_memtable_age c) (c_memtable_pool_cap c) (c_sst_dir c) (c_sstable_block_size c) (c_sstable_index_size c) (c_sstable_max_size c) (c_sstable_restart_size c) (c_compaction_levels c) (c_compaction_ratio c) (c_compaction_threads c) (c_compaction_interval c) (c_max_level_with_tombstones c) (c_read_only_tx_ttl c) (c_read_write_tx_ttl c) (c_idle_tx_timeout c) (c_tx_cleanup_interval c) (c_tx_warning_threshold c) v
  | _ => c
  end.

Definition get_str (f : fld) (c : config) : bytes :=
  match f with
  | F_wal_dir => c_wal_dir c
  | F_sst_dir => c_sst_dir c
  | _ => []
  end.

Definition set_str (f : fld) (v : bytes) (c : config) : config :=
  match f with
  | F_wal_dir => mkConfig (c_version c) v (c_wal_sync_mode c) (c_wal_sync_bytes c) (c_wal_max_size c) (c_memtable_size c) (c_max_memtables c) (c_max_memtable_age c) (c_memtable_pool_cap c) (c_sst_dir c) (c_sstable_block_size c) (c_sstable_index_size c) (c_sstable_max_size c) (c_sstable_restart_size c) (c_compaction_levels c) (c_compaction_ratio c) (c_compaction_threads c) (c_compaction_interval c) (c_max_level_with_tombstones c) (c_read_only_tx_ttl c) (c_read_write_tx_ttl c) (c_idle_tx_timeout c) (c_tx_cleanup_interval c) (c_tx_warning_threshold c) (c_tx_critical_threshold c)
  | F_sst_dir => mkConfig (c_version c) (c_wal_dir c) (c_wal_sync_mode c) (c_wal_sync_bytes c) (c_wal_max_size c) (c_memtable_size c) (c_max_memtables c) (c_max_memtable_age c) (c_memtable_pool_cap c) v (c_sstable_block_size c) (c_sstable_index_size c) (c_sstable_max_size c) (c_sstable_restart_size c) (c_compaction_levels c) (c_compaction_ratio c) (c_compaction_threads c) (c_compaction_interval c) (c_max_level_with_tombstones c) (c_read_only_tx_ttl c) (c_read_write_tx_ttl c) (c_idle_tx_timeout c) (c_tx_cleanup_interval c) (c_tx_warning_threshold c) (c_tx_critical_threshold c)
  | _ => c
  end.

Definition set_ratio (v : fval) (c : config) : config :=
  mkConfig (c_version c) (c_wal_dir c) (c_wal_sync_mode c) (c_wal_sync_bytes c) (c_wal_max_size c) (c_memtable_size c) (c_max_memtables c) (c_max_memtable_age c) (c_memtable_pool_cap c) (c_sst_dir c) (c_sstable_block_size c) (c_sstable_index_size c) (c_sstable_max_size c) (c_sstable_restart_size c) (c_compaction_levels c) v (c_compaction_threads c) (c_compaction_interval c) (c_max_level_with_tombstones c) (c_read_only_tx_ttl c) (c_read_write_tx_ttl c) (c_idle_tx_timeout c) (c_tx_cleanup_interval c) (c_tx_warning_threshold c) (c_tx_critical_threshold c).

Definition zero_config : config :=
  mkConfig 0%Z [] 0%Z 0%Z 0%Z 0%Z 0%Z 0%Z 0%Z [] 0%Z 0%Z 0%Z 0%Z 0%Z (FNum false 0 0%Z) 0%Z 0%Z 0%Z
           0%Z 0%Z 0%Z 0%Z 0%Z 0%Z.

Definition MaxInt64 : Z := 9223372036854775807%Z.
Definition MinInt64 : Z := (-9223372036854775808)%Z.
Definition int64_ok (z : Z) : bool := (MinInt64 <=? z)%Z && (z <=? MaxInt64)%Z.

(* typing guard: what the Go field types guarantee *)
Definition in_range (c : config) : bool :=
  forallb (fun f => int64_ok (get_int f c)) all_fields.

(* ---------- Validate ---------- *)

(* `x > 1.0` on float64 (false for NaN) *)
Definition f_gt1 (f : fval) : bool :=
  match f with
  | FNaN => false
  | FInf neg => negb neg
  | FNum true _ _ => false
  | FNum false m e =>
      if (0 <=? e)%Z then (1 <? Z.of_N m * 10 ^ e)%Z
      else (10 ^ (- e) <? Z.of_N m)%Z
  end.

(* math.IsInf(x, 0) *)
Definition f_isinf (f : fval) : bool := match f with FInf _ => true | _ => false end.

Inductive operand := OLit (z : Z) | OFld (f : fld).
Inductive atom :=
  | ALe (f : fld) (o : operand)      (* c.F <= o *)
  | AGe (f : fld) (o : operand)      (* c.F >= o *)
  | AGt (f : fld) (o : operand)      (* c.F > o *)
  | AEmpty (f : fld)                 (* c.F == "" *)
  | ANotUtf8 (f : fld)               (* !utf8.ValidString(c.F) *)
  | AFloatNotGt1 (f : fld)           (* !(c.F > 1.0) *)
  | AFloatIsInf (f : fld).           (* math.IsInf(c.F, 0) *)

Definition eval_operand (c : config) (o : operand) : Z :=
  match o with OLit z => z | OFld f => get_int f c end.

(* ---------- UTF-8 (utf8.DecodeRune: 0 = invalid, else the width) ---------- *)

Definition cont (b : N) : bool := (128 <=? b) && (b <=? 191).

Definition utf8_len (s : bytes) : nat :=
  match s with
  | [] => O
  | b0 :: r =>
      if b0 <? 128 then 1%nat
      else if (194 <=? b0) && (b0 <=? 223) then
        match r with b1 :: _ => if cont b1 then 2%nat else O | _ => O end
      else if (224 <=? b0) && (b0 <=? 239) then
        match r with
        | b1 :: b2 :: _ =>
            let lo := if b0 =? 224 then 160 else 128 in
            let hi := if b0 =? 237 then 159 else 191 in
            if (lo <=? b1) && (b1 <=? hi) && cont b2 then 3%nat else O
        | _ => O
        end
      else if (240 <=? b0) && (b0 <=? 244) then
        match r with
        | b1 :: b2 :: b3 :: _ =>
            let lo := if b0 =? 240 then 144 else 128 in
            let hi := if b0 =? 244 then 143 else 191 in
            if (lo <=? b1) && (b1 <=? hi) && cont b2 && cont b3 then 4%nat else O
        | _ => O
        end
      else O
  end.

(* utf8.EncodeRune for a scalar value (surrogates and > 0x10FFFF become U+FFFD) *)
Definition replacement : bytes := [239; 191; 189].
Definition encode_rune (r : N) : bytes :=
  if r <? 128 then [r]
  else if r <? 2048 then [192 + r / 64; 128 + r mod 64]
  else if ((55296 <=? r) && (r <=? 57343)) || (1114111 <? r) then replacement
  else if r <? 65536 then [224 + r / 4096; 128 + (r / 64) mod 64; 128 + r mod 64]
  else [240 + r / 262144; 128 + (r / 4096) mod 64; 128 + (r / 64) mod 64; 128 + r mod 64].

(* valid UTF-8 throughout (utf8.Valid) *)
Fixpoint utf8_valid (fuel : nat) (s : bytes) : bool :=
  match fuel with
  | O => is_nil s
  | S f =>
      match s with
      | [] => true
      | _ => match utf8_len s with
             | O => false
             | n => utf8_valid f (skipn n s)
             end
      end
  end.

Definition eval_atom (c : config) (a : atom) : bool :=
  match a with
  | ALe f o => (get_int f c <=? eval_operand c o)%Z
  | AGe f o => (get_int f c >=? eval_operand c o)%Z
  | AGt f o => (get_int f c >? eval_operand c o)%Z
  | AEmpty f => is_nil (get_str f c)
  | ANotUtf8 f => negb (utf8_valid (length (get_str f c)) (get_str f c))
  | AFloatNotGt1 _ => negb (f_gt1 (c_compaction_ratio c))
  | AFloatIsInf _ => f_isinf (c_compaction_ratio c)
  end.

Definition MaxMemTablesLimit : Z := 65536%Z.
Definition MaxIntervalSeconds : Z := 9223372036%Z.     (* math.MaxInt64 / int64(time.Second) *)

(* Config.Validate: one entry per `if a1 || a2 { return error }`, in source order *)
Definition checks : list (list atom) :=
  [ [ALe F_version (OLit 0)];
    [AEmpty F_wal_dir];
    [AEmpty F_sst_dir];
    [ANotUtf8 F_wal_dir];
    [ANotUtf8 F_sst_dir];
    [ALe F_memtable_size (OLit 0)];
    [ALe F_max_memtables (OLit 0)];
    [AGt F_max_memtables (OLit MaxMemTablesLimit)];
    [ALe F_sstable_block_size (OLit 0)];
    [ALe F_sstable_index_size (OLit 0)];
    [ALe F_compaction_levels (OLit 0)];
    [AFloatNotGt1 F_compaction_ratio; AFloatIsInf F_compaction_ratio];
    [AGt F_compaction_interval (OLit MaxIntervalSeconds)];
    [ALe F_read_only_tx_ttl (OLit 0)];
    [ALe F_read_write_tx_ttl (OLit 0)];
    [ALe F_idle_tx_timeout (OLit 0)];
    [ALe F_tx_cleanup_interval (OLit 0)];
    [ALe F_tx_warning_threshold (OLit 0); AGe F_tx_warning_threshold (OLit 100)];
    [ALe F_tx_critical_threshold (OFld F_tx_warning_threshold); AGe F_tx_critical_threshold (OLit 100)] ].

Definition atom_field (a : atom) : fld :=
  match a with ALe f _ | AGe f _ | AGt f _ | AEmpty f | ANotUtf8 f | AFloatNotGt1 f | AFloatIsInf f => f end.

(* the failing check is identified by the field its first comparison talks about *)
Fixpoint first_failing (c : config) (l : list (list atom)) : option fld :=
  match l with
  | [] => None
  | ck :: r =>
      if existsb (eval_atom c) ck
      then match ck with a :: _ => Some (atom_field a) | [] => None end
      else first_failing c r
  end.

(* None = valid; Some f = "invalid configuration", the check on field f failed *)
Definition validate (c : config) : option fld := first_failing c checks.

(* ---------- decimal integers ---------- *)

Fixpoint uint_bytes (d : uint) : bytes :=
  match d with
  | Nil => []
  | D0 r => 48 :: uint_bytes r | D1 r => 49 :: uint_bytes r | D2 r => 50 :: uint_bytes r
  | D3 r => 51 :: uint_bytes r | D4 r => 52 :: uint_bytes r | D5 r => 53 :: uint_bytes r
  | D6 r => 54 :: uint_bytes r | D7 r => 55 :: uint_bytes r | D8 r => 56 :: uint_bytes r
  | D9 r => 57 :: uint_bytes r
  end.

Definition is_digit (b : N) : bool := (48 <=? b) && (b <=? 57).

Fixpoint bytes_uint (l : bytes) : uint :=
  match l with
  | [] => Nil
  | b :: r =>
      let u := bytes_uint r in
      if b =? 49 then D1 u else if b =? 50 then D2 u else if b =? 51 then D3 u
      else if b =? 52 then D4 u else if b =? 53 then D5 u else if b =? 54 then D6 u
      else if b =? 55 then D7 u else if b =? 56 then D8 u else if b =? 57 then D9 u
      else D0 u
  end.

Definition dec_of_N (n : N) : bytes := uint_bytes (N.to_uint n).
Definition N_of_dec (l : bytes) : N := N.of_uint (bytes_uint l).

(* strconv.FormatInt(z, 10) *)
Definition enc_int (z : Z) : bytes :=
  match z with
  | Z0 => [48]
  | Zpos p => dec_of_N (Npos p)
  | Zneg p => 45 :: dec_of_N (Npos p)
  end.

(* ---------- JSON text of a string (encoding/json appendString, escapeHTML = true) ---------- *)

Definition hexd (n : N) : N := if n <? 10 then 48 + n else 87 + n.

Definition esc_byte (b : N) : bytes :=
  if b =? 34 then [92; 34] else if b =? 92 then [92; 92]
  else if b =? 8 then [92; 98] else if b =? 12 then [92; 102] else if b =? 10 then [92; 110]
  else if b =? 13 then [92; 114] else if b =? 9 then [92; 116]
  else if (b <? 32) || (b =? 60) || (b =? 62) || (b =? 38)
       then [92; 117; 48; 48; hexd (b / 16); hexd (b mod 16)]
  else [b].

Fixpoint enc_str_body (fuel : nat) (s : bytes) : bytes :=
  match fuel with
  | O => []
  | S f =>
      match s with
      | [] => []
      | b :: r =>
          if b <? 128 then esc_byte b ++ enc_str_body f r
          else match utf8_len s with
               | O => [92; 117; 102; 102; 102; 100] ++ enc_str_body f r           (* � *)
               | n =>
                   let ch := firstn n s in
                   (if beq ch [226; 128; 168] then [92; 117; 50; 48; 50; 56]       (*   *)
                    else if beq ch [226; 128; 169] then [92; 117; 50; 48; 50; 57]  (*   *)
                    else ch) ++ enc_str_body f (skipn n s)
               end
      end
  end.

Definition enc_str (s : bytes) : bytes := 34 :: enc_str_body (length s) s ++ [34].

(* ---------- JSON text of a float64 (encoding/json floatEncoder) ---------- *)

Fixpoint zeros (n : nat) : bytes := match n with O => [] | S k => 48 :: zeros k end.

Definition fmt_float (f : fval) : option bytes :=
  match f with
  | FNaN | FInf _ => None                       (* json: unsupported value *)
  | FNum neg m e =>
      let sign := if neg then [45] else [] in
      if m =? 0 then Some (sign ++ [48])
      else
        let ds := dec_of_N m in
        let nd := Z.of_nat (length ds) in
        let dp := (nd + e)%Z in                (* value = 0.d1d2.. * 10^dp *)
        if (dp <=? -6)%Z || (22 <=? dp)%Z then
          (* %e, shortest; "e-07" is cleaned up to "e-7", so the exponent has its natural digits *)
          let x := (dp - 1)%Z in
          let mant := match ds with
                      | [] => []
                      | d :: [] => [d]
                      | d :: rest => d :: 46 :: rest
                      end in
          Some (sign ++ mant ++ [101; if (x <? 0)%Z then 45 else 43] ++ dec_of_N (Z.abs_N x))
        else if (dp <=? 0)%Z then Some (sign ++ [48; 46] ++ zeros (Z.to_nat (- dp)) ++ ds)
        else if (nd <=? dp)%Z then Some (sign ++ ds ++ zeros (Z.to_nat (dp - nd)))
        else Some (sign ++ firstn (Z.to_nat dp) ds ++ [46] ++ skipn (Z.to_nat dp) ds)
  end.

(* ---------- the manifest text: json.MarshalIndent(c, "", "  ") ---------- *)

Definition enc_field (c : config) (f : fld) : option bytes :=
  match kind_of f with
  | KInt => Some (enc_int (get_int f c))
  | KStr => Some (enc_str (get_str f c))
  | KFloat => fmt_float (c_compaction_ratio c)
  end.

Definition enc_member (k v : bytes) : bytes := [32; 32; 34] ++ k ++ [34; 58; 32] ++ v.

Fixpoint enc_members (ms : list (bytes * bytes)) : bytes :=
  match ms with
  | [] => []
  | (k, v) :: [] => enc_member k v
  | (k, v) :: r => enc_member k v ++ [44; 10] ++ enc_members r
  end.

Definition enc_obj (ms : list (bytes * bytes)) : bytes := [123; 10] ++ enc_members ms ++ [10; 125].

Fixpoint enc_fields (c : config) (fs : list fld) : option (list (bytes * bytes)) :=
  match fs with
  | [] => Some []
  | f :: r =>
      match enc_field c f, enc_fields c r with
      | Some v, Some ms => Some ((name_of f, v) :: ms)
      | _, _ => None
      end
  end.

Definition encode (c : config) : option bytes :=
  match enc_fields c all_fields with
  | Some ms => Some (enc_obj ms)
  | None => None
  end.

(* ---------- JSON parser (encoding/json scanner + generic value) ---------- *)

Record numlit := mkNum {
  nl_neg : bool;
  nl_int : bytes;                       (* digits *)
  nl_frac : bytes;                      (* digits after '.', [] = no fraction *)
  nl_exp : option (bool * bytes) }.     (* (negative, digits) *)

Inductive jv :=
  | JNull | JTrue | JFalse
  | JNum (n : numlit)
  | JStr (s : bytes)
  | JArr (l : list jv)
  | JObj (m : list (bytes * jv)).

Definition is_ws (b : N) : bool := (b =? 32) || (b =? 9) || (b =? 10) || (b =? 13).

Fixpoint skip_ws (s : bytes) : bytes :=
  match s with
  | b :: r => if is_ws b then skip_ws r else s
  | [] => []
  end.

Definition all_ws (s : bytes) : bool := is_nil (skip_ws s).

(* the rest of s if its first byte is c *)
Definition hd_is (c : N) (s : bytes) : option bytes :=
  match s with
  | b :: r => if b =? c then Some r else None
  | [] => None
  end.

Fixpoint span_digits (s : bytes) : bytes * bytes :=
  match s with
  | b :: r => if is_digit b then let (d, t) := span_digits r in (b :: d, t) else ([], s)
  | [] => ([], [])
  end.

(* JSON number: optional '-', then 0 or a digit string without leading 0, optional '.' digits,
   optional e/E with optional sign and digits; s starts at '-' or a digit *)
Definition pfrac (s : bytes) : option (bytes * bytes) :=
  match hd_is 46 s with
  | Some r => let (fp, t) := span_digits r in if is_nil fp then None else Some (fp, t)
  | None => Some ([], s)
  end.

Definition exp_mark (s : bytes) : option bytes :=
  match hd_is 101 s with Some r => Some r | None => hd_is 69 s end.

Definition exp_sign (r : bytes) : bool * bytes :=
  match hd_is 45 r with
  | Some r' => (true, r')
  | None => match hd_is 43 r with
            | Some r' => (false, r')
            | None => (false, r)
            end
  end.

Definition pexp (s : bytes) : option (option (bool * bytes) * bytes) :=
  match exp_mark s with
  | Some r =>
      let (ep, t) := span_digits (snd (exp_sign r)) in
      if is_nil ep then None else Some (Some (fst (exp_sign r), ep), t)
  | None => Some (None, s)
  end.

Definition pnum_abs (neg : bool) (s : bytes) : option (numlit * bytes) :=
  let (ip, s2) := span_digits s in
  match ip with
  | [] => None
  | d :: ds =>
      if (d =? 48) && negb (is_nil ds) then None      (* a digit after a leading 0 *)
      else match pfrac s2 with
           | None => None
           | Some (fp, s3) =>
               match pexp s3 with
               | None => None
               | Some (ex, t) => Some (mkNum neg (d :: ds) fp ex, t)
               end
           end
  end.

Definition pnum (s : bytes) : option (numlit * bytes) :=
  match hd_is 45 s with
  | Some r => pnum_abs true r
  | None => pnum_abs false s
  end.

(* string body after the opening quote: raw bytes up to the closing quote.  A backslash
   protects the next byte; bytes below 0x20 are errors. *)
Fixpoint scan_str (esc : bool) (s : bytes) : option (bytes * bytes) :=
  match s with
  | [] => None
  | b :: r =>
      if b <? 32 then None
      else if esc then
        match scan_str false r with Some (raw, rest) => Some (b :: raw, rest) | None => None end
      else if b =? 34 then Some ([], r)
      else match scan_str (b =? 92) r with Some (raw, rest) => Some (b :: raw, rest) | None => None end
  end.

Definition hexval (b : N) : option N :=
  if is_digit b then Some (b - 48)
  else if (97 <=? b) && (b <=? 102) then Some (b - 87)
  else if (65 <=? b) && (b <=? 70) then Some (b - 55)
  else None.

(* getu4 on the four bytes after "\u" *)
Definition hex4 (s : bytes) : option (N * bytes) :=
  match s with
  | a :: b :: c :: d :: r =>
      match hexval a, hexval b, hexval c, hexval d with
      | Some x, Some y, Some z, Some w => Some (x * 4096 + y * 256 + z * 16 + w, r)
      | _, _, _, _ => None
      end
  | _ => None
  end.

(* unquoteBytes on the raw bytes between the quotes *)
Fixpoint unquote (fuel : nat) (s : bytes) : option bytes :=
  match fuel with
  | O => match s with [] => Some [] | _ => None end
  | S f =>
      match s with
      | [] => Some []
      | b :: r =>
          if b =? 92 then
            match r with
            | [] => None
            | c :: r1 =>
                let one x := match unquote f r1 with Some t => Some (x :: t) | None => None end in
                if (c =? 34) || (c =? 92) || (c =? 47) then one c
                else if c =? 98 then one 8 else if c =? 102 then one 12
                else if c =? 110 then one 10 else if c =? 114 then one 13
                else if c =? 116 then one 9
                else if c =? 117 then
                  match hex4 r1 with
                  | None => None
                  | Some (u, r2) =>
                      let plain x rest := match unquote f rest with
                                          | Some t => Some (encode_rune x ++ t) | None => None end in
                      if (55296 <=? u) && (u <=? 57343) then
                        (* surrogate: needs \uDC00..\uDFFF right behind a high surrogate *)
                        match (match hd_is 92 r2 with Some x => hd_is 117 x | None => None end) with
                        | Some r3 =>
                            match hex4 r3 with
                            | Some (u2, r4) =>
                                if (u <? 56320) && (56320 <=? u2) && (u2 <=? 57343)
                                then plain (65536 + (u - 55296) * 1024 + (u2 - 56320)) r4
                                else plain 65533 r2
                            | None => plain 65533 r2
                            end
                        | None => plain 65533 r2
                        end
                      else plain u r2
                  end
                else None
            end
          else if b <? 128 then
            match unquote f r with Some t => Some (b :: t) | None => None end
          else
            match utf8_len s with
            | O => match unquote f r with Some t => Some (replacement ++ t) | None => None end
            | n => match unquote f (skipn n s) with Some t => Some (firstn n s ++ t) | None => None end
            end
      end
  end.

Definition pstring (s : bytes) : option (bytes * bytes) :=
  match scan_str false s with
  | Some (raw, rest) =>
      match unquote (length raw) raw with Some t => Some (t, rest) | None => None end
  | None => None
  end.

(* what follows the first byte of true / false / null *)
Definition lit_rue : bytes := [114; 117; 101].
Definition lit_alse : bytes := [97; 108; 115; 101].
Definition lit_ull : bytes := [117; 108; 108].

Fixpoint pv (fuel : nat) (s : bytes) : option (jv * bytes) :=
  match fuel with
  | O => None
  | S f =>
      match skip_ws s with
      | [] => None
      | b :: r =>
          if b =? 123 then
            match hd_is 125 (skip_ws r) with
            | Some r' => Some (JObj [], r')
            | None => pmem f r []
            end
          else if b =? 91 then
            match hd_is 93 (skip_ws r) with
            | Some r' => Some (JArr [], r')
            | None => pelems f r []
            end
          else if b =? 34 then
            match pstring r with Some (t, r') => Some (JStr t, r') | None => None end
          else if (b =? 45) || is_digit b then
            match pnum (b :: r) with Some (n, r') => Some (JNum n, r') | None => None end
          else if b =? 116 then if has_prefix lit_rue r then Some (JTrue, skipn 3 r) else None
          else if b =? 102 then if has_prefix lit_alse r then Some (JFalse, skipn 4 r) else None
          else if b =? 110 then if has_prefix lit_ull r then Some (JNull, skipn 3 r) else None
          else None
      end
  end
with pmem (fuel : nat) (s : bytes) (acc : list (bytes * jv)) : option (jv * bytes) :=
  match fuel with
  | O => None
  | S f =>
      match hd_is 34 (skip_ws s) with
      | Some r =>
          match pstring r with
          | Some (k, r1) =>
              match hd_is 58 (skip_ws r1) with
              | Some r2 =>
                  match pv f r2 with
                  | Some (v, r3) =>
                      match hd_is 44 (skip_ws r3) with
                      | Some r4 => pmem f r4 ((k, v) :: acc)
                      | None =>
                          match hd_is 125 (skip_ws r3) with
                          | Some r4 => Some (JObj (rev ((k, v) :: acc)), r4)
                          | None => None
                          end
                      end
                  | None => None
                  end
              | None => None
              end
          | None => None
          end
      | None => None
      end
  end
with pelems (fuel : nat) (s : bytes) (acc : list jv) : option (jv * bytes) :=
  match fuel with
  | O => None
  | S f =>
      match pv f s with
      | Some (v, r1) =>
          match hd_is 44 (skip_ws r1) with
          | Some r2 => pelems f r2 (v :: acc)
          | None =>
              match hd_is 93 (skip_ws r1) with
              | Some r2 => Some (JArr (rev (v :: acc)), r2)
              | None => None
              end
          end
      | None => None
      end
  end.

(* json.Valid + generic decode of the whole input: one value, only white space after it *)
Definition parse_json (data : bytes) : option jv :=
  match pv (S (length data)) data with
  | Some (v, rest) => if all_ws rest then Some v else None
  | None => None
  end.

(* ---------- decoding into the Config struct ---------- *)

(* foldName: ASCII upper-casing; U+017F (c5 bf) folds to 'S', U+212A (e2 84 aa) to 'K' *)
Fixpoint fold_key (s : bytes) : bytes :=
  match s with
  | [] => []
  | 197 :: 191 :: r => 83 :: fold_key r
  | 226 :: 132 :: 170 :: r => 75 :: fold_key r
  | b :: r => (if (97 <=? b) && (b <=? 122) then b - 32 else b) :: fold_key r
  end.

Definition field_lookup (k : bytes) : option fld :=
  find (fun f => beq (fold_key (name_of f)) (fold_key k)) all_fields.

(* strconv.ParseInt(text, 10, 64) on a JSON number *)
Definition int_of_num (n : numlit) : option Z :=
  if is_nil (nl_frac n) && (match nl_exp n with None => true | Some _ => false end) then
    let a := Z.of_N (N_of_dec (nl_int n)) in
    let z := if nl_neg n then (- a)%Z else a in
    if int64_ok z then Some z else None
  else None.

(* strip trailing zeros of the mantissa; fuel = number of digits *)
Fixpoint strip0 (fuel : nat) (m : N) (e : Z) : N * Z :=
  match fuel with
  | O => (m, e)
  | S f => if (m =? 0) then (0, 0%Z)
           else if m mod 10 =? 0 then strip0 f (m / 10) (e + 1)%Z else (m, e)
  end.

(* 2^1024 - 2^970: decimal values at or above it do not round to a finite float64 *)
Definition float_overflow_threshold : Z := (2 ^ 1024 - 2 ^ 970)%Z.

(* strconv.ParseFloat(text, 64) on a JSON number, as an exact decimal.  None = out of range.
   Values that round to zero are returned as zero; values up to 400 digits from the decimal
   point are compared exactly with the overflow threshold. *)
Definition float_of_num (n : numlit) : option fval :=
  let digits := nl_int n ++ nl_frac n in
  let m := N_of_dec digits in
  let ex := match nl_exp n with
            | None => 0%Z
            | Some (eneg, ed) => let x := Z.of_N (N_of_dec ed) in if eneg then (- x)%Z else x
            end in
  let e := (ex - Z.of_nat (length (nl_frac n)))%Z in
  let (m', e') := strip0 (length digits) m e in
  if m' =? 0 then Some (FNum (nl_neg n) 0 0%Z)
  else
    let dp := (Z.of_nat (length (dec_of_N m')) + e')%Z in
    if (310 <? dp)%Z then None
    else if (dp <? -330)%Z then Some (FNum (nl_neg n) 0 0%Z)
    else if (0 <=? e')%Z && (float_overflow_threshold <=? Z.of_N m' * 10 ^ e')%Z then None
    else Some (FNum (nl_neg n) m' e').

Definition fval_eqb (a b : fval) : bool :=
  match a, b with
  | FNaN, FNaN => true
  | FInf x, FInf y => Bool.eqb x y
  | FNum x m e, FNum y m' e' => Bool.eqb x y && (m =? m') && (e =? e')%Z
  | _, _ => false
  end.

(* the float survives the JSON text: FormatFloat output is scanned as one number and
   ParseFloat gives the value back (decidable; holds for the decimals that are shortest
   representations of finite float64 values, see the assumption in lib/props.d/C20.py) *)
Definition float_okb (f : fval) : bool :=
  match fmt_float f with
  | Some txt =>
      match pnum txt with
      | Some (nl, []) => match float_of_num nl with Some f' => fval_eqb f f' | None => false end
      | _ => false
      end
  | None => false
  end.

(* guard of the round-trip theorem: what the Go types and the float assumption provide
   (valid UTF-8 directory names and a finite ratio are now enforced by Validate itself) *)
Definition storable (c : config) : bool :=
  in_range c && float_okb (c_compaction_ratio c).

(* one object member stored into the struct; the flag records a saved UnmarshalTypeError *)
Definition apply_member (st : config * bool) (kv : bytes * jv) : config * bool :=
  let (c, bad) := st in
  match field_lookup (fst kv) with
  | None => st
  | Some f =>
      match kind_of f, snd kv with
      | _, JNull => st
      | KInt, JNum n =>
          match int_of_num n with Some z => (set_int f z c, bad) | None => (c, true) end
      | KStr, JStr t => (set_str f t c, bad)
      | KFloat, JNum n =>
          match float_of_num n with Some x => (set_ratio x c, bad) | None => (c, true) end
      | _, _ => (c, true)
      end
  end.

Definition decode (v : jv) : config * bool :=
  match v with
  | JObj ms => fold_left apply_member ms (zero_config, false)
  | JNull => (zero_config, false)
  | _ => (zero_config, true)
  end.

(* ---------- LoadConfigFromManifest / SaveManifest / NewEngineFacade ---------- *)

Inductive cerr :=
  | ENotFound                  (* ErrManifestNotFound *)
  | ENotFoundNonEmpty          (* ErrManifestNotFound in a directory that already holds files *)
  | EInvalidManifest           (* ErrInvalidManifest: not JSON, or not this struct *)
  | EInvalidConfig (f : fld)   (* ErrInvalidConfig from Validate *)
  | EMarshal.                  (* json: unsupported value (NaN, Inf) *)

Inductive result (A : Type) := Ok (a : A) | Err (e : cerr).
Arguments Ok {A} a.
Arguments Err {A} e.

Definition load_bytes (data : bytes) : result config :=
  match parse_json data with
  | None => Err EInvalidManifest
  | Some v =>
      match decode v with
      | (_, true) => Err EInvalidManifest
      | (c, false) =>
          match validate c with
          | Some f => Err (EInvalidConfig f)
          | None => Ok c
          end
      end
  end.

(* the database directory as far as this property is concerned; `d_other` stands for
   everything else in it (WAL, SSTables): no operation below touches it *)
Record dirst := mkDir {
  d_exists : bool;
  d_manifest : option bytes;
  d_tmp : option bytes;
  d_other : list (bytes * bytes) }.

Definition no_dir : dirst := mkDir false None None [].

Definition mkdir (d : dirst) : dirst := mkDir true (d_manifest d) (d_tmp d) (d_other d).

Definition load (d : dirst) : result config :=
  match d_manifest d with
  | None => Err ENotFound
  | Some data => load_bytes data
  end.

(* Validate, MkdirAll, MarshalIndent, WriteFile(tmp), Rename *)
Definition save (c : config) (d : dirst) : result unit * dirst :=
  match validate c with
  | Some f => (Err (EInvalidConfig f), d)
  | None =>
      let d1 := mkdir d in
      match encode c with
      | None => (Err EMarshal, d1)
      | Some text => (Ok tt, mkDir true (Some text) None (d_other d))
      end
  end.

(* NewEngineFacade up to the point where the configuration is fixed.  A directory without a
   manifest is a new database only if it holds nothing else (a left-over MANIFEST.tmp of an
   interrupted first save is tolerated). *)
Definition open_db (dflt : config) (d : dirst) : result config * dirst :=
  let d1 := mkdir d in
  match load d1 with
  | Ok c => (Ok c, d1)
  | Err ENotFound =>
      if is_nil (d_other d1) then
        match save dflt d1 with
        | (Ok _, d2) => (Ok dflt, d2)
        | (Err e, d2) => (Err e, d2)
        end
      else (Err ENotFoundNonEmpty, d1)
  | Err e => (Err e, d1)
  end.

(* ---------- NewDefaultConfig ---------- *)

Definition set_default_int (c : config) (kv : fld * Z) : config := set_int (fst kv) (snd kv) c.

(* the generated facts (gen/ConfigFacts.v), resolved to fields at definition time *)
Definition default_int_table : list (fld * Z) := Eval vm_compute in
  flat_map (fun kv : string * Z => match field_lookup (bs (fst kv)) with
                                   | Some f => [(f, snd kv)]
                                   | None => []
                                   end) default_ints.

Definition default_ratio_val : fval := Eval vm_compute in
  match pnum (bs default_ratio) with
  | Some (n, []) => match float_of_num n with Some x => x | None => FNaN end
  | _ => FNaN
  end.

(* wal / sst: the results of filepath.Join(dbPath, "wal"), filepath.Join(dbPath, "sst") *)
Definition default_config (wal sst : bytes) : config :=
  set_ratio default_ratio_val
    (set_str F_sst_dir sst (set_str F_wal_dir wal (fold_left set_default_int default_int_table zero_config))).

(* tampering used by the correspondence and the theorems *)
Definition truncate_manifest (n : nat) (d : dirst) : dirst :=
  mkDir (d_exists d) (match d_manifest d with Some t => Some (firstn n t) | None => None end)
        (d_tmp d) (d_other d).

Fixpoint flip_bit (i : nat) (bit : N) (t : bytes) : bytes :=
  match t with
  | [] => []
  | b :: r => match i with
              | O => N.lxor b (2 ^ bit) :: r
              | S k => b :: flip_bit k bit r
              end
  end.
