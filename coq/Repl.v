(* Repl.v — executable model of the replica side of pkg/replication:
     common.go   SerializeWALEntry / DeserializeWALEntry / WALEntryToProto
     batch.go    WALBatchApplier (NewWALBatchApplier, ApplyEntries, advanceTo, AcknowledgeUpTo, Reset)
     replica.go  processEntries (decompression, apply, NACK on gap, what is acknowledged),
                 what survives a connection reset (the applier) and a restart (nothing:
                 manager.go startReplica passes lastApplied = 0)
   Model only; proofs are in ReplProofs.v. The model describes what the code DOES. *)
From KV Require Export Bytes WalCodec.
Open Scope N_scope.

(* ---------- uint64 arithmetic of the applier ---------- *)
Definition U64 : N := 2 ^ 64.
Definition succ64 (x : N) : N := (x + 1) mod U64.          (* seq + 1 *)
Definition pred64 (x : N) : N := (x + U64 - 1) mod U64.    (* seq - 1 *)

(* ---------- common.go ---------- *)

(* SerializeWALEntry: type(1) seq(8, little endian) keylen(4) key [vallen(4) value]; the value
   part is written for every type except delete; uint32(len(..)) truncates like le 4 *)
Definition serialize (e : wentry) : bytes :=
  [w_op e] ++ le 8 (w_seq e) ++ le 4 (len (w_key e)) ++ w_key e ++
  (if w_op e =? OpDel then [] else le 4 (len (w_val e)) ++ w_val e).

Definition MaxKeyLen : N := 1024 * 1024.         (* "keys shouldn't be more than 1MB" *)
Definition MaxValLen : N := 10 * 1024 * 1024.    (* "values shouldn't be more than 10MB" *)

Inductive derr :=
| DSmall        (* payload too small: < 13 bytes *)
| DOpType       (* invalid operation type *)
| DKeyBig       (* key length too large *)
| DKeyLen       (* invalid key length, would exceed payload size *)
| DValHdr       (* payload too small for value length *)
| DValBig       (* value length too large *)
| DValLen.      (* invalid value length, would exceed payload size *)

Inductive dres := DOk (e : wentry) | DErr (c : derr).

(* DeserializeWALEntry, test by test in the order of the code; trailing bytes are ignored *)
Definition deserialize (d : bytes) : dres :=
  if len d <? 13 then DErr DSmall else
  let op := nth 0 d 0 in
  if negb (valid_op op) then DErr DOpType else
  let seq := unle (firstn 8 (skipn 1 d)) in
  let klen := unle (firstn 4 (skipn 9 d)) in
  if MaxKeyLen <? klen then DErr DKeyBig else
  if len d <? 13 + klen then DErr DKeyLen else
  let key := firstn (N.to_nat klen) (skipn 13 d) in
  let off := 13 + klen in
  if op =? OpDel then DOk (mkW op seq key []) else
  if len d <? off + 4 then DErr DValHdr else
  let vlen := unle (firstn 4 (skipn (N.to_nat off) d)) in
  if MaxValLen <? vlen then DErr DValBig else
  if len d <? off + 4 + vlen then DErr DValLen else
  DOk (mkW op seq key (firstn (N.to_nat vlen) (skipn (N.to_nat (off + 4)) d))).

(* the wire entry: the replica looks at SequenceNumber and Payload only (FragmentType and
   Checksum are never read on the replica side) *)
Record pentry := mkP { p_seq : N; p_payload : bytes }.

(* WALEntryToProto *)
Definition to_proto (e : wentry) : pentry := mkP (w_seq e) (serialize e).

(* ---------- batch.go: WALBatchApplier ---------- *)

Record applier := mkA {
  a_max  : N;            (* maxAppliedSeq *)
  a_ack  : N;            (* lastAckSeq *)
  a_exp  : N;            (* expectedNextSeq *)
  a_gseq : N;            (* groupSeq *)
  a_gapp : list bytes    (* groupApplied *)
}.

Definition new_applier (start : N) : applier :=
  let nx := if 0 <? start then succ64 start else 1 in
  mkA start start nx nx [].

(* Reset(seq) *)
Definition reset_applier (seq : N) : applier :=
  let nx := if seq =? 0 then 1 else succ64 seq in
  mkA seq seq nx nx [].

Definition advance_to (a : applier) (s : N) : applier :=
  if a_max a <? s then mkA s (a_ack a) (succ64 s) (a_gseq a) (a_gapp a) else a.

Definition acknowledge_up_to (a : applier) (s : N) : applier :=
  if a_ack a <? s then mkA (a_max a) s (a_exp a) (a_gseq a) (a_gapp a) else a.

(* "cur != prev && cur != prev+1" for every neighbouring pair *)
Fixpoint steps_ok (prev : N) (l : list pentry) : bool :=
  match l with
  | [] => true
  | e :: r => ((p_seq e =? prev) || (p_seq e =? succ64 prev)) && steps_ok (p_seq e) r
  end.

(* entries below groupSeq *)
Fixpoint skip_old (g : N) (l : list pentry) : list pentry :=
  match l with
  | e :: r => if p_seq e <? g then skip_old g r else l
  | [] => []
  end.

(* number of leading entries that carry groupSeq *)
Fixpoint run_len (g : N) (l : list pentry) : nat :=
  match l with
  | e :: r => if p_seq e =? g then S (run_len g r) else O
  | [] => O
  end.

(* the first n payloads of l equal the first n remembered payloads (bytes.Equal) *)
Fixpoint repeats (n : nat) (l : list pentry) (g : list bytes) : bool :=
  match n with
  | O => true
  | S n' =>
    match l, g with
    | e :: l', p :: g' => beq (p_payload e) p && repeats n' l' g'
    | _, _ => false
    end
  end.

Inductive rclass := ROk | RGap | RDeser (c : derr) | RApply.

Definition note_applied (a : applier) (e : pentry) : applier :=
  if p_seq e =? a_gseq a
  then mkA (a_max a) (a_ack a) (a_exp a) (a_gseq a) (a_gapp a ++ [p_payload e])
  else mkA (a_max a) (a_ack a) (a_exp a) (p_seq e) [p_payload e].

(* the apply loop; failat = Some k: the k-th call of applyFn in this delivery returns an error
   (k counts from 0); acc = the entries applyFn accepted, oldest first *)
Fixpoint apply_loop (a : applier) (l : list pentry) (failat : option nat) (acc : list wentry)
  : applier * list wentry * rclass :=
  match l with
  | [] => (a, acc, ROk)
  | e :: r =>
    match deserialize (p_payload e) with
    | DErr c => (advance_to a (pred64 (p_seq e)), acc, RDeser c)
    | DOk w =>
      match failat with
      | Some O => (advance_to a (pred64 (p_seq e)), acc, RApply)
      | _ =>
        apply_loop (note_applied a e) r
                   (match failat with Some (S k) => Some k | _ => None end) (acc ++ [w])
      end
    end
  end.

Record delivered := mkD {
  d_state   : applier;
  d_applied : list wentry;     (* entries handed to applyFn that it accepted, in order *)
  d_ret     : N;               (* first return value of ApplyEntries *)
  d_res     : rclass           (* RGap = (hasGap = true, err != nil) *)
}.

Definition last_seq (e0 : pentry) (rest : list pentry) : N := p_seq (last rest e0).

(* ApplyEntries *)
Definition apply_entries (a : applier) (entries : list pentry) (failat : option nat) : delivered :=
  match entries with
  | [] => mkD a [] (a_max a) ROk
  | e0 :: rest =>
    if a_exp a <? p_seq e0 then mkD a [] (a_max a) RGap else
    if negb (steps_ok (p_seq e0) rest) then mkD a [] (a_max a) RGap else
    let l1 := skip_old (a_gseq a) entries in
    let n := Nat.min (run_len (a_gseq a) l1) (length (a_gapp a)) in
    let l2 := if (negb (Nat.eqb n 0)) && repeats n l1 (a_gapp a) then skipn n l1 else l1 in
    match apply_loop a l2 failat [] with
    | (a', app, ROk) =>
        let a'' := advance_to a' (last_seq e0 rest) in mkD a'' app (a_max a'') ROk
    | (a', app, rc) => mkD a' app (a_max a') rc
    end
  end.

(* ---------- replica.go ---------- *)

Record replica := mkR {
  r_ap   : applier;      (* batchApplier: lives as long as the Replica object *)
  r_last : N             (* lastAppliedSeq, GetLastAppliedSequence *)
}.

(* manager.go startReplica: lastApplied := 0 on every start *)
Definition new_replica (start : N) : replica := mkR (new_applier start) start.

Inductive outcome :=
| OAck (upto : N)        (* applied; the acknowledgement that follows carries GetMaxApplied *)
| ONack (from : N)       (* gap: NegativeAcknowledge{MissingFromSequence: GetExpectedNext} *)
| OErr (c : rclass).     (* error state, reconnect after back-off *)

(* processEntries / processEntriesWithoutStateTransitions after decompression *)
Definition process (r : replica) (es : list pentry) (failat : option nat)
  : replica * list wentry * outcome :=
  let d := apply_entries (r_ap r) es failat in
  match d_res d with
  | ROk => (mkR (d_state d) (d_ret d), d_applied d, OAck (a_max (d_state d)))
  | RGap => (mkR (d_state d) (r_last r), d_applied d, ONack (a_exp (d_state d)))
  | c => (mkR (d_state d) (r_last r), d_applied d, OErr c)
  end.

(* a new stream after a connection reset asks for GetExpectedNext; nothing else changes *)
Definition stream_start (r : replica) : N := a_exp (r_ap r).

Inductive event :=
| EDeliver (es : list pentry) (failat : option nat)
| EReset                     (* connection reset / new stream *)
| ERestart.                  (* process restart: a new Replica from sequence 0 *)

Record rstate := mkS {
  s_rep     : replica;
  s_applied : list wentry    (* everything the replica's engine was handed, in order; the
                                engine's data survives a restart *)
}.

Definition step (s : rstate) (ev : event) : rstate :=
  match ev with
  | EDeliver es f =>
      let '(r', app, _) := process (s_rep s) es f in mkS r' (s_applied s ++ app)
  | EReset => s
  | ERestart => mkS (new_replica 0) (s_applied s)
  end.

Definition run (start : N) (evs : list event) : rstate :=
  fold_left step evs (mkS (new_replica start) []).

(* the acknowledgement cursor after every event *)
Fixpoint cursors (s : rstate) (evs : list event) : list N :=
  match evs with
  | [] => []
  | ev :: r => let s' := step s ev in a_max (r_ap (s_rep s')) :: cursors s' r
  end.

(* ---------- deliveries cut out of a primary log ---------- *)

(* the contiguous piece L[i, j) as the primary sends it *)
Definition seg (L : list wentry) (i j : nat) : list pentry :=
  map to_proto (firstn (j - i) (skipn i L)).

(* an arbitrary selection of entries of L by position (duplicates, holes, any order) *)
Definition pick (L : list wentry) (idx : list nat) : list pentry :=
  flat_map (fun i => match nth_error L i with Some e => [to_proto e] | None => [] end) idx.

(* getWALEntriesFromSequence (since /repo f62340e): entries with seq >= from; when there are
   more than 100, the first 100 and after them every entry that still carries the number of
   the 100th ("end := 100; for end < len && all[end].seq == all[end-1].seq { end++ }") *)
Definition PollLimit : nat := 100.

Fixpoint same_number (s : N) (l : list wentry) : list wentry :=
  match l with
  | e :: r => if w_seq e =? s then e :: same_number s r else []
  | [] => []
  end.

Definition fetch (L : list wentry) (from : N) : list wentry :=
  let all := filter (fun e => from <=? w_seq e) L in
  if Nat.ltb PollLimit (length all) then
    let hd := firstn PollLimit all in
    hd ++ same_number (w_seq (last hd (mkW 0 0 [] []))) (skipn PollLimit all)
  else all.

Definition poll (L : list wentry) (from : N) : list pentry := map to_proto (fetch L from).

(* what EngineApplier.Apply does to the replica's data: put stores the value, delete removes
   the key, a merge entry has no effect (as on the primary); the view is the sorted association list of live keys *)
Fixpoint view_set (k v : bytes) (m : list (bytes * bytes)) : list (bytes * bytes) :=
  match m with
  | [] => [(k, v)]
  | (k', v') :: r =>
    match bcmp k k' with
    | Lt => (k, v) :: m
    | Eq => (k, v) :: r
    | Gt => (k', v') :: view_set k v r
    end
  end.

Fixpoint view_del (k : bytes) (m : list (bytes * bytes)) : list (bytes * bytes) :=
  match m with
  | [] => []
  | (k', v') :: r =>
    match bcmp k k' with
    | Lt => m
    | Eq => r
    | Gt => (k', v') :: view_del k r
    end
  end.

Definition view_apply (m : list (bytes * bytes)) (e : wentry) : list (bytes * bytes) :=
  if w_op e =? OpDel then view_del (w_key e) m
  else if w_op e =? OpPut then view_set (w_key e) (w_val e) m else m.

Definition view (es : list wentry) : list (bytes * bytes) := fold_left view_apply es [].

(* what the primary's own storage does with the same entries (storage.Manager.ApplyBatch and
   WAL recovery switch on put and delete only): a merge entry is logged but changes nothing *)
Definition primary_apply (m : list (bytes * bytes)) (e : wentry) : list (bytes * bytes) :=
  if w_op e =? OpDel then view_del (w_key e) m
  else if w_op e =? OpPut then view_set (w_key e) (w_val e) m else m.

Definition primary_view (es : list wentry) : list (bytes * bytes) := fold_left primary_apply es [].

(* ---------- the wire: optional per-entry compression (replica.go processEntries) ---------- *)
Section Wire.
  (* external codecs (klauspost zstd / snappy): not modelled, see the hypothesis of C13_wire *)
  Variable decompress : N -> bytes -> option bytes.

  Fixpoint unwire_entries (codec : N) (es : list pentry) : option (list pentry) :=
    match es with
    | [] => Some []
    | e :: r =>
      match (match p_payload e with
             | [] => Some e                      (* "if len(entry.Payload) > 0" *)
             | _ => match decompress codec (p_payload e) with
                    | Some p => Some (mkP (p_seq e) p)
                    | None => None
                    end
             end), unwire_entries codec r with
      | Some e', Some r' => Some (e' :: r')
      | _, _ => None                             (* ErrorCompression: nothing is applied *)
      end
    end.

  Definition unwire (compressed : bool) (codec : N) (es : list pentry) : option (list pentry) :=
    if compressed then unwire_entries codec es else Some es.
End Wire.
