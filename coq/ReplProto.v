(* ReplProto.v — executable round-based model of kevo's WAL replication protocol as the code
   behaves end to end (pkg/replication/primary.go, replica.go, batch.go, manager.go,
   heartbeat.go; pkg/wal/wal.go observers and GetEntriesFrom; pkg/engine/storage/manager.go
   rotateWAL).  Model only: the proofs are in ReplProtoProofs.v.

   What one tick is: one turn of the replica's state machine (replicationLoop) against the
   primary.  The facts of the code the model is built from (read in the source, each one
   reproduced on loopback by harness/c14.go):

   P1  The primary follows the engine's WAL across log rotations (cb2d442: rotateWAL hands the
       observers to the new WAL object and tells the primary, which reads sequence numbers and
       entries from it; GetEntriesFrom reads every log file of the directory).  A flush of the
       primary therefore has no effect on the protocol.  Before that the primary kept the WAL
       object of its start and nothing written after the first flush reached any replica.
   P2  getWALEntriesFromSequence(from): nothing if the log is empty or from is beyond it;
       otherwise the entries with seq >= from of all files, cut after the first 100 entries but
       never inside a sequence number (f62340e).                           [fetch, cut_fetch]
   P3  StreamWAL(start): the replica sends start = the next number it expects; the primary
       stores StartSequence = start and LastAckSequence = start-1 (7f7e08d), sends fetch(start)
       once (sendInitialEntries), then every 100 ms, while the log has reached start, fetch(start)
       again.  The replica never reaches its ACKNOWLEDGING state (processEntries moves on to
       STREAMING_ENTRIES before the loop sees it), so LastAckSequence stays start-1.
                                                                              [connect, poll]
   P4  A single Put/Delete is pushed from inside wal.Append to the sessions whose StartSequence
       is not above its number, as an uncompressed response of that one entry (2996cf8; before,
       the response was flagged compressed and the replica could never decode it).  A batch is
       announced with entries whose SequenceNumber field is 0, so it is skipped for every
       session (only the catch-up delivers transactions).  Responses are queued per session
       (5fc1d1b, at most sessionQueueLen); a full queue ends the session.          [push_of]
   R1  A gap makes the replica send a NACK and — because STREAMING_ENTRIES -> STREAMING_ENTRIES
       and APPLYING_ENTRIES -> STREAMING_ENTRIES are not legal transitions of its state tracker —
       fall into ERROR and reconnect after its backoff with start = next expected number; the
       retransmission goes to the stream it abandons.  A delivery that applies cleanly in the
       STREAMING_ENTRIES handler ends in the same illegal transition (reconnect); one picked up
       by the WAITING_FOR_DATA handler keeps the session.                    [deliver, c_stay]
   R2  Receivers that timed out stay blocked in Recv on the stream and swallow later
       messages (their result is dropped).  The first message of a fresh stream is received
       by the waiting receiver.                                                     [c_lose]
   R3  WALBatchApplier.ApplyEntries as repaired by 409828f.                  [apply_entries]
   R4  A replica that is started again begins at sequence 1 with a fresh applier; its data
       directory keeps what was applied.                                           [r_start]
   The protocol of the pinned tree (before cb2d442, 7f7e08d, 2996cf8, f62340e) is kept in
   ReplProtoBefore.v with the histories on which it did not converge. *)
From KV Require Import Bytes Spec WalCodec.
Open Scope N_scope.

(* ---------- log entries ---------- *)
Definition entry := wentry.
Definition eseq (e : entry) : N := w_seq e.

Definition beqb (a b : bytes) : bool := beq a b.

(* equality of the serialized payload (type, number, key, value) *)
Definition entry_eqb (a b : entry) : bool :=
  (w_op a =? w_op b) && (w_seq a =? w_seq b) && beqb (w_key a) (w_key b) && beqb (w_val a) (w_val b).

(* the number of entries one response carries at most: the literal of
   Primary.getWALEntriesFromSequence (checked against the source by gofacts: gen/ReplFacts.v) *)
Definition MaxFetch : nat := 100.

(* ---------- primary ---------- *)
Record pstate := mkP {
  p_log : list entry;      (* every entry ever logged, oldest first (log files are never retired) *)
  p_next : N               (* next sequence number of the engine's WAL *)
}.

Definition p_init : pstate := mkP [] 1.

Definition cur (p : pstate) : N := p_next p - 1.

Definition from_seq (from : N) (l : list entry) : list entry :=
  filter (fun e => from <=? eseq e) l.

(* the leading entries numbered s *)
Fixpoint same_seq (s : N) (l : list entry) : list entry :=
  match l with
  | e :: r => if eseq e =? s then e :: same_seq s r else []
  | [] => []
  end.

(* the first k entries, extended to the end of the sequence number the cut falls in *)
Definition cut_at (k : nat) (l : list entry) : list entry :=
  let a := firstn k l in
  a ++ same_seq (eseq (last a (mkW 0 0 [] []))) (skipn k l).

Definition cut_fetch (l : list entry) : list entry := cut_at MaxFetch l.

Definition fetch (p : pstate) (from : N) : list entry :=
  if (cur p =? 0) || (cur p <? from) then []
  else cut_fetch (from_seq from (p_log p)).

(* a write of the primary's client *)
Inductive wr :=
| WSingle (op : N) (k v : bytes)               (* Put / Delete: wal.Append *)
| WMulti (ops : list (N * bytes * bytes)).     (* transaction commit / ApplyBatch: wal.AppendBatch *)

Definition stamp_ops (s : N) (ops : list (N * bytes * bytes)) : list entry :=
  map (fun o => match o with (op, k, v) => mkW op s k v end) ops.

Definition entries_of (s : N) (w : wr) : list entry :=
  match w with
  | WSingle op k v => [mkW op s k v]
  | WMulti ops => stamp_ops s ops
  end.

(* the sequence number the observer callback sees in entries[0] (P4) *)
Definition obs_seq (s : N) (w : wr) : N :=
  match w with WSingle _ _ _ => s | WMulti _ => 0 end.

Definition is_noop (w : wr) : bool := match w with WMulti [] => true | _ => false end.

Definition p_write (p : pstate) (w : wr) : pstate :=
  if is_noop w then p else
  let s := p_next p in
  mkP (p_log p ++ entries_of s w) (s + 1).

(* ---------- replica ---------- *)
Inductive msg :=
| MInit (es : list entry)      (* the initial entries of a session (first response of its stream) *)
| MPush (es : list entry).     (* a pushed write *)

(* sessionQueueLen of primary.go: responses buffered for one replica at most *)
Definition MaxQueue : nat := 256.

Inductive rmode := RDown | RConnecting | RStreaming.

Record rstate := mkR {
  r_mode : rmode;
  r_link : bool;               (* the network path to the primary is up *)
  r_start : N;                 (* StartSequence = LastAckSequence of the current session *)
  r_inbox : list msg;          (* one-shot messages of the current stream, oldest first *)
  r_exp : N;                   (* WALBatchApplier.expectedNextSeq (= maxAppliedSeq + 1) *)
  r_gseq : N;                  (* WALBatchApplier.groupSeq *)
  r_gapp : list entry;         (* WALBatchApplier.groupApplied *)
  r_store : list entry         (* entries applied to the replica's engine, in order *)
}.

Definition r_init : rstate := mkR RDown true 0 [] 1 1 [] [].

(* --- ApplyEntries (R3) --- *)
Fixpoint contiguous (prev : N) (es : list entry) : bool :=
  match es with
  | [] => true
  | e :: r => ((eseq e =? prev) || (eseq e =? prev + 1)) && contiguous (eseq e) r
  end.

Fixpoint drop_below (g : N) (es : list entry) : list entry :=
  match es with
  | [] => []
  | e :: r => if eseq e <? g then drop_below g r else es
  end.

Fixpoint run_len (g : N) (es : list entry) : nat :=
  match es with
  | [] => O
  | e :: r => if eseq e =? g then S (run_len g r) else O
  end.

Fixpoint prefix_eqb (n : nat) (a b : list entry) : bool :=
  match n with
  | O => true
  | S n' => match a, b with
            | x :: a', y :: b' => entry_eqb x y && prefix_eqb n' a' b'
            | _, _ => false
            end
  end.

(* applying the remaining entries: (groupSeq, groupApplied, store) *)
Fixpoint apply_rest (g : N) (ga st : list entry) (es : list entry) : N * list entry * list entry :=
  match es with
  | [] => (g, ga, st)
  | e :: r =>
      if eseq e =? g then apply_rest g (ga ++ [e]) (st ++ [e]) r
      else apply_rest (eseq e) [e] (st ++ [e]) r
  end.

Definition last_seq (es : list entry) : N := eseq (last es (mkW 0 0 [] [])).

Inductive ares := AGap | AOk (r : rstate).

Definition apply_entries (r : rstate) (es : list entry) : ares :=
  match es with
  | [] => AOk r
  | e0 :: tl =>
      if r_exp r <? eseq e0 then AGap
      else if negb (contiguous (eseq e0) tl) then AGap
      else
        let es1 := drop_below (r_gseq r) es in
        let n := Nat.min (run_len (r_gseq r) es1) (length (r_gapp r)) in
        let es2 := if negb (Nat.eqb n 0) && prefix_eqb n es1 (r_gapp r) then skipn n es1 else es1 in
        match apply_rest (r_gseq r) (r_gapp r) (r_store r) es2 with
        | (g, ga, st) =>
            let l := last_seq es in
            let ex := if r_exp r - 1 <? l then l + 1 else r_exp r in   (* advanceTo *)
            AOk (mkR (r_mode r) (r_link r) (r_start r) (r_inbox r) ex g ga st)
        end
  end.

(* --- session / state machine --- *)
Definition disconnect (r : rstate) : rstate :=
  mkR RConnecting (r_link r) (r_start r) [] (r_exp r) (r_gseq r) (r_gapp r) (r_store r).

Definition set_inbox (r : rstate) (ib : list msg) : rstate :=
  mkR (r_mode r) (r_link r) (r_start r) ib (r_exp r) (r_gseq r) (r_gapp r) (r_store r).

Definition connect (p : pstate) (r : rstate) : rstate :=
  let s := r_exp r in
  let ib := match fetch p s with
            | [] => []
            | es => [MInit es]
            end in
  mkR RStreaming (r_link r) s ib (r_exp r) (r_gseq r) (r_gapp r) (r_store r).

(* the periodic catch-up of StreamWAL (P3): from LastAckSequence+1 = start *)
Definition poll (p : pstate) (r : rstate) : option (list entry) :=
  if r_start r <=? cur p then
    match fetch p (r_start r) with
    | e :: es => Some (e :: es)
    | [] => None
    end
  else None.

(* scheduling choices of one tick: the environment the theorems quantify over *)
Record choice := mkC {
  c_lose : bool;     (* the message is swallowed by a stale receiver (R2); pushes and polls only *)
  c_stay : bool      (* a clean delivery is picked up by the WAITING_FOR_DATA handler (R1) *)
}.
Definition good : choice := mkC false false.
Definition is_bad (c : choice) : bool := c_lose c || c_stay c.

Definition deliver (c : choice) (r : rstate) (es : list entry) : rstate :=
  match apply_entries r es with
  | AGap => disconnect r
  | AOk r' => if c_stay c then r' else disconnect r'
  end.

Definition tick (c : choice) (p : pstate) (r : rstate) : rstate :=
  match r_mode r with
  | RDown => r
  | RConnecting => if r_link r then connect p r else r
  | RStreaming =>
      match r_inbox r with
      | MPush es :: rest =>
          if c_lose c then set_inbox r rest else deliver c (set_inbox r rest) es
      | MInit es :: rest => deliver c (set_inbox r rest) es
      | [] =>
          match poll p r with
          | Some es => if c_lose c then r else deliver c r es
          | None => r
          end
      end
  end.

(* --- what a write of the primary does to a connected replica (P4) --- *)
Definition push_of (s : N) (w : wr) (r : rstate) : rstate :=
  match r_mode r with
  | RStreaming =>
      if r_start r <=? obs_seq s w then
        if Nat.leb MaxQueue (length (r_inbox r)) then disconnect r      (* queue full: session ended *)
        else set_inbox r (r_inbox r ++ [MPush (entries_of s w)])
      else r
  | _ => r
  end.

(* --- replica life cycle --- *)
Definition r_stop (r : rstate) : rstate :=
  mkR RDown (r_link r) (r_start r) [] (r_exp r) (r_gseq r) (r_gapp r) (r_store r).
(* Manager.startReplica: lastApplied := 0, NewWALBatchApplier(0) (R4) *)
Definition r_start_again (r : rstate) : rstate :=
  mkR RConnecting (r_link r) 0 [] 1 1 [] (r_store r).
Definition r_cut (r : rstate) : rstate :=
  match r_mode r with
  | RDown => mkR RDown false (r_start r) [] (r_exp r) (r_gseq r) (r_gapp r) (r_store r)
  | _ => mkR RConnecting false (r_start r) [] (r_exp r) (r_gseq r) (r_gapp r) (r_store r)
  end.
Definition r_heal (r : rstate) : rstate :=
  mkR (r_mode r) true (r_start r) (r_inbox r) (r_exp r) (r_gseq r) (r_gapp r) (r_store r).

(* ---------- the system: a primary and one replica (sessions are the only per-replica state
   of the primary, so replicas do not influence one another in the model) ---------- *)
Inductive event :=
| EWrite (w : wr)
| EFlush
| ETick (c : choice)
| EStart | EStop | ECut | EHeal.

Definition sys := (pstate * rstate)%type.

Definition step (s : sys) (e : event) : sys :=
  let (p, r) := s in
  match e with
  | EWrite w => if is_noop w then s else (p_write p w, push_of (p_next p) w r)
  | EFlush => s                                (* rotation is followed (P1): no protocol effect *)
  | ETick c => (p, tick c p r)
  | EStart => (p, match r_mode r with RDown => r_start_again r | _ => r end)
  | EStop => (p, r_stop r)
  | ECut => (p, r_cut r)
  | EHeal => (p, r_heal r)
  end.

Definition run (evs : list event) (s : sys) : sys := fold_left step evs s.
Definition sys_init : sys := (p_init, r_init).

Definition ticks (cs : list choice) (p : pstate) (r : rstate) : rstate :=
  fold_left (fun r c => tick c p r) cs r.

(* ---------- views ---------- *)
Definition wop_of (e : entry) : wop :=
  if w_op e =? OpDel then WDel (w_key e) else WPut (w_key e) (w_val e).
Definition hist (l : list entry) : list wop := map wop_of l.
Definition view_get (l : list entry) (k : bytes) : option bytes := spec_get (hist l) k.

Definition keys_of (l : list entry) : list bytes := map w_key l.

Definition opt_beq (a b : option bytes) : bool :=
  match a, b with
  | None, None => true
  | Some x, Some y => beq x y
  | _, _ => false
  end.

(* executable agreement of the replica's data with the primary's on every key either ever wrote *)
Definition views_agree (p : pstate) (r : rstate) : bool :=
  forallb (fun k => opt_beq (view_get (r_store r) k) (view_get (p_log p) k))
          (keys_of (p_log p) ++ keys_of (r_store r)).

(* the replica's full scan: live keys ascending *)
Fixpoint ins_key (k : bytes) (l : list bytes) : list bytes :=
  match l with
  | [] => [k]
  | x :: r => match bcmp k x with Lt => k :: l | Eq => l | Gt => x :: ins_key k r end
  end.
Definition sorted_keys (l : list entry) : list bytes :=
  fold_left (fun acc e => ins_key (w_key e) acc) l [].
Definition scan_of (l : list entry) : list (bytes * bytes) := spec_live (hist l) (sorted_keys l).

(* quiescent fixpoint test used by the runner: nothing more will be delivered *)
Definition idle (p : pstate) (r : rstate) : bool :=
  match r_mode r with
  | RStreaming => match r_inbox r with [] => match poll p r with None => true | _ => false end | _ => false end
  | RDown => true
  | RConnecting => negb (r_link r)
  end.

(* run good ticks until idle, at most n of them *)
Fixpoint settle (n : nat) (p : pstate) (r : rstate) : rstate :=
  match n with
  | O => r
  | S n' => if idle p r then r else settle n' p (tick good p r)
  end.
