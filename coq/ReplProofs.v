(* ReplProofs.v — proofs about the replica-side model Repl.v (property C13). *)
From Coq Require Import Lia.
From KV Require Import Bytes BytesProofs WalCodec WalCodecProofs MemtableProofs Repl.
Open Scope N_scope.

(* ================================================================================ *)
(* 1. common.go: DeserializeWALEntry (SerializeWALEntry e) = e                       *)
(* ================================================================================ *)

Lemma serialize_payload : forall e, serialize e = payload e.
Proof. reflexivity. Qed.

(* an entry the wire format can carry and the deserialiser's sanity limits accept *)
Definition wire_ok (e : wentry) : bool :=
  valid_op (w_op e) && (w_seq e <? 2 ^ 64) && (len (w_key e) <=? MaxKeyLen) &&
  (len (w_val e) <=? MaxValLen).

Lemma wire_ok_inv : forall e, wire_ok e = true ->
  valid_op (w_op e) = true /\ w_seq e < 2 ^ 64 /\ len (w_key e) <= MaxKeyLen /\ len (w_val e) <= MaxValLen.
Proof.
  intros e H. unfold wire_ok in H.
  apply andb_prop in H. destruct H as [H H4].
  apply andb_prop in H. destruct H as [H H3].
  apply andb_prop in H. destruct H as [H1 H2].
  apply N.ltb_lt in H2. apply N.leb_le in H3. apply N.leb_le in H4. auto.
Qed.

Lemma MaxKeyLen_val : MaxKeyLen = 1048576. Proof. reflexivity. Qed.
Lemma MaxValLen_val : MaxValLen = 10485760. Proof. reflexivity. Qed.

Theorem deserialize_serialize : forall e, wire_ok e = true -> deserialize (serialize e) = DOk (canon e).
Proof.
  intros [op seq k v] He.
  apply wire_ok_inv in He. cbn [w_op w_seq w_key w_val] in He.
  destruct He as (Hop & Hs & Hk & Hv).
  rewrite MaxKeyLen_val in Hk. rewrite MaxValLen_val in Hv.
  assert (Hk32 : len k < 2 ^ 32) by (change (2 ^ 32) with 4294967296; lia).
  assert (Hv32 : len v < 2 ^ 32) by (change (2 ^ 32) with 4294967296; lia).
  unfold serialize, canon. cbn [w_op w_seq w_key w_val].
  set (tl := if op =? OpDel then [] else le 4 (len v) ++ v).
  destruct (parse_struct op seq k tl Hs Hk32) as (E0 & E1 & E2 & E3 & E4).
  unfold deserialize.
  rewrite E0, E1, E2, E3, E4, Hop. cbn [negb].
  assert (L1 : (13 + len k + len tl <? 13) = false) by lia. rewrite L1.
  assert (L1' : (MaxKeyLen <? len k) = false) by (rewrite MaxKeyLen_val; lia). rewrite L1'.
  assert (L2 : (13 + len k + len tl <? 13 + len k) = false) by lia. rewrite L2.
  rewrite to_nat_len.
  rewrite (firstn_app_exact _ k tl (length k) eq_refl).
  subst tl.
  destruct (op =? OpDel) eqn:Ed; [reflexivity|].
  rewrite len_app, len_le.
  assert (L3 : (13 + len k + (N.of_nat 4 + len v) <? 13 + len k + 4) = false) by lia. rewrite L3.
  replace (N.to_nat (13 + len k)) with (13 + length k)%nat by (unfold len; lia).
  rewrite skipn_add, E3.
  rewrite (skipn_app_exact _ k _ (length k) eq_refl).
  rewrite firstn_app_exact by (rewrite le_length; reflexivity).
  rewrite unle_le4 by exact Hv32.
  assert (L3' : (MaxValLen <? len v) = false) by (rewrite MaxValLen_val; lia). rewrite L3'.
  assert (L4 : (13 + len k + (N.of_nat 4 + len v) <? 13 + len k + 4 + len v) = false) by lia.
  rewrite L4.
  replace (N.to_nat (13 + len k + 4)) with (13 + (length k + 4))%nat by (unfold len; lia).
  rewrite skipn_add, E3, skipn_add.
  rewrite (skipn_app_exact _ k _ (length k) eq_refl).
  rewrite skipn_app_exact by (rewrite le_length; reflexivity).
  rewrite to_nat_len, firstn_all. reflexivity.
Qed.

Example deserialize_serialize_sat :
  wire_ok (mkW OpPut 7 [107; 1] [118; 2; 3]) = true /\
  deserialize (serialize (mkW OpDel 8 [107] [9])) = DOk (mkW OpDel 8 [107] []) /\
  deserialize (serialize (mkW 9 8 [107] [9])) = DErr DOpType.
Proof. split; [reflexivity|]. split; reflexivity. Qed.

(* ================================================================================ *)
(* 2. the primary's log and the applier invariant                                    *)
(* ================================================================================ *)

Lemma U64_val : U64 = 18446744073709551616. Proof. reflexivity. Qed.

Lemma succ64_small : forall x, x + 1 < U64 -> succ64 x = x + 1.
Proof. intros x H. unfold succ64. apply N.mod_small. exact H. Qed.

Lemma pred64_pos : forall x, 0 < x -> x < U64 -> pred64 x = x - 1.
Proof.
  intros x H0 H1. unfold pred64.
  replace (x + U64 - 1) with ((x - 1) + 1 * U64) by lia.
  rewrite N.mod_add by (rewrite U64_val; discriminate).
  apply N.mod_small. lia.
Qed.

(* an entry as the primary's log hands it out (GetEntriesFrom): in canonical form, within
   the wire limits, numbered below the uint64 wrap *)
Definition entry_ok (e : wentry) : bool :=
  wire_ok e && (w_seq e + 1 <? U64) &&
  (negb (w_op e =? OpDel) || match w_val e with [] => true | _ => false end).

Lemma entry_ok_inv : forall e, entry_ok e = true ->
  wire_ok e = true /\ w_seq e + 1 < U64 /\ canon e = e.
Proof.
  intros e H. unfold entry_ok in H.
  apply andb_prop in H. destruct H as [H H3].
  apply andb_prop in H. destruct H as [H1 H2].
  apply N.ltb_lt in H2. split; [exact H1|]. split; [exact H2|].
  unfold canon. destruct (w_op e =? OpDel) eqn:E; [|reflexivity].
  cbn [negb orb] in H3. destruct e as [op s k v]. cbn [w_val] in *.
  destruct v; [reflexivity|discriminate].
Qed.

Lemma entry_ok_deser : forall e, entry_ok e = true -> deserialize (p_payload (to_proto e)) = DOk e.
Proof.
  intros e H. apply entry_ok_inv in H. destruct H as (H1 & _ & H3).
  cbn [to_proto p_payload]. rewrite deserialize_serialize by exact H1. rewrite H3. reflexivity.
Qed.

(* neighbouring entries carry the same number or the next one *)
Fixpoint chain (prev : N) (L : list wentry) : bool :=
  match L with
  | [] => true
  | e :: r => ((w_seq e =? prev) || (w_seq e =? prev + 1)) && chain (w_seq e) r
  end.

Definition lastseq (d : N) (A : list wentry) : N := fold_left (fun _ e => w_seq e) A d.

(* the log a replica that starts at `start` is fed from: numbers start+1, start+2, ... without
   holes, the entries of one AppendBatch sharing theirs *)
Definition log_ok (start : N) (L : list wentry) : bool :=
  forallb entry_ok L && chain start L && forallb (fun e => start <? w_seq e) L.

Lemma lastseq_app : forall A B d, lastseq d (A ++ B) = lastseq (lastseq d A) B.
Proof. intros. unfold lastseq. apply fold_left_app. Qed.

Lemma lastseq_snoc : forall A e d, lastseq d (A ++ [e]) = w_seq e.
Proof. intros. rewrite lastseq_app. reflexivity. Qed.

Lemma chain_app : forall A B p, chain p (A ++ B) = chain p A && chain (lastseq p A) B.
Proof.
  induction A as [|a A IH]; intros B p; cbn [app chain lastseq fold_left]; [reflexivity|].
  rewrite IH. unfold lastseq. rewrite andb_assoc. reflexivity.
Qed.

Lemma chain_ge : forall L p, chain p L = true -> forall e, In e L -> p <= w_seq e.
Proof.
  induction L as [|a L IH]; intros p H e He; [destruct He|].
  cbn [chain] in H. apply andb_prop in H. destruct H as [H1 H2].
  assert (p <= w_seq a).
  { apply orb_prop in H1. destruct H1 as [E|E]; apply N.eqb_eq in E; lia. }
  destruct He as [<-|He]; [assumption|].
  specialize (IH _ H2 _ He). lia.
Qed.

Lemma chain_lastseq_ge : forall L p, chain p L = true -> p <= lastseq p L.
Proof.
  induction L as [|a L IH]; intros p H; cbn [lastseq fold_left]; [lia|].
  cbn [chain] in H. apply andb_prop in H. destruct H as [H1 H2].
  specialize (IH _ H2). unfold lastseq in IH.
  apply orb_prop in H1. destruct H1 as [E|E]; apply N.eqb_eq in E; lia.
Qed.

Lemma chain_le_last : forall L p, chain p L = true -> forall e, In e L -> w_seq e <= lastseq p L.
Proof.
  induction L as [|a L IH]; intros p H e He; [destruct He|].
  cbn [chain] in H. apply andb_prop in H. destruct H as [H1 H2].
  cbn [lastseq fold_left]. fold (lastseq (w_seq a) L).
  destruct He as [<-|He].
  - apply chain_lastseq_ge. exact H2.
  - apply IH; assumption.
Qed.

(* the number of the newest applied entry; with nothing applied, the number that comes next *)
Definition gs (start : N) (A : list wentry) : N :=
  match A with [] => start + 1 | _ => lastseq start A end.

Lemma gs_snoc : forall start A e, gs start (A ++ [e]) = w_seq e.
Proof.
  intros. unfold gs. destruct (A ++ [e]) eqn:E.
  - destruct A; discriminate.
  - rewrite <- E. apply lastseq_snoc.
Qed.

Lemma log_ok_inv : forall start L, log_ok start L = true ->
  forallb entry_ok L = true /\ chain start L = true /\ (forall e, In e L -> start < w_seq e).
Proof.
  intros start L H. unfold log_ok in H.
  apply andb_prop in H. destruct H as [H H3].
  apply andb_prop in H. destruct H as [H1 H2].
  split; [exact H1|]. split; [exact H2|].
  intros e He. rewrite forallb_forall in H3. specialize (H3 _ He). apply N.ltb_lt in H3. exact H3.
Qed.

(* every applied entry is numbered at most gs *)
Lemma gs_upper : forall start A B, log_ok start (A ++ B) = true ->
  forall x, In x A -> w_seq x <= gs start A.
Proof.
  intros start A B H x Hx. apply log_ok_inv in H. destruct H as (_ & Hc & _).
  rewrite chain_app in Hc. apply andb_prop in Hc. destruct Hc as [Hc _].
  unfold gs. destruct A as [|a A]; [destruct Hx|].
  apply chain_le_last; assumption.
Qed.

(* the next entry of the log carries gs or gs + 1 (gs itself when nothing is applied) *)
Lemma gs_next : forall start A e B, log_ok start (A ++ e :: B) = true ->
  w_seq e = gs start A \/ (A <> [] /\ w_seq e = gs start A + 1).
Proof.
  intros start A e B H. apply log_ok_inv in H. destruct H as (_ & Hc & Hs).
  rewrite chain_app in Hc. apply andb_prop in Hc. destruct Hc as [_ Hc].
  cbn [chain] in Hc. apply andb_prop in Hc. destruct Hc as [Hc _].
  unfold gs. destruct A as [|a A].
  - left. cbn [lastseq fold_left] in Hc.
    assert (start < w_seq e) by (apply Hs; left; reflexivity).
    apply orb_prop in Hc. destruct Hc as [E|E]; apply N.eqb_eq in E; lia.
  - apply orb_prop in Hc. destruct Hc as [E|E]; apply N.eqb_eq in E.
    + left. exact E.
    + right. split; [discriminate|exact E].
Qed.

(* everything still to come is numbered at least gs *)
Lemma gs_lower : forall start A B, log_ok start (A ++ B) = true ->
  forall x, In x B -> gs start A <= w_seq x.
Proof.
  intros start A B H x Hx. pose proof H as H0. apply log_ok_inv in H. destruct H as (_ & Hc & Hs).
  rewrite chain_app in Hc. apply andb_prop in Hc. destruct Hc as [_ Hc].
  unfold gs. destruct A as [|a A].
  - cbn [lastseq fold_left] in Hc. specialize (Hs x). cbn [app] in Hs. specialize (Hs Hx). lia.
  - apply (chain_ge _ _ Hc). exact Hx.
Qed.

Lemma log_ok_app_l : forall start A B, log_ok start (A ++ B) = true -> log_ok start A = true.
Proof.
  intros start A B H. unfold log_ok in *.
  rewrite !forallb_app, chain_app in H.
  apply andb_prop in H. destruct H as [H H3].
  apply andb_prop in H. destruct H as [H1 H2].
  apply andb_prop in H1. destruct H1 as [H1 _].
  apply andb_prop in H2. destruct H2 as [H2 _].
  apply andb_prop in H3. destruct H3 as [H3 _].
  rewrite H1, H2, H3. reflexivity.
Qed.

Lemma log_ok_entry : forall start L e, log_ok start L = true -> In e L -> entry_ok e = true.
Proof.
  intros start L e H He. apply log_ok_inv in H. destruct H as (H & _).
  rewrite forallb_forall in H. apply H. exact He.
Qed.

Lemma log_seq_bound : forall start L e, log_ok start L = true -> In e L -> w_seq e + 1 < U64.
Proof.
  intros. apply entry_ok_inv. eapply log_ok_entry; eassumption.
Qed.

(* ================================================================================ *)
(* 3. the loops of ApplyEntries on deliveries cut out of the log                     *)
(* ================================================================================ *)

Definition tp (D : list wentry) : list pentry := map to_proto D.

Lemma tp_app : forall A B, tp (A ++ B) = tp A ++ tp B.
Proof. intros. apply map_app. Qed.

Lemma tp_length : forall A, length (tp A) = length A.
Proof. intros. apply map_length. Qed.

Lemma skip_old_older : forall g X R,
  (forall x, In x X -> w_seq x < g) -> skip_old g (tp (X ++ R)) = skip_old g (tp R).
Proof.
  induction X as [|x X IH]; intros R H; [reflexivity|].
  cbn [app tp map skip_old to_proto p_seq].
  assert (E : (w_seq x <? g) = true) by (apply N.ltb_lt; apply H; left; reflexivity).
  rewrite E. apply IH. intros y Hy. apply H. right. exact Hy.
Qed.

Lemma skip_old_newer : forall g R,
  (forall x, In x R -> g <= w_seq x) -> skip_old g (tp R) = tp R.
Proof.
  intros g [|x R] H; [reflexivity|].
  cbn [tp map skip_old to_proto p_seq].
  assert (E : (w_seq x <? g) = false) by (apply N.ltb_ge; apply H; left; reflexivity).
  rewrite E. reflexivity.
Qed.

Lemma run_len_group : forall g G R,
  (forall x, In x G -> w_seq x = g) -> run_len g (tp (G ++ R)) = (length G + run_len g (tp R))%nat.
Proof.
  induction G as [|x G IH]; intros R H; [reflexivity|].
  cbn [app tp map run_len to_proto p_seq length].
  assert (E : (w_seq x =? g) = true) by (apply N.eqb_eq; apply H; left; reflexivity).
  rewrite E. cbn [plus]. f_equal. apply IH. intros y Hy. apply H. right. exact Hy.
Qed.

Lemma run_len_other : forall g R,
  match R with [] => True | x :: _ => w_seq x <> g end -> run_len g (tp R) = O.
Proof.
  intros g [|x R] H; [reflexivity|].
  cbn [tp map run_len to_proto p_seq].
  assert (E : (w_seq x =? g) = false) by (apply N.eqb_neq; exact H).
  rewrite E. reflexivity.
Qed.

Lemma repeats_same : forall G n R T, (n <= length G)%nat ->
  repeats n (tp (G ++ R)) (map serialize G ++ T) = true.
Proof.
  induction G as [|x G IH]; intros n R T Hn.
  - assert (n = O) by (cbn [length] in Hn; lia). subst n. reflexivity.
  - destruct n as [|n]; [reflexivity|].
    cbn [app tp map repeats to_proto p_payload].
    rewrite beq_refl. cbn [andb]. apply IH. cbn [length] in Hn. lia.
Qed.

Lemma repeats_differs : forall n x R p T,
  serialize x <> p -> repeats (S n) (tp (x :: R)) (p :: T) = false.
Proof.
  intros n x R p T H. cbn [tp map repeats to_proto p_payload].
  destruct (beq (serialize x) p) eqn:E; [|reflexivity].
  apply beq_true_iff in E. contradiction.
Qed.

Lemma tp_skipn : forall n D, skipn n (tp D) = tp (skipn n D).
Proof. intros. unfold tp. apply skipn_map. Qed.

(* the remembered state after the entries of D were applied on top of a *)
Definition note_all (a : applier) (D : list wentry) : applier := fold_left note_applied (tp D) a.

Lemma note_all_app : forall a D E, note_all a (D ++ E) = note_all (note_all a D) E.
Proof. intros. unfold note_all. rewrite tp_app. apply fold_left_app. Qed.

Lemma note_applied_cursor : forall a e,
  a_max (note_applied a e) = a_max a /\ a_exp (note_applied a e) = a_exp a /\
  a_ack (note_applied a e) = a_ack a.
Proof. intros. unfold note_applied. destruct (p_seq e =? a_gseq a); cbn; auto. Qed.

Lemma note_all_cursor : forall D a,
  a_max (note_all a D) = a_max a /\ a_exp (note_all a D) = a_exp a /\ a_ack (note_all a D) = a_ack a.
Proof.
  induction D as [|d D IH]; intros a; [cbn; auto|].
  unfold note_all. cbn [tp map fold_left]. fold (tp D). fold (note_all (note_applied a (to_proto d)) D).
  destruct (IH (note_applied a (to_proto d))) as (E1 & E2 & E3).
  destruct (note_applied_cursor a (to_proto d)) as (F1 & F2 & F3).
  rewrite E1, E2, E3, F1, F2, F3. auto.
Qed.

(* the apply loop on honest entries: everything is applied, or everything before the call
   of applyFn that fails *)
Lemma apply_loop_honest : forall D a f acc,
  forallb entry_ok D = true ->
  apply_loop a (tp D) f acc =
    match f with
    | Some k =>
      match nth_error D k with
      | Some q => (advance_to (note_all a (firstn k D)) (pred64 (w_seq q)), acc ++ firstn k D, RApply)
      | None => (note_all a D, acc ++ D, ROk)
      end
    | None => (note_all a D, acc ++ D, ROk)
    end.
Proof.
  induction D as [|d D IH]; intros a f acc H.
  - cbn [tp map apply_loop]. destruct f as [[|k]|]; cbn [nth_error]; rewrite app_nil_r; reflexivity.
  - cbn [forallb] in H. apply andb_prop in H. destruct H as [Hd HD].
    cbn [tp map apply_loop]. fold (tp D).
    rewrite (entry_ok_deser d Hd).
    destruct f as [[|k]|].
    + cbn [nth_error firstn]. rewrite app_nil_r. reflexivity.
    + rewrite (IH _ (Some k) _ HD). cbn [nth_error firstn].
      destruct (nth_error D k).
      * rewrite <- app_assoc. reflexivity.
      * rewrite <- app_assoc. reflexivity.
    + rewrite (IH _ None _ HD). rewrite <- app_assoc. reflexivity.
Qed.

(* the payloads remembered for the newest number *)
Definition gpay (start : N) (A : list wentry) : list bytes :=
  map serialize (filter (fun e => w_seq e =? gs start A) A).

Lemma filter_none : forall (f : wentry -> bool) l, (forall x, In x l -> f x = false) -> filter f l = [].
Proof.
  induction l as [|x l IH]; intros H; [reflexivity|].
  cbn [filter]. rewrite (H x (or_introl eq_refl)). apply IH. intros y Hy. apply H. right. exact Hy.
Qed.

Lemma filter_all : forall (f : wentry -> bool) l, (forall x, In x l -> f x = true) -> filter f l = l.
Proof.
  induction l as [|x l IH]; intros H; [reflexivity|].
  cbn [filter]. rewrite (H x (or_introl eq_refl)). f_equal. apply IH. intros y Hy. apply H. right. exact Hy.
Qed.

Lemma note_applied_group : forall start a A e B,
  log_ok start (A ++ e :: B) = true ->
  a_gseq a = gs start A -> a_gapp a = gpay start A ->
  a_gseq (note_applied a (to_proto e)) = gs start (A ++ [e]) /\
  a_gapp (note_applied a (to_proto e)) = gpay start (A ++ [e]).
Proof.
  intros start a A e B HL Hg Hp.
  rewrite gs_snoc. unfold gpay. rewrite gs_snoc.
  unfold note_applied. cbn [to_proto p_seq p_payload]. rewrite Hg.
  destruct (gs_next _ _ _ _ HL) as [E|[Hne E]].
  - rewrite E, N.eqb_refl. cbn [a_gseq a_gapp]. split; [reflexivity|].
    rewrite Hp. unfold gpay. rewrite filter_app, map_app. cbn [filter].
    rewrite (proj2 (N.eqb_eq _ _) E). reflexivity.
  - assert (N1 : (w_seq e =? gs start A) = false) by (apply N.eqb_neq; lia).
    rewrite N1. cbn [a_gseq a_gapp]. split; [reflexivity|].
    rewrite filter_app. cbn [filter]. rewrite N.eqb_refl.
    rewrite filter_none; [reflexivity|].
    intros x Hx. apply N.eqb_neq.
    replace (A ++ e :: B) with (A ++ (e :: B)) in HL by reflexivity.
    pose proof (gs_upper _ _ _ HL x Hx). lia.
Qed.

Lemma note_all_group : forall start D a A Q,
  log_ok start (A ++ D ++ Q) = true ->
  a_gseq a = gs start A -> a_gapp a = gpay start A ->
  a_gseq (note_all a D) = gs start (A ++ D) /\ a_gapp (note_all a D) = gpay start (A ++ D).
Proof.
  induction D as [|d D IH]; intros a A Q HL Hg Hp.
  - rewrite app_nil_r. auto.
  - unfold note_all. cbn [tp map fold_left]. fold (tp D). fold (note_all (note_applied a (to_proto d)) D).
    cbn [app] in HL.
    destruct (note_applied_group start a A d (D ++ Q) HL Hg Hp) as [G1 G2].
    replace (A ++ d :: D) with ((A ++ [d]) ++ D) by (rewrite <- app_assoc; reflexivity).
    apply (IH _ _ Q); [|exact G1|exact G2].
    rewrite <- app_assoc. exact HL.
Qed.

(* the wire numbers of a piece of the log pass the +0/+1 check *)
Lemma steps_ok_chain : forall D p,
  chain p D = true -> (forall e, In e D -> w_seq e + 1 < U64) -> p + 1 < U64 -> steps_ok p (tp D) = true.
Proof.
  induction D as [|d D IH]; intros p Hc Hb Hp; [reflexivity|].
  cbn [chain] in Hc. apply andb_prop in Hc. destruct Hc as [H1 H2].
  cbn [tp map steps_ok to_proto p_seq]. fold (tp D).
  rewrite succ64_small by exact Hp. rewrite H1. cbn [andb].
  apply IH; [exact H2| |].
  - intros e He. apply Hb. right. exact He.
  - apply Hb. left. reflexivity.
Qed.

Lemma last_cons_default : forall (T : Type) (l : list T) (x d : T), last (x :: l) d = last l x.
Proof.
  induction l as [|y l IH]; intros x d; [reflexivity|].
  change (last (x :: y :: l) d) with (last (y :: l) d).
  rewrite IH. symmetry. apply IH.
Qed.

Lemma last_tp : forall D d, p_seq (last (tp D) (to_proto d)) = lastseq (w_seq d) D.
Proof.
  induction D as [|x D IH]; intros d; [reflexivity|].
  cbn [tp map]. fold (tp D). rewrite last_cons_default.
  cbn [lastseq fold_left]. apply IH.
Qed.

(* ================================================================================ *)
(* 4. one delivery                                                                   *)
(* ================================================================================ *)

(* what the applier remembers, in terms of the list A of entries it has applied *)
Record Inv (start : N) (a : applier) (A : list wentry) : Prop := mkInv {
  inv_gseq : a_gseq a = gs start A;
  inv_gapp : a_gapp a = gpay start A;
  inv_lo : gs start A <= a_max a + 1;
  inv_hi : a_max a <= gs start A;
  inv_exp : a_exp a = a_max a + 1
}.

Lemma inv_init : forall start, start + 2 < U64 -> Inv start (new_applier start) [].
Proof.
  intros start H. unfold new_applier.
  assert (E : (if 0 <? start then succ64 start else 1) = start + 1).
  { destruct (0 <? start) eqn:Z.
    - apply succ64_small. lia.
    - apply N.ltb_ge in Z. lia. }
  rewrite E. constructor; cbn [a_gseq a_gapp a_max a_exp gs gpay filter map]; try reflexivity; lia.
Qed.

Definition finish (r : applier * list wentry * rclass) (ls : N) : delivered :=
  match r with
  | (a', app, ROk) => let a'' := advance_to a' ls in mkD a'' app (a_max a'') ROk
  | (a', app, rc) => mkD a' app (a_max a') rc
  end.

Lemma apply_entries_go : forall a e0 rest f,
  (a_exp a <? p_seq e0) = false -> steps_ok (p_seq e0) rest = true ->
  apply_entries a (e0 :: rest) f =
    let l1 := skip_old (a_gseq a) (e0 :: rest) in
    let n := Nat.min (run_len (a_gseq a) l1) (length (a_gapp a)) in
    let l2 := if negb (Nat.eqb n 0) && repeats n l1 (a_gapp a) then skipn n l1 else l1 in
    finish (apply_loop a l2 f []) (last_seq e0 rest).
Proof.
  intros a e0 rest f H1 H2. unfold apply_entries. rewrite H1, H2. cbn [negb]. reflexivity.
Qed.

Lemma advance_to_spec : forall a s, a_exp a = a_max a + 1 -> s + 1 < U64 ->
  a_max (advance_to a s) = N.max (a_max a) s /\
  a_exp (advance_to a s) = a_max (advance_to a s) + 1 /\
  a_gseq (advance_to a s) = a_gseq a /\ a_gapp (advance_to a s) = a_gapp a /\
  a_ack (advance_to a s) = a_ack a.
Proof.
  intros a s He Hs. unfold advance_to. destruct (a_max a <? s) eqn:C.
  - apply N.ltb_lt in C. cbn [a_max a_exp a_gseq a_gapp a_ack].
    rewrite succ64_small by exact Hs. repeat split; lia.
  - apply N.ltb_ge in C. repeat split; try assumption; lia.
Qed.

Lemma exists_last_or_nil : forall (T : Type) (l : list T), l = [] \/ exists l' x, l = l' ++ [x].
Proof.
  intros T l. destruct l as [|y l]; [left; reflexivity|right].
  destruct (@exists_last T (y :: l)) as (l' & x & E); [discriminate|].
  exists l', x. exact E.
Qed.

Lemma gs_mono : forall start A X Y, log_ok start (A ++ X ++ Y) = true ->
  gs start A <= gs start (A ++ X).
Proof.
  intros start A X Y H. destruct (exists_last_or_nil _ X) as [->|(X' & x & ->)].
  - rewrite app_nil_r. lia.
  - rewrite app_assoc, gs_snoc. apply (gs_lower _ _ _ H). apply in_or_app. left.
    apply in_or_app. right. left. reflexivity.
Qed.

Lemma gs_bound : forall start A B, start + 2 < U64 -> log_ok start (A ++ B) = true ->
  gs start A + 1 < U64.
Proof.
  intros start A B Hst H. destruct (exists_last_or_nil _ A) as [->|(A' & x & ->)].
  - cbn [gs]. lia.
  - rewrite gs_snoc. apply (log_seq_bound start _ x H). apply in_or_app. left.
    apply in_or_app. right. left. reflexivity.
Qed.

Lemma nth_error_split3 : forall (T : Type) (l : list T) k q, nth_error l k = Some q ->
  l = firstn k l ++ q :: skipn (S k) l.
Proof.
  induction l as [|x l IH]; intros [|k] q H; cbn [nth_error] in H; try discriminate.
  - inversion H. reflexivity.
  - cbn [firstn skipn app]. f_equal. apply IH. exact H.
Qed.

(* the apply loop and the final bookkeeping, on the part D' of a delivery that continues
   exactly what is applied; ls = the last wire number of the whole delivery *)
Lemma tail_spec : forall start a A D' Q f ls,
  start + 2 < U64 -> log_ok start (A ++ D' ++ Q) = true -> Inv start a A ->
  (D' <> [] -> ls = gs start (A ++ D')) -> (D' = [] -> ls <= gs start A) ->
  let d := finish (apply_loop a (tp D') f []) ls in
  exists k,
    d_applied d = firstn k D' /\ Inv start (d_state d) (A ++ firstn k D') /\
    a_max a <= a_max (d_state d) /\ d_ret d = a_max (d_state d) /\
    ((d_res d = ROk /\ (k = length D')%nat /\ a_max (d_state d) = N.max (a_max a) ls) \/
     (d_res d = RApply /\ f = Some k /\
      exists q, nth_error D' k = Some q /\ a_max (d_state d) = N.max (a_max a) (w_seq q - 1))).
Proof.
  intros start a A D' Q f ls Hst HL HI Hls1 Hls2 d. subst d.
  assert (HokD : forallb entry_ok D' = true).
  { apply log_ok_inv in HL. destruct HL as (HL & _). rewrite !forallb_app in HL.
    apply andb_prop in HL. destruct HL as [_ HL]. apply andb_prop in HL. destruct HL as [HL _]. exact HL. }
  rewrite (apply_loop_honest D' a f [] HokD). cbn [app].
  destruct HI as [Ig Ip Ilo Ihi Ie].
  assert (Good : (match f with Some k => nth_error D' k | None => None end) = None ->
    exists k, d_applied (finish (note_all a D', D', ROk) ls) = firstn k D' /\
      Inv start (d_state (finish (note_all a D', D', ROk) ls)) (A ++ firstn k D') /\
      a_max a <= a_max (d_state (finish (note_all a D', D', ROk) ls)) /\
      d_ret (finish (note_all a D', D', ROk) ls) = a_max (d_state (finish (note_all a D', D', ROk) ls)) /\
      ((d_res (finish (note_all a D', D', ROk) ls) = ROk /\ (k = length D')%nat /\
        a_max (d_state (finish (note_all a D', D', ROk) ls)) = N.max (a_max a) ls) \/
       (d_res (finish (note_all a D', D', ROk) ls) = RApply /\ f = Some k /\
        exists q, nth_error D' k = Some q /\
          a_max (d_state (finish (note_all a D', D', ROk) ls)) = N.max (a_max a) (w_seq q - 1)))).
  { intros _. exists (length D'). rewrite firstn_all.
    cbn [finish d_applied d_state d_ret d_res].
    destruct (note_all_cursor D' a) as (C1 & C2 & C3).
    destruct (note_all_group start D' a A Q HL Ig Ip) as (G1 & G2).
    assert (Hls : ls + 1 < U64).
    { destruct D' as [|d0 D0].
      - specialize (Hls2 eq_refl). pose proof (gs_bound _ _ _ Hst HL). lia.
      - assert (Hne : d0 :: D0 <> []) by discriminate. specialize (Hls1 Hne).
        destruct (exists_last Hne) as (X & x & EX). rewrite EX in Hls1, HL.
        rewrite app_assoc, gs_snoc in Hls1. rewrite Hls1.
        apply (log_seq_bound start _ x HL). apply in_or_app. right. apply in_or_app. left.
        apply in_or_app. right. left. reflexivity. }
    assert (He' : a_exp (note_all a D') = a_max (note_all a D') + 1) by (rewrite C1, C2; exact Ie).
    destruct (advance_to_spec (note_all a D') ls He' Hls) as (S1 & S2 & S3 & S4 & _).
    rewrite C1 in S1.
    split; [reflexivity|]. split.
    - constructor; rewrite ?S1, ?S2, ?S3, ?S4; try assumption.
      + destruct D' as [|d0 D0].
        * rewrite app_nil_r. specialize (Hls2 eq_refl). lia.
        * assert (Hne : d0 :: D0 <> []) by discriminate. rewrite <- (Hls1 Hne). lia.
      + destruct D' as [|d0 D0].
        * rewrite app_nil_r. specialize (Hls2 eq_refl). lia.
        * assert (Hne : d0 :: D0 <> []) by discriminate. rewrite <- (Hls1 Hne).
          pose proof (gs_mono _ _ _ _ HL). rewrite <- (Hls1 Hne) in H. lia.
      + rewrite S1. reflexivity.
    - split; [rewrite S1; lia|]. split; [reflexivity|]. left. split; [reflexivity|]. split; [reflexivity|exact S1]. }
  destruct f as [k|]; [|apply Good; reflexivity].
  destruct (nth_error D' k) as [q|] eqn:Eq; [|apply Good; reflexivity].
  clear Good. exists k. cbn [finish d_applied d_state d_ret d_res].
  pose proof (nth_error_split3 _ _ _ _ Eq) as Esp.
  set (D1 := firstn k D') in *. set (D2 := skipn (S k) D') in *.
  assert (HL' : log_ok start (A ++ D1 ++ (q :: D2 ++ Q)) = true).
  { rewrite Esp in HL. rewrite <- app_assoc in HL. exact HL. }
  destruct (note_all_cursor D1 a) as (C1 & C2 & C3).
  destruct (note_all_group start D1 a A _ HL' Ig Ip) as (G1 & G2).
  assert (HL'' : log_ok start ((A ++ D1) ++ q :: D2 ++ Q) = true) by (rewrite <- app_assoc; exact HL').
  assert (Hq : w_seq q + 1 < U64).
  { apply (log_seq_bound start _ q HL''). apply in_or_app. right. left. reflexivity. }
  assert (Hq0 : start < w_seq q).
  { apply log_ok_inv in HL''. destruct HL'' as (_ & _ & Hs). apply Hs. apply in_or_app. right. left. reflexivity. }
  rewrite pred64_pos by lia.
  assert (He' : a_exp (note_all a D1) = a_max (note_all a D1) + 1) by (rewrite C1, C2; exact Ie).
  assert (Hq1 : w_seq q - 1 + 1 < U64) by lia.
  destruct (advance_to_spec (note_all a D1) (w_seq q - 1) He' Hq1) as (S1 & S2 & S3 & S4 & _).
  rewrite C1 in S1.
  pose proof (gs_mono _ _ _ _ HL') as Hm.
  destruct (gs_next _ _ _ _ HL'') as [En|[_ En]].
  - split; [reflexivity|]. split.
    + constructor; rewrite ?S1, ?S2, ?S3, ?S4; try assumption; try lia.
    + split; [rewrite S1; lia|]. split; [reflexivity|]. right. split; [reflexivity|]. split; [reflexivity|].
      exists q. split; [exact Eq|exact S1].
  - split; [reflexivity|]. split.
    + constructor; rewrite ?S1, ?S2, ?S3, ?S4; try assumption; try lia.
    + split; [rewrite S1; lia|]. split; [reflexivity|]. right. split; [reflexivity|]. split; [reflexivity|].
      exists q. split; [exact Eq|exact S1].
Qed.

(* ================================================================================ *)
(* 5. where a delivery sits in the log relative to what is applied                   *)
(* ================================================================================ *)

Definition older (start : N) (A : list wentry) := filter (fun e => w_seq e <? gs start A) A.
Definition newest (start : N) (A : list wentry) := filter (fun e => w_seq e =? gs start A) A.

Lemma split_by_number : forall L p g, chain p L = true -> (forall x, In x L -> w_seq x <= g) ->
  L = filter (fun e => w_seq e <? g) L ++ filter (fun e => w_seq e =? g) L.
Proof.
  induction L as [|a L IH]; intros p g Hc Hle; [reflexivity|].
  cbn [chain] in Hc. apply andb_prop in Hc. destruct Hc as [_ Hc].
  assert (Ha : w_seq a <= g) by (apply Hle; left; reflexivity).
  destruct (N.eq_dec (w_seq a) g) as [E|Ne].
  - assert (All : forall x, In x (a :: L) -> w_seq x = g).
    { intros x [<-|Hx]; [exact E|].
      pose proof (chain_ge _ _ Hc x Hx). specialize (Hle x (or_intror Hx)). lia. }
    rewrite (filter_none (fun e => w_seq e <? g) (a :: L)).
    + rewrite filter_all; [reflexivity|]. intros x Hx. apply N.eqb_eq. apply All. exact Hx.
    + intros x Hx. apply N.ltb_ge. rewrite (All x Hx). lia.
  - cbn [filter].
    assert (E1 : (w_seq a <? g) = true) by (apply N.ltb_lt; lia).
    assert (E2 : (w_seq a =? g) = false) by (apply N.eqb_neq; exact Ne).
    rewrite E1, E2. cbn [app]. f_equal. apply (IH (w_seq a)); [exact Hc|].
    intros x Hx. apply Hle. right. exact Hx.
Qed.

Lemma split_newest : forall start A B, log_ok start (A ++ B) = true ->
  A = older start A ++ newest start A.
Proof.
  intros start A B H. pose proof (gs_upper _ _ _ H) as Hu.
  apply log_ok_inv in H. destruct H as (_ & Hc & _).
  rewrite chain_app in Hc. apply andb_prop in Hc. destruct Hc as [Hc _].
  apply (split_by_number A start); assumption.
Qed.

Lemma older_lt : forall start A x, In x (older start A) -> w_seq x < gs start A.
Proof. intros start A x H. apply filter_In in H. destruct H as [_ H]. apply N.ltb_lt. exact H. Qed.

Lemma newest_eq : forall start A x, In x (newest start A) -> w_seq x = gs start A.
Proof. intros start A x H. apply filter_In in H. destruct H as [_ H]. apply N.eqb_eq. exact H. Qed.

Lemma newest_nonempty : forall start A, A <> [] -> newest start A <> [].
Proof.
  intros start A H. destruct (exists_last H) as (A' & x & ->).
  unfold newest. rewrite gs_snoc, filter_app. cbn [filter]. rewrite N.eqb_refl.
  intros E. apply app_eq_nil in E. destruct E as [_ E]. discriminate.
Qed.

(* the skipping phase: X' older entries, N' a beginning of the newest group, D'' new entries;
   either the delivery covers the whole newest group or it ends inside it *)
Lemma skip_phase : forall g X' N' N'' D'' gapp,
  (forall x, In x X' -> w_seq x < g) -> (forall x, In x N' -> w_seq x = g) ->
  (forall x, In x D'' -> g <= w_seq x) -> gapp = map serialize (N' ++ N'') ->
  N'' = [] \/ D'' = [] ->
  let l1 := skip_old g (tp (X' ++ N' ++ D'')) in
  let n := Nat.min (run_len g l1) (length gapp) in
  (if negb (Nat.eqb n 0) && repeats n l1 gapp then skipn n l1 else l1) = tp D''.
Proof.
  intros g X' N' N'' D'' gapp HX HN HD Hg Hor l1 n.
  assert (E1 : l1 = tp (N' ++ D'')).
  { subst l1. rewrite skip_old_older by exact HX. apply skip_old_newer.
    intros x Hx. apply in_app_or in Hx. destruct Hx as [Hx|Hx]; [rewrite (HN x Hx); lia|apply HD; exact Hx]. }
  assert (En : n = length N').
  { subst n. rewrite E1, run_len_group by exact HN. rewrite Hg, map_length, app_length.
    destruct Hor as [->| ->].
    - cbn [length]. lia.
    - cbn [tp map run_len]. lia. }
  rewrite En, E1. destruct N' as [|x N'].
  - reflexivity.
  - cbn [length Nat.eqb negb andb].
    rewrite Hg, map_app. rewrite repeats_same by (cbn [length]; lia).
    rewrite tp_skipn. rewrite skipn_app_exact by reflexivity. reflexivity.
Qed.

Lemma gap_shape : forall a e0 rest f, a_exp a < p_seq e0 ->
  apply_entries a (e0 :: rest) f = mkD a [] (a_max a) RGap.
Proof.
  intros a e0 rest f H. unfold apply_entries.
  assert (E : (a_exp a <? p_seq e0) = true) by (apply N.ltb_lt; exact H). rewrite E. reflexivity.
Qed.

Lemma hole_shape : forall a e0 rest f, steps_ok (p_seq e0) rest = false ->
  apply_entries a (e0 :: rest) f = mkD a [] (a_max a) RGap.
Proof.
  intros a e0 rest f H. unfold apply_entries.
  destruct (a_exp a <? p_seq e0); [reflexivity|]. rewrite H. reflexivity.
Qed.

(* the wire form of a piece d0 :: D0 of the log passes the hole check; its last number *)
Lemma piece_steps : forall start P d0 D0 Q, log_ok start (P ++ (d0 :: D0) ++ Q) = true ->
  steps_ok (p_seq (to_proto d0)) (tp D0) = true /\
  last_seq (to_proto d0) (tp D0) = lastseq (w_seq d0) D0.
Proof.
  intros start P d0 D0 Q H. split.
  - pose proof H as H0. apply log_ok_inv in H. destruct H as (_ & Hc & _).
    rewrite chain_app in Hc. apply andb_prop in Hc. destruct Hc as [_ Hc].
    cbn [app chain] in Hc. apply andb_prop in Hc. destruct Hc as [_ Hc].
    rewrite chain_app in Hc. apply andb_prop in Hc. destruct Hc as [Hc _].
    cbn [to_proto p_seq]. apply steps_ok_chain; [exact Hc| |].
    + intros e He. apply (log_seq_bound start _ e H0). apply in_or_app. right.
      apply in_or_app. left. right. exact He.
    + apply (log_seq_bound start _ d0 H0). apply in_or_app. right. left. reflexivity.
  - unfold last_seq. apply last_tp.
Qed.

Lemma lastseq_gs : forall start A d0 D0, lastseq (w_seq d0) D0 = gs start (A ++ d0 :: D0).
Proof.
  intros start A d0 D0. destruct (exists_last_or_nil _ D0) as [->|(D1 & x & ->)].
  - cbn [lastseq fold_left]. rewrite gs_snoc. reflexivity.
  - rewrite lastseq_snoc. replace (A ++ d0 :: D1 ++ [x]) with ((A ++ d0 :: D1) ++ [x]).
    + rewrite gs_snoc. reflexivity.
    + rewrite <- app_assoc. reflexivity.
Qed.

(* A delivery that starts at or before the first entry of the newest applied number: its
   already applied part is skipped, the rest (Dnew) goes to the apply loop. *)
Lemma deliver_old_shape : forall start L a A B P X d0 D0 Q f,
  start + 2 < U64 -> log_ok start L = true -> L = A ++ B -> Inv start a A ->
  L = P ++ (d0 :: D0) ++ Q -> older start A = P ++ X ->
  exists Dnew Q',
    L = A ++ Dnew ++ Q' /\
    (Dnew <> [] -> lastseq (w_seq d0) D0 = gs start (A ++ Dnew)) /\
    (Dnew = [] -> lastseq (w_seq d0) D0 <= gs start A) /\
    ((P ++ d0 :: D0 = A ++ Dnew) \/ (Dnew = [] /\ exists R, A = P ++ (d0 :: D0) ++ R)) /\
    apply_entries a (tp (d0 :: D0)) f = finish (apply_loop a (tp Dnew) f []) (lastseq (w_seq d0) D0).
Proof.
  intros start L a A B P X d0 D0 Q f Hst HL EA HI EP EO.
  set (D := d0 :: D0) in *.
  pose proof HL as HLA. rewrite EA in HLA.
  pose proof (split_newest _ _ _ HLA) as ES. rewrite EO in ES. rewrite <- app_assoc in ES.
  set (Nw := newest start A) in *.
  (* D ++ Q = X ++ Nw ++ B *)
  assert (EQ : D ++ Q = (X ++ Nw) ++ B).
  { apply (app_inv_head P). rewrite <- EP, EA. rewrite ES at 1. rewrite <- !app_assoc. reflexivity. }
  destruct HI as [Ig Ip Ilo Ihi Ie].
  assert (HXlt : forall x, In x X -> w_seq x < gs start A).
  { intros x Hx. apply older_lt. rewrite EO. apply in_or_app. right. exact Hx. }
  assert (HNeq : forall x, In x Nw -> w_seq x = gs start A) by (intros x Hx; apply newest_eq; exact Hx).
  assert (HBge : forall x, In x B -> gs start A <= w_seq x) by (apply gs_lower; exact HLA).
  assert (Hgp : a_gapp a = map serialize Nw) by (rewrite Ip; reflexivity).
  (* the head of the delivery is not beyond the expected number *)
  assert (Hd0 : w_seq d0 <= gs start A).
  { destruct (X ++ Nw) as [|y XN] eqn:EXN.
    - (* nothing applied at all *)
      assert (A = []).
      { destruct A as [|a0 A']; [reflexivity|exfalso].
        apply app_eq_nil in EXN. destruct EXN as [_ EN].
        apply (newest_nonempty start (a0 :: A')); [discriminate|exact EN]. }
      rename H into HA0. rewrite HA0 in HLA. cbn [app] in EQ, HLA.
      rewrite <- EQ in HLA. unfold D in HLA. cbn [app] in HLA. rewrite HA0.
      destruct (gs_next start [] d0 (D0 ++ Q) HLA) as [E|[Hne _]]; [lia|contradiction].
    - cbn [app] in EQ. unfold D in EQ. cbn [app] in EQ. inversion EQ as [[E1 E2]].
      assert (In y A).
      { rewrite ES. apply in_or_app. right. left. reflexivity. }
      subst y. apply (gs_upper _ _ _ HLA). assumption. }
  destruct (piece_steps start P d0 D0 Q) as [Hsteps Hlast]; [fold D; rewrite <- EP; exact HL|].
  assert (Hnogap : (a_exp a <? p_seq (to_proto d0)) = false).
  { apply N.ltb_ge. cbn [to_proto p_seq]. rewrite Ie. lia. }
  assert (Ego : apply_entries a (tp D) f =
      let l1 := skip_old (a_gseq a) (tp D) in
      let n := Nat.min (run_len (a_gseq a) l1) (length (a_gapp a)) in
      let l2 := if negb (Nat.eqb n 0) && repeats n l1 (a_gapp a) then skipn n l1 else l1 in
      finish (apply_loop a l2 f []) (lastseq (w_seq d0) D0)).
  { unfold D. cbn [tp map]. fold (tp D0). rewrite (apply_entries_go a (to_proto d0) (tp D0) f Hnogap Hsteps).
    rewrite Hlast. reflexivity. }
  cbv zeta in Ego.
  apply app_eq_app in EQ. destruct EQ as (l & [[E1 E2]|[E1 E2]]).
  - (* the delivery covers everything applied behind P and brings l *)
    exists l, Q. subst B.
    split; [rewrite EA; reflexivity|].
    split.
    { intros Hne. unfold D in E1. rewrite ES. rewrite <- app_assoc. rewrite app_assoc.
      replace ((P ++ X ++ Nw) ++ l) with (P ++ (X ++ Nw) ++ l) by (rewrite <- !app_assoc; reflexivity).
      rewrite <- E1. apply lastseq_gs. }
    split.
    { intros ->. rewrite app_nil_r in E1.
      assert (Hin : In (last D0 d0) A).
      { rewrite ES, app_assoc, <- app_assoc. apply in_or_app. right. rewrite <- E1.
        unfold D. destruct (exists_last_or_nil _ D0) as [->|(D1 & x & ->)].
        - left. reflexivity.
        - rewrite last_last. right. apply in_or_app. right. left. reflexivity. }
      pose proof (gs_upper _ _ _ HLA _ Hin) as Hu.
      replace (lastseq (w_seq d0) D0) with (w_seq (last D0 d0)); [exact Hu|].
      clear. revert d0. induction D0 as [|x D0 IH]; intros d0; [reflexivity|].
      rewrite last_cons_default. cbn [lastseq fold_left]. apply IH. }
    split.
    { left. rewrite ES. rewrite E1. rewrite <- !app_assoc. reflexivity. }
    rewrite Ego. rewrite E1, <- app_assoc, Ig.
    rewrite (skip_phase (gs start A) X Nw [] l (a_gapp a)); try assumption.
    + reflexivity.
    + intros x Hx. apply HBge. apply in_or_app. left. exact Hx.
    + rewrite app_nil_r. exact Hgp.
    + left. reflexivity.
  - (* the delivery lies inside what is applied *)
    exists [], B.
    split; [rewrite EA; reflexivity|].
    split; [intros C; contradiction|].
    assert (HinA : forall x, In x D -> In x A).
    { intros x Hx. rewrite ES, app_assoc, <- app_assoc. apply in_or_app. right. rewrite E1.
      apply in_or_app. left. exact Hx. }
    split.
    { intros _.
      assert (Hin : In (last D0 d0) D).
      { unfold D. destruct (exists_last_or_nil _ D0) as [->|(D1 & x & ->)].
        - left. reflexivity.
        - rewrite last_last. right. apply in_or_app. right. left. reflexivity. }
      pose proof (gs_upper _ _ _ HLA _ (HinA _ Hin)) as Hu.
      replace (lastseq (w_seq d0) D0) with (w_seq (last D0 d0)); [exact Hu|].
      clear. revert d0. induction D0 as [|x D0 IH]; intros d0; [reflexivity|].
      rewrite last_cons_default. cbn [lastseq fold_left]. apply IH. }
    split.
    { right. split; [reflexivity|]. exists l. rewrite ES, app_assoc, <- app_assoc, E1. reflexivity. }
    rewrite Ego, Ig.
    apply app_eq_app in E1. destruct E1 as (m & [[F1 F2]|[F1 F2]]).
    + (* X = D ++ m *)
      replace (tp D) with (tp (D ++ [] ++ [])) by (rewrite !app_nil_r; reflexivity).
      rewrite (skip_phase (gs start A) D [] Nw [] (a_gapp a)); try assumption.
      * reflexivity.
      * intros x Hx. apply HXlt. rewrite F1. apply in_or_app. left. exact Hx.
      * intros x [].
      * intros x [].
      * right. reflexivity.
    + (* D = X ++ m, Nw = m ++ l *)
      replace (tp D) with (tp (X ++ m ++ [])) by (rewrite app_nil_r, F1; reflexivity).
      rewrite (skip_phase (gs start A) X m l [] (a_gapp a)); try assumption.
      * reflexivity.
      * intros x Hx. apply HNeq. rewrite F2. apply in_or_app. left. exact Hx.
      * intros x [].
      * rewrite Hgp, F2. reflexivity.
      * right. reflexivity.
Qed.

(* A delivery that starts exactly where the applied entries end. Inside a number that is
   partly applied the applier can tell a continuation from a repetition only by payload:
   the first entry must not look like the first one applied for that number. *)
Lemma deliver_cont_shape : forall start L a A d0 D0 Q f,
  start + 2 < U64 -> log_ok start L = true -> L = A ++ (d0 :: D0) ++ Q -> Inv start a A ->
  w_seq d0 <= a_exp a ->
  (w_seq d0 <> gs start A \/ hd_error (a_gapp a) <> Some (serialize d0)) ->
  apply_entries a (tp (d0 :: D0)) f =
    finish (apply_loop a (tp (d0 :: D0)) f []) (lastseq (w_seq d0) D0).
Proof.
  intros start L a A d0 D0 Q f Hst HL EL HI Hexp Hdiff.
  destruct (piece_steps start A d0 D0 Q) as [Hsteps Hlast]; [rewrite <- EL; exact HL|].
  assert (Hnogap : (a_exp a <? p_seq (to_proto d0)) = false).
  { apply N.ltb_ge. cbn [to_proto p_seq]. exact Hexp. }
  cbn [tp map]. fold (tp D0).
  rewrite (apply_entries_go a (to_proto d0) (tp D0) f Hnogap Hsteps). cbv zeta.
  rewrite Hlast. f_equal.
  destruct HI as [Ig Ip Ilo Ihi Ie]. rewrite Ig.
  change (to_proto d0 :: tp D0) with (tp (d0 :: D0)).
  rewrite EL in HL.
  rewrite skip_old_newer.
  2:{ intros x Hx. apply (gs_lower _ _ _ HL). apply in_or_app. left. exact Hx. }
  destruct Hdiff as [Hd|Hd].
  - rewrite run_len_other by exact Hd. reflexivity.
  - destruct (a_gapp a) as [|p T] eqn:Eg.
    + cbn [length]. rewrite PeanoNat.Nat.min_0_r. reflexivity.
    + destruct (N.eq_dec (w_seq d0) (gs start A)) as [E|Ne].
      * cbn [tp map run_len to_proto p_seq]. rewrite (proj2 (N.eqb_eq _ _) E).
        cbn [length Nat.min Nat.eqb negb andb].
        fold (tp D0). change (to_proto d0 :: tp D0) with (tp (d0 :: D0)).
        rewrite repeats_differs; [reflexivity|].
        intros C. apply Hd. cbn [hd_error]. rewrite C. reflexivity.
      * rewrite run_len_other by exact Ne. reflexivity.
Qed.

(* ---- what one delivery does, in terms of the log ---- *)

(* the result of a delivery on top of A: Dn is applied, in order, directly behind A *)
Definition extends (start : N) (L : list wentry) (a : applier) (A : list wentry) (d : delivered)
  (Dn : list wentry) : Prop :=
  (exists Q', L = (A ++ Dn) ++ Q') /\ d_applied d = Dn /\ Inv start (d_state d) (A ++ Dn) /\
  a_max a <= a_max (d_state d) /\ d_ret d = a_max (d_state d).

Lemma extends_nothing : forall start L a A B rc, L = A ++ B -> Inv start a A ->
  extends start L a A (mkD a [] (a_max a) rc) [].
Proof.
  intros start L a A B rc EL HI. unfold extends. cbn [d_applied d_state d_ret].
  rewrite app_nil_r. split; [exists B; exact EL|]. split; [reflexivity|]. split; [exact HI|]. split; [lia|reflexivity].
Qed.

Lemma extends_tail : forall start L a A Dnew Q' f ls,
  start + 2 < U64 -> log_ok start L = true -> L = A ++ Dnew ++ Q' -> Inv start a A ->
  (Dnew <> [] -> ls = gs start (A ++ Dnew)) -> (Dnew = [] -> ls <= gs start A) ->
  exists Dn, extends start L a A (finish (apply_loop a (tp Dnew) f []) ls) Dn.
Proof.
  intros start L a A Dnew Q' f ls Hst HL EL HI H1 H2.
  rewrite EL in HL.
  destruct (tail_spec start a A Dnew Q' f ls Hst HL HI H1 H2) as (k & E1 & E2 & E3 & E4 & _).
  exists (firstn k Dnew). unfold extends.
  split.
  { exists (skipn k Dnew ++ Q'). rewrite EL. rewrite <- !app_assoc. f_equal.
    rewrite app_assoc, firstn_skipn. reflexivity. }
  split; [exact E1|]. split; [exact E2|]. split; [exact E3|exact E4].
Qed.

(* One delivery of a contiguous piece D of the log, placed P entries into it, is SAFE when it
   starts at or before the first entry of the newest applied number, or exactly where the
   applied entries end (and, inside a partly applied number, does not begin with the payload
   that number began with). Then the applied list stays a prefix of the log. *)
Theorem deliver_safe : forall start L a A B P D Q f,
  start + 2 < U64 -> log_ok start L = true -> L = A ++ B -> Inv start a A -> L = P ++ D ++ Q ->
  ((exists X, older start A = P ++ X) \/
   (P = A /\ forall d0 D0, D = d0 :: D0 ->
       w_seq d0 <> gs start A \/ hd_error (a_gapp a) <> Some (serialize d0))) ->
  exists Dn, extends start L a A (apply_entries a (tp D) f) Dn.
Proof.
  intros start L a A B P D Q f Hst HL EA HI EP Hsafe.
  destruct D as [|d0 D0].
  - exists []. cbn [tp map apply_entries]. apply (extends_nothing _ _ _ _ B); assumption.
  - destruct Hsafe as [(X & EO)|(EPA & Hd)].
    + destruct (deliver_old_shape start L a A B P X d0 D0 Q f Hst HL EA HI EP EO)
        as (Dnew & Q' & EL & H1 & H2 & _ & Ego).
      rewrite Ego. apply (extends_tail start L a A Dnew Q'); assumption.
    + subst P. destruct (N.lt_ge_cases (a_exp a) (w_seq d0)) as [Hgap|Hnogap].
      * exists []. cbn [tp map]. rewrite gap_shape by exact Hgap.
        apply (extends_nothing _ _ _ _ B); assumption.
      * rewrite (deliver_cont_shape start L a A d0 D0 Q f Hst HL EP HI Hnogap (Hd _ _ eq_refl)).
        apply (extends_tail start L a A (d0 :: D0) Q); try assumption.
        -- intros _. apply lastseq_gs.
        -- intros C. discriminate.
Qed.

(* a delivery that the hole check rejects leaves everything as it was *)
Theorem deliver_rejected : forall a es f,
  match es with
  | [] => False
  | e0 :: rest => a_exp a < p_seq e0 \/ steps_ok (p_seq e0) rest = false
  end ->
  apply_entries a es f = mkD a [] (a_max a) RGap.
Proof.
  intros a [|e0 rest] f H; [contradiction|].
  destruct H as [H|H]; [apply gap_shape|apply hole_shape]; exact H.
Qed.

(* ================================================================================ *)
(* 6. deliveries that respect transaction boundaries                                 *)
(* ================================================================================ *)

(* the reported cursor is below everything that is not applied yet *)
Definition cover (a : applier) (B : list wentry) : Prop := forall x, In x B -> a_max a < w_seq x.

(* M | R is a cut between two sequence numbers (or at an end of the log) *)
Definition bnd (M R : list wentry) : Prop :=
  forall M' x y R', M = M' ++ [x] -> R = y :: R' -> w_seq x <> w_seq y.

Lemma bnd_above : forall start M R, log_ok start (M ++ R) = true -> bnd M R -> M <> [] ->
  forall x, In x R -> gs start M < w_seq x.
Proof.
  intros start M R HL Hb Hne x Hx.
  destruct R as [|y R']; [destruct Hx|].
  destruct (exists_last Hne) as (M' & m & EM).
  assert (Hy : w_seq y = gs start M + 1).
  { destruct (gs_next _ _ _ _ HL) as [E|[_ E]]; [|exact E].
    exfalso. apply (Hb M' m y R' EM eq_refl). rewrite E, EM, gs_snoc. reflexivity. }
  destruct Hx as [<-|Hx]; [lia|].
  replace (M ++ y :: R') with ((M ++ [y]) ++ R') in HL by (rewrite <- app_assoc; reflexivity).
  pose proof (gs_lower _ _ _ HL x Hx) as Hl. rewrite gs_snoc in Hl. lia.
Qed.

Lemma tail_full : forall start a A Dnew Q' f ls,
  start + 2 < U64 -> log_ok start (A ++ Dnew ++ Q') = true -> Inv start a A ->
  (Dnew <> [] -> ls = gs start (A ++ Dnew)) -> (Dnew = [] -> ls <= gs start A) ->
  cover a (Dnew ++ Q') -> (forall x, In x Q' -> ls < w_seq x) ->
  let d := finish (apply_loop a (tp Dnew) f []) ls in
  exists k,
    d_applied d = firstn k Dnew /\ Inv start (d_state d) (A ++ firstn k Dnew) /\
    cover (d_state d) (skipn k Dnew ++ Q') /\
    a_max a <= a_max (d_state d) /\ d_ret d = a_max (d_state d).
Proof.
  intros start a A Dnew Q' f ls Hst HL HI H1 H2 Hc Hend d.
  destruct (tail_spec start a A Dnew Q' f ls Hst HL HI H1 H2) as (k & E1 & E2 & E3 & E4 & E5).
  fold d in E1, E2, E3, E4, E5.
  exists k. split; [exact E1|]. split; [exact E2|]. split; [|split; [exact E3|exact E4]].
  destruct E5 as [(_ & Ek & Em)|(_ & _ & q & Eq & Em)].
  - rewrite Ek, skipn_all. cbn [app]. intros x Hx. rewrite Em.
    assert (a_max a < w_seq x) by (apply Hc; apply in_or_app; right; exact Hx).
    specialize (Hend x Hx). lia.
  - intros x Hx. rewrite Em.
    assert (Hin : In x (Dnew ++ Q')).
    { apply in_app_or in Hx. apply in_or_app. destruct Hx as [Hx|Hx]; [left|right; exact Hx].
      rewrite <- (firstn_skipn k Dnew). apply in_or_app. right. exact Hx. }
    specialize (Hc x Hin).
    pose proof (nth_error_split3 _ _ _ _ Eq) as Esp.
    assert (Esk : skipn k Dnew = q :: skipn (S k) Dnew).
    { rewrite Esp at 1. rewrite skipn_app_exact; [reflexivity|].
      assert (k < length Dnew)%nat by (apply nth_error_Some; rewrite Eq; discriminate).
      rewrite firstn_length. lia. }
    rewrite Esk in Hx. cbn [app] in Hx.
    destruct Hx as [<-|Hx].
    + assert (0 < w_seq q).
      { apply log_ok_inv in HL. destruct HL as (_ & _ & Hs). specialize (Hs q).
        assert (start < w_seq q); [|lia]. apply Hs. apply in_or_app. right. exact Hin. }
      lia.
    + rewrite Esp in HL.
      replace (A ++ (firstn k Dnew ++ q :: skipn (S k) Dnew) ++ Q')
        with ((A ++ firstn k Dnew ++ [q]) ++ (skipn (S k) Dnew ++ Q')) in HL.
      2:{ rewrite <- !app_assoc. cbn [app]. reflexivity. }
      pose proof (gs_lower _ _ _ HL x Hx) as Hl.
      rewrite app_assoc, gs_snoc in Hl. lia.
Qed.

(* the result of an aligned delivery: Dn applied behind A, the cursor still below the rest *)
Definition extends_cov (start : N) (L : list wentry) (a : applier) (A : list wentry)
  (d : delivered) (Dn B' : list wentry) : Prop :=
  L = (A ++ Dn) ++ B' /\ d_applied d = Dn /\ Inv start (d_state d) (A ++ Dn) /\
  cover (d_state d) B' /\ a_max a <= a_max (d_state d) /\ d_ret d = a_max (d_state d).

Lemma extends_cov_nothing : forall start L a A B rc, L = A ++ B -> Inv start a A -> cover a B ->
  extends_cov start L a A (mkD a [] (a_max a) rc) [] B.
Proof.
  intros start L a A B rc EL HI Hc. unfold extends_cov. cbn [d_applied d_state d_ret].
  rewrite app_nil_r. split; [exact EL|]. split; [reflexivity|]. split; [exact HI|].
  split; [exact Hc|]. split; [lia|reflexivity].
Qed.

Lemma extends_cov_tail : forall start L a A Dnew Q' f ls,
  start + 2 < U64 -> log_ok start L = true -> L = A ++ Dnew ++ Q' -> Inv start a A ->
  (Dnew <> [] -> ls = gs start (A ++ Dnew)) -> (Dnew = [] -> ls <= gs start A) ->
  cover a (Dnew ++ Q') -> (forall x, In x Q' -> ls < w_seq x) ->
  exists Dn B', extends_cov start L a A (finish (apply_loop a (tp Dnew) f []) ls) Dn B'.
Proof.
  intros start L a A Dnew Q' f ls Hst HL EL HI H1 H2 Hc Hend.
  rewrite EL in HL.
  destruct (tail_full start a A Dnew Q' f ls Hst HL HI H1 H2 Hc Hend) as (k & E1 & E2 & E3 & E4 & E5).
  exists (firstn k Dnew), (skipn k Dnew ++ Q'). unfold extends_cov.
  split.
  { rewrite EL. rewrite <- !app_assoc. f_equal. rewrite app_assoc, firstn_skipn. reflexivity. }
  split; [exact E1|]. split; [exact E2|]. split; [exact E3|]. split; [exact E4|exact E5].
Qed.

Lemma aligned_cont : forall start L a A d0 D0 Q f,
  start + 2 < U64 -> log_ok start L = true -> L = A ++ (d0 :: D0) ++ Q -> Inv start a A ->
  cover a ((d0 :: D0) ++ Q) -> bnd A ((d0 :: D0) ++ Q) -> bnd (A ++ d0 :: D0) Q ->
  exists Dn B', extends_cov start L a A (apply_entries a (tp (d0 :: D0)) f) Dn B'.
Proof.
  intros start L a A d0 D0 Q f Hst HL EL HI Hc Hb1 Hb2.
  destruct (N.lt_ge_cases (a_exp a) (w_seq d0)) as [Hgap|Hnogap].
  - exists [], ((d0 :: D0) ++ Q). cbn [tp map]. rewrite gap_shape by exact Hgap.
    apply extends_cov_nothing; assumption.
  - assert (Hdiff : w_seq d0 <> gs start A \/ hd_error (a_gapp a) <> Some (serialize d0)).
    { destruct (exists_last_or_nil _ A) as [->|(A' & x & ->)].
      - right. rewrite (inv_gapp _ _ _ HI). cbn. discriminate.
      - left. rewrite gs_snoc. intros C. apply (Hb1 A' x d0 (D0 ++ Q) eq_refl eq_refl). symmetry. exact C. }
    rewrite (deliver_cont_shape start L a A d0 D0 Q f Hst HL EL HI Hnogap Hdiff).
    apply (extends_cov_tail start L a A (d0 :: D0) Q); try assumption.
    + intros _. apply lastseq_gs.
    + intros C. discriminate.
    + intros x Hx. rewrite (lastseq_gs start A d0 D0).
      apply (bnd_above start (A ++ d0 :: D0) Q); try assumption.
      * rewrite <- app_assoc. rewrite <- EL. exact HL.
      * intros C. apply app_eq_nil in C. destruct C as [_ C]. discriminate.
Qed.

(* A delivery whose both ends are transaction boundaries, anywhere in the log. *)
Theorem deliver_aligned : forall start L a A B P D Q f,
  start + 2 < U64 -> log_ok start L = true -> L = A ++ B -> Inv start a A -> cover a B ->
  L = P ++ D ++ Q -> bnd P (D ++ Q) -> bnd (P ++ D) Q ->
  exists Dn B', extends_cov start L a A (apply_entries a (tp D) f) Dn B'.
Proof.
  intros start L a A B P D Q f Hst HL EA HI Hc EP Hb1 Hb2.
  destruct D as [|d0 D0].
  { exists [], B. cbn [tp map apply_entries]. apply extends_cov_nothing; assumption. }
  pose proof HL as HLA. rewrite EA in HLA.
  pose proof HL as HLP. rewrite EP in HLP.
  assert (EQ : P ++ ((d0 :: D0) ++ Q) = A ++ B) by (rewrite <- EP, <- EA; reflexivity).
  apply app_eq_app in EQ. destruct EQ as (l & [[E1 E2]|[E1 E2]]).
  - (* P = A ++ l *)
    destruct (exists_last_or_nil _ l) as [->|(l' & x & ->)].
    + rewrite app_nil_r in E1. subst P. cbn [app] in E2. subst B.
      apply (aligned_cont start L a A d0 D0 Q f); assumption.
    + (* the delivery starts beyond the applied entries, behind a boundary: a gap *)
      exists [], B. cbn [tp map].
      assert (Hx : a_max a < w_seq x).
      { apply Hc. rewrite E2. apply in_or_app. left. apply in_or_app. right. left. reflexivity. }
      assert (EPx : P = (A ++ l') ++ [x]) by (rewrite E1, app_assoc; reflexivity).
      assert (Hd : w_seq d0 = w_seq x + 1).
      { cbn [app] in HLP.
        destruct (gs_next _ _ _ _ HLP) as [E|[_ E]].
        - exfalso. apply (Hb1 (A ++ l') x d0 (D0 ++ Q) EPx eq_refl).
          rewrite E, EPx, gs_snoc. reflexivity.
        - rewrite E, EPx, gs_snoc. reflexivity. }
      rewrite gap_shape.
      * apply extends_cov_nothing; assumption.
      * cbn [to_proto p_seq]. rewrite (inv_exp _ _ _ HI). lia.
  - (* A = P ++ l *)
    destruct l as [|y l'].
    + rewrite app_nil_r in E1. subst P. cbn [app] in E2. subst B.
      apply (aligned_cont start L a A d0 D0 Q f); assumption.
    + assert (EX : exists X, older start A = P ++ X).
      { pose proof (split_newest _ _ _ HLA) as ES.
        rewrite E1 in ES at 1. apply app_eq_app in ES.
        destruct ES as (m & [[F1 F2]|[F1 F2]]).
        - (* P = older ++ m *)
          destruct (exists_last_or_nil _ m) as [->|(m' & z & ->)].
          + exists []. rewrite app_nil_r in F1. rewrite F1, app_nil_r. reflexivity.
          + exfalso.
            assert (Hz : w_seq z = gs start A).
            { apply newest_eq. rewrite F2. apply in_or_app. left. apply in_or_app. right. left. reflexivity. }
            assert (Hy : w_seq y = gs start A).
            { apply newest_eq. rewrite F2. apply in_or_app. right. left. reflexivity. }
            cbn [app] in E2. injection E2 as Ed0 _.
            apply (Hb1 (older start A ++ m') z d0 (D0 ++ Q)); [rewrite F1, app_assoc; reflexivity|reflexivity|].
            rewrite Ed0. lia.
        - exists m. exact F1. }
      destruct EX as (X & EO).
      destruct (deliver_old_shape start L a A B P X d0 D0 Q f Hst HL EA HI EP EO)
        as (Dnew & Q' & EL & H1 & H2 & Hrel & Ego).
      rewrite Ego.
      assert (EB : B = Dnew ++ Q').
      { apply (app_inv_head A). rewrite <- EA. exact EL. }
      assert (Hls : lastseq (w_seq d0) D0 = gs start (P ++ d0 :: D0)) by apply lastseq_gs.
      assert (Hbelow : forall x, In x Q -> lastseq (w_seq d0) D0 < w_seq x).
      { intros x Hx. rewrite Hls. apply (bnd_above start (P ++ d0 :: D0) Q); try assumption.
        - rewrite <- app_assoc. exact HLP.
        - intros C. apply app_eq_nil in C. destruct C as [_ C]. discriminate. }
      apply (extends_cov_tail start L a A Dnew Q'); try assumption.
      * rewrite <- EB. exact Hc.
      * intros x Hx. apply Hbelow.
        destruct Hrel as [Hrel|(-> & R & ER)].
        -- (* P ++ D = A ++ Dnew: Q' = Q *)
           assert (Q' = Q).
           { apply (app_inv_head (A ++ Dnew)). rewrite <- app_assoc, <- EL, <- Hrel.
             rewrite EP. rewrite <- app_assoc. reflexivity. }
           subst Q'. exact Hx.
        -- (* the delivery lies inside A: Q = R ++ B *)
           cbn [app] in EL, EB. subst Q'.
           assert (Q = R ++ B).
           { apply (app_inv_head (P ++ d0 :: D0)). rewrite <- app_assoc.
             change (P ++ (d0 :: D0) ++ Q = (P ++ d0 :: D0) ++ R ++ B).
             rewrite <- EP, EA, ER. rewrite <- !app_assoc. reflexivity. }
           subst Q. apply in_or_app. right. exact Hx.
Qed.

(* ================================================================================ *)
(* 7. schedules                                                                      *)
(* ================================================================================ *)

Lemma seg_split : forall (L : list wentry) i j, (i <= j)%nat ->
  L = firstn i L ++ firstn (j - i) (skipn i L) ++ skipn j L /\
  firstn i L ++ firstn (j - i) (skipn i L) = firstn j L.
Proof.
  intros L i j Hij.
  assert (E : skipn j L = skipn (j - i) (skipn i L)).
  { rewrite <- skipn_add. f_equal. lia. }
  split.
  - rewrite E, firstn_skipn, firstn_skipn. reflexivity.
  - apply (app_inv_tail (skipn j L)). rewrite firstn_skipn.
    rewrite <- app_assoc, E, firstn_skipn, firstn_skipn. reflexivity.
Qed.

(* position i of L is a boundary between two sequence numbers (or an end of the log) *)
Definition cut_ok (L : list wentry) (i : nat) : Prop := bnd (firstn i L) (skipn i L).

(* an event of a schedule that respects transaction boundaries: the delivery of a piece
   L[i, j) with both ends on boundaries, with any apply failure; or a connection reset *)
Definition aligned_event (L : list wentry) (ev : event) : Prop :=
  match ev with
  | EDeliver es f => exists i j, (i <= j)%nat /\ cut_ok L i /\ cut_ok L j /\ es = seg L i j
  | EReset => True
  | ERestart => False
  end.

(* what holds between the events of such a schedule *)
Definition RInv (start : N) (L : list wentry) (s : rstate) : Prop :=
  exists B, L = s_applied s ++ B /\ Inv start (r_ap (s_rep s)) (s_applied s) /\
            cover (r_ap (s_rep s)) B.

Lemma process_state : forall r es f,
  let '(r', app, oc) := process r es f in
  r_ap r' = d_state (apply_entries (r_ap r) es f) /\ app = d_applied (apply_entries (r_ap r) es f).
Proof.
  intros r es f. unfold process. destruct (d_res (apply_entries (r_ap r) es f)); cbn; auto.
Qed.

Lemma step_deliver : forall s es f,
  r_ap (s_rep (step s (EDeliver es f))) = d_state (apply_entries (r_ap (s_rep s)) es f) /\
  s_applied (step s (EDeliver es f)) = s_applied s ++ d_applied (apply_entries (r_ap (s_rep s)) es f).
Proof.
  intros s es f. cbn [step]. pose proof (process_state (s_rep s) es f) as H.
  destruct (process (s_rep s) es f) as [[r' app] oc]. destruct H as [H1 H2].
  cbn [s_rep s_applied]. rewrite H1, H2. auto.
Qed.

Lemma RInv_step : forall start L s ev, start + 2 < U64 -> log_ok start L = true ->
  RInv start L s -> aligned_event L ev ->
  RInv start L (step s ev) /\
  a_max (r_ap (s_rep s)) <= a_max (r_ap (s_rep (step s ev))).
Proof.
  intros start L s ev Hst HL (B & EL & HI & Hc) Hev.
  destruct ev as [es f| |]; [|split; [exists B; auto|cbn [step]; lia]|destruct Hev].
  destruct Hev as (i & j & Hij & Hci & Hcj & ->).
  destruct (seg_split L i j Hij) as [Esp Efj].
  destruct (step_deliver s (seg L i j) f) as [E1 E2].
  unfold cut_ok in Hci, Hcj.
  assert (Hb1 : bnd (firstn i L) (firstn (j - i) (skipn i L) ++ skipn j L)).
  { replace (firstn (j - i) (skipn i L) ++ skipn j L) with (skipn i L); [exact Hci|].
    apply (app_inv_head (firstn i L)). rewrite firstn_skipn. exact Esp. }
  assert (Hb2 : bnd (firstn i L ++ firstn (j - i) (skipn i L)) (skipn j L)) by (rewrite Efj; exact Hcj).
  destruct (deliver_aligned start L (r_ap (s_rep s)) (s_applied s) B (firstn i L)
              (firstn (j - i) (skipn i L)) (skipn j L) f Hst HL EL HI Hc Esp Hb1 Hb2)
    as (Dn & B' & F1 & F2 & F3 & F4 & F5 & _).
  unfold seg, tp in *. fold (tp (firstn (j - i) (skipn i L))) in *.
  split.
  - exists B'. rewrite E2, E1, F2. auto.
  - rewrite E1. exact F5.
Qed.

Lemma RInv_init : forall start L, start + 2 < U64 -> log_ok start L = true ->
  RInv start L (mkS (new_replica start) []).
Proof.
  intros start L Hst HL. exists L. cbn [s_applied s_rep new_replica r_ap app].
  split; [reflexivity|]. split; [apply inv_init; exact Hst|].
  intros x Hx. cbn [new_applier a_max]. apply log_ok_inv in HL. destruct HL as (_ & _ & Hs). apply Hs. exact Hx.
Qed.

Lemma RInv_run : forall start L evs s, start + 2 < U64 -> log_ok start L = true ->
  RInv start L s -> Forall (aligned_event L) evs -> RInv start L (fold_left step evs s).
Proof.
  intros start L evs. induction evs as [|ev evs IH]; intros s Hst HL HR Hev; [exact HR|].
  inversion Hev as [|? ? H1 H2]; subst. cbn [fold_left].
  apply IH; try assumption. apply (RInv_step start L s ev); assumption.
Qed.

(* C13, for every schedule that respects transaction boundaries: whatever is duplicated,
   dropped, reordered, overlapped, retransmitted, whichever applies fail, however often the
   connection is reset - the replica has applied exactly a prefix of the primary's log, the
   reported sequence number covers only completely applied transactions, and nothing of what
   is not applied yet carries a number at or below it. *)
Theorem prefix_aligned : forall start L evs, start + 2 < U64 -> log_ok start L = true ->
  Forall (aligned_event L) evs ->
  let s := run start evs in
  exists n, s_applied s = firstn n L /\
    a_max (r_ap (s_rep s)) <= gs start (firstn n L) /\
    forall e, In e (skipn n L) -> a_max (r_ap (s_rep s)) < w_seq e.
Proof.
  intros start L evs Hst HL Hev s.
  destruct (RInv_run start L evs _ Hst HL (RInv_init start L Hst HL) Hev) as (B & EL & HI & Hc).
  fold (run start evs) in EL, HI, Hc. fold s in EL, HI, Hc.
  exists (length (s_applied s)).
  assert (E1 : firstn (length (s_applied s)) L = s_applied s).
  { rewrite EL. rewrite firstn_app, firstn_all, PeanoNat.Nat.sub_diag. cbn [firstn]. apply app_nil_r. }
  assert (E2 : skipn (length (s_applied s)) L = B).
  { rewrite EL. apply skipn_app_exact. reflexivity. }
  rewrite E1, E2. split; [reflexivity|]. split; [apply (inv_hi _ _ _ HI)|exact Hc].
Qed.

(* the cursor along such a schedule never decreases *)
Theorem cursor_monotone_aligned : forall start L evs, start + 2 < U64 -> log_ok start L = true ->
  Forall (aligned_event L) evs ->
  forall pre ev post, evs = pre ++ ev :: post ->
    a_max (r_ap (s_rep (run start pre))) <= a_max (r_ap (s_rep (run start (pre ++ [ev])))).
Proof.
  intros start L evs Hst HL Hev pre ev post ->.
  apply Forall_app in Hev. destruct Hev as [Hpre Hrest].
  inversion Hrest as [|? ? Hev _]; subst.
  pose proof (RInv_run start L pre _ Hst HL (RInv_init start L Hst HL) Hpre) as HR.
  unfold run. rewrite fold_left_app. cbn [fold_left].
  apply (RInv_step start L _ ev Hst HL HR Hev).
Qed.

(* ================================================================================ *)
(* 8. corollaries: nothing skipped, nothing duplicated; progress; the wire           *)
(* ================================================================================ *)

Lemma nth_error_firstn_some : forall (T : Type) n (l : list T) k e,
  nth_error (firstn n l) k = Some e -> nth_error l k = Some e.
Proof.
  induction n as [|n IH]; intros l k e H.
  - destruct k; discriminate.
  - destruct l as [|x l]; [destruct k; discriminate|].
    destruct k as [|k]; [exact H|]. cbn [firstn nth_error] in *. apply IH. exact H.
Qed.

(* the k-th entry handed to the replica's engine is the k-th entry of the primary's log *)
Theorem no_skip_no_dup_aligned : forall start L evs, start + 2 < U64 -> log_ok start L = true ->
  Forall (aligned_event L) evs ->
  forall k e, nth_error (s_applied (run start evs)) k = Some e -> nth_error L k = Some e.
Proof.
  intros start L evs Hst HL Hev k e H.
  destruct (prefix_aligned start L evs Hst HL Hev) as (n & E & _).
  rewrite E in H. apply (nth_error_firstn_some _ n). exact H.
Qed.

(* a delivery that starts exactly where the applied entries end, passes the hole check and
   meets no failing apply is applied completely *)
Theorem progress : forall start L a A d0 D0 Q,
  start + 2 < U64 -> log_ok start L = true -> L = A ++ (d0 :: D0) ++ Q -> Inv start a A ->
  w_seq d0 <= a_exp a ->
  (w_seq d0 <> gs start A \/ hd_error (a_gapp a) <> Some (serialize d0)) ->
  let d := apply_entries a (tp (d0 :: D0)) None in
  d_applied d = d0 :: D0 /\ d_res d = ROk /\ a_max (d_state d) = gs start (A ++ d0 :: D0) /\
  Inv start (d_state d) (A ++ d0 :: D0).
Proof.
  intros start L a A d0 D0 Q Hst HL EL HI Hexp Hdiff d. subst d.
  rewrite (deliver_cont_shape start L a A d0 D0 Q None Hst HL EL HI Hexp Hdiff).
  rewrite EL in HL.
  destruct (tail_spec start a A (d0 :: D0) Q None (lastseq (w_seq d0) D0) Hst HL HI)
    as (k & E1 & E2 & E3 & E4 & E5).
  - intros _. apply lastseq_gs.
  - intros C. discriminate.
  - destruct E5 as [(R1 & R2 & R3)|(_ & C & _)]; [|discriminate].
    rewrite R2, firstn_all in E1, E2. split; [exact E1|]. split; [exact R1|]. split; [|exact E2].
    rewrite R3. rewrite (lastseq_gs start A d0 D0).
    pose proof (inv_hi _ _ _ HI). pose proof (gs_mono start A (d0 :: D0) Q HL). lia.
Qed.

Section WireProof.
  Variable compress : N -> bytes -> bytes.
  Variable decompress : N -> bytes -> option bytes.
  Variable codec : N.
  (* the external codecs are lossless and do not compress a non-empty payload to nothing *)
  Hypothesis roundtrip : forall p, p <> [] ->
    compress codec p <> [] /\ decompress codec (compress codec p) = Some p.

  Definition wire (es : list pentry) : list pentry :=
    map (fun e => mkP (p_seq e) (compress codec (p_payload e))) es.

  Theorem unwire_wire : forall es, (forall e, In e es -> p_payload e <> []) ->
    unwire decompress true codec (wire es) = Some es.
  Proof.
    unfold unwire. induction es as [|e es IH]; intros H; [reflexivity|].
    cbn [wire map unwire_entries p_payload p_seq]. fold (wire es).
    destruct (roundtrip (p_payload e) (H e (or_introl eq_refl))) as [R1 R2].
    destruct (compress codec (p_payload e)) as [|b bs] eqn:Ec; [contradiction|].
    rewrite R2. rewrite IH by (intros x Hx; apply H; right; exact Hx).
    destruct e; reflexivity.
  Qed.

  Lemma serialize_nonempty : forall e, serialize e <> [].
  Proof. intros e. unfold serialize. discriminate. Qed.

  (* compressed or not, the replica sees the entries the primary serialised *)
  Corollary unwire_log : forall D, unwire decompress true codec (wire (tp D)) = Some (tp D).
  Proof.
    intros D. apply unwire_wire. intros e He. unfold tp in He. apply in_map_iff in He.
    destruct He as (x & <- & _). apply serialize_nonempty.
  Qed.
End WireProof.

(* ================================================================================ *)
(* 9. where the statement does not hold: witnesses                                   *)
(* ================================================================================ *)

Lemma not_prefix_by_position : forall (A L : list wentry) k x y,
  nth_error A k = Some x -> nth_error L k = Some y -> x <> y -> forall n, A <> firstn n L.
Proof.
  intros A L k x y HA HL Hne n E. rewrite E in HA.
  apply nth_error_firstn_some in HA. rewrite HA in HL. inversion HL. contradiction.
Qed.

Definition bk (c : N) : bytes := [c].
Definition mkput (s : N) (k v : N) : wentry := mkW OpPut s (bk k) (bk v).

(* (b) a delivery that ends inside a transaction is acknowledged with the transaction's
   number; the sender then continues with the next number and the rest of the transaction is
   never applied *)
Definition Lcut : list wentry := [mkput 1 97 1; mkput 1 98 2; mkput 2 99 3].
Definition cut_sched : list event := [EDeliver (seg Lcut 0 1) None; EDeliver (seg Lcut 2 3) None].

Theorem cut_refuted :
  log_ok 0 Lcut = true /\
  s_applied (run 0 cut_sched) = [mkput 1 97 1; mkput 2 99 3] /\
  (forall n, s_applied (run 0 cut_sched) <> firstn n Lcut) /\
  (* already after the first delivery the cursor claims number 1, of which (b,2) is missing *)
  a_max (r_ap (s_rep (run 0 [EDeliver (seg Lcut 0 1) None]))) = 1 /\
  nth_error Lcut 1 = Some (mkput 1 98 2).
Proof.
  split; [vm_compute; reflexivity|]. split; [vm_compute; reflexivity|].
  split.
  - apply (not_prefix_by_position _ Lcut 1 (mkput 2 99 3) (mkput 1 98 2)); try (vm_compute; reflexivity).
    discriminate.
  - split; vm_compute; reflexivity.
Qed.

(* the same, produced by the primary's own fetch policy as it was before /repo f62340e:
   getWALEntriesFromSequence returned the first 100 entries, the replica acknowledged the last
   number, the next fetch started behind it. Kept as a regression note: the witness log below is
   the corpus case poll-limit-regression, which the repaired fetch now delivers completely
   (fetch_repaired_sat). *)
Fixpoint singles (n : nat) (s : N) : list wentry :=
  match n with O => [] | S n' => mkput s 107 (s mod 256) :: singles n' (s + 1) end.
Definition Lpoll : list wentry := singles 99 1 ++ [mkput 100 116 1; mkput 100 117 2; mkput 101 122 9].

Module BeforeFixes.
  Definition poll_flat (L : list wentry) (from : N) : list pentry :=
    map to_proto (firstn PollLimit (filter (fun e => from <=? w_seq e) L)).
  Definition poll_sched : list event :=
    [EDeliver (poll_flat Lpoll 1) None; EDeliver (poll_flat Lpoll 101) None].

  Theorem poll_limit_refuted :
    log_ok 0 Lpoll = true /\
    a_max (r_ap (s_rep (run 0 [EDeliver (poll_flat Lpoll 1) None]))) = 100 /\
    nth_error (s_applied (run 0 poll_sched)) 100 = Some (mkput 101 122 9) /\
    nth_error Lpoll 100 = Some (mkput 100 117 2) /\
    forall n, s_applied (run 0 poll_sched) <> firstn n Lpoll.
  Proof.
    split; [vm_compute; reflexivity|]. split; [vm_compute; reflexivity|].
    split; [vm_compute; reflexivity|]. split; [vm_compute; reflexivity|].
    apply (not_prefix_by_position _ Lpoll 100 (mkput 101 122 9) (mkput 100 117 2)); try (vm_compute; reflexivity).
    discriminate.
  Qed.
End BeforeFixes.

(* (c) one batch that writes A, B, A, delivered one entry per response: the third entry looks
   like a repetition of the first and is skipped for good *)
Definition Laba : list wentry := [mkput 1 65 1; mkput 1 66 2; mkput 1 65 1; mkput 2 67 3].
Definition aba_sched : list event :=
  [EDeliver (seg Laba 0 1) None; EDeliver (seg Laba 1 2) None; EDeliver (seg Laba 2 3) None;
   EDeliver (seg Laba 3 4) None].

Theorem equal_payload_refuted :
  log_ok 0 Laba = true /\
  s_applied (run 0 aba_sched) = [mkput 1 65 1; mkput 1 66 2; mkput 2 67 3] /\
  forall n, s_applied (run 0 aba_sched) <> firstn n Laba.
Proof.
  split; [vm_compute; reflexivity|]. split; [vm_compute; reflexivity|].
  apply (not_prefix_by_position _ Laba 2 (mkput 2 67 3) (mkput 1 65 1)); try (vm_compute; reflexivity).
  discriminate.
Qed.

(* a delivery that starts inside a transaction which is applied already is applied again,
   behind later entries: the replica's data is no state the primary ever had *)
Definition Lmid : list wentry := [mkput 1 107 1; mkput 1 109 1; mkput 1 109 2; mkput 1 107 2].
Definition mid_sched : list event := [EDeliver (seg Lmid 0 4) None; EDeliver (seg Lmid 1 2) None].

Theorem enters_group_refuted :
  log_ok 0 Lmid = true /\
  s_applied (run 0 mid_sched) = Lmid ++ [mkput 1 109 1] /\
  forall n, view (s_applied (run 0 mid_sched)) <> view (firstn n Lmid).
Proof.
  split; [vm_compute; reflexivity|]. split; [vm_compute; reflexivity|].
  intros n. do 5 (destruct n as [|n]; [vm_compute; discriminate|]). vm_compute. discriminate.
Qed.

(* (d) a restart: the new Replica starts from sequence 0, asks for the log from 1 and applies
   it again on top of the data it has; the reported sequence goes back *)
Definition Lrst : list wentry := [mkput 1 107 1; mkput 2 107 2].
Definition rst_sched : list event :=
  [EDeliver (seg Lrst 0 2) None; ERestart; EDeliver (seg Lrst 0 1) None].

Theorem restart_refuted :
  log_ok 0 Lrst = true /\
  s_applied (run 0 rst_sched) = [mkput 1 107 1; mkput 2 107 2; mkput 1 107 1] /\
  cursors (mkS (new_replica 0) []) rst_sched = [2; 0; 1] /\
  (* the data is back at the state before the second write, which had been applied *)
  view (s_applied (run 0 rst_sched)) = view (firstn 1 Lrst) /\
  view (s_applied (run 0 [EDeliver (seg Lrst 0 2) None])) = view Lrst /\ view Lrst <> view (firstn 1 Lrst) /\
  stream_start (s_rep (run 0 [EDeliver (seg Lrst 0 2) None; ERestart])) = 1.
Proof.
  split; [vm_compute; reflexivity|]. split; [vm_compute; reflexivity|].
  split; [vm_compute; reflexivity|]. split; [vm_compute; reflexivity|].
  split; [vm_compute; reflexivity|]. split; [vm_compute; discriminate|vm_compute; reflexivity].
Qed.

(* a merge entry (reachable through ApplyBatch of the embedded API) used to be a put on the
   replica and nothing on the primary; since the EngineApplier ignores it like the primary does,
   both sides compute the same data from the same entries *)
Module BeforeMergeFix.
  Definition view_apply_old (m : list (bytes * bytes)) (e : wentry) : list (bytes * bytes) :=
    if w_op e =? OpDel then view_del (w_key e) m else view_set (w_key e) (w_val e) m.
  Definition view_old (es : list wentry) := fold_left view_apply_old es [].
  Theorem merge_refuted :
    let L := [mkW OpMerge 1 (bk 107) (bk 1)] in
    log_ok 0 L = true /\ view_old L = [(bk 107, bk 1)] /\ primary_view L = [].
  Proof. split; [vm_compute; reflexivity|]. split; vm_compute; reflexivity. Qed.
End BeforeMergeFix.

Theorem merge_consistent : forall es, view es = primary_view es.
Proof. reflexivity. Qed.

Example merge_consistent_sat : view [mkW OpMerge 1 (bk 107) (bk 1); mkput 2 98 2] = [(bk 98, bk 2)].
Proof. vm_compute. reflexivity. Qed.

(* ---- the hypotheses of the positive theorems are satisfiable ---- *)
Definition Lok : list wentry :=
  [mkput 1 97 1; mkput 2 98 2; mkput 2 99 3; mkW OpDel 2 (bk 97) []; mkput 3 97 4; mkput 4 100 5; mkput 4 100 5].
Definition ok_sched : list event :=
  [EDeliver (seg Lok 0 1) None;              (* first entry *)
   EDeliver (seg Lok 4 5) None;              (* from the future: gap *)
   EDeliver (seg Lok 1 5) (Some 2%nat);      (* transaction 2 fails at its third entry *)
   EReset;
   EDeliver (seg Lok 0 4) None;              (* overlapping redelivery finishes it *)
   EDeliver (seg Lok 1 4) None;              (* duplicate *)
   EDeliver (seg Lok 4 7) None;              (* the rest; the last batch writes one key twice *)
   EDeliver (seg Lok 0 7) None].

(* an executable test for "position i is a boundary" *)
Fixpoint cutb (prev : option N) (L : list wentry) (i : nat) : bool :=
  match i, L with
  | O, [] => true
  | O, y :: _ => match prev with None => true | Some s => negb (s =? w_seq y) end
  | S i', x :: L' => cutb (Some (w_seq x)) L' i'
  | S _, [] => true
  end.

Definition lastopt (M : list wentry) : option N :=
  match rev M with [] => None | x :: _ => Some (w_seq x) end.

Lemma lastopt_snoc : forall M x, lastopt (M ++ [x]) = Some (w_seq x).
Proof. intros. unfold lastopt. rewrite rev_app_distr. reflexivity. Qed.

Lemma cutb_bnd : forall i L M, cutb (lastopt M) L i = true -> bnd (M ++ firstn i L) (skipn i L).
Proof.
  induction i as [|i IH]; intros L M H.
  - cbn [firstn skipn]. rewrite app_nil_r. intros M' x y R' E1 E2. subst L M.
    cbn [cutb] in H. rewrite lastopt_snoc in H.
    intros C. rewrite C, N.eqb_refl in H. discriminate.
  - destruct L as [|x L].
    + cbn [firstn skipn]. intros M' a y R' _ E2. discriminate.
    + cbn [firstn skipn cutb] in *.
      replace (M ++ x :: firstn i L) with ((M ++ [x]) ++ firstn i L) by (rewrite <- app_assoc; reflexivity).
      apply IH. rewrite lastopt_snoc. exact H.
Qed.

Lemma cutb_ok : forall L i, cutb None L i = true -> cut_ok L i.
Proof. intros L i H. apply (cutb_bnd i L []). exact H. Qed.

Lemma aligned_deliver_intro : forall L (i j : nat) f, Nat.leb i j = true ->
  cutb None L i = true -> cutb None L j = true -> aligned_event L (EDeliver (seg L i j) f).
Proof.
  intros L i j f H1 H2 H3. exists i, j. split; [apply PeanoNat.Nat.leb_le; exact H1|].
  split; [apply cutb_ok; exact H2|]. split; [apply cutb_ok; exact H3|reflexivity].
Qed.

Example prefix_aligned_sat :
  log_ok 0 Lok = true /\ Forall (aligned_event Lok) ok_sched /\
  s_applied (run 0 ok_sched) = Lok /\
  cursors (mkS (new_replica 0) []) ok_sched = [1; 1; 1; 1; 2; 2; 4; 4].
Proof.
  split; [vm_compute; reflexivity|]. split; [|split; vm_compute; reflexivity].
  unfold ok_sched.
  repeat (constructor; [first [exact I | apply aligned_deliver_intro; vm_compute; reflexivity]|]).
  constructor.
Qed.

(* deliver_safe / progress also cover deliveries cut inside a transaction, as long as the next
   one starts at the transaction's first entry or exactly where the previous one ended *)
Definition Lsplit : list wentry := [mkput 1 97 1; mkput 2 98 2; mkput 2 99 3; mkput 2 100 4; mkput 3 97 5].
Definition st_split : applier := r_ap (s_rep (run 0 [EDeliver (seg Lsplit 0 3) None])).

Example deliver_safe_sat :
  log_ok 0 Lsplit = true /\ Inv 0 st_split (firstn 3 Lsplit) /\
  older 0 (firstn 3 Lsplit) = firstn 1 Lsplit ++ [] /\
  (* the poll from the transaction's number: entries 1..4, of which 1..2 are skipped *)
  d_applied (apply_entries st_split (tp (firstn 4 (skipn 1 Lsplit))) None) = skipn 3 Lsplit /\
  (* the exact continuation *)
  d_applied (apply_entries st_split (tp (skipn 3 Lsplit)) None) = skipn 3 Lsplit /\
  hd_error (a_gapp st_split) <> Some (serialize (mkput 2 100 4)).
Proof.
  split; [vm_compute; reflexivity|]. split.
  - constructor; vm_compute; try reflexivity; discriminate.
  - split; [vm_compute; reflexivity|]. split; [vm_compute; reflexivity|].
    split; [vm_compute; reflexivity|]. vm_compute. discriminate.
Qed.

Example deliver_rejected_sat :
  apply_entries (new_applier 0) (tp (skipn 1 Lsplit)) None = mkD (new_applier 0) [] 0 RGap /\
  apply_entries st_split [to_proto (mkput 2 100 4); to_proto (mkput 4 100 4)] None = mkD st_split [] 2 RGap.
Proof. split; vm_compute; reflexivity. Qed.

(* ================================================================================ *)
(* 10. the reported cursor, for EVERY delivery (honest, cut, repeated, malformed)    *)
(* ================================================================================ *)

(* what the cursor must stay below: the newest number of which an entry was applied; with
   nothing applied yet, the number the applier was started with *)
Definition beta (a : applier) : N := match a_gapp a with [] => a_max a | _ => a_gseq a end.

Record LI (a : applier) : Prop := mkLI {
  li_exp : a_exp a = a_max a + 1;
  li_bound : a_max a + 1 < U64;
  li_gpos : 1 <= a_gseq a;
  li_fresh : a_gapp a = [] -> a_gseq a = a_max a + 1;
  li_hi : a_gapp a <> [] -> a_max a <= a_gseq a
}.

Lemma LI_beta : forall a, LI a -> a_max a <= beta a.
Proof.
  intros a H. unfold beta. destruct (a_gapp a) eqn:E; [lia|].
  apply (li_hi a H). rewrite E. discriminate.
Qed.

Lemma LI_init : forall start, start + 2 < U64 -> LI (new_applier start).
Proof.
  intros start H. unfold new_applier.
  assert (E : (if 0 <? start then succ64 start else 1) = start + 1).
  { destruct (0 <? start) eqn:Z; [apply succ64_small; lia|apply N.ltb_ge in Z; lia]. }
  rewrite E. constructor; cbn [a_exp a_max a_gseq a_gapp]; try lia; try reflexivity.
  all: try (intros C; contradiction).
Qed.

Lemma steps_ok_mono : forall l p, steps_ok p l = true -> p + 1 < U64 ->
  (forall e, In e l -> p_seq e + 1 < U64) -> forall e, In e l -> p <= p_seq e.
Proof.
  induction l as [|x l IH]; intros p H Hp Hb e He; [destruct He|].
  cbn [steps_ok] in H. apply andb_prop in H. destruct H as [H1 H2].
  rewrite succ64_small in H1 by exact Hp.
  assert (p <= p_seq x) by (apply orb_prop in H1; destruct H1 as [E|E]; apply N.eqb_eq in E; lia).
  destruct He as [<-|He]; [assumption|].
  assert (p_seq x <= p_seq e); [|lia].
  apply (IH (p_seq x)); try assumption.
  - apply Hb. left. reflexivity.
  - intros y Hy. apply Hb. right. exact Hy.
Qed.

Lemma advance_LI : forall a s, LI a -> s + 1 < U64 -> s <= beta a -> LI (advance_to a s) /\
  a_max a <= a_max (advance_to a s) /\ a_gapp (advance_to a s) = a_gapp a /\
  a_gseq (advance_to a s) = a_gseq a.
Proof.
  intros a s H Hs Hb.
  destruct (advance_to_spec a s (li_exp a H) Hs) as (S1 & S2 & S3 & S4 & _).
  split; [|split; [rewrite S1; lia|split; assumption]].
  unfold beta in Hb.
  constructor.
  - exact S2.
  - rewrite S1. pose proof (li_bound a H). lia.
  - rewrite S3. apply (li_gpos a H).
  - rewrite S3, S4, S1. intros E. rewrite E in Hb. rewrite (li_fresh a H E). lia.
  - rewrite S3, S4, S1. intros E. pose proof (li_hi a H E). destruct (a_gapp a); [contradiction|]. lia.
Qed.

Lemma note_LI : forall a e, LI a -> a_gseq a <= p_seq e -> p_seq e + 1 < U64 ->
  LI (note_applied a e) /\ a_max (note_applied a e) = a_max a /\
  a_gapp (note_applied a e) <> [] /\ a_gseq (note_applied a e) = p_seq e.
Proof.
  intros a e H Hg Hb. unfold note_applied.
  destruct (p_seq e =? a_gseq a) eqn:E.
  - apply N.eqb_eq in E. cbn [a_max a_gapp a_gseq].
    split; [|split; [reflexivity|split; [intros C; apply app_eq_nil in C; destruct C; discriminate|symmetry; exact E]]].
    constructor; cbn [a_exp a_max a_gseq a_gapp].
    + apply (li_exp a H). + apply (li_bound a H). + apply (li_gpos a H).
    + intros C. apply app_eq_nil in C. destruct C; discriminate.
    + intros _. destruct (a_gapp a) eqn:G.
      * rewrite (li_fresh a H G). lia.
      * apply (li_hi a H). rewrite G. discriminate.
  - apply N.eqb_neq in E. cbn [a_max a_gapp a_gseq].
    split; [|split; [reflexivity|split; [discriminate|reflexivity]]].
    constructor; cbn [a_exp a_max a_gseq a_gapp].
    + apply (li_exp a H). + apply (li_bound a H). + pose proof (li_gpos a H). lia.
    + discriminate.
    + intros _. destruct (a_gapp a) eqn:G.
      * rewrite (li_fresh a H G) in Hg. lia.
      * assert (a_max a <= a_gseq a) by (apply (li_hi a H); rewrite G; discriminate). lia.
Qed.

(* the apply loop, for arbitrary wire entries *)
Lemma loop_gen : forall l a f acc,
  LI a ->
  match l with [] => True | e :: r => p_seq e <= beta a + 1 /\ steps_ok (p_seq e) r = true end ->
  (forall e, In e l -> a_gseq a <= p_seq e /\ p_seq e + 1 < U64) ->
  let r := apply_loop a l f acc in
  LI (fst (fst r)) /\ a_max a <= a_max (fst (fst r)) /\
  (snd r = ROk ->
     a_max (fst (fst r)) = a_max a /\
     match l with
     | [] => fst (fst r) = a
     | e :: rest => a_gapp (fst (fst r)) <> [] /\ a_gseq (fst (fst r)) = p_seq (last rest e)
     end).
Proof.
  induction l as [|e l IH]; intros a f acc HLI Hhead Hall.
  - cbn [apply_loop fst snd]. split; [exact HLI|]. split; [lia|]. intros _. split; reflexivity.
  - destruct Hhead as [Hh Hst].
    destruct (Hall e (or_introl eq_refl)) as [Hge Hbe].
    assert (Hfail : LI (advance_to a (pred64 (p_seq e))) /\ a_max a <= a_max (advance_to a (pred64 (p_seq e)))).
    { pose proof (li_gpos a HLI).
      rewrite pred64_pos by lia.
      destruct (advance_LI a (p_seq e - 1) HLI) as (A1 & A2 & _); [lia|lia|]. split; assumption. }
    cbn [apply_loop].
    destruct (deserialize (p_payload e)) as [w|c].
    2:{ cbn [fst snd]. destruct Hfail. split; [assumption|]. split; [assumption|]. intros C. discriminate. }
    assert (Hrec : forall f',
      let r := apply_loop (note_applied a e) l f' (acc ++ [w]) in
      LI (fst (fst r)) /\ a_max a <= a_max (fst (fst r)) /\
      (snd r = ROk -> a_max (fst (fst r)) = a_max a /\
         a_gapp (fst (fst r)) <> [] /\ a_gseq (fst (fst r)) = p_seq (last l e))).
    { intros f'.
      destruct (note_LI a e HLI Hge Hbe) as (N1 & N2 & N3 & N4).
      assert (Hb1 : beta (note_applied a e) = p_seq e).
      { unfold beta. destruct (a_gapp (note_applied a e)); [contradiction|exact N4]. }
      specialize (IH (note_applied a e) f' (acc ++ [w]) N1).
      assert (Hmono : forall x, In x l -> p_seq e <= p_seq x).
      { apply steps_ok_mono; [exact Hst|exact Hbe|]. intros y Hy. apply Hall. right. exact Hy. }
      destruct IH as (I1 & I2 & I3).
      - destruct l as [|x l']; [exact I|].
        cbn [steps_ok] in Hst. apply andb_prop in Hst. destruct Hst as [S1 S2].
        rewrite succ64_small in S1 by exact Hbe.
        split; [|exact S2]. rewrite Hb1.
        apply orb_prop in S1. destruct S1 as [E|E]; apply N.eqb_eq in E; lia.
      - intros x Hx. rewrite N4. split; [apply Hmono; exact Hx|apply Hall; right; exact Hx].
      - cbv zeta. split; [exact I1|]. split; [rewrite <- N2; exact I2|].
        intros Hok. destruct (I3 Hok) as [J1 J2]. split; [rewrite J1; exact N2|].
        destruct l as [|x l'].
        + rewrite J2. split; [exact N3|exact N4].
        + destruct J2 as [J2 J3]. split; [exact J2|].
          rewrite J3, last_cons_default. reflexivity. }
    destruct f as [[|k]|].
    + cbn [fst snd]. destruct Hfail. split; [assumption|]. split; [assumption|]. intros C. discriminate.
    + apply Hrec.
    + apply Hrec.
Qed.

Lemma skip_old_split : forall g l, exists pre,
  l = pre ++ skip_old g l /\ (forall x, In x pre -> p_seq x < g) /\
  match skip_old g l with [] => True | e :: _ => g <= p_seq e end.
Proof.
  induction l as [|x l IH].
  - exists []. cbn [app skip_old]. split; [reflexivity|]. split; [intros y []|exact I].
  - cbn [skip_old]. destruct (p_seq x <? g) eqn:E.
    + destruct IH as (pre & E1 & E2 & E3). exists (x :: pre). cbn [app]. split; [f_equal; exact E1|].
      split; [|exact E3]. intros y [<-|Hy]; [apply N.ltb_lt; exact E|apply E2; exact Hy].
    + exists []. cbn [app]. split; [reflexivity|]. split; [intros y []|apply N.ltb_ge; exact E].
Qed.

Lemma firstn_run : forall g l n, (n <= run_len g l)%nat ->
  forall x, In x (firstn n l) -> p_seq x = g.
Proof.
  induction l as [|y l IH]; intros n Hn x Hx.
  - destruct n; destruct Hx.
  - destruct n as [|n]; [destruct Hx|]. cbn [run_len] in Hn.
    destruct (p_seq y =? g) eqn:E; [|lia].
    cbn [firstn] in Hx. destruct Hx as [<-|Hx]; [apply N.eqb_eq; exact E|].
    apply (IH n); [lia|exact Hx].
Qed.

Definition lastp (p : N) (pre : list pentry) : N := p_seq (last pre (mkP p [])).

Lemma steps_ok_suffix : forall pre p l, steps_ok p (pre ++ l) = true -> steps_ok (lastp p pre) l = true.
Proof.
  induction pre as [|x pre IH]; intros p l H; [exact H|].
  cbn [app steps_ok] in H. apply andb_prop in H. destruct H as [_ H].
  unfold lastp. rewrite last_cons_default.
  specialize (IH (p_seq x) l H). unfold lastp in IH.
  destruct pre as [|y pre]; [exact IH|].
  rewrite last_cons_default in IH. rewrite last_cons_default. exact IH.
Qed.

Lemma last_app_nonempty : forall (T : Type) (pre l : list T) d, l <> [] -> last (pre ++ l) d = last l d.
Proof.
  intros T pre l d H. destruct (exists_last H) as (l' & x & ->).
  rewrite app_assoc, !last_last. reflexivity.
Qed.

(* C13, the cursor: for every delivery whatsoever - any wire entries, any payloads, any apply
   failure - the applier's bookkeeping stays consistent, the reported sequence number does not
   decrease and does not exceed the newest number of which an entry was applied. *)
Theorem cursor_step : forall a es f, LI a -> (forall e, In e es -> p_seq e + 1 < U64) ->
  let d := apply_entries a es f in
  LI (d_state d) /\ a_max a <= a_max (d_state d) /\ d_ret d = a_max (d_state d).
Proof.
  intros a es f HLI Hb d. subst d.
  destruct es as [|e0 rest].
  { cbn [apply_entries d_state d_ret]. split; [exact HLI|]. split; [lia|reflexivity]. }
  destruct (a_exp a <? p_seq e0) eqn:Egap.
  { apply N.ltb_lt in Egap. rewrite gap_shape by exact Egap. cbn [d_state d_ret].
    split; [exact HLI|]. split; [lia|reflexivity]. }
  destruct (steps_ok (p_seq e0) rest) eqn:Est.
  2:{ rewrite hole_shape by exact Est. cbn [d_state d_ret]. split; [exact HLI|]. split; [lia|reflexivity]. }
  rewrite (apply_entries_go a e0 rest f Egap Est). cbv zeta.
  apply N.ltb_ge in Egap.
  set (g := a_gseq a). set (es := e0 :: rest) in *.
  assert (Hfull : steps_ok (p_seq e0) es = true).
  { unfold es. cbn [steps_ok]. rewrite N.eqb_refl. cbn [orb andb]. exact Est. }
  assert (Hb0 : p_seq e0 + 1 < U64) by (apply Hb; left; reflexivity).
  destruct (skip_old_split g es) as (pre1 & P1 & P2 & P3).
  set (l1 := skip_old g es) in *.
  set (n := Nat.min (run_len g l1) (length (a_gapp a))).
  (* the entries of l1 are at least g *)
  assert (Hl1 : forall x, In x l1 -> g <= p_seq x).
  { destruct l1 as [|h t] eqn:El1; [intros x []|].
    rewrite P1 in Hfull. apply steps_ok_suffix in Hfull.
    cbn [steps_ok] in Hfull. apply andb_prop in Hfull. destruct Hfull as [_ Hfull].
    intros x [<-|Hx]; [exact P3|].
    assert (p_seq h <= p_seq x); [|lia].
    apply (steps_ok_mono t (p_seq h) Hfull).
    - apply Hb. rewrite P1. apply in_or_app. right. left. reflexivity.
    - intros y Hy. apply Hb. rewrite P1. apply in_or_app. right. right. exact Hy.
    - exact Hx. }
  pose proof (LI_beta a HLI) as Hmb.
  assert (Hpre1 : forall x, In x pre1 -> p_seq x <= beta a).
  { intros x Hx. specialize (P2 x Hx). unfold beta. destruct (a_gapp a) eqn:G.
    - pose proof (li_fresh a HLI G). fold g in H. lia.
    - fold g. lia. }
  assert (Hn0 : a_gapp a = [] -> n = 0%nat).
  { intros G0. unfold n. rewrite G0. cbn [length]. apply PeanoNat.Nat.min_0_r. }
  (* what goes to the apply loop: a suffix l2 of the delivery, everything before it is old *)
  set (l2 := if negb (Nat.eqb n 0) && repeats n l1 (a_gapp a) then skipn n l1 else l1).
  assert (Hl2 : exists pre, es = pre ++ l2 /\ (forall x, In x pre -> p_seq x <= beta a) /\
                            (forall x, In x l2 -> g <= p_seq x)).
  { subst l2. destruct (negb (Nat.eqb n 0) && repeats n l1 (a_gapp a)) eqn:Esk.
    - exists (pre1 ++ firstn n l1). split; [|split].
      + rewrite <- app_assoc, firstn_skipn. exact P1.
      + intros x Hx. apply in_app_or in Hx. destruct Hx as [Hx|Hx]; [apply Hpre1; exact Hx|].
        assert (p_seq x = g).
        { apply (firstn_run g l1 n); [|exact Hx]. unfold n. apply PeanoNat.Nat.le_min_l. }
        apply andb_prop in Esk. destruct Esk as [Esk _].
        unfold beta. destruct (a_gapp a) eqn:G.
        * exfalso. rewrite (Hn0 eq_refl) in Esk. discriminate.
        * fold g. lia.
      + intros x Hx. apply Hl1. rewrite <- (firstn_skipn n l1). apply in_or_app. right. exact Hx.
    - exists pre1. split; [exact P1|]. split; [exact Hpre1|exact Hl1]. }
  destruct Hl2 as (pre & Q1 & Q2 & Q3).
  assert (Hhead : match l2 with [] => True | e :: r => p_seq e <= beta a + 1 /\ steps_ok (p_seq e) r = true end).
  { destruct l2 as [|h t] eqn:El2; [exact I|].
    rewrite Q1 in Hfull. apply steps_ok_suffix in Hfull.
    cbn [steps_ok] in Hfull. apply andb_prop in Hfull. destruct Hfull as [Hh Ht]. split; [|exact Ht].
    assert (Hlp : lastp (p_seq e0) pre <= beta a /\ lastp (p_seq e0) pre + 1 < U64 \/
                  (pre = [] /\ lastp (p_seq e0) pre = p_seq e0)).
    { destruct (exists_last_or_nil _ pre) as [->|(pre' & z & ->)]; [right; split; reflexivity|left].
      unfold lastp. rewrite last_last. split.
      - apply Q2. apply in_or_app. right. left. reflexivity.
      - apply Hb. fold es. rewrite Q1. apply in_or_app. left. apply in_or_app. right. left. reflexivity. }
    destruct Hlp as [[Hl1' Hl2']|[Hp Hl]].
    - rewrite succ64_small in Hh by exact Hl2'.
      apply orb_prop in Hh. destruct Hh as [E|E]; apply N.eqb_eq in E; lia.
    - subst pre. cbn [app] in Q1. rewrite Hl in Hh.
      assert (h = e0) by (unfold es in Q1; inversion Q1; reflexivity). subst h.
      rewrite (li_exp a HLI) in Egap. lia. }
  assert (Hall : forall e, In e l2 -> a_gseq a <= p_seq e /\ p_seq e + 1 < U64).
  { intros e He. split; [apply Q3; exact He|]. apply Hb. fold es. rewrite Q1. apply in_or_app. right. exact He. }
  destruct (loop_gen l2 a f [] HLI Hhead Hall) as (G1 & G2 & G3).
  destruct (apply_loop a l2 f []) as [[a' app] rc] eqn:Eloop. cbn [fst snd] in G1, G2, G3.
  destruct rc; cbn [finish d_state d_ret].
  - (* everything applied (or skipped): the final advance to the last wire number *)
    destruct (G3 eq_refl) as [M1 M2].
    assert (Hls : last_seq e0 rest + 1 < U64 /\ last_seq e0 rest <= beta a').
    { unfold last_seq. split.
      - apply Hb. destruct (exists_last_or_nil _ rest) as [->|(r' & z & ->)]; [left; reflexivity|].
        rewrite last_last. right. apply in_or_app. right. left. reflexivity.
      - destruct l2 as [|h t] eqn:El2.
        + subst a'. rewrite app_nil_r in Q1. apply Q2. rewrite <- Q1. unfold es.
          destruct (exists_last_or_nil _ rest) as [->|(r' & z & ->)]; [left; reflexivity|].
          rewrite last_last. right. apply in_or_app. right. left. reflexivity.
        + destruct M2 as [M2 M3]. unfold beta. destruct (a_gapp a'); [contradiction|].
          rewrite M3.
          assert (EL : last rest e0 = last t h).
          { rewrite <- (last_cons_default _ rest e0 e0). fold es. rewrite Q1.
            rewrite last_app_nonempty by discriminate. apply last_cons_default. }
          rewrite EL. lia. }
    destruct Hls as [Hls1 Hls2].
    destruct (advance_LI a' (last_seq e0 rest) G1 Hls1 Hls2) as (A1 & A2 & _).
    split; [exact A1|]. split; [lia|reflexivity].
  - split; [exact G1|]. split; [exact G2|reflexivity].
  - split; [exact G1|]. split; [exact G2|reflexivity].
  - split; [exact G1|]. split; [exact G2|reflexivity].
Qed.

(* along any schedule of deliveries and connection resets (no restart) the cursor never
   decreases and stays at or below the newest number of which an entry was applied *)
Theorem cursor_run : forall start evs,
  start + 2 < U64 ->
  Forall (fun ev => match ev with
                    | EDeliver es _ => forall e, In e es -> p_seq e + 1 < U64
                    | EReset => True
                    | ERestart => False
                    end) evs ->
  let a := r_ap (s_rep (run start evs)) in
  LI a /\ start <= a_max a /\ a_max a <= beta a /\
  forall pre ev post, evs = pre ++ ev :: post ->
    a_max (r_ap (s_rep (run start pre))) <= a_max (r_ap (s_rep (run start (pre ++ [ev])))).
Proof.
  intros start evs Hst Hev.
  assert (Gen : forall evs s, LI (r_ap (s_rep s)) ->
    Forall (fun ev => match ev with
                    | EDeliver es _ => forall e, In e es -> p_seq e + 1 < U64
                    | EReset => True
                    | ERestart => False
                    end) evs ->
    LI (r_ap (s_rep (fold_left step evs s))) /\
    a_max (r_ap (s_rep s)) <= a_max (r_ap (s_rep (fold_left step evs s)))).
  { clear evs Hev. induction evs as [|ev evs IH]; intros s HL HF; [split; [exact HL|cbn; lia]|].
    inversion HF as [|? ? H1 H2]; subst. cbn [fold_left].
    assert (Hs : LI (r_ap (s_rep (step s ev))) /\ a_max (r_ap (s_rep s)) <= a_max (r_ap (s_rep (step s ev)))).
    { destruct ev as [es f| |]; [|split; [exact HL|cbn [step]; lia]|destruct H1].
      destruct (step_deliver s es f) as [E1 _]. rewrite E1.
      destruct (cursor_step (r_ap (s_rep s)) es f HL H1) as (C1 & C2 & _). split; assumption. }
    destruct Hs as [Hs1 Hs2]. destruct (IH _ Hs1 H2) as [I1 I2]. split; [exact I1|lia]. }
  intros a. subst a.
  assert (H0 : LI (r_ap (s_rep (mkS (new_replica start) [])))) by (apply LI_init; exact Hst).
  destruct (Gen evs _ H0 Hev) as [G1 G2]. fold (run start evs) in G1, G2.
  split; [exact G1|]. split; [exact G2|]. split; [apply LI_beta; exact G1|].
  intros pre ev post ->.
  apply Forall_app in Hev. destruct Hev as [Hpre Hrest].
  inversion Hrest as [|? ? Hev1 _]; subst.
  destruct (Gen pre _ H0 Hpre) as [P1 _]. fold (run start pre) in P1.
  unfold run at 2. rewrite fold_left_app. cbn [fold_left]. fold (run start pre).
  destruct ev as [es f| |]; [|cbn [step]; lia|destruct Hev1].
  destruct (step_deliver (run start pre) es f) as [E1 _]. rewrite E1.
  apply (cursor_step _ es f P1 Hev1).
Qed.

Example cursor_run_sat :
  let evs := [EDeliver (seg Lcut 0 1) None; EDeliver (seg Lcut 2 3) None;
              EDeliver [mkP 3 [9; 9]; mkP 4 []] None; EDeliver (seg Lcut 0 3) (Some 0%nat)] in
  cursors (mkS (new_replica 0) []) evs = [1; 2; 2; 2] /\
  beta (r_ap (s_rep (run 0 evs))) = 2.
Proof. split; vm_compute; reflexivity. Qed.

(* ================================================================================ *)
(* 11. the primary's fetch (getWALEntriesFromSequence since f62340e) respects         *)
(*     transaction boundaries                                                        *)
(* ================================================================================ *)

Lemma split_at_number : forall L p from, chain p L = true ->
  L = filter (fun e => w_seq e <? from) L ++ filter (fun e => from <=? w_seq e) L.
Proof.
  induction L as [|a L IH]; intros p from Hc; [reflexivity|].
  cbn [chain] in Hc. apply andb_prop in Hc. destruct Hc as [_ Hc].
  destruct (N.lt_ge_cases (w_seq a) from) as [Hlt|Hge].
  - cbn [filter].
    rewrite (proj2 (N.ltb_lt _ _) Hlt). rewrite (proj2 (N.leb_gt _ _) Hlt).
    cbn [app]. f_equal. apply (IH (w_seq a)). exact Hc.
  - assert (All : forall x, In x (a :: L) -> from <= w_seq x).
    { intros x [<-|Hx]; [exact Hge|]. pose proof (chain_ge _ _ Hc x Hx). lia. }
    rewrite (filter_none (fun e => w_seq e <? from) (a :: L)).
    + rewrite filter_all; [reflexivity|]. intros x Hx. apply N.leb_le. apply All. exact Hx.
    + intros x Hx. apply N.ltb_ge. apply All. exact Hx.
Qed.

Lemma same_number_split : forall s l, exists rest,
  l = same_number s l ++ rest /\ (forall x, In x (same_number s l) -> w_seq x = s) /\
  match rest with [] => True | y :: _ => w_seq y <> s end.
Proof.
  induction l as [|e l IH].
  - exists []. cbn [same_number app]. split; [reflexivity|]. split; [intros x []|exact I].
  - cbn [same_number]. destruct (w_seq e =? s) eqn:E.
    + destruct IH as (rest & E1 & E2 & E3). exists rest. cbn [app]. split; [f_equal; exact E1|].
      split; [|exact E3]. intros x [<-|Hx]; [apply N.eqb_eq; exact E|apply E2; exact Hx].
    + exists (e :: l). cbn [app]. split; [reflexivity|]. split; [intros x []|apply N.eqb_neq; exact E].
Qed.

(* what the primary fetches for a replica is a piece of the log between two boundaries *)
Theorem fetch_aligned : forall start L from, log_ok start L = true ->
  exists P Q, L = P ++ fetch L from ++ Q /\ bnd P (fetch L from ++ Q) /\ bnd (P ++ fetch L from) Q.
Proof.
  intros start L from HL.
  pose proof HL as HL0. apply log_ok_inv in HL. destruct HL as (_ & Hc & _).
  pose proof (split_at_number L start from Hc) as ES.
  set (P := filter (fun e => w_seq e <? from) L) in *.
  set (all := filter (fun e => from <=? w_seq e) L) in *.
  assert (HP : forall x, In x P -> w_seq x < from).
  { intros x Hx. apply filter_In in Hx. destruct Hx as [_ Hx]. apply N.ltb_lt. exact Hx. }
  assert (Hall : forall x, In x all -> from <= w_seq x).
  { intros x Hx. apply filter_In in Hx. destruct Hx as [_ Hx]. apply N.leb_le. exact Hx. }
  unfold fetch. fold all.
  destruct (Nat.ltb PollLimit (length all)) eqn:Elim.
  - apply PeanoNat.Nat.ltb_lt in Elim.
    set (hd := firstn PollLimit all). set (tl := skipn PollLimit all).
    set (s := w_seq (last hd (mkW 0 0 [] []))).
    destruct (same_number_split s tl) as (rest & T1 & T2 & T3).
    set (sn := same_number s tl) in *.
    assert (Eall : all = hd ++ sn ++ rest).
    { rewrite <- T1. unfold hd, tl. symmetry. apply firstn_skipn. }
    exists P, rest. split; [|split].
    + rewrite ES at 1. rewrite Eall. rewrite <- !app_assoc. reflexivity.
    + intros M' x y R' E1 E2.
      assert (Hx : w_seq x < from) by (apply HP; rewrite E1; apply in_or_app; right; left; reflexivity).
      assert (Hy : from <= w_seq y).
      { apply Hall. rewrite Eall, app_assoc, E2. left. reflexivity. }
      lia.
    + intros M' x y R' E1 E2. rewrite E2 in T3.
      assert (Hhd : length hd = PollLimit) by (unfold hd; rewrite firstn_length; lia).
      assert (Hx : w_seq x = s).
      { destruct (exists_last_or_nil _ sn) as [Esn|(sn' & z & Esn)].
        - rewrite Esn, app_nil_r in E1.
          destruct (exists_last_or_nil _ hd) as [Eh|(hd' & h & Eh)].
          + rewrite Eh in Hhd. discriminate.
          + unfold s. rewrite Eh, last_last. rewrite Eh, app_assoc in E1.
            apply app_inj_tail in E1. destruct E1 as [_ E1]. rewrite <- E1. reflexivity.
        - rewrite Esn, !app_assoc in E1. apply app_inj_tail in E1. destruct E1 as [_ E1].
          rewrite <- E1. apply T2. rewrite Esn. apply in_or_app. right. left. reflexivity. }
      rewrite Hx. intros C. apply T3. symmetry. exact C.
  - exists P, []. rewrite app_nil_r. split; [exact ES|]. split.
    + intros M' x y R' E1 E2.
      assert (Hx : w_seq x < from) by (apply HP; rewrite E1; apply in_or_app; right; left; reflexivity).
      assert (Hy : from <= w_seq y) by (apply Hall; rewrite E2; left; reflexivity).
      lia.
    + intros M' x y R' _ E2. discriminate.
Qed.

(* a piece between two boundaries, as an event of a boundary-respecting schedule *)
Lemma piece_aligned_event : forall L P D Q f, L = P ++ D ++ Q -> bnd P (D ++ Q) -> bnd (P ++ D) Q ->
  aligned_event L (EDeliver (tp D) f).
Proof.
  intros L P D Q f EL Hb1 Hb2. cbn [aligned_event].
  exists (length P), (length P + length D)%nat.
  assert (F1 : firstn (length P) L = P) by (rewrite EL; apply firstn_app_exact; reflexivity).
  assert (S1 : skipn (length P) L = D ++ Q) by (rewrite EL; apply skipn_app_exact; reflexivity).
  assert (F2 : firstn (length P + length D) L = P ++ D).
  { rewrite EL, app_assoc. apply firstn_app_exact. rewrite app_length. reflexivity. }
  assert (S2 : skipn (length P + length D) L = Q).
  { rewrite EL, app_assoc. apply skipn_app_exact. rewrite app_length. reflexivity. }
  split; [lia|]. unfold cut_ok. rewrite F1, S1, F2, S2.
  split; [exact Hb1|]. split; [exact Hb2|].
  unfold seg. rewrite S1.
  replace (length P + length D - length P)%nat with (length D) by lia.
  rewrite firstn_app_exact by reflexivity. reflexivity.
Qed.

Theorem poll_aligned : forall start L from f, log_ok start L = true ->
  aligned_event L (EDeliver (poll L from) f).
Proof.
  intros start L from f HL. destruct (fetch_aligned start L from HL) as (P & Q & E1 & E2 & E3).
  unfold poll. apply (piece_aligned_event L P (fetch L from) Q f); assumption.
Qed.

(* C13 for everything the repaired primary sends by polling: any sequence of fetches from any
   sequence numbers (also stale or repeated ones), any failing applies, any resets *)
Theorem prefix_polls : forall start L evs, start + 2 < U64 -> log_ok start L = true ->
  Forall (fun ev => match ev with
                    | EDeliver es _ => exists from, es = poll L from
                    | EReset => True
                    | ERestart => False
                    end) evs ->
  let s := run start evs in
  exists n, s_applied s = firstn n L /\
    a_max (r_ap (s_rep s)) <= gs start (firstn n L) /\
    forall e, In e (skipn n L) -> a_max (r_ap (s_rep s)) < w_seq e.
Proof.
  intros start L evs Hst HL Hev. apply prefix_aligned; try assumption.
  apply (Forall_impl _ (P := fun ev => match ev with
                    | EDeliver es _ => exists from, es = poll L from
                    | EReset => True
                    | ERestart => False
                    end)); [|exact Hev].
  intros [es f| |] H; [|exact I|exact H].
  destruct H as (from & ->). apply (poll_aligned start). exact HL.
Qed.

(* the witness log of BeforeFixes.poll_limit_refuted under the repaired fetch *)
Example fetch_repaired_sat :
  length (poll Lpoll 1) = 101%nat /\
  s_applied (run 0 [EDeliver (poll Lpoll 1) None; EDeliver (poll Lpoll 101) None]) = Lpoll /\
  cursors (mkS (new_replica 0) []) [EDeliver (poll Lpoll 1) None; EDeliver (poll Lpoll 101) None] = [100; 101].
Proof. split; [vm_compute; reflexivity|]. split; vm_compute; reflexivity. Qed.

(* Why a delivery cut inside a transaction cannot be handled by ANY applier that reports a
   sequence number: the wire entries of "the whole one-entry transaction 1" and of "the first
   half of the two-entry transaction 1" are the same bytes. Whatever a replica computes from
   what it received, it reports the same number in both situations: it cannot both report 1 in
   the first (everything is applied) and less than 1 in the second (number 1 is incomplete). *)
Definition Lone : list wentry := [mkput 1 97 1].
Definition Ltwo : list wentry := [mkput 1 97 1; mkput 1 98 2].

Theorem cut_indistinguishable : forall report : list (list pentry) -> N,
  ~ (report [seg Lone 0 1] = 1 /\ report [seg Ltwo 0 1] < 1).
Proof.
  intros report [H1 H2].
  assert (E : seg Ltwo 0 1 = seg Lone 0 1) by reflexivity.
  rewrite E, H1 in H2. lia.
Qed.
