(* IterProofs.v — proofs about the iterator stack of Iter.v (property C05).
   Part 1: keys, sorted entry lists, from_ge/from_gt, the merged view of a stack of sources.
   Part 2: lawful iterators; the list sources are lawful.
   Part 3: the hierarchical iterator over lawful sources is lawful; its content is the
           merged view (C05_hier_scan, C05_seek, C05_seek_last, C05_next_after_seek).
   Part 4: bounded and filtered iterators over lawful iterators are lawful.
   Part 5: collect / scan of a lawful iterator.
   The engine-level statements are in ScanProofs.v. *)
From Coq Require Import List NArith Bool Lia Sorted Arith PeanoNat.
From KV Require Import Bytes Memtable MemtableProofs Engine Iter.
Import ListNotations.
Open Scope N_scope.

(* ------------------------------------------------------------------------------------ *)
(* Part 1a: the order on keys, in the boolean form the model uses                          *)
(* ------------------------------------------------------------------------------------ *)

Lemma blt_false_cases : forall a b, blt a b = false -> a = b \/ blt b a = true.
Proof.
  intros a b H. apply blt_false_iff in H. destruct H as [->|H]; [left; reflexivity|].
  right. apply blt_true_iff. exact H.
Qed.

Lemma ble_true_iff : forall a b, ble a b = true <-> blt b a = false.
Proof. intros a b. rewrite ble_negb_blt. destruct (blt b a); cbn [negb]; split; congruence. Qed.

Lemma ble_false_iff : forall a b, ble a b = false <-> blt b a = true.
Proof. intros a b. rewrite ble_negb_blt. destruct (blt b a); cbn [negb]; split; congruence. Qed.

Lemma lt_le_trans : forall a b c, blt a b = true -> blt c b = false -> blt a c = true.
Proof.
  intros a b c H1 H2. destruct (blt_false_cases _ _ H2) as [->|H]; [exact H1|].
  eapply blt_trans; eauto.
Qed.

Lemma le_lt_trans : forall a b c, blt b a = false -> blt b c = true -> blt a c = true.
Proof.
  intros a b c H1 H2. destruct (blt_false_cases _ _ H1) as [->|H]; [exact H2|].
  eapply blt_trans; eauto.
Qed.

Lemma le_trans : forall a b c, blt b a = false -> blt c b = false -> blt c a = false.
Proof.
  intros a b c H1 H2. destruct (blt c a) eqn:E; [|reflexivity].
  pose proof (lt_le_trans _ _ _ E H1) as H. rewrite H in H2. discriminate.
Qed.

Lemma le_antisym : forall a b, blt a b = false -> blt b a = false -> a = b.
Proof.
  intros a b H1 H2. destruct (blt_false_cases _ _ H1) as [E|E]; [exact E|]. congruence.
Qed.

Lemma lt_not_eq : forall a b, blt a b = true -> a <> b.
Proof. intros a b H ->. rewrite blt_irrefl in H. discriminate. Qed.

Lemma beq_false_lt : forall a b, blt a b = true -> beq a b = false.
Proof. intros a b H. apply beq_false_iff. apply lt_not_eq. exact H. Qed.

Lemma beq_false_gt : forall a b, blt b a = true -> beq a b = false.
Proof. intros a b H. apply beq_false_iff. intros ->. rewrite blt_irrefl in H. discriminate. Qed.

(* ------------------------------------------------------------------------------------ *)
(* Part 1b: sorted entry lists                                                             *)
(* ------------------------------------------------------------------------------------ *)

Definition kle (x y : kv) : Prop := blt (fst y) (fst x) = false.
Definition klt (x y : kv) : Prop := blt (fst x) (fst y) = true.
(* key ascending, several entries of one key allowed (memtable: newest version first) *)
Definition ksorted (l : list kv) : Prop := StronglySorted kle l.
(* strictly ascending: one entry per key *)
Definition kstrict (l : list kv) : Prop := StronglySorted klt l.

Lemma kstrict_ksorted : forall l, kstrict l -> ksorted l.
Proof.
  induction l as [|x r IH]; intros H; [constructor|].
  inversion H as [|? ? Hs Hf]; subst. constructor; [apply IH; exact Hs|].
  rewrite Forall_forall in *. intros y Hy. specialize (Hf y Hy). unfold klt, kle in *.
  apply blt_asym. exact Hf.
Qed.

Lemma ksorted_tl : forall x l, ksorted (x :: l) -> ksorted l.
Proof. intros x l H. inversion H; assumption. Qed.

Lemma ksorted_hd : forall x l y, ksorted (x :: l) -> In y l -> blt (fst y) (fst x) = false.
Proof.
  intros x l y H Hy. inversion H as [|? ? _ Hf]; subst. rewrite Forall_forall in Hf. exact (Hf y Hy).
Qed.

Lemma ksorted_app : forall a b, ksorted (a ++ b) ->
  ksorted a /\ ksorted b /\ forall x y, In x a -> In y b -> blt (fst y) (fst x) = false.
Proof.
  induction a as [|z a IH]; intros b H; cbn [app] in *.
  - split; [constructor|]. split; [exact H|]. intros x y [].
  - inversion H as [|? ? Hs Hf]; subst. destruct (IH b Hs) as (Ha & Hb & Hab).
    rewrite Forall_forall in Hf. split; [|split].
    + constructor; [exact Ha|]. rewrite Forall_forall. intros y Hy. apply Hf. apply in_or_app. left. exact Hy.
    + exact Hb.
    + intros x y [<-|Hx] Hy; [apply Hf; apply in_or_app; right; exact Hy|apply Hab; assumption].
Qed.

Lemma ksorted_suffix : forall pre l, ksorted (pre ++ l) -> ksorted l.
Proof. intros pre l H. apply ksorted_app in H. tauto. Qed.

(* ------------------------------------------------------------------------------------ *)
(* Part 1c: from_ge, from_gt                                                               *)
(* ------------------------------------------------------------------------------------ *)

Lemma from_ge_split : forall t l, exists pre,
  l = pre ++ from_ge t l /\ Forall (fun x => blt (fst x) t = true) pre.
Proof.
  intros t l. induction l as [|x r IH]; cbn [from_ge].
  - exists []. split; [reflexivity|constructor].
  - destruct (blt (fst x) t) eqn:B.
    + destruct IH as (pre & E & F). exists (x :: pre). split; [cbn [app]; f_equal; exact E|].
      constructor; assumption.
    + exists []. split; [reflexivity|constructor].
Qed.

Lemma from_gt_split : forall k l, exists pre,
  l = pre ++ from_gt k l /\ Forall (fun x => blt k (fst x) = false) pre.
Proof.
  intros k l. induction l as [|x r IH]; cbn [from_gt].
  - exists []. split; [reflexivity|constructor].
  - destruct (ble (fst x) k) eqn:B.
    + destruct IH as (pre & E & F). exists (x :: pre). split; [cbn [app]; f_equal; exact E|].
      constructor; [apply ble_true_iff; exact B|exact F].
    + exists []. split; [reflexivity|constructor].
Qed.

Lemma from_ge_ksorted : forall t l, ksorted l -> ksorted (from_ge t l).
Proof.
  intros t l H. destruct (from_ge_split t l) as (pre & E & _). rewrite E in H.
  eapply ksorted_suffix; eauto.
Qed.

Lemma from_gt_ksorted : forall k l, ksorted l -> ksorted (from_gt k l).
Proof.
  intros k l H. destruct (from_gt_split k l) as (pre & E & _). rewrite E in H.
  eapply ksorted_suffix; eauto.
Qed.

Lemma from_ge_all : forall t l, ksorted l -> Forall (fun x => blt (fst x) t = false) (from_ge t l).
Proof.
  intros t l. induction l as [|x r IH]; intros H; cbn [from_ge]; [constructor|].
  destruct (blt (fst x) t) eqn:B; [apply IH; eapply ksorted_tl; eauto|].
  constructor; [exact B|]. rewrite Forall_forall. intros y Hy.
  pose proof (ksorted_hd _ _ _ H Hy) as L. eapply le_trans; eauto.
Qed.

Lemma from_gt_all : forall k l, ksorted l -> Forall (fun x => blt k (fst x) = true) (from_gt k l).
Proof.
  intros k l. induction l as [|x r IH]; intros H; cbn [from_gt]; [constructor|].
  destruct (ble (fst x) k) eqn:B; [apply IH; eapply ksorted_tl; eauto|].
  apply ble_false_iff in B. constructor; [exact B|]. rewrite Forall_forall. intros y Hy.
  pose proof (ksorted_hd _ _ _ H Hy) as L. eapply lt_le_trans; eauto.
Qed.

Lemma from_ge_in : forall t l x, ksorted l ->
  (In x (from_ge t l) <-> In x l /\ blt (fst x) t = false).
Proof.
  intros t l x H. split.
  - intros Hx. split.
    + destruct (from_ge_split t l) as (pre & E & _). rewrite E. apply in_or_app. right. exact Hx.
    + pose proof (from_ge_all t l H) as F. rewrite Forall_forall in F. exact (F x Hx).
  - intros [Hx B]. destruct (from_ge_split t l) as (pre & E & F). rewrite E in Hx.
    apply in_app_or in Hx. destruct Hx as [Hx|Hx]; [|exact Hx].
    rewrite Forall_forall in F. rewrite (F x Hx) in B. discriminate.
Qed.

Lemma from_gt_in : forall k l x, ksorted l ->
  (In x (from_gt k l) <-> In x l /\ blt k (fst x) = true).
Proof.
  intros k l x H. split.
  - intros Hx. split.
    + destruct (from_gt_split k l) as (pre & E & _). rewrite E. apply in_or_app. right. exact Hx.
    + pose proof (from_gt_all k l H) as F. rewrite Forall_forall in F. exact (F x Hx).
  - intros [Hx B]. destruct (from_gt_split k l) as (pre & E & F). rewrite E in Hx.
    apply in_app_or in Hx. destruct Hx as [Hx|Hx]; [|exact Hx].
    rewrite Forall_forall in F. rewrite (F x Hx) in B. discriminate.
Qed.

Lemma from_ge_nil_iff : forall t l, from_ge t l = [] <-> Forall (fun x => blt (fst x) t = true) l.
Proof.
  intros t l. induction l as [|x r IH]; cbn [from_ge]; [split; [constructor|reflexivity]|].
  destruct (blt (fst x) t) eqn:B.
  - rewrite IH. split; [intros F; constructor; assumption|intros F; inversion F; assumption].
  - split; [discriminate|]. intros F. inversion F; congruence.
Qed.

Lemma from_gt_nil_iff : forall k l, from_gt k l = [] <-> Forall (fun x => blt k (fst x) = false) l.
Proof.
  intros k l. induction l as [|x r IH]; cbn [from_gt]; [split; [constructor|reflexivity]|].
  destruct (ble (fst x) k) eqn:B.
  - rewrite IH. apply ble_true_iff in B.
    split; [intros F; constructor; assumption|intros F; inversion F; assumption].
  - apply ble_false_iff in B. split; [discriminate|]. intros F. inversion F; congruence.
Qed.

(* dropping "<= k" after dropping "< t" or "<= k'" with t, k' <= k *)
Lemma from_gt_from_ge : forall k t l, blt k t = false -> from_gt k (from_ge t l) = from_gt k l.
Proof.
  intros k t l H. induction l as [|x r IH]; cbn [from_ge from_gt]; [reflexivity|].
  destruct (blt (fst x) t) eqn:B; [|reflexivity].
  rewrite IH. assert (L : ble (fst x) k = true).
  { apply ble_true_iff. destruct (blt k (fst x)) eqn:E; [|reflexivity].
    pose proof (blt_trans _ _ _ E B) as C. congruence. }
  rewrite L. reflexivity.
Qed.

Lemma from_gt_from_gt : forall k k' l, blt k k' = false -> from_gt k (from_gt k' l) = from_gt k l.
Proof.
  intros k k' l H. induction l as [|x r IH]; cbn [from_gt]; [reflexivity|].
  destruct (ble (fst x) k') eqn:B; [|reflexivity].
  rewrite IH. assert (L : ble (fst x) k = true).
  { apply ble_true_iff. apply ble_true_iff in B. eapply le_trans; eauto. }
  rewrite L. reflexivity.
Qed.

Lemma from_ge_from_ge : forall t t' l, blt t t' = false -> from_ge t (from_ge t' l) = from_ge t l.
Proof.
  intros t t' l H. induction l as [|x r IH]; cbn [from_ge]; [reflexivity|].
  destruct (blt (fst x) t') eqn:B; [|reflexivity].
  rewrite IH. rewrite (lt_le_trans _ _ _ B H). reflexivity.
Qed.

Lemma from_gt_length : forall k l, (length (from_gt k l) <= length l)%nat.
Proof.
  intros k l. induction l as [|x r IH]; cbn [from_gt length]; [lia|].
  destruct (ble (fst x) k); cbn [length]; lia.
Qed.

Lemma from_ge_length : forall t l, (length (from_ge t l) <= length l)%nat.
Proof.
  intros t l. induction l as [|x r IH]; cbn [from_ge length]; [lia|].
  destruct (blt (fst x) t); cbn [length]; lia.
Qed.

(* ------------------------------------------------------------------------------------ *)
(* Part 1d: reading a key from a stack of sources: the first source that has the key       *)
(*          decides, within a source the first entry of the key                            *)
(* ------------------------------------------------------------------------------------ *)

Fixpoint lookup (k : bytes) (l : list kv) : option (option bytes) :=
  match l with
  | [] => None
  | x :: r => if beq (fst x) k then Some (snd x) else lookup k r
  end.

Fixpoint first_val (k : bytes) (cs : list (list kv)) : option (option bytes) :=
  match cs with
  | [] => None
  | c :: r => match lookup k c with Some v => Some v | None => first_val k r end
  end.

Lemma lookup_none_iff : forall k l, lookup k l = None <-> forall x, In x l -> fst x <> k.
Proof.
  intros k l. induction l as [|x r IH]; cbn [lookup].
  - split; [intros _ x []|reflexivity].
  - destruct (beq (fst x) k) eqn:B.
    + split; [discriminate|]. intros H. apply beq_true_iff in B. exfalso. apply (H x); [left; reflexivity|exact B].
    + rewrite IH. apply beq_false_iff in B. split.
      * intros H y [<-|Hy]; [exact B|apply H; exact Hy].
      * intros H y Hy. apply H. right. exact Hy.
Qed.

Lemma lookup_some_in : forall k l v, lookup k l = Some v -> In (k, v) l.
Proof.
  intros k l v. induction l as [|x r IH]; cbn [lookup]; [discriminate|].
  destruct (beq (fst x) k) eqn:B.
  - intros E. injection E as <-. apply beq_true_iff in B. left. destruct x; cbn in *; congruence.
  - intros E. right. apply IH. exact E.
Qed.

Lemma lookup_gt_head : forall k x l, ksorted (x :: l) -> blt k (fst x) = true -> lookup k (x :: l) = None.
Proof.
  intros k x l H B. apply lookup_none_iff. intros y [<-|Hy].
  - intros E. rewrite E, blt_irrefl in B. discriminate.
  - intros E. pose proof (ksorted_hd _ _ _ H Hy) as L. rewrite E in L. congruence.
Qed.

Lemma lookup_from_ge : forall k t l, ksorted l ->
  lookup k (from_ge t l) = if blt k t then None else lookup k l.
Proof.
  intros k t l. induction l as [|x r IH]; intros H; cbn [from_ge].
  - cbn [lookup]. destruct (blt k t); reflexivity.
  - destruct (blt (fst x) t) eqn:B.
    + rewrite IH by (eapply ksorted_tl; eauto). destruct (blt k t) eqn:E; [reflexivity|].
      cbn [lookup]. assert (N : beq (fst x) k = false).
      { apply beq_false_lt. eapply lt_le_trans; eauto. }
      rewrite N. reflexivity.
    + destruct (blt k t) eqn:E; [|reflexivity].
      apply lookup_gt_head; [exact H|]. eapply lt_le_trans; eauto.
Qed.

Lemma lookup_from_gt : forall k p l, ksorted l ->
  lookup k (from_gt p l) = if blt p k then lookup k l else None.
Proof.
  intros k p l. induction l as [|x r IH]; intros H; cbn [from_gt].
  - cbn [lookup]. destruct (blt p k); reflexivity.
  - destruct (ble (fst x) p) eqn:B.
    + rewrite IH by (eapply ksorted_tl; eauto). destruct (blt p k) eqn:E; [|reflexivity].
      cbn [lookup]. apply ble_true_iff in B. assert (N : beq (fst x) k = false).
      { apply beq_false_lt. eapply le_lt_trans; eauto. }
      rewrite N. reflexivity.
    + apply ble_false_iff in B. destruct (blt p k) eqn:E; [reflexivity|].
      apply lookup_gt_head; [exact H|]. eapply le_lt_trans; eauto.
Qed.

Lemma first_val_from_ge : forall k t cs, Forall ksorted cs ->
  first_val k (map (from_ge t) cs) = if blt k t then None else first_val k cs.
Proof.
  intros k t cs H. induction H as [|c r Hc Hr IH]; cbn [map first_val].
  - destruct (blt k t); reflexivity.
  - rewrite lookup_from_ge by exact Hc. rewrite IH. destruct (blt k t); reflexivity.
Qed.

Lemma first_val_from_gt : forall k p cs, Forall ksorted cs ->
  first_val k (map (from_gt p) cs) = if blt p k then first_val k cs else None.
Proof.
  intros k p cs H. induction H as [|c r Hc Hr IH]; cbn [map first_val].
  - destruct (blt p k); reflexivity.
  - rewrite lookup_from_gt by exact Hc. rewrite IH. destruct (blt p k); reflexivity.
Qed.

Lemma first_val_some_in : forall k cs v, first_val k cs = Some v ->
  exists c, In c cs /\ In (k, v) c.
Proof.
  intros k cs v. induction cs as [|c r IH]; cbn [first_val]; [discriminate|].
  destruct (lookup k c) as [w|] eqn:L.
  - intros E. injection E as <-. exists c. split; [left; reflexivity|apply lookup_some_in; exact L].
  - intros E. destruct (IH E) as (c' & Hc & Hin). exists c'. split; [right; exact Hc|exact Hin].
Qed.

Lemma first_val_none_iff : forall k cs, first_val k cs = None <->
  forall c x, In c cs -> In x c -> fst x <> k.
Proof.
  intros k cs. induction cs as [|c r IH]; cbn [first_val].
  - split; [intros _ c x []|reflexivity].
  - destruct (lookup k c) as [w|] eqn:L.
    + split; [discriminate|]. intros H. apply lookup_some_in in L.
      exfalso. apply (H c (k, w)); [left; reflexivity|exact L|reflexivity].
    + rewrite IH. split.
      * intros H c' x [<-|Hc] Hx; [exact (proj1 (lookup_none_iff k c) L x Hx)|exact (H c' x Hc Hx)].
      * intros H c' x Hc Hx. apply (H c' x); [right; exact Hc|exact Hx].
Qed.

(* ------------------------------------------------------------------------------------ *)
(* Part 1e: the merged view of a stack of sources (newest first)                           *)
(* ------------------------------------------------------------------------------------ *)

Definition ohd (l : list kv) : option kv := match l with [] => None | x :: _ => Some x end.

(* smaller key wins, the earlier candidate wins ties *)
Definition bmin (a b : option kv) : option kv :=
  match a, b with
  | None, m => m
  | Some x, None => Some x
  | Some x, Some y => if blt (fst y) (fst x) then Some y else Some x
  end.

(* the entry a forward merge yields next: the smallest head, of the first source that has it *)
Fixpoint hmin (cs : list (list kv)) : option kv :=
  match cs with
  | [] => None
  | c :: r => bmin (ohd c) (hmin r)
  end.

Definition total_len (cs : list (list kv)) : nat := fold_right (fun c n => (length c + n)%nat) O cs.

Fixpoint mview (fuel : nat) (cs : list (list kv)) : list kv :=
  match fuel with
  | O => []
  | S f => match hmin cs with
           | None => []
           | Some x => x :: mview f (map (from_gt (fst x)) cs)
           end
  end.

(* each key once, ascending, with the value (or deletion marker) of the first source that
   has the key *)
Definition merge_view (cs : list (list kv)) : list kv := mview (S (total_len cs)) cs.

Lemma hmin_none_iff : forall cs, hmin cs = None <-> Forall (fun c => c = []) cs.
Proof.
  induction cs as [|c r IH]; cbn [hmin]; [split; [constructor|reflexivity]|].
  destruct c as [|x c]; cbn [ohd bmin].
  - rewrite IH. split; [intros F; constructor; [reflexivity|exact F]|intros F; inversion F; assumption].
  - split.
    + destruct (hmin r) as [y|]; [destruct (blt (fst y) (fst x))|]; discriminate.
    + intros F. inversion F; discriminate.
Qed.

Lemma hmin_le : forall cs x, Forall ksorted cs -> hmin cs = Some x ->
  forall c y, In c cs -> In y c -> blt (fst y) (fst x) = false.
Proof.
  intros cs x H. revert x. induction H as [|c r Hc Hr IH]; intros x E; [discriminate|].
  cbn [hmin] in E. intros c' y [<-|Hc'] Hy.
  - destruct c as [|z c]; [destruct Hy|]. cbn [ohd bmin] in E.
    assert (Lz : blt (fst y) (fst z) = false).
    { destruct Hy as [<-|Hy]; [apply blt_irrefl|exact (ksorted_hd _ _ _ Hc Hy)]. }
    destruct (hmin r) as [w|].
    + destruct (blt (fst w) (fst z)) eqn:B; injection E as <-; [|exact Lz].
      destruct (blt (fst y) (fst w)) eqn:C; [|reflexivity].
      pose proof (blt_trans _ _ _ C B). congruence.
    + injection E as <-. exact Lz.
  - destruct c as [|z c]; cbn [ohd bmin] in E; [apply (IH x E c' y Hc' Hy)|].
    destruct (hmin r) as [w|] eqn:Hw.
    + specialize (IH w eq_refl c' y Hc' Hy).
      destruct (blt (fst w) (fst z)) eqn:B; injection E as <-; [exact IH|].
      eapply le_trans; eauto.
    + apply hmin_none_iff in Hw. rewrite Forall_forall in Hw. rewrite (Hw c' Hc') in Hy. destruct Hy.
Qed.

Lemma hmin_first_val : forall cs x, Forall ksorted cs -> hmin cs = Some x ->
  first_val (fst x) cs = Some (snd x).
Proof.
  intros cs x H. revert x. induction H as [|c r Hc Hr IH]; intros x E; [discriminate|].
  cbn [hmin] in E. cbn [first_val]. destruct c as [|z c]; cbn [ohd bmin] in E.
  - cbn [lookup]. apply IH. exact E.
  - destruct (hmin r) as [w|] eqn:Hw.
    + destruct (blt (fst w) (fst z)) eqn:B; injection E as <-.
      * rewrite (lookup_gt_head _ _ _ Hc B). apply IH. reflexivity.
      * cbn [lookup]. rewrite beq_refl. reflexivity.
    + injection E as <-. cbn [lookup]. rewrite beq_refl. reflexivity.
Qed.

Lemma hmin_in : forall cs x, hmin cs = Some x -> exists c, In c cs /\ ohd c = Some x.
Proof.
  induction cs as [|c r IH]; intros x E; [discriminate|]. cbn [hmin] in E.
  destruct (ohd c) as [z|] eqn:Hz; cbn [bmin] in E.
  - destruct (hmin r) as [w|].
    + destruct (blt (fst w) (fst z)); injection E as <-.
      * destruct (IH w eq_refl) as (c' & Hc' & Ho). exists c'. split; [right; exact Hc'|exact Ho].
      * exists c. split; [left; reflexivity|exact Hz].
    + injection E as <-. exists c. split; [left; reflexivity|exact Hz].
  - destruct (IH x E) as (c' & Hc' & Ho). exists c'. split; [right; exact Hc'|exact Ho].
Qed.

Lemma total_len_from_gt_le : forall k cs, (total_len (map (from_gt k) cs) <= total_len cs)%nat.
Proof.
  intros k cs. induction cs as [|c r IH]; cbn [map total_len fold_right]; [lia|].
  fold (total_len (map (from_gt k) r)). fold (total_len r).
  pose proof (from_gt_length k c). lia.
Qed.

Lemma total_len_step : forall cs x, hmin cs = Some x ->
  (total_len (map (from_gt (fst x)) cs) < total_len cs)%nat.
Proof.
  induction cs as [|c r IH]; intros x E; [discriminate|]. cbn [hmin] in E.
  cbn [map total_len fold_right]. fold (total_len (map (from_gt (fst x)) r)). fold (total_len r).
  pose proof (from_gt_length (fst x) c) as Lc. pose proof (total_len_from_gt_le (fst x) r) as Lr.
  destruct c as [|z c]; cbn [ohd bmin] in E.
  - specialize (IH x E). cbn [from_gt length]. lia.
  - assert (Own : x = z -> (length (from_gt (fst x) (z :: c)) < length (z :: c))%nat).
    { intros ->. cbn [from_gt]. assert (B : ble (fst z) (fst z) = true) by (apply ble_true_iff; apply blt_irrefl).
      rewrite B. pose proof (from_gt_length (fst z) c). cbn [length]. lia. }
    destruct (hmin r) as [w|].
    + destruct (blt (fst w) (fst z)); injection E as <-.
      * specialize (IH w eq_refl). lia.
      * specialize (Own eq_refl). lia.
    + injection E as <-. specialize (Own eq_refl). lia.
Qed.

Lemma Forall_ksorted_from_gt : forall k cs, Forall ksorted cs -> Forall ksorted (map (from_gt k) cs).
Proof.
  intros k cs H. induction H; cbn [map]; constructor; [apply from_gt_ksorted; assumption|assumption].
Qed.

Lemma Forall_ksorted_from_ge : forall t cs, Forall ksorted cs -> Forall ksorted (map (from_ge t) cs).
Proof.
  intros t cs H. induction H; cbn [map]; constructor; [apply from_ge_ksorted; assumption|assumption].
Qed.

(* strictly ascending, and exactly the keys of the stack with the first source's entry *)
Lemma mview_spec : forall n cs, (total_len cs < n)%nat -> Forall ksorted cs ->
  kstrict (mview n cs) /\ forall k v, In (k, v) (mview n cs) <-> first_val k cs = Some v.
Proof.
  induction n as [|n IH]; intros cs Hn Hs; [lia|]. cbn [mview].
  destruct (hmin cs) as [[k0 v0]|] eqn:Hm.
  - pose proof (total_len_step cs _ Hm) as Hlt. cbn [fst] in *.
    assert (Hs' : Forall ksorted (map (from_gt k0) cs)) by (apply Forall_ksorted_from_gt; exact Hs).
    destruct (IH (map (from_gt k0) cs) ltac:(lia) Hs') as (St & Mem).
    pose proof (hmin_first_val cs _ Hs Hm) as F0. cbn [fst snd] in F0.
    split.
    + constructor; [exact St|]. rewrite Forall_forall. intros [k v] Hin.
      apply Mem in Hin. rewrite first_val_from_gt in Hin by exact Hs.
      unfold klt. cbn [fst]. destruct (blt k0 k); [reflexivity|discriminate].
    + intros k v. split.
      * intros [E|Hin]; [injection E as <- <-; exact F0|].
        apply Mem in Hin. rewrite first_val_from_gt in Hin by exact Hs.
        destruct (blt k0 k); [exact Hin|discriminate].
      * intros F. destruct (blt k0 k) eqn:B.
        -- right. apply Mem. rewrite first_val_from_gt by exact Hs. rewrite B. exact F.
        -- destruct (blt_false_cases _ _ B) as [<-|C].
           ++ left. rewrite F0 in F. injection F as <-. reflexivity.
           ++ exfalso. destruct (first_val_some_in _ _ _ F) as (c & Hc & Hin).
              pose proof (hmin_le cs _ Hs Hm c (k, v) Hc Hin) as L. cbn [fst] in L. congruence.
  - split; [constructor|]. intros k v. split; [intros []|].
    intros F. destruct (first_val_some_in _ _ _ F) as (c & Hc & Hin).
    apply hmin_none_iff in Hm. rewrite Forall_forall in Hm. rewrite (Hm c Hc) in Hin. destruct Hin.
Qed.

Lemma mview_fuel : forall n m cs, (total_len cs < n)%nat -> (total_len cs < m)%nat ->
  mview n cs = mview m cs.
Proof.
  induction n as [|n IH]; intros m cs Hn Hm; [lia|]. destruct m as [|m]; [lia|]. cbn [mview].
  destruct (hmin cs) as [x|] eqn:E; [|reflexivity].
  pose proof (total_len_step cs x E). f_equal. apply IH; lia.
Qed.

Lemma merge_view_step : forall cs x, hmin cs = Some x ->
  merge_view cs = x :: merge_view (map (from_gt (fst x)) cs).
Proof.
  intros cs x E. unfold merge_view.
  replace (mview (S (total_len cs)) cs) with (x :: mview (total_len cs) (map (from_gt (fst x)) cs))
    by (cbn [mview]; rewrite E; reflexivity).
  f_equal. pose proof (total_len_step cs x E). apply mview_fuel; lia.
Qed.

Lemma merge_view_nil : forall cs, hmin cs = None -> merge_view cs = [].
Proof. intros cs E. unfold merge_view. cbn [mview]. rewrite E. reflexivity. Qed.

Theorem merge_view_strict : forall cs, Forall ksorted cs -> kstrict (merge_view cs).
Proof. intros cs H. apply (mview_spec (S (total_len cs)) cs); [lia|exact H]. Qed.

Theorem merge_view_in : forall cs k v, Forall ksorted cs ->
  (In (k, v) (merge_view cs) <-> first_val k cs = Some v).
Proof. intros cs k v H. apply (mview_spec (S (total_len cs)) cs); [lia|exact H]. Qed.

(* a strictly ascending list is determined by its elements *)
Lemma kstrict_ext : forall l1 l2, kstrict l1 -> kstrict l2 ->
  (forall x, In x l1 <-> In x l2) -> l1 = l2.
Proof.
  induction l1 as [|x l1 IH]; intros l2 H1 H2 E.
  - destruct l2 as [|y l2]; [reflexivity|]. exfalso. apply (proj2 (E y)). left. reflexivity.
  - destruct l2 as [|y l2]; [exfalso; apply (proj1 (E x)); left; reflexivity|].
    inversion H1 as [|? ? S1 F1]; subst. inversion H2 as [|? ? S2 F2]; subst.
    rewrite Forall_forall in F1, F2.
    assert (Exy : x = y).
    { destruct (proj1 (E x) (or_introl eq_refl)) as [->|Hx]; [reflexivity|].
      destruct (proj2 (E y) (or_introl eq_refl)) as [->|Hy]; [reflexivity|].
      specialize (F1 y Hy). specialize (F2 x Hx). unfold klt in *.
      rewrite (blt_asym _ _ F1) in F2. discriminate. }
    subst y. f_equal. apply IH; [exact S1|exact S2|]. intros z. split; intros Hz.
    + destruct (proj1 (E z) (or_intror Hz)) as [<-|Hz']; [|exact Hz'].
      specialize (F1 x Hz). unfold klt in F1. rewrite blt_irrefl in F1. discriminate.
    + destruct (proj2 (E z) (or_intror Hz)) as [<-|Hz']; [|exact Hz'].
      specialize (F2 x Hz). unfold klt in F2. rewrite blt_irrefl in F2. discriminate.
Qed.

Lemma from_ge_kstrict : forall t l, kstrict l -> kstrict (from_ge t l).
Proof.
  intros t l. induction l as [|x r IH]; intros H; cbn [from_ge]; [constructor|].
  destruct (blt (fst x) t); [apply IH; inversion H; assumption|exact H].
Qed.

Lemma from_gt_kstrict : forall k l, kstrict l -> kstrict (from_gt k l).
Proof.
  intros k l. induction l as [|x r IH]; intros H; cbn [from_gt]; [constructor|].
  destruct (ble (fst x) k); [apply IH; inversion H; assumption|exact H].
Qed.

(* seeking in the merged view = merging the sought sources *)
Theorem merge_view_from_ge : forall t cs, Forall ksorted cs ->
  from_ge t (merge_view cs) = merge_view (map (from_ge t) cs).
Proof.
  intros t cs H. pose proof (merge_view_strict cs H) as S.
  apply kstrict_ext.
  - apply from_ge_kstrict. exact S.
  - apply merge_view_strict. apply Forall_ksorted_from_ge. exact H.
  - intros [k v]. rewrite from_ge_in by (apply kstrict_ksorted; exact S).
    rewrite !merge_view_in by (try apply Forall_ksorted_from_ge; exact H).
    rewrite first_val_from_ge by exact H. cbn [fst].
    destruct (blt k t); split; try tauto; try discriminate. intros [_ C]. discriminate.
Qed.

Theorem merge_view_from_gt : forall k cs, Forall ksorted cs ->
  from_gt k (merge_view cs) = merge_view (map (from_gt k) cs).
Proof.
  intros k cs H. pose proof (merge_view_strict cs H) as S.
  apply kstrict_ext.
  - apply from_gt_kstrict. exact S.
  - apply merge_view_strict. apply Forall_ksorted_from_gt. exact H.
  - intros [k' v]. rewrite from_gt_in by (apply kstrict_ksorted; exact S).
    rewrite !merge_view_in by (try apply Forall_ksorted_from_gt; exact H).
    rewrite first_val_from_gt by exact H. cbn [fst].
    destruct (blt k k'); split; try tauto; try discriminate. intros [_ C]. discriminate.
Qed.

Lemma merge_view_length : forall cs, (length (merge_view cs) <= total_len cs)%nat.
Proof.
  intros cs. unfold merge_view. generalize (S (total_len cs)) as n. intros n. revert cs.
  induction n as [|n IH]; intros cs; cbn [mview length]; [lia|].
  destruct (hmin cs) as [x|] eqn:E; cbn [length]; [|lia].
  pose proof (total_len_step cs x E). specialize (IH (map (from_gt (fst x)) cs)). lia.
Qed.

(* ------------------------------------------------------------------------------------ *)
(* Part 2: lawful iterators                                                                *)
(* ------------------------------------------------------------------------------------ *)

(* where SeekToLast stands: on the first entry of the last key *)
Definition last_run (l : list kv) : list kv :=
  match last_suffix l with
  | [] => []
  | x :: _ => from_ge (fst x) l
  end.

Definition is_none {A : Type} (o : option A) : bool := match o with None => true | Some _ => false end.

(* An iterator state [s] that satisfies [ok] denotes a key-ascending entry list [content s]
   (fixed by every operation) and the part of it that lies ahead, [rest s]. Seek may be weak:
   when nothing is >= the target it may leave the position where it was (BoundedIterator.Seek
   of the pinned tree does, see b_seek_gen). Next is specified on valid positions only. *)
Record Lawful {S : Type} (I : Iter S) (ok : S -> Prop) (content rest : S -> list kv) : Prop := mkLawful {
  L_sorted : forall s, ok s -> ksorted (content s);
  L_suffix : forall s, ok s -> exists pre, content s = pre ++ rest s;
  L_fuel : forall s, ok s -> (length (content s) < i_fuel I s)%nat;
  L_valid : forall s, ok s -> i_valid I s = nonempty (rest s);
  L_key : forall s, ok s -> i_valid I s = true -> i_key I s = hd_key (rest s);
  L_value : forall s, ok s -> i_valid I s = true -> i_value I s = hd_val (rest s);
  L_tomb : forall s, ok s -> i_valid I s = true -> i_tomb I s = is_none (hd_val (rest s));
  L_first : forall s, ok s ->
      ok (i_first I s) /\ content (i_first I s) = content s /\ rest (i_first I s) = content s;
  L_next : forall s, ok s -> i_valid I s = true ->
      ok (fst (i_next I s)) /\ content (fst (i_next I s)) = content s /\
      rest (fst (i_next I s)) = tl (rest s) /\ snd (i_next I s) = nonempty (tl (rest s));
  L_seek : forall t s, ok s ->
      ok (fst (i_seek I t s)) /\ content (fst (i_seek I t s)) = content s /\
      ((rest (fst (i_seek I t s)) = from_ge t (content s) /\
        snd (i_seek I t s) = nonempty (from_ge t (content s)))
       \/ (from_ge t (content s) = [] /\ rest (fst (i_seek I t s)) = rest s /\
           snd (i_seek I t s) = false));
  L_last : forall s, ok s ->
      ok (i_last I s) /\ content (i_last I s) = content s /\ rest (i_last I s) = last_run (content s)
}.

(* Seek always repositions *)
Definition ExactSeek {S : Type} (I : Iter S) (ok : S -> Prop) (content rest : S -> list kv) : Prop :=
  forall t s, ok s -> rest (fst (i_seek I t s)) = from_ge t (content s) /\
                      snd (i_seek I t s) = nonempty (from_ge t (content s)).

Lemma rest_sorted : forall S (I : Iter S) ok content rest, Lawful I ok content rest ->
  forall s, ok s -> ksorted (rest s).
Proof.
  intros S I ok content rest L s H. destruct (L_suffix _ _ _ _ L s H) as (pre & E).
  pose proof (L_sorted _ _ _ _ L s H) as Hs. rewrite E in Hs. eapply ksorted_suffix; eauto.
Qed.

Lemma rest_length : forall S (I : Iter S) ok content rest, Lawful I ok content rest ->
  forall s, ok s -> (length (rest s) < i_fuel I s)%nat.
Proof.
  intros S I ok content rest L s H. destruct (L_suffix _ _ _ _ L s H) as (pre & E).
  pose proof (L_fuel _ _ _ _ L s H) as F. rewrite E, app_length in F. lia.
Qed.

Lemma hd_pair : forall x l, (hd_key (x :: l), hd_val (x :: l)) = x.
Proof. intros [k v] l. reflexivity. Qed.

(* ---------- last_suffix, last_run ---------- *)

Lemma last_suffix_cases : forall l, (l = [] /\ last_suffix l = []) \/
  exists pre x, l = pre ++ [x] /\ last_suffix l = [x].
Proof.
  induction l as [|y l IH]; [left; split; reflexivity|]. right.
  destruct IH as [[-> _]|(pre & x & -> & E)].
  - exists [], y. split; reflexivity.
  - exists (y :: pre), x. split; [reflexivity|].
    cbn [last_suffix app]. destruct (pre ++ [x]) eqn:P; [destruct pre; discriminate|exact E].
Qed.

Lemma from_ge_last_strict : forall pre x, kstrict (pre ++ [x]) -> from_ge (fst x) (pre ++ [x]) = [x].
Proof.
  induction pre as [|y pre IH]; intros x H; cbn [app from_ge].
  - rewrite blt_irrefl. reflexivity.
  - inversion H as [|? ? Hs Hf]; subst. rewrite Forall_forall in Hf.
    assert (B : klt y x) by (apply Hf; apply in_or_app; right; left; reflexivity).
    unfold klt in B. rewrite B. apply IH. exact Hs.
Qed.

Lemma last_run_strict : forall l, kstrict l -> last_run l = last_suffix l.
Proof.
  intros l H. unfold last_run. destruct (last_suffix_cases l) as [[-> E]|(pre & x & -> & E)].
  - reflexivity.
  - rewrite E. apply from_ge_last_strict. exact H.
Qed.

Lemma last_run_suffix : forall l, exists pre, l = pre ++ last_run l.
Proof.
  intros l. unfold last_run. destruct (last_suffix l) as [|x r]; [exists l; rewrite app_nil_r; reflexivity|].
  destruct (from_ge_split (fst x) l) as (pre & E & _). exists pre. exact E.
Qed.

(* SeekToLast stands on the first entry of the greatest key *)
Lemma last_run_spec : forall l, ksorted l -> l <> [] ->
  exists z r, last_run l = z :: r /\ In z l /\
              (forall y, In y l -> blt (fst z) (fst y) = false) /\
              lookup (fst z) l = Some (snd z).
Proof.
  intros l H Hne. unfold last_run. destruct (last_suffix_cases l) as [[-> E]|(pre & x & -> & E)]; [congruence|].
  rewrite E. set (l := pre ++ [x]) in *.
  assert (Hmax : forall y, In y l -> blt (fst x) (fst y) = false).
  { apply ksorted_app in H. destruct H as (_ & _ & Hab).
    intros y Hy. apply in_app_or in Hy. destruct Hy as [Hy|[<-|[]]]; [|apply blt_irrefl].
    apply Hab; [exact Hy|left; reflexivity]. }
  assert (Hin : In x l) by (apply in_or_app; right; left; reflexivity).
  assert (HxG : In x (from_ge (fst x) l)) by (apply from_ge_in; [exact H|split; [exact Hin|apply blt_irrefl]]).
  destruct (from_ge (fst x) l) as [|z r] eqn:G; [destruct HxG|].
  assert (HzG : In z (from_ge (fst x) l)) by (rewrite G; left; reflexivity).
  apply from_ge_in in HzG; [|exact H]. destruct HzG as [Hz Bz].
  assert (Ek : fst z = fst x) by (apply le_antisym; [exact Bz|apply Hmax; exact Hz]).
  exists z, r. split; [reflexivity|]. split; [exact Hz|]. split.
  - intros y Hy. rewrite Ek. apply Hmax. exact Hy.
  - pose proof (lookup_from_ge (fst x) (fst x) l H) as Lk. rewrite blt_irrefl, G in Lk.
    rewrite Ek, <- Lk. cbn [lookup]. rewrite Ek, beq_refl. reflexivity.
Qed.

Lemma last_run_nil : last_run [] = [].
Proof. reflexivity. Qed.

(* ---------- the list sources are lawful ---------- *)

Definition src_ok (s : src) : Prop :=
  ksorted (s_all s) /\ (s_kind s = KMem \/ kstrict (s_all s)) /\ exists pre, s_all s = pre ++ s_cur s.

Lemma src_ok_set : forall s c, src_ok s -> (exists pre, s_all s = pre ++ c) -> src_ok (src_set s c).
Proof. intros s c (H1 & H2 & _) H3. unfold src_ok, src_set. cbn [s_all s_kind s_cur]. auto. Qed.

Theorem src_lawful : Lawful src_iter src_ok s_all s_cur.
Proof.
  constructor; cbn [src_iter i_first i_seek i_next i_last i_valid i_key i_value i_tomb i_fuel].
  - intros s (H & _). exact H.
  - intros s (_ & _ & H). exact H.
  - intros s _. lia.
  - reflexivity.
  - reflexivity.
  - reflexivity.
  - intros s _ V. rewrite V. reflexivity.
  - intros s H. split; [|split; reflexivity].
    apply src_ok_set; [exact H|]. exists []. reflexivity.
  - intros s H V. unfold src_next. destruct (s_cur s) as [|x r] eqn:C; [discriminate|].
    cbn [fst snd src_set s_all s_cur tl]. split; [|repeat split; reflexivity].
    apply src_ok_set; [exact H|]. destruct H as (_ & _ & (pre & E)). rewrite C in E.
    exists (pre ++ [x]). rewrite <- app_assoc. exact E.
  - intros t s H. unfold src_seek. cbn [fst snd src_set s_all s_cur].
    split; [|split; [reflexivity|left; split; reflexivity]].
    apply src_ok_set; [exact H|]. destruct (from_ge_split t (s_all s)) as (pre & E & _). exists pre. exact E.
  - intros s H. unfold src_last. destruct H as (Hs & Hk & Hp).
    assert (Hok : src_ok s) by (repeat split; assumption).
    destruct (s_kind s) eqn:K.
    + unfold last_run. destruct (last_suffix (s_all s)) as [|x r] eqn:Ls.
      * split; [|split; reflexivity]. apply src_ok_set; [exact Hok|]. exists (s_all s). symmetry. apply app_nil_r.
      * split; [|split; reflexivity]. apply src_ok_set; [exact Hok|].
        destruct (from_ge_split (fst x) (s_all s)) as (pre & E & _). exists pre. exact E.
    + destruct Hk as [Hk|Hk]; [discriminate|]. rewrite (last_run_strict _ Hk).
      split; [|split; reflexivity]. apply src_ok_set; [exact Hok|].
      destruct (last_suffix_cases (s_all s)) as [[E1 E2]|(pre & x & E1 & E2)]; rewrite E2.
      * exists (s_all s). symmetry. apply app_nil_r.
      * exists pre. exact E1.
    + destruct Hk as [Hk|Hk]; [discriminate|]. rewrite (last_run_strict _ Hk).
      split; [|split; reflexivity]. apply src_ok_set; [exact Hok|].
      destruct (last_suffix_cases (s_all s)) as [[E1 E2]|(pre & x & E1 & E2)]; rewrite E2.
      * exists (s_all s). symmetry. apply app_nil_r.
      * exists pre. exact E1.
Qed.

Theorem src_exact : ExactSeek src_iter src_ok s_all s_cur.
Proof. intros t s _. split; reflexivity. Qed.

(* two kinds of iterator behind one interface *)
Section SumLawful.
  Context {A B : Type} (IA : Iter A) (IB : Iter B).
  Context (okA : A -> Prop) (cA rA : A -> list kv) (okB : B -> Prop) (cB rB : B -> list kv).
  Definition sum_ok (s : A + B) : Prop := match s with inl a => okA a | inr b => okB b end.
  Definition sum_content (s : A + B) : list kv := match s with inl a => cA a | inr b => cB b end.
  Definition sum_rest (s : A + B) : list kv := match s with inl a => rA a | inr b => rB b end.

  Theorem sum_lawful : Lawful IA okA cA rA -> Lawful IB okB cB rB ->
    Lawful (sum_iter IA IB) sum_ok sum_content sum_rest.
  Proof.
    intros LA LB.
    constructor; cbn [sum_iter i_first i_seek i_next i_last i_valid i_key i_value i_tomb i_fuel].
    - intros [a|b] H; [apply (L_sorted _ _ _ _ LA a H)|apply (L_sorted _ _ _ _ LB b H)].
    - intros [a|b] H; [apply (L_suffix _ _ _ _ LA a H)|apply (L_suffix _ _ _ _ LB b H)].
    - intros [a|b] H; [apply (L_fuel _ _ _ _ LA a H)|apply (L_fuel _ _ _ _ LB b H)].
    - intros [a|b] H; [apply (L_valid _ _ _ _ LA a H)|apply (L_valid _ _ _ _ LB b H)].
    - intros [a|b] H; [apply (L_key _ _ _ _ LA a H)|apply (L_key _ _ _ _ LB b H)].
    - intros [a|b] H; [apply (L_value _ _ _ _ LA a H)|apply (L_value _ _ _ _ LB b H)].
    - intros [a|b] H; [apply (L_tomb _ _ _ _ LA a H)|apply (L_tomb _ _ _ _ LB b H)].
    - intros [a|b] H; [apply (L_first _ _ _ _ LA a H)|apply (L_first _ _ _ _ LB b H)].
    - intros [a|b] H V.
      + pose proof (L_next _ _ _ _ LA a H V) as N. destruct (i_next IA a). exact N.
      + pose proof (L_next _ _ _ _ LB b H V) as N. destruct (i_next IB b). exact N.
    - intros t [a|b] H.
      + pose proof (L_seek _ _ _ _ LA t a H) as N. destruct (i_seek IA t a). exact N.
      + pose proof (L_seek _ _ _ _ LB t b H) as N. destruct (i_seek IB t b). exact N.
    - intros [a|b] H; [apply (L_last _ _ _ _ LA a H)|apply (L_last _ _ _ _ LB b H)].
  Qed.
End SumLawful.

(* ------------------------------------------------------------------------------------ *)
(* Part 3: the hierarchical iterator over lawful sources                                   *)
(* ------------------------------------------------------------------------------------ *)

Lemma bmin_assoc : forall a b c, bmin (bmin a b) c = bmin a (bmin b c).
Proof.
  intros [x|] [y|] [z|]; cbn [bmin]; try reflexivity.
  - destruct (blt (fst y) (fst x)) eqn:Byx; destruct (blt (fst z) (fst y)) eqn:Bzy; cbn [bmin].
    + rewrite Bzy. rewrite (blt_trans _ _ _ Bzy Byx). reflexivity.
    + rewrite Bzy, Byx. reflexivity.
    + destruct (blt (fst z) (fst x)) eqn:Bzx; reflexivity.
    + rewrite Byx. destruct (blt (fst z) (fst x)) eqn:Bzx; [|reflexivity].
      pose proof (lt_le_trans _ _ _ Bzx Byx) as C. congruence.
  - destruct (blt (fst y) (fst x)); reflexivity.
Qed.

(* the value of the first list whose head has key k *)
Definition hmatch (k : bytes) (l : list kv) : option (option bytes) :=
  match l with
  | x :: _ => if beq (fst x) k then Some (snd x) else None
  | [] => None
  end.

Fixpoint fh (k : bytes) (cs : list (list kv)) : option (option bytes) :=
  match cs with
  | [] => None
  | c :: r => match hmatch k c with Some v => Some v | None => fh k r end
  end.

Lemma hmin_fh : forall cs x, hmin cs = Some x -> fh (fst x) cs = Some (snd x).
Proof.
  induction cs as [|c r IH]; intros x E; [discriminate|]. cbn [hmin] in E. cbn [fh].
  destruct c as [|z c]; cbn [ohd bmin hmatch] in *; [apply IH; exact E|].
  destruct (hmin r) as [w|].
  - destruct (blt (fst w) (fst z)) eqn:B; injection E as <-.
    + rewrite (beq_false_gt _ _ B). apply IH. reflexivity.
    + rewrite beq_refl. reflexivity.
  - injection E as <-. rewrite beq_refl. reflexivity.
Qed.

Lemma fh_ext : forall k cs1 cs2, Forall2 (fun a b => hmatch k a = hmatch k b) cs1 cs2 ->
  fh k cs1 = fh k cs2.
Proof. intros k cs1 cs2 H. induction H as [|a b r1 r2 E _ IH]; [reflexivity|]. cbn [fh]. rewrite E, IH. reflexivity. Qed.

Section HierLawful.
  Context {S : Type} (I : Iter S) (ok : S -> Prop) (content rest : S -> list kv).
  Context (L : Lawful I ok content rest).

  (* what a pass sees of a source *)
  Definition cand (s : S) : option kv :=
    if i_valid I s then Some (i_key I s, i_value I s) else None.

  Lemma cand_ohd : forall s, ok s -> cand s = ohd (rest s).
  Proof.
    intros s H. unfold cand. rewrite (L_valid _ _ _ _ L s H).
    destruct (rest s) as [|x r] eqn:R; cbn [nonempty ohd]; [reflexivity|].
    assert (V : i_valid I s = true) by (rewrite (L_valid _ _ _ _ L s H), R; reflexivity).
    rewrite (L_key _ _ _ _ L s H V), (L_value _ _ _ _ L s H V), R. rewrite hd_pair. reflexivity.
  Qed.

  Lemma valid_cand : forall s, i_valid I s = true -> cand s = Some (i_key I s, i_value I s).
  Proof. intros s V. unfold cand. rewrite V. reflexivity. Qed.

  Lemma invalid_cand : forall s, i_valid I s = false -> cand s = None.
  Proof. intros s V. unfold cand. rewrite V. reflexivity. Qed.

  (* ---------- the advance loop ---------- *)
  Lemma advance_spec : forall fuel p s, ok s -> (length (rest s) < fuel)%nat ->
    ok (advance I fuel p s) /\ content (advance I fuel p s) = content s /\
    rest (advance I fuel p s) = from_gt p (rest s).
  Proof.
    induction fuel as [|f IH]; intros p s H Hf; [lia|]. cbn [advance].
    pose proof (cand_ohd s H) as C. unfold cand in C.
    destruct (i_valid I s) eqn:V; cbn [andb].
    - destruct (rest s) as [|x r] eqn:R; [discriminate|]. cbn [ohd] in C. injection C as C.
      assert (K : i_key I s = fst x) by (rewrite <- C; reflexivity).
      rewrite K. cbn [from_gt]. destruct (ble (fst x) p) eqn:B.
      + pose proof (L_next _ _ _ _ L s H V) as (N1 & N2 & N3 & N4).
        destruct (i_next I s) as [s' ret]. cbn [fst snd] in *. rewrite R in N3, N4. cbn [tl] in N3, N4.
        destruct ret.
        * cbn [length] in Hf. destruct (IH p s' N1 ltac:(rewrite N3; lia)) as (A1 & A2 & A3).
          split; [exact A1|]. split; [congruence|]. rewrite A3, N3. reflexivity.
        * split; [exact N1|]. split; [exact N2|]. rewrite N3. destruct r; [reflexivity|discriminate].
      + split; [exact H|]. split; [reflexivity|]. exact R.
    - split; [exact H|]. split; [reflexivity|].
      destruct (rest s); [reflexivity|discriminate].
  Qed.

  (* what the first pass does to one source *)
  Definition adv1 (prev : option bytes) (s : S) : S :=
    if i_valid I s then
      match prev with
      | Some p => if ble (i_key I s) p then advance I (i_fuel I s) p s else s
      | None => s
      end
    else s.

  Definition drop_prev (prev : option bytes) (l : list kv) : list kv :=
    match prev with Some p => from_gt p l | None => l end.

  Lemma adv1_spec : forall prev s, ok s ->
    ok (adv1 prev s) /\ content (adv1 prev s) = content s /\ rest (adv1 prev s) = drop_prev prev (rest s).
  Proof.
    intros prev s H. unfold adv1, drop_prev.
    pose proof (cand_ohd s H) as C. unfold cand in C.
    destruct (i_valid I s) eqn:V.
    - destruct prev as [p|]; [|repeat split; assumption || reflexivity].
      destruct (rest s) as [|x r] eqn:R; [discriminate|]. cbn [ohd] in C. injection C as C.
      assert (K : i_key I s = fst x) by (rewrite <- C; reflexivity). rewrite K.
      destruct (ble (fst x) p) eqn:B.
      + destruct (advance_spec (i_fuel I s) p s H (rest_length _ _ _ _ _ L s H)) as (A1 & A2 & A3).
        rewrite R in A3. repeat split; assumption.
      + cbn [from_gt]. rewrite B. repeat split; assumption || reflexivity.
    - destruct (rest s); [|discriminate]. destruct prev; repeat split; assumption || reflexivity.
  Qed.

  Lemma Forall_adv1 : forall prev srcs, Forall ok srcs ->
    Forall ok (map (adv1 prev) srcs) /\
    map content (map (adv1 prev) srcs) = map content srcs /\
    map rest (map (adv1 prev) srcs) = map (drop_prev prev) (map rest srcs).
  Proof.
    intros prev srcs H. induction H as [|s r Hs Hr IH]; cbn [map]; [repeat split; constructor|].
    destruct (adv1_spec prev s Hs) as (A1 & A2 & A3). destruct IH as (B1 & B2 & B3).
    split; [constructor; assumption|]. split; congruence.
  Qed.

  (* ---------- first pass ---------- *)
  Definition kv_of_best (b : best) : option kv :=
    match b with Some (_, k, v) => Some (k, v) | None => None end.

  Definition upd (i : nat) (b : best) (s : S) : best :=
    if i_valid I s then
      match b with
      | None => Some (i, i_key I s, i_value I s)
      | Some (_, bk, _) => if blt (i_key I s) bk then Some (i, i_key I s, i_value I s) else b
      end
    else b.

  Lemma pass1_unfold : forall prev s r i b,
    pass1 I prev (s :: r) i b =
    (adv1 prev s :: fst (pass1 I prev r (Datatypes.S i) (upd i b (adv1 prev s))),
     snd (pass1 I prev r (Datatypes.S i) (upd i b (adv1 prev s)))).
  Proof.
    intros.
    change (pass1 I prev (s :: r) i b) with
      (let (r', b'') := pass1 I prev r (Datatypes.S i) (upd i b (adv1 prev s)) in (adv1 prev s :: r', b'')).
    destruct (pass1 I prev r (Datatypes.S i) (upd i b (adv1 prev s))). reflexivity.
  Qed.

  Lemma pass1_srcs : forall prev srcs i b, fst (pass1 I prev srcs i b) = map (adv1 prev) srcs.
  Proof.
    intros prev srcs. induction srcs as [|s r IH]; intros i b; [reflexivity|].
    rewrite pass1_unfold. cbn [fst map]. rewrite IH. reflexivity.
  Qed.

  Lemma upd_kv : forall i b s, kv_of_best (upd i b s) = bmin (kv_of_best b) (cand s).
  Proof.
    intros i b s. unfold upd, cand. destruct (i_valid I s).
    - destruct b as [[[j bk] bv]|]; cbn [kv_of_best bmin fst]; [|reflexivity].
      destruct (blt (i_key I s) bk); reflexivity.
    - destruct b as [[[j bk] bv]|]; reflexivity.
  Qed.

  Fixpoint cmin (l : list (option kv)) : option kv :=
    match l with [] => None | a :: r => bmin a (cmin r) end.

  Lemma hmin_cmin : forall cs, hmin cs = cmin (map ohd cs).
  Proof. induction cs as [|c r IH]; [reflexivity|]. cbn [hmin map cmin]. rewrite IH. reflexivity. Qed.

  Lemma map_cand_ohd : forall srcs, Forall ok srcs -> map cand srcs = map ohd (map rest srcs).
  Proof.
    intros srcs H. induction H as [|s r Hs Hr IH]; [reflexivity|]. cbn [map].
    rewrite (cand_ohd s Hs), IH. reflexivity.
  Qed.

  Lemma pass1_kv : forall prev srcs i b,
    kv_of_best (snd (pass1 I prev srcs i b)) =
    bmin (kv_of_best b) (cmin (map cand (map (adv1 prev) srcs))).
  Proof.
    intros prev srcs. induction srcs as [|s r IH]; intros i b.
    - cbn [pass1 snd map cmin]. destruct (kv_of_best b); reflexivity.
    - rewrite pass1_unfold. cbn [snd map cmin]. rewrite IH, upd_kv, bmin_assoc. reflexivity.
  Qed.

  (* the best candidate is what the source with its index shows *)
  Lemma pass1_idx : forall prev srcs i b j k v,
    snd (pass1 I prev srcs i b) = Some (j, k, v) ->
    b = Some (j, k, v) \/
    ((i <= j)%nat /\ exists s', nth_error (map (adv1 prev) srcs) (j - i) = Some s' /\
                               i_valid I s' = true /\ i_key I s' = k /\ i_value I s' = v).
  Proof.
    intros prev srcs. induction srcs as [|s r IH]; intros i b j k v E.
    - cbn [pass1 snd] in E. left. exact E.
    - rewrite pass1_unfold in E. cbn [snd] in E. apply IH in E. destruct E as [E|(Hle & s' & Hn & Hv)].
      + unfold upd in E. destruct (i_valid I (adv1 prev s)) eqn:V; [|left; exact E].
        assert (Here : Some (i, i_key I (adv1 prev s), i_value I (adv1 prev s)) = Some (j, k, v) ->
                       (i <= j)%nat /\ exists s', nth_error (map (adv1 prev) (s :: r)) (j - i) = Some s' /\
                               i_valid I s' = true /\ i_key I s' = k /\ i_value I s' = v).
        { intros Q. injection Q as <- <- <-. split; [lia|]. exists (adv1 prev s).
          rewrite Nat.sub_diag. cbn [map nth_error]. auto. }
        destruct b as [[[j0 bk] bv]|].
        * destruct (blt (i_key I (adv1 prev s)) bk); [right; apply Here; exact E|left; exact E].
        * right. apply Here. exact E.
      + right. split; [lia|]. exists s'. split; [|exact Hv].
        replace (j - i)%nat with (Datatypes.S (j - Datatypes.S i)) by lia. cbn [map nth_error]. exact Hn.
  Qed.

  (* ---------- second pass ---------- *)
  (* value of the first source that stands on key k *)
  Fixpoint fv (k : bytes) (srcs : list S) : option (option bytes) :=
    match srcs with
    | [] => None
    | s :: r => if i_valid I s && beq (i_key I s) k then Some (i_value I s) else fv k r
    end.

  Lemma pass2_first : forall srcs j k sj, nth_error srcs j = Some sj ->
    i_valid I sj = true -> i_key I sj = k ->
    Some (pass2 I srcs j k (i_value I sj)) = fv k srcs.
  Proof.
    induction srcs as [|s r IH]; intros j k sj Hn V K; [destruct j; discriminate|].
    destruct j as [|j]; cbn [nth_error] in Hn.
    - injection Hn as ->. cbn [pass2 fv]. rewrite V, K, beq_refl. reflexivity.
    - cbn [pass2 fv]. destruct (i_valid I s && beq (i_key I s) k); [reflexivity|].
      apply (IH j k sj Hn V K).
  Qed.

  Lemma fv_fh : forall k srcs, Forall ok srcs -> fv k srcs = fh k (map rest srcs).
  Proof.
    intros k srcs H. induction H as [|s r Hs Hr IH]; [reflexivity|]. cbn [fv map fh].
    pose proof (cand_ohd s Hs) as C. unfold cand in C. destruct (i_valid I s) eqn:V.
    - destruct (rest s) as [|x c]; [discriminate|]. cbn [ohd] in C. injection C as C.
      assert (K : i_key I s = fst x) by (rewrite <- C; reflexivity).
      assert (W : i_value I s = snd x) by (rewrite <- C; reflexivity).
      rewrite K, W. cbn [andb hmatch]. destruct (beq (fst x) k); [reflexivity|exact IH].
    - destruct (rest s); [|discriminate]. cbn [andb hmatch]. exact IH.
  Qed.

  (* ---------- findNextUniqueKey ---------- *)
  Lemma find_next_spec : forall h prev, Forall ok (h_srcs h) ->
    let srcs' := map (adv1 prev) (h_srcs h) in
    find_next I h prev =
    match hmin (map rest srcs') with
    | Some x => (mkH srcs' true (fst x) (snd x), true)
    | None => (mkH srcs' false (h_key h) (h_val h), false)
    end.
  Proof.
    intros h prev H srcs'. unfold find_next.
    destruct (pass1 I prev (h_srcs h) 0 None) as [sr b] eqn:P.
    assert (Es : sr = srcs') by (pose proof (pass1_srcs prev (h_srcs h) 0 None) as Q; rewrite P in Q; exact Q).
    destruct (Forall_adv1 prev (h_srcs h) H) as (Hok' & _ & _). fold srcs' in Hok'.
    pose proof (pass1_kv prev (h_srcs h) 0 None) as Kv. rewrite P in Kv. cbn [snd kv_of_best bmin] in Kv.
    fold srcs' in Kv. rewrite (map_cand_ohd srcs' Hok'), <- hmin_cmin in Kv.
    subst sr. unfold settle. destruct b as [[[j k] v]|]; cbn [kv_of_best] in Kv.
    - rewrite <- Kv. cbn [fst snd].
      pose proof (pass1_idx prev (h_srcs h) 0 None j k v) as Ix. rewrite P in Ix. cbn [snd] in Ix.
      destruct (Ix eq_refl) as [Q|(_ & s' & Hn & V & K & W)]; [discriminate|].
      rewrite Nat.sub_0_r in Hn. fold srcs' in Hn.
      pose proof (pass2_first srcs' j k s' Hn V K) as P2. rewrite W in P2.
      rewrite (fv_fh k srcs' Hok') in P2.
      pose proof (hmin_fh (map rest srcs') (k, v) (eq_sym Kv)) as F. cbn [fst snd] in F.
      rewrite F in P2. injection P2 as ->. reflexivity.
    - rewrite <- Kv. reflexivity.
  Qed.

  Lemma adv1_none : forall s, adv1 None s = s.
  Proof. intros s. unfold adv1. destruct (i_valid I s); reflexivity. Qed.

  Lemma map_adv1_none : forall srcs, map (adv1 None) srcs = srcs.
  Proof. induction srcs as [|s r IH]; [reflexivity|]. cbn [map]. rewrite adv1_none, IH. reflexivity. Qed.

  (* ---------- what a hierarchical iterator state denotes ---------- *)
  Definition h_contents (h : hier S) : list (list kv) := map content (h_srcs h).
  Definition hier_content (h : hier S) : list kv := merge_view (h_contents h).
  Definition hier_rest (h : hier S) : list kv :=
    if h_valid h
    then (h_key h, h_val h) :: merge_view (map (from_gt (h_key h)) (h_contents h))
    else [].
  (* a source has not moved past anything greater than the current key *)
  Definition src_inv (k : bytes) (s : S) : Prop := from_gt k (rest s) = from_gt k (content s).
  Definition hier_ok (h : hier S) : Prop :=
    Forall ok (h_srcs h) /\
    (h_valid h = true ->
       Forall (src_inv (h_key h)) (h_srcs h) /\ exists pre, hier_content h = pre ++ hier_rest h).

  Lemma contents_sorted : forall srcs, Forall ok srcs -> Forall ksorted (map content srcs).
  Proof.
    intros srcs H. induction H as [|s r Hs Hr IH]; cbn [map]; constructor; [|exact IH].
    apply (L_sorted _ _ _ _ L s Hs).
  Qed.

  Lemma src_inv_map : forall k srcs, Forall (src_inv k) srcs ->
    map (from_gt k) (map rest srcs) = map (from_gt k) (map content srcs).
  Proof.
    intros k srcs H. induction H as [|s r Hs Hr IH]; [reflexivity|]. cbn [map]. rewrite Hs, IH. reflexivity.
  Qed.

  Lemma map_from_gt_from_gt : forall k k' cs, blt k k' = false ->
    map (from_gt k) (map (from_gt k') cs) = map (from_gt k) cs.
  Proof.
    intros k k' cs H. rewrite map_map. apply map_ext. intros c. apply from_gt_from_gt. exact H.
  Qed.

  Lemma map_from_gt_from_ge : forall k t cs, blt k t = false ->
    map (from_gt k) (map (from_ge t) cs) = map (from_gt k) cs.
  Proof.
    intros k t cs H. rewrite map_map. apply map_ext. intros c. apply from_gt_from_ge. exact H.
  Qed.

  Lemma hmin_from_gt_gt : forall k cs x, Forall ksorted cs -> hmin (map (from_gt k) cs) = Some x ->
    blt k (fst x) = true.
  Proof.
    intros k cs x Hs E. destruct (hmin_in _ _ E) as (c & Hc & Ho).
    apply in_map_iff in Hc. destruct Hc as (c0 & <- & Hc0).
    rewrite Forall_forall in Hs. pose proof (from_gt_all k c0 (Hs c0 Hc0)) as F.
    destruct (from_gt k c0) as [|y r]; [discriminate|]. cbn [ohd] in Ho. injection Ho as <-.
    inversion F; assumption.
  Qed.

  Lemma hmin_from_ge_ge : forall t cs x, Forall ksorted cs -> hmin (map (from_ge t) cs) = Some x ->
    blt (fst x) t = false.
  Proof.
    intros t cs x Hs E. destruct (hmin_in _ _ E) as (c & Hc & Ho).
    apply in_map_iff in Hc. destruct Hc as (c0 & <- & Hc0).
    rewrite Forall_forall in Hs. pose proof (from_ge_all t c0 (Hs c0 Hc0)) as F.
    destruct (from_ge t c0) as [|y r]; [discriminate|]. cbn [ohd] in Ho. injection Ho as <-.
    inversion F; assumption.
  Qed.

  Lemma fuel_sum : forall srcs, Forall ok srcs ->
    (total_len (map content srcs) <= fold_right (fun s n => (i_fuel I s + n)%nat) O srcs)%nat.
  Proof.
    intros srcs H. induction H as [|s r Hs Hr IH]; cbn [map total_len fold_right]; [lia|].
    fold (total_len (map content r)). pose proof (L_fuel _ _ _ _ L s Hs). lia.
  Qed.

  (* ---------- Seek ---------- *)
  Definition cand_ge (t : bytes) (s : S) : option kv :=
    if i_valid I s && negb (blt (i_key I s) t) then Some (i_key I s, i_value I s) else None.

  Definition upd' (i : nat) (b : best) (c : option kv) : best :=
    match c with
    | Some (k, v) => match b with
                     | None => Some (i, k, v)
                     | Some (_, bk, _) => if blt k bk then Some (i, k, v) else b
                     end
    | None => b
    end.

  Lemma seek_pass_unfold : forall t s r i b,
    seek_pass I t (s :: r) i b = seek_pass I t r (Datatypes.S i) (upd' i b (cand_ge t s)).
  Proof.
    intros. cbn [seek_pass]. unfold upd', cand_ge.
    destruct (i_valid I s && negb (blt (i_key I s) t)); reflexivity.
  Qed.

  Lemma upd'_kv : forall i b c, kv_of_best (upd' i b c) = bmin (kv_of_best b) c.
  Proof.
    intros i b [[k v]|]; unfold upd'.
    - destruct b as [[[j bk] bv]|]; cbn [kv_of_best bmin fst]; [|reflexivity].
      destruct (blt k bk); reflexivity.
    - destruct b as [[[j bk] bv]|]; reflexivity.
  Qed.

  Lemma seek_pass_kv : forall t srcs i b,
    kv_of_best (seek_pass I t srcs i b) = bmin (kv_of_best b) (cmin (map (cand_ge t) srcs)).
  Proof.
    intros t srcs. induction srcs as [|s r IH]; intros i b.
    - cbn [seek_pass map cmin]. destruct (kv_of_best b); reflexivity.
    - rewrite seek_pass_unfold. cbn [map cmin]. rewrite IH, upd'_kv, bmin_assoc. reflexivity.
  Qed.

  Lemma seek_pass_idx : forall t srcs i b j k v,
    seek_pass I t srcs i b = Some (j, k, v) ->
    b = Some (j, k, v) \/
    ((i <= j)%nat /\ exists s', nth_error srcs (j - i) = Some s' /\ cand_ge t s' = Some (k, v)).
  Proof.
    intros t srcs. induction srcs as [|s r IH]; intros i b j k v E.
    - left. exact E.
    - rewrite seek_pass_unfold in E. apply IH in E. destruct E as [E|(Hle & s' & Hn & Hc)].
      + unfold upd' in E. destruct (cand_ge t s) as [[k0 v0]|] eqn:C; [|left; exact E].
        assert (Here : Some (i, k0, v0) = Some (j, k, v) ->
                       (i <= j)%nat /\ exists s', nth_error (s :: r) (j - i) = Some s' /\ cand_ge t s' = Some (k, v)).
        { intros Q. injection Q as <- <- <-. split; [lia|]. exists s. rewrite Nat.sub_diag. auto. }
        destruct b as [[[j0 bk] bv]|].
        * destruct (blt k0 bk); [right; apply Here; exact E|left; exact E].
        * right. apply Here. exact E.
      + right. split; [lia|]. exists s'. split; [|exact Hc].
        replace (j - i)%nat with (Datatypes.S (j - Datatypes.S i)) by lia. exact Hn.
  Qed.

  (* after every source has sought t: the part of a source at or behind t *)
  Definition sought (t : bytes) (s s' : S) : Prop :=
    ok s' /\ content s' = content s /\
    (rest s' = from_ge t (content s) \/ (from_ge t (content s) = [] /\ rest s' = rest s)).

  Lemma seek_sources : forall t srcs, Forall ok srcs ->
    Forall2 (sought t) srcs (map (fun s => fst (i_seek I t s)) srcs).
  Proof.
    intros t srcs H. induction H as [|s r Hs Hr IH]; cbn [map]; constructor; [|exact IH].
    destruct (L_seek _ _ _ _ L t s Hs) as (A & B & C). unfold sought. split; [exact A|]. split; [exact B|].
    destruct C as [[C _]|(C1 & C2 & _)]; [left; exact C|right; split; assumption].
  Qed.

  Lemma sought_from_ge : forall t s s', ok s -> sought t s s' ->
    from_ge t (rest s') = from_ge t (content s).
  Proof.
    intros t s s' Hs (Hok & Hc & [E|[E1 E2]]).
    - rewrite E. apply from_ge_from_ge. apply blt_irrefl.
    - rewrite E1, E2. destruct (L_suffix _ _ _ _ L s Hs) as (pre & P).
      apply from_ge_nil_iff. apply from_ge_nil_iff in E1. rewrite P in E1.
      apply Forall_app in E1. tauto.
  Qed.

  Lemma sought_cand : forall t s s', ok s -> sought t s s' ->
    cand_ge t s' = ohd (from_ge t (content s)).
  Proof.
    intros t s s' Hs (Hok & Hc & D). unfold cand_ge.
    pose proof (cand_ohd s' Hok) as C. unfold cand in C.
    destruct (i_valid I s') eqn:V; cbn [andb].
    - destruct (rest s') as [|x r] eqn:R; [discriminate|]. cbn [ohd] in C. injection C as C.
      assert (K : i_key I s' = fst x) by (rewrite <- C; reflexivity).
      assert (W : i_value I s' = snd x) by (rewrite <- C; reflexivity). rewrite K, W.
      destruct D as [E|[E1 E2]].
      + pose proof (from_ge_all t (content s) (L_sorted _ _ _ _ L s Hs)) as F.
        rewrite <- E in F. pose proof (Forall_inv F) as B. cbn beta in B. rewrite B. cbn [negb].
        rewrite <- E. destruct x; reflexivity.
      + rewrite E1. cbn [ohd]. destruct (L_suffix _ _ _ _ L s Hs) as (pre & P).
        apply from_ge_nil_iff in E1. rewrite P, <- E2 in E1. apply Forall_app in E1. destruct E1 as [_ E1].
        pose proof (Forall_inv E1) as B. cbn beta in B. rewrite B. reflexivity.
    - destruct (rest s') eqn:R; [|discriminate]. destruct D as [E|[E1 E2]].
      + rewrite <- E. reflexivity.
      + rewrite E1. reflexivity.
  Qed.

  Lemma sought_hmatch : forall t k s s', ok s -> sought t s s' -> blt k t = false ->
    hmatch k (rest s') = hmatch k (from_ge t (content s)).
  Proof.
    intros t k s s' Hs (Hok & Hc & D) Hk. destruct D as [E|[E1 E2]]; [rewrite E; reflexivity|].
    rewrite E1. cbn [hmatch]. destruct (rest s') as [|x r] eqn:R; [reflexivity|]. cbn [hmatch].
    destruct (L_suffix _ _ _ _ L s Hs) as (pre & P).
    apply from_ge_nil_iff in E1. rewrite P, <- E2 in E1. apply Forall_app in E1. destruct E1 as [_ E1].
    pose proof (Forall_inv E1) as B. cbn beta in B.
    rewrite (beq_false_lt _ _ (lt_le_trans _ _ _ B Hk)). reflexivity.
  Qed.

  Lemma sought_inv : forall t k s s', ok s -> sought t s s' -> blt k t = false -> src_inv k s'.
  Proof.
    intros t k s s' Hs Hso Hk. pose proof (sought_from_ge t s s' Hs Hso) as E.
    destruct Hso as (_ & Hc & _). unfold src_inv.
    rewrite <- (from_gt_from_ge k t (rest s') Hk), E, Hc. apply from_gt_from_ge. exact Hk.
  Qed.

  Lemma sought_all : forall t srcs srcs', Forall ok srcs -> Forall2 (sought t) srcs srcs' ->
    Forall ok srcs' /\ map content srcs' = map content srcs /\
    map (cand_ge t) srcs' = map ohd (map (from_ge t) (map content srcs)) /\
    (forall k, blt k t = false ->
       Forall2 (fun a b => hmatch k a = hmatch k b) (map rest srcs') (map (from_ge t) (map content srcs))) /\
    (forall k, blt k t = false -> Forall (src_inv k) srcs').
  Proof.
    intros t srcs srcs' Hok H. induction H as [|s s' r r' Hs Hr IH].
    - repeat split; intros; constructor.
    - inversion Hok as [|? ? Hs0 Hr0]; subst. destruct (IH Hr0) as (A & B & C & D & E).
      pose proof Hs as (Hs1 & Hs2 & _). split; [constructor; assumption|]. cbn [map].
      split; [congruence|]. split; [rewrite (sought_cand t s s' Hs0 Hs), C; reflexivity|]. split.
      + intros k Hk. constructor; [apply (sought_hmatch t k s s' Hs0 Hs Hk)|apply D; exact Hk].
      + intros k Hk. constructor; [apply (sought_inv t k s s' Hs0 Hs Hk)|apply E; exact Hk].
  Qed.

  Lemma cand_ge_some : forall t s k v, cand_ge t s = Some (k, v) ->
    i_valid I s = true /\ i_key I s = k /\ i_value I s = v.
  Proof.
    intros t s k v. unfold cand_ge. destruct (i_valid I s); cbn [andb]; [|discriminate].
    destruct (negb (blt (i_key I s) t)); [|discriminate]. intros E. injection E as <- <-. auto.
  Qed.

  Lemma hier_seek_spec : forall t h, Forall ok (h_srcs h) ->
    let srcs' := map (fun s => fst (i_seek I t s)) (h_srcs h) in
    hier_seek I t h =
    match hmin (map (from_ge t) (h_contents h)) with
    | Some x => (mkH srcs' true (fst x) (snd x), true)
    | None => (mkH srcs' false (h_key h) (h_val h), false)
    end.
  Proof.
    intros t h H srcs'. unfold hier_seek. fold srcs'.
    destruct (sought_all t (h_srcs h) srcs' H (seek_sources t (h_srcs h) H)) as (Hok' & _ & Hc & Hm & _).
    pose proof (seek_pass_kv t srcs' 0 None) as Kv. cbn [kv_of_best bmin] in Kv.
    rewrite Hc, <- hmin_cmin in Kv. fold (h_contents h) in Kv.
    unfold settle. destruct (seek_pass I t srcs' 0 None) as [[[j k] v]|] eqn:P; cbn [kv_of_best] in Kv.
    - rewrite <- Kv. cbn [fst snd].
      destruct (seek_pass_idx t srcs' 0 None j k v P) as [Q|(_ & s' & Hn & Cg)]; [discriminate|].
      rewrite Nat.sub_0_r in Hn. apply cand_ge_some in Cg. destruct Cg as (V & K & W).
      pose proof (pass2_first srcs' j k s' Hn V K) as P2. rewrite W in P2.
      rewrite (fv_fh k srcs' Hok') in P2.
      assert (Hk : blt k t = false).
      { apply (hmin_from_ge_ge t (h_contents h) (k, v)); [apply contents_sorted; exact H|symmetry; exact Kv]. }
      rewrite (fh_ext k _ _ (Hm k Hk)) in P2. fold (h_contents h) in P2.
      pose proof (hmin_fh _ (k, v) (eq_sym Kv)) as F. cbn [fst snd] in F.
      rewrite F in P2. injection P2 as ->. reflexivity.
    - rewrite <- Kv. reflexivity.
  Qed.

  (* ---------- SeekToLast ---------- *)
  Definition bmax (a b : option kv) : option kv :=
    match a, b with
    | None, m => m
    | Some x, None => Some x
    | Some x, Some y => if blt (fst x) (fst y) then Some y else Some x
    end.

  Fixpoint cmax (l : list (option kv)) : option kv :=
    match l with [] => None | a :: r => bmax a (cmax r) end.

  Lemma bmax_assoc : forall a b c, bmax (bmax a b) c = bmax a (bmax b c).
  Proof.
    intros [x|] [y|] [z|]; cbn [bmax]; try reflexivity.
    - destruct (blt (fst x) (fst y)) eqn:Bxy; destruct (blt (fst y) (fst z)) eqn:Byz; cbn [bmax].
      + rewrite Byz. rewrite (blt_trans _ _ _ Bxy Byz). reflexivity.
      + rewrite Byz, Bxy. reflexivity.
      + destruct (blt (fst x) (fst z)) eqn:Bxz; reflexivity.
      + rewrite Bxy. destruct (blt (fst x) (fst z)) eqn:Bxz; [|reflexivity].
        pose proof (le_lt_trans _ _ _ Bxy Bxz) as C. congruence.
    - destruct (blt (fst x) (fst y)); reflexivity.
  Qed.

  Lemma last_pass_kv : forall srcs b, last_pass I srcs b = bmax b (cmax (map cand srcs)).
  Proof.
    induction srcs as [|s r IH]; intros b.
    - cbn [last_pass map cmax]. destruct b; reflexivity.
    - cbn [last_pass map cmax]. rewrite IH, <- bmax_assoc. f_equal.
      unfold cand. destruct (i_valid I s); [|destruct b; reflexivity].
      destruct b as [[bk bv]|]; cbn [bmax fst]; [|reflexivity].
      destruct (blt bk (i_key I s)); reflexivity.
  Qed.

  Lemma cmax_fh : forall cs x, cmax (map ohd cs) = Some x -> fh (fst x) cs = Some (snd x).
  Proof.
    induction cs as [|c r IH]; intros x E; [discriminate|]. cbn [map cmax] in E. cbn [fh].
    destruct c as [|z c]; cbn [ohd bmax hmatch] in *; [apply IH; exact E|].
    destruct (cmax (map ohd r)) as [w|].
    - destruct (blt (fst z) (fst w)) eqn:B; injection E as <-.
      + rewrite (beq_false_lt _ _ B). apply IH. reflexivity.
      + rewrite beq_refl. reflexivity.
    - injection E as <-. rewrite beq_refl. reflexivity.
  Qed.

  Lemma cmax_ge : forall cs x, cmax (map ohd cs) = Some x ->
    forall c y, In c cs -> ohd c = Some y -> blt (fst x) (fst y) = false.
  Proof.
    induction cs as [|c r IH]; intros x E c' y Hc Hy; [destruct Hc|]. cbn [map cmax] in E.
    destruct Hc as [<-|Hc].
    - rewrite Hy in E. cbn [bmax] in E. destruct (cmax (map ohd r)) as [w|].
      + destruct (blt (fst y) (fst w)) eqn:B; injection E as <-; [apply blt_asym; exact B|apply blt_irrefl].
      + injection E as <-. apply blt_irrefl.
    - destruct (ohd c) as [z|]; cbn [bmax] in E.
      + destruct (cmax (map ohd r)) as [w|] eqn:W.
        * specialize (IH w eq_refl c' y Hc Hy).
          destruct (blt (fst z) (fst w)) eqn:B; injection E as <-; [exact IH|].
          destruct (blt (fst z) (fst y)) eqn:C; [|reflexivity].
          pose proof (lt_le_trans _ _ _ C IH). congruence.
        * exfalso. clear - W Hc Hy. induction r as [|c0 r IHr]; [destruct Hc|].
          cbn [map cmax] in W. destruct Hc as [<-|Hc].
          -- rewrite Hy in W. cbn [bmax] in W. destruct (cmax (map ohd r)) as [w|]; [destruct (blt (fst y) (fst w))|]; discriminate.
          -- destruct (ohd c0); cbn [bmax] in W; [destruct (cmax (map ohd r)) as [w|]; [destruct (blt (fst k) (fst w))|]; discriminate|].
             apply IHr; assumption.
      + apply (IH x E c' y Hc Hy).
  Qed.

  Lemma cmax_none : forall cs, cmax (map ohd cs) = None -> Forall (fun c => c = []) cs.
  Proof.
    induction cs as [|c r IH]; intros E; [constructor|]. cbn [map cmax] in E.
    destruct c as [|z c]; cbn [ohd bmax] in E.
    - constructor; [reflexivity|apply IH; exact E].
    - destruct (cmax (map ohd r)) as [w|]; [destruct (blt (fst z) (fst w))|]; discriminate.
  Qed.

  Lemma last_suffix_snoc : forall pre x, last_suffix (pre ++ [x]) = [x].
  Proof.
    induction pre as [|y pre IH]; intros x; [reflexivity|].
    cbn [app last_suffix]. destruct (pre ++ [x]) eqn:P; [destruct pre; discriminate|].
    rewrite <- P. apply IH.
  Qed.

  (* with all keys <= k, reading k from a sorted list = looking at where SeekToLast stands *)
  Lemma lookup_last_run : forall k c, ksorted c -> (forall y, In y c -> blt k (fst y) = false) ->
    lookup k c = hmatch k (last_run c).
  Proof.
    intros k c Hs Hmax. destruct c as [|c0 c'] eqn:Ec; [reflexivity|]. rewrite <- Ec in *.
    destruct (last_run_spec c Hs ltac:(rewrite Ec; discriminate)) as (z & r & E & Hz & Hm & Lk).
    rewrite E. cbn [hmatch]. destruct (beq (fst z) k) eqn:B.
    - apply beq_true_iff in B. rewrite <- B. exact Lk.
    - apply lookup_none_iff. intros y Hy Ey. apply beq_false_iff in B. apply B.
      apply le_antisym; [rewrite <- Ey; apply Hm; exact Hy|apply Hmax; exact Hz].
  Qed.

  Lemma first_val_last_run : forall k cs, Forall ksorted cs ->
    (forall c y, In c cs -> In y c -> blt k (fst y) = false) ->
    first_val k cs = fh k (map last_run cs).
  Proof.
    intros k cs H. induction H as [|c r Hc Hr IH]; intros Hmax; [reflexivity|].
    cbn [first_val map fh]. rewrite (lookup_last_run k c Hc) by (intros y Hy; apply (Hmax c y); [left; reflexivity|exact Hy]).
    rewrite IH by (intros c' y Hc' Hy; apply (Hmax c' y); [right; exact Hc'|exact Hy]). reflexivity.
  Qed.

  Lemma last_sources : forall srcs, Forall ok srcs ->
    Forall ok (map (i_last I) srcs) /\ map content (map (i_last I) srcs) = map content srcs /\
    map rest (map (i_last I) srcs) = map last_run (map content srcs).
  Proof.
    intros srcs H. induction H as [|s r Hs Hr IH]; cbn [map]; [repeat split; constructor|].
    destruct (L_last _ _ _ _ L s Hs) as (A1 & A2 & A3). destruct IH as (B1 & B2 & B3).
    split; [constructor; assumption|]. split; congruence.
  Qed.

  Lemma first_sources : forall srcs, Forall ok srcs ->
    Forall ok (map (i_first I) srcs) /\ map content (map (i_first I) srcs) = map content srcs /\
    map rest (map (i_first I) srcs) = map content srcs.
  Proof.
    intros srcs H. induction H as [|s r Hs Hr IH]; cbn [map]; [repeat split; constructor|].
    destruct (L_first _ _ _ _ L s Hs) as (A1 & A2 & A3). destruct IH as (B1 & B2 & B3).
    split; [constructor; assumption|]. split; congruence.
  Qed.

  Lemma hier_last_spec : forall h, Forall ok (h_srcs h) ->
    let srcs' := map (i_last I) (h_srcs h) in
    hier_last I h =
    match cmax (map ohd (map last_run (h_contents h))) with
    | Some x => mkH srcs' true (fst x) (snd x)
    | None => mkH srcs' false (h_key h) (h_val h)
    end.
  Proof.
    intros h H srcs'. unfold hier_last. fold srcs'.
    destruct (last_sources (h_srcs h) H) as (Hok' & _ & Hr). fold srcs' in Hok', Hr.
    rewrite last_pass_kv. cbn [bmax]. rewrite (map_cand_ohd srcs' Hok'), Hr. fold (h_contents h).
    destruct (cmax (map ohd (map last_run (h_contents h)))) as [[k v]|]; reflexivity.
  Qed.

  (* a strictly ascending list that has nothing behind one of its entries ends with it *)
  Lemma kstrict_ends : forall l x, kstrict l -> In x l -> from_gt (fst x) l = [] ->
    exists pre, l = pre ++ [x].
  Proof.
    intros l x Hs Hin E. apply in_split in Hin. destruct Hin as (pre & post & ->).
    exists pre. f_equal. destruct post as [|y post]; [reflexivity|exfalso].
    apply from_gt_nil_iff in E. rewrite Forall_forall in E.
    assert (Hy : In y (pre ++ x :: y :: post)) by (apply in_or_app; right; right; left; reflexivity).
    specialize (E y Hy).
    assert (Hxy : klt x y).
    { clear - Hs. induction pre as [|p pre IH]; cbn [app] in Hs.
      - inversion Hs as [|? ? _ F]; subst. inversion F; assumption.
      - apply IH. inversion Hs; assumption. }
    unfold klt in Hxy. congruence.
  Qed.

  Theorem hier_lawful : Lawful (hier_iter I) hier_ok hier_content hier_rest.
  Proof.
    constructor; cbn [hier_iter i_first i_seek i_next i_last i_valid i_key i_value i_tomb i_fuel].
    - (* sorted *)
      intros h (H & _). apply kstrict_ksorted. apply merge_view_strict. apply contents_sorted. exact H.
    - (* suffix *)
      intros h (H & Hv). unfold hier_rest in *. destruct (h_valid h) eqn:V.
      + destruct (Hv eq_refl) as (_ & pre & E). exists pre. exact E.
      + exists (hier_content h). symmetry. apply app_nil_r.
    - (* fuel *)
      intros h (H & _). unfold hier_content, h_contents.
      pose proof (merge_view_length (map content (h_srcs h))). pose proof (fuel_sum (h_srcs h) H). lia.
    - (* valid *)
      intros h _. unfold hier_rest. destruct (h_valid h); reflexivity.
    - intros h _ V. unfold hier_rest. rewrite V. reflexivity.
    - intros h _ V. unfold hier_rest. rewrite V. reflexivity.
    - intros h _ V. unfold hier_rest. rewrite V. cbn [andb hd_val]. destruct (h_val h); reflexivity.
    - (* SeekToFirst *)
      intros h (H & _). unfold hier_first.
      destruct (first_sources (h_srcs h) H) as (Hok1 & Hc1 & Hr1).
      set (h1 := mkH (map (i_first I) (h_srcs h)) (h_valid h) (h_key h) (h_val h)).
      rewrite (find_next_spec h1 None Hok1). cbn [h_srcs h1]. rewrite map_adv1_none, Hr1.
      fold (h_contents h).
      assert (Hsort : Forall ksorted (h_contents h)) by (apply contents_sorted; exact H).
      destruct (hmin (h_contents h)) as [[kx vx]|] eqn:Hm; cbn [fst snd].
      + unfold hier_ok, hier_content, hier_rest, h_contents. cbn [h_srcs h_valid h_key h_val].
        rewrite Hc1. fold (h_contents h). rewrite (merge_view_step _ _ Hm). cbn [fst].
        split; [|split; reflexivity]. split; [exact Hok1|]. intros _. split.
        * rewrite Forall_forall. intros s' Hs'. unfold src_inv.
          assert (E : rest s' = content s').
          { clear - Hr1 Hc1 Hs'. rewrite <- Hc1 in Hr1. revert Hr1 Hs'.
            generalize (map (i_first I) (h_srcs h)) as l. induction l as [|a l IH]; intros E [].
            - subst. cbn [map] in E. injection E as E _. exact E.
            - cbn [map] in E. injection E as _ E. apply IH; assumption. }
          rewrite E. reflexivity.
        * exists []. reflexivity.
      + unfold hier_ok, hier_content, hier_rest, h_contents. cbn [h_srcs h_valid h_key h_val].
        rewrite Hc1. fold (h_contents h). rewrite (merge_view_nil _ Hm).
        split; [|split; reflexivity]. split; [exact Hok1|discriminate].
    - (* Next *)
      intros h (H & Hv) V. specialize (Hv V). destruct Hv as (Hinv & pre & Epre).
      unfold hier_next. rewrite V. rewrite (find_next_spec h (Some (h_key h)) H).
      destruct (Forall_adv1 (Some (h_key h)) (h_srcs h) H) as (Hok' & Hc' & Hr').
      change (drop_prev (Some (h_key h))) with (from_gt (h_key h)) in Hr'. rewrite (src_inv_map _ _ Hinv) in Hr'. rewrite Hr'. fold (h_contents h).
      assert (Hsort : Forall ksorted (h_contents h)) by (apply contents_sorted; exact H).
      idtac.
      destruct (hmin (map (from_gt (h_key h)) (h_contents h))) as [[kx vx]|] eqn:Hm; cbn [fst snd].
      + pose proof (hmin_from_gt_gt _ _ _ Hsort Hm) as Hgt. cbn [fst] in Hgt.
        pose proof (merge_view_step _ _ Hm) as Step. cbn [fst] in Step.
        rewrite (map_from_gt_from_gt kx (h_key h) (h_contents h) (blt_asym _ _ Hgt)) in Step.
        unfold hier_ok, hier_content, hier_rest, h_contents. cbn [h_srcs h_valid h_key h_val].
        rewrite Hc'. fold (h_contents h). rewrite Step, V. cbn [tl].
        split; [|split; [reflexivity|split; reflexivity]]. split; [exact Hok'|]. intros _. split.
        * (* every source now stands exactly behind the previous key *)
          rewrite Forall_forall. intros s' Hs'. unfold src_inv.
          assert (E : rest s' = from_gt (h_key h) (content s')).
          { clear - Hr' Hc' Hs'. unfold h_contents in Hr'. rewrite <- Hc' in Hr'. revert Hr' Hs'.
            generalize (map (adv1 (Some (h_key h))) (h_srcs h)) as l. induction l as [|a l IH]; intros E [].
            - subst. cbn [map] in E. injection E as E _. exact E.
            - cbn [map] in E. injection E as _ E. apply IH; assumption. }
          rewrite E. apply from_gt_from_gt. apply blt_asym. exact Hgt.
        * unfold hier_content, hier_rest in Epre. rewrite V in Epre. fold (h_contents h) in Epre.
          rewrite Step in Epre.
          exists (pre ++ [(h_key h, h_val h)]). rewrite <- app_assoc. cbn [app]. exact Epre.
      + unfold hier_ok, hier_content, hier_rest, h_contents. cbn [h_srcs h_valid h_key h_val].
        rewrite Hc'. fold (h_contents h). rewrite (merge_view_nil _ Hm), V. cbn [tl].
        split; [|split; [reflexivity|split; reflexivity]]. split; [exact Hok'|discriminate].
    - (* Seek *)
      intros t h (H & _). rewrite (hier_seek_spec t h H).
      destruct (sought_all t (h_srcs h) _ H (seek_sources t (h_srcs h) H)) as (Hok' & Hc' & _ & _ & Hinv').
      assert (Hsort : Forall ksorted (h_contents h)) by (apply contents_sorted; exact H).
      pose proof (merge_view_from_ge t (h_contents h) Hsort) as Fg. fold (hier_content h) in Fg.
      destruct (hmin (map (from_ge t) (h_contents h))) as [[kx vx]|] eqn:Hm; cbn [fst snd].
      + pose proof (hmin_from_ge_ge _ _ _ Hsort Hm) as Hge. cbn [fst] in Hge.
        pose proof (merge_view_step _ _ Hm) as Step. cbn [fst] in Step.
        rewrite (map_from_gt_from_ge kx t (h_contents h) Hge) in Step.
        unfold hier_ok, hier_content, hier_rest, h_contents. cbn [h_srcs h_valid h_key h_val].
        rewrite Hc'. fold (h_contents h). fold (hier_content h). rewrite Fg, Step.
        split; [|split; [reflexivity|left; split; reflexivity]]. split; [exact Hok'|]. intros _.
        split; [apply Hinv'; exact Hge|].
        destruct (from_ge_split t (hier_content h)) as (pre & E & _). exists pre.
        rewrite Fg, Step in E. exact E.
      + unfold hier_ok, hier_content, hier_rest, h_contents. cbn [h_srcs h_valid h_key h_val].
        rewrite Hc'. fold (h_contents h). fold (hier_content h). rewrite Fg, (merge_view_nil _ Hm).
        split; [|split; [reflexivity|left; split; reflexivity]]. split; [exact Hok'|discriminate].
    - (* SeekToLast *)
      intros h (H & _). rewrite (hier_last_spec h H).
      destruct (last_sources (h_srcs h) H) as (Hok' & Hc' & Hr').
      assert (Hsort : Forall ksorted (h_contents h)) by (apply contents_sorted; exact H).
      pose proof (merge_view_strict _ Hsort) as Hst.
      destruct (cmax (map ohd (map last_run (h_contents h)))) as [[kx vx]|] eqn:Hm; cbn [fst snd].
      + (* kx is the greatest key of the stack *)
        assert (Hmax : forall c y, In c (h_contents h) -> In y c -> blt kx (fst y) = false).
        { intros c y Hc Hy. rewrite Forall_forall in Hsort.
          destruct (last_run_spec c (Hsort c Hc) ltac:(intros ->; destruct Hy)) as (z & r & E & _ & Hz & _).
          pose proof (cmax_ge _ _ Hm (last_run c) z (in_map last_run _ _ Hc) ltac:(rewrite E; reflexivity)) as G.
          cbn [fst] in G. eapply le_trans; [apply (Hz y Hy)|exact G]. }
        pose proof (cmax_fh _ _ Hm) as Fh. cbn [fst snd] in Fh.
        rewrite <- (first_val_last_run kx (h_contents h) Hsort Hmax) in Fh.
        apply (merge_view_in _ _ _ Hsort) in Fh.
        assert (Hnil : map (from_gt kx) (h_contents h) = map (fun _ => []) (h_contents h)).
        { apply map_ext_in. intros c Hc. apply from_gt_nil_iff. rewrite Forall_forall. intros y Hy.
          apply (Hmax c y Hc Hy). }
        assert (Hmv : merge_view (map (from_gt kx) (h_contents h)) = []).
        { apply merge_view_nil. apply hmin_none_iff. rewrite Hnil. rewrite Forall_forall.
          intros c Hc. apply in_map_iff in Hc. destruct Hc as (? & <- & _). reflexivity. }
        pose proof (merge_view_from_gt kx (h_contents h) Hsort) as Fg. rewrite Hmv in Fg.
        destruct (kstrict_ends _ (kx, vx) Hst Fh Fg) as (pre & Epre).
        unfold hier_ok, hier_content, hier_rest, h_contents. cbn [h_srcs h_valid h_key h_val].
        rewrite Hc'. fold (h_contents h). rewrite Hmv.
        split; [|split; [reflexivity|]].
        * split; [exact Hok'|]. intros _. split; [|exists pre; exact Epre].
          rewrite Forall_forall. intros s' Hs'. unfold src_inv.
          assert (Hc1 : In (content s') (h_contents h)).
          { unfold h_contents. rewrite <- Hc'. apply in_map. exact Hs'. }
          rewrite Forall_forall in Hok'. specialize (Hok' s' Hs').
          destruct (L_suffix _ _ _ _ L s' Hok') as (p & Ep).
          assert (E2 : from_gt kx (content s') = []).
          { apply from_gt_nil_iff. rewrite Forall_forall. intros y Hy. apply (Hmax _ y Hc1 Hy). }
          rewrite E2. apply from_gt_nil_iff. apply from_gt_nil_iff in E2. rewrite Ep in E2.
          apply Forall_app in E2. tauto.
        * rewrite Epre in Hst. rewrite Epre, (last_run_strict _ Hst).
          symmetry. apply last_suffix_snoc.
      + apply cmax_none in Hm.
        assert (Hall : Forall (fun c => c = []) (h_contents h)).
        { rewrite Forall_forall in *. intros c Hc. specialize (Hm (last_run c) (in_map last_run _ _ Hc)).
          destruct c as [|c0 c']; [reflexivity|].
          destruct (last_run_spec (c0 :: c') (Hsort _ Hc) ltac:(discriminate)) as (z & r & E & _). congruence. }
        apply hmin_none_iff in Hall.
        unfold hier_ok, hier_content, hier_rest, h_contents. cbn [h_srcs h_valid h_key h_val].
        rewrite Hc'. fold (h_contents h). rewrite (merge_view_nil _ Hall).
        split; [|split; reflexivity]. split; [exact Hok'|discriminate].
  Qed.

  (* Seek of the hierarchical iterator always repositions, whatever its sources do *)
  Theorem hier_exact : ExactSeek (hier_iter I) hier_ok hier_content hier_rest.
  Proof.
    intros t h (H & _). cbn [hier_iter i_seek]. rewrite (hier_seek_spec t h H).
    assert (Hsort : Forall ksorted (h_contents h)) by (apply contents_sorted; exact H).
    pose proof (merge_view_from_ge t (h_contents h) Hsort) as Fg. fold (hier_content h) in Fg.
    destruct (sought_all t (h_srcs h) _ H (seek_sources t (h_srcs h) H)) as (_ & Hc' & _).
    destruct (hmin (map (from_ge t) (h_contents h))) as [[kx vx]|] eqn:Hm; cbn [fst snd].
    - pose proof (hmin_from_ge_ge _ _ _ Hsort Hm) as Hge. cbn [fst] in Hge.
      pose proof (merge_view_step _ _ Hm) as Step. cbn [fst] in Step.
      rewrite (map_from_gt_from_ge kx t (h_contents h) Hge) in Step.
      unfold hier_rest, h_contents. cbn [h_srcs h_valid h_key h_val]. rewrite Hc'. fold (h_contents h).
      rewrite Fg, Step. split; reflexivity.
    - unfold hier_rest. cbn [h_valid]. rewrite Fg, (merge_view_nil _ Hm). split; reflexivity.
  Qed.
End HierLawful.

(* ------------------------------------------------------------------------------------ *)
(* Part 5: consuming a lawful iterator                                                    *)
(* ------------------------------------------------------------------------------------ *)

(* what a consumer that drops deletion markers keeps *)
Definition live (l : list kv) : list (bytes * bytes) :=
  flat_map (fun x => match snd x with Some v => [(fst x, v)] | None => [] end) l.

(* limit 0 = no limit; count = entries already sent *)
Definition take_lim (limit count : N) (l : list (bytes * bytes)) : list (bytes * bytes) :=
  if 0 <? limit then firstn (N.to_nat (limit - count)) l else l.

Section Consume.
  Context {S : Type} (I : Iter S) (ok : S -> Prop) (content rest : S -> list kv).
  Context (L : Lawful I ok content rest).

  Lemma head_facts : forall s x r, ok s -> rest s = x :: r ->
    i_valid I s = true /\ i_key I s = fst x /\ i_value I s = snd x /\ i_tomb I s = is_none (snd x).
  Proof.
    intros s x r H R.
    assert (V : i_valid I s = true) by (rewrite (L_valid _ _ _ _ L s H), R; reflexivity).
    rewrite (L_key _ _ _ _ L s H V), (L_value _ _ _ _ L s H V), (L_tomb _ _ _ _ L s H V), R.
    destruct x; auto.
  Qed.

  Lemma collect_loop_spec : forall fuel s, ok s -> (length (rest s) < fuel)%nat ->
    collect_loop I fuel s = rest s.
  Proof.
    induction fuel as [|f IH]; intros s H Hf; [lia|]. cbn [collect_loop].
    destruct (rest s) as [|x r] eqn:R.
    - rewrite (L_valid _ _ _ _ L s H), R. reflexivity.
    - destruct (head_facts s x r H R) as (V & K & W & _). rewrite V, K, W.
      destruct (L_next _ _ _ _ L s H V) as (N1 & _ & N3 & _). rewrite R in N3. cbn [tl] in N3.
      rewrite (IH _ N1) by (rewrite N3; cbn [length] in Hf; lia). rewrite N3. destruct x; reflexivity.
  Qed.

  (* everything the iterator surfaces, deletion markers included *)
  Theorem collect_spec : forall s, ok s -> collect I s = content s.
  Proof.
    intros s H. unfold collect. destruct (L_first _ _ _ _ L s H) as (F1 & F2 & F3).
    rewrite collect_loop_spec; [rewrite F3; reflexivity|exact F1|].
    pose proof (rest_length _ _ _ _ _ L _ F1). exact H0.
  Qed.

  Lemma scan_loop_spec : forall fuel limit count s, ok s -> (length (rest s) < fuel)%nat ->
    scan_loop I fuel limit count s = take_lim limit count (live (rest s)).
  Proof.
    induction fuel as [|f IH]; intros limit count s H Hf; [lia|]. cbn [scan_loop].
    destruct (rest s) as [|x r] eqn:R.
    - rewrite (L_valid _ _ _ _ L s H), R. cbn [nonempty live flat_map]. unfold take_lim.
      destruct (0 <? limit); [rewrite firstn_nil|]; reflexivity.
    - destruct (head_facts s x r H R) as (V & K & W & T). rewrite V, K, W, T.
      destruct (L_next _ _ _ _ L s H V) as (N1 & _ & N3 & _). rewrite R in N3. cbn [tl] in N3.
      assert (Hf' : (length (rest (fst (i_next I s))) < f)%nat) by (rewrite N3; cbn [length] in Hf; lia).
      unfold take_lim. destruct (0 <? limit) eqn:Lim; cbn [andb].
      + destruct (limit <=? count) eqn:Cmp.
        * apply N.leb_le in Cmp. replace (limit - count) with 0 by lia. reflexivity.
        * apply N.leb_gt in Cmp. cbn [live flat_map]. destruct (snd x) as [v|]; cbn [is_none app].
          -- rewrite (IH _ _ _ N1 Hf'), N3. unfold take_lim. rewrite Lim.
             replace (N.to_nat (limit - count)) with (Datatypes.S (N.to_nat (limit - (count + 1)))) by lia.
             reflexivity.
          -- rewrite (IH _ _ _ N1 Hf'), N3. unfold take_lim. rewrite Lim. reflexivity.
      + cbn [live flat_map]. destruct (snd x) as [v|]; cbn [is_none app].
        * rewrite (IH _ _ _ N1 Hf'), N3. unfold take_lim. rewrite Lim. reflexivity.
        * rewrite (IH _ _ _ N1 Hf'), N3. unfold take_lim. rewrite Lim. reflexivity.
  Qed.

  (* service.Scan: the live entries of the content, the first `limit` of them *)
  Theorem scan_spec : forall limit s, ok s -> scan I limit s = take_lim limit 0 (live (content s)).
  Proof.
    intros limit s H. unfold scan. destruct (L_first _ _ _ _ L s H) as (F1 & F2 & F3).
    rewrite scan_loop_spec; [rewrite F3; reflexivity|exact F1|].
    exact (rest_length _ _ _ _ _ L _ F1).
  Qed.
End Consume.

(* ------------------------------------------------------------------------------------ *)
(* Part 4a: the bounded iterator over a lawful iterator with one entry per key             *)
(* ------------------------------------------------------------------------------------ *)

Fixpoint take_hi (hi : option bytes) (l : list kv) : list kv :=
  match l with
  | [] => []
  | x :: r => if in_hi hi (fst x) then x :: take_hi hi r else []
  end.

Definition drop_lo (lo : option bytes) (l : list kv) : list kv :=
  match lo with Some a => from_ge a l | None => l end.

(* the entries with start <= key < end *)
Definition in_bounds (lo hi : option bytes) (l : list kv) : list kv := take_hi hi (drop_lo lo l).

Lemma in_hi_mono : forall hi a b, blt b a = false -> in_hi hi b = true -> in_hi hi a = true.
Proof.
  intros [e|] a b H; cbn [in_hi]; [|reflexivity]. intros B. eapply le_lt_trans; eauto.
Qed.

Lemma in_lo_mono : forall lo a b, blt b a = false -> in_lo lo a = true -> in_lo lo b = true.
Proof.
  intros [e|] a b H; cbn [in_lo]; [|reflexivity]. intros B.
  apply negb_true_iff in B. apply negb_true_iff. eapply le_trans; eauto.
Qed.

Lemma take_hi_in : forall hi l x, ksorted l ->
  (In x (take_hi hi l) <-> In x l /\ in_hi hi (fst x) = true).
Proof.
  intros hi l x. induction l as [|y r IH]; intros H; cbn [take_hi]; [split; [intros []|intros [[] _]]|].
  destruct (in_hi hi (fst y)) eqn:B.
  - cbn [In]. rewrite IH by (eapply ksorted_tl; eauto). split.
    + intros [<-|[Hx Hb]]; [split; [left; reflexivity|exact B]|split; [right; exact Hx|exact Hb]].
    + intros [[<-|Hx] Hb]; [left; reflexivity|right; split; assumption].
  - split; [intros []|]. intros [[<-|Hx] Hb]; [congruence|].
    pose proof (ksorted_hd _ _ _ H Hx) as Le. rewrite (in_hi_mono hi _ _ Le Hb) in B. discriminate.
Qed.

Lemma drop_lo_in : forall lo l x, ksorted l ->
  (In x (drop_lo lo l) <-> In x l /\ in_lo lo (fst x) = true).
Proof.
  intros [a|] l x H; cbn [drop_lo in_lo]; [|tauto].
  rewrite from_ge_in by exact H. rewrite negb_true_iff. tauto.
Qed.

Lemma take_hi_kstrict : forall hi l, kstrict l -> kstrict (take_hi hi l).
Proof.
  intros hi l. induction l as [|x r IH]; intros H; cbn [take_hi]; [constructor|].
  destruct (in_hi hi (fst x)); [|constructor]. inversion H as [|? ? Hs Hf]; subst.
  constructor; [apply IH; exact Hs|]. rewrite Forall_forall in *. intros y Hy.
  apply Hf. apply take_hi_in in Hy; [tauto|apply kstrict_ksorted; exact Hs].
Qed.

Lemma drop_lo_kstrict : forall lo l, kstrict l -> kstrict (drop_lo lo l).
Proof. intros [a|] l H; cbn [drop_lo]; [apply from_ge_kstrict|]; exact H. Qed.

Lemma in_bounds_kstrict : forall lo hi l, kstrict l -> kstrict (in_bounds lo hi l).
Proof. intros. apply take_hi_kstrict. apply drop_lo_kstrict. assumption. Qed.

Lemma in_bounds_in : forall lo hi l x, kstrict l ->
  (In x (in_bounds lo hi l) <-> In x l /\ in_lo lo (fst x) = true /\ in_hi hi (fst x) = true).
Proof.
  intros lo hi l x H. unfold in_bounds.
  rewrite take_hi_in by (apply kstrict_ksorted; apply drop_lo_kstrict; exact H).
  rewrite drop_lo_in by (apply kstrict_ksorted; exact H). tauto.
Qed.

Lemma kstrict_key_inj : forall l x y, kstrict l -> In x l -> In y l -> fst x = fst y -> x = y.
Proof.
  induction l as [|z l IH]; intros x y H Hx Hy E; [destruct Hx|].
  inversion H as [|? ? Hs Hf]; subst. rewrite Forall_forall in Hf.
  destruct Hx as [<-|Hx]; destruct Hy as [<-|Hy]; [reflexivity| | |apply IH; assumption].
  - specialize (Hf y Hy). unfold klt in Hf. rewrite E, blt_irrefl in Hf. discriminate.
  - specialize (Hf x Hx). unfold klt in Hf. rewrite E, blt_irrefl in Hf. discriminate.
Qed.

Lemma from_ge_take_hi : forall t hi l, ksorted l -> from_ge t (take_hi hi l) = take_hi hi (from_ge t l).
Proof.
  intros t hi l. induction l as [|x r IH]; intros H; [reflexivity|]. cbn [take_hi from_ge].
  destruct (blt (fst x) t) eqn:Bt.
  - destruct (in_hi hi (fst x)) eqn:Bh.
    + cbn [from_ge]. rewrite Bt. apply IH. eapply ksorted_tl; eauto.
    + cbn [from_ge]. symmetry.
      pose proof (from_ge_ksorted t r (ksorted_tl _ _ H)) as Hs.
      destruct (from_ge t r) as [|y r'] eqn:G; [reflexivity|]. cbn [take_hi].
      assert (Hy : In y r).
      { destruct (from_ge_split t r) as (p & E & _). rewrite E, G. apply in_or_app. right. left. reflexivity. }
      pose proof (ksorted_hd _ _ _ H Hy) as Le.
      destruct (in_hi hi (fst y)) eqn:By; [|reflexivity].
      rewrite (in_hi_mono hi _ _ Le By) in Bh. discriminate.
  - cbn [take_hi]. destruct (in_hi hi (fst x)); [|reflexivity]. cbn [from_ge]. rewrite Bt. reflexivity.
Qed.

Lemma from_ge_id : forall t l, ksorted l -> (forall x, In x l -> blt (fst x) t = false) -> from_ge t l = l.
Proof.
  intros t l _ H. destruct l as [|x r]; [reflexivity|]. cbn [from_ge].
  rewrite (H x (or_introl eq_refl)). reflexivity.
Qed.

Lemma from_ge_drop_lo : forall t lo l, ksorted l ->
  from_ge t (drop_lo lo l) =
  from_ge (match lo with Some a => if blt t a then a else t | None => t end) l.
Proof.
  intros t [a|] l H; cbn [drop_lo]; [|reflexivity].
  destruct (blt t a) eqn:B.
  - apply from_ge_id; [apply from_ge_ksorted; exact H|].
    intros x Hx. apply from_ge_in in Hx; [|exact H]. destruct Hx as [_ Hx].
    destruct (blt (fst x) t) eqn:C; [|reflexivity]. pose proof (blt_trans _ _ _ C B). congruence.
  - apply from_ge_from_ge. exact B.
Qed.

Section BoundedLawful.
  Context {S : Type} (I : Iter S) (ok : S -> Prop) (content rest : S -> list kv).
  Context (L : Lawful I ok content rest).
  Context (Hstrict : forall s, ok s -> kstrict (content s)).
  Context (lo hi : option bytes).

  Let BI := bounded_iter I lo hi.
  Definition b_content (s : S) : list kv := in_bounds lo hi (content s).
  Definition b_rest (s : S) : list kv := if b_check I lo hi s then take_hi hi (rest s) else [].

  Lemma rest_strict : forall s, ok s -> kstrict (rest s).
  Proof.
    intros s H. destruct (L_suffix _ _ _ _ L s H) as (pre & E). pose proof (Hstrict s H) as K.
    rewrite E in K. clear - K. induction pre as [|p pre IH]; [exact K|]. apply IH. inversion K; assumption.
  Qed.

  Lemma check_rest : forall s, ok s ->
    b_check I lo hi s = match rest s with x :: _ => in_lo lo (fst x) && in_hi hi (fst x) | [] => false end.
  Proof.
    intros s H. unfold b_check. destruct (rest s) as [|x r] eqn:R.
    - rewrite (L_valid _ _ _ _ L s H), R. reflexivity.
    - destruct (head_facts I ok content rest L s x r H R) as (V & K & _). rewrite V, K. reflexivity.
  Qed.

  (* behind the start bound the bounded view of the position is just "up to the end bound" *)
  Lemma b_rest_eq : forall s, ok s ->
    (match rest s with x :: _ => in_lo lo (fst x) = true | [] => True end) ->
    b_rest s = take_hi hi (rest s).
  Proof.
    intros s H Hlo. unfold b_rest. rewrite (check_rest s H).
    destruct (rest s) as [|x r]; [reflexivity|]. rewrite Hlo. cbn [andb take_hi].
    destruct (in_hi hi (fst x)); reflexivity.
  Qed.

  Lemma b_valid : forall s, ok s -> b_check I lo hi s = nonempty (b_rest s).
  Proof.
    intros s H. unfold b_rest. destruct (b_check I lo hi s) eqn:C; [|reflexivity].
    rewrite (check_rest s H) in C. destruct (rest s) as [|x r]; [discriminate|].
    apply andb_true_iff in C. destruct C as [_ C]. cbn [take_hi]. rewrite C. reflexivity.
  Qed.

  Lemma rest_in_content : forall s x, ok s -> In x (rest s) -> In x (content s).
  Proof.
    intros s x H Hx. destruct (L_suffix _ _ _ _ L s H) as (pre & E). rewrite E. apply in_or_app. right. exact Hx.
  Qed.

  (* the part of the bounded content at or behind t, in terms of the wrapped content *)
  Lemma b_content_from_ge : forall t s, ok s ->
    from_ge t (b_content s) =
    take_hi hi (from_ge (match lo with Some a => if blt t a then a else t | None => t end) (content s)).
  Proof.
    intros t s H. unfold b_content, in_bounds. pose proof (kstrict_ksorted _ (Hstrict s H)) as Hs.
    rewrite from_ge_take_hi by (destruct lo; cbn [drop_lo]; [apply from_ge_ksorted|]; exact Hs).
    rewrite from_ge_drop_lo by exact Hs. reflexivity.
  Qed.

  (* a repositioned wrapped iterator at or behind the start bound *)
  Lemma b_rest_after_seek : forall t' s', ok s' -> rest s' = from_ge t' (content s') ->
    in_lo lo t' = true -> b_rest s' = take_hi hi (from_ge t' (content s')).
  Proof.
    intros t' s' H E Hlo. rewrite <- E. apply b_rest_eq; [exact H|].
    destruct (rest s') as [|x r] eqn:R; [constructor|].
    pose proof (from_ge_all t' (content s') (kstrict_ksorted _ (Hstrict s' H))) as F. rewrite <- E in F.
    pose proof (Forall_inv F) as B. cbn beta in B. apply (in_lo_mono lo t' (fst x)); [|exact Hlo].
    exact B.
  Qed.


  Lemma strict_suffix_from_ge : forall pre x r, kstrict (pre ++ x :: r) ->
    from_ge (fst x) (pre ++ x :: r) = x :: r.
  Proof.
    induction pre as [|y pre IH]; intros x r H; cbn [app from_ge].
    - rewrite blt_irrefl. reflexivity.
    - inversion H as [|? ? Hs Hf]; subst. rewrite Forall_forall in Hf.
      assert (B : klt y x) by (apply Hf; apply in_or_app; right; left; reflexivity).
      unfold klt in B. rewrite B. apply IH. exact Hs.
  Qed.

  Lemma rest_from_ge : forall s x r, ok s -> rest s = x :: r -> from_ge (fst x) (content s) = rest s.
  Proof.
    intros s x r H R. destruct (L_suffix _ _ _ _ L s H) as (pre & E). pose proof (Hstrict s H) as K.
    rewrite E, R in *. apply strict_suffix_from_ge. exact K.
  Qed.

  Lemma take_hi_length : forall h l, (length (take_hi h l) <= length l)%nat.
  Proof.
    intros h l. induction l as [|x r IH]; cbn [take_hi length]; [lia|].
    destruct (in_hi h (fst x)); cbn [length]; lia.
  Qed.

  (* the keys the backward search of SeekToLast remembers *)
  Fixpoint walk_keys (e : bytes) (l : list kv) (lastk : option bytes) : option bytes :=
    match l with
    | [] => lastk
    | x :: r => if blt (fst x) e then walk_keys e r (Some (fst x)) else lastk
    end.

  Lemma b_walk_spec : forall fuel e s lastk, ok s -> (length (rest s) < fuel)%nat ->
    ok (fst (b_walk I fuel e s lastk)) /\ content (fst (b_walk I fuel e s lastk)) = content s /\
    rest (fst (b_walk I fuel e s lastk)) = from_ge e (rest s) /\
    snd (b_walk I fuel e s lastk) = walk_keys e (rest s) lastk.
  Proof.
    induction fuel as [|f IH]; intros e s lastk H Hf; [lia|]. cbn [b_walk].
    destruct (rest s) as [|x r] eqn:R.
    - rewrite (L_valid _ _ _ _ L s H), R. cbn [nonempty andb fst snd from_ge walk_keys]. rewrite R. auto.
    - destruct (head_facts I ok content rest L s x r H R) as (V & K & _). rewrite V, K. cbn [andb from_ge walk_keys].
      destruct (blt (fst x) e) eqn:B; [|cbn [fst snd]; rewrite R; auto].
      destruct (L_next _ _ _ _ L s H V) as (N1 & N2 & N3 & _). rewrite R in N3. cbn [tl] in N3.
      destruct (IH e (fst (i_next I s)) (Some (fst x)) N1 ltac:(rewrite N3; cbn [length] in Hf; lia)) as (A1 & A2 & A3 & A4).
      rewrite N3 in A3, A4. split; [exact A1|]. split; [congruence|]. split; assumption.
  Qed.

  Lemma walk_keys_spec : forall e l lastk k, ksorted l -> walk_keys e l lastk = Some k ->
    (lastk = Some k /\ match l with x :: _ => blt (fst x) e = false | [] => True end) \/
    (exists z, In z l /\ fst z = k /\ blt k e = true /\
               forall y, In y l -> blt (fst y) e = true -> blt k (fst y) = false).
  Proof.
    intros e l. induction l as [|x r IH]; intros lastk k Hs E; cbn [walk_keys] in E.
    - left. split; [exact E|constructor].
    - destruct (blt (fst x) e) eqn:B; [|left; split; [exact E|reflexivity]].
      right. destruct (IH (Some (fst x)) k (ksorted_tl _ _ Hs) E) as [[Q Hd]|(z & Hz & Ez & Bz & Hm)].
      + injection Q as <-. exists x. split; [left; reflexivity|]. split; [reflexivity|]. split; [exact B|].
        intros y [<-|Hy] By; [apply blt_irrefl|].
        destruct r as [|w r']; [destruct Hy|].
        assert (Lw : blt (fst y) (fst w) = false).
        { destruct Hy as [<-|Hy]; [apply blt_irrefl|apply (ksorted_hd w r' y (ksorted_tl _ _ Hs) Hy)]. }
        pose proof (le_lt_trans _ _ _ Lw By) as C. congruence.
      + exists z. split; [right; exact Hz|]. split; [exact Ez|]. split; [exact Bz|].
        intros y [<-|Hy] By; [|apply Hm; assumption].
        rewrite <- Ez. apply (ksorted_hd _ _ _ Hs Hz).
  Qed.

  Lemma walk_keys_none : forall e l, walk_keys e l None = None ->
    match l with x :: _ => blt (fst x) e = false | [] => True end.
  Proof.
    intros e [|x r] E; [constructor|]. cbn [walk_keys] in E.
    destruct (blt (fst x) e) eqn:B; [|reflexivity]. exfalso.
    clear B. revert E. generalize (fst x) as k. induction r as [|y r IH]; intros k E; cbn [walk_keys] in E; [discriminate|].
    destruct (blt (fst y) e); [apply (IH _ E)|discriminate].
  Qed.

  (* a one-entry result: the last entry of the bounded content *)
  Lemma last_run_single : forall B z, kstrict B -> In z B ->
    (forall y, In y B -> blt (fst z) (fst y) = false) -> last_run B = [z].
  Proof.
    intros B z Hs Hz Hmax.
    assert (E : from_gt (fst z) B = []) by (apply from_gt_nil_iff; rewrite Forall_forall; exact Hmax).
    destruct (kstrict_ends B z Hs Hz E) as (pre & ->).
    rewrite (last_run_strict _ Hs). apply last_suffix_snoc.
  Qed.

  Lemma single_ext : forall l z, kstrict l -> (forall x, In x l <-> x = z) -> l = [z].
  Proof.
    intros l z Hs H. apply kstrict_ext; [exact Hs|repeat constructor|].
    intros x. rewrite H. cbn [In]. split; [intros ->; left; reflexivity|intros [->|[]]; reflexivity].
  Qed.

  Lemma in_lo_true_clamp : forall t, in_lo lo (match lo with Some a => if blt t a then a else t | None => t end) = true.
  Proof.
    intros t. destruct lo as [a|]; cbn [in_lo]; [|reflexivity].
    destruct (blt t a) eqn:B; [rewrite blt_irrefl|rewrite B]; reflexivity.
  Qed.

  Theorem bounded_lawful : Lawful (bounded_iter I lo hi) ok b_content b_rest.
  Proof.
    constructor; cbn [bounded_iter i_first i_seek i_next i_last i_valid i_key i_value i_tomb i_fuel].
    - (* sorted *) intros s H. apply kstrict_ksorted. apply in_bounds_kstrict. apply Hstrict. exact H.
    - (* suffix *)
      intros s H. unfold b_rest. destruct (b_check I lo hi s) eqn:C.
      + rewrite (check_rest s H) in C. destruct (rest s) as [|x r] eqn:R; [discriminate|].
        apply andb_true_iff in C. destruct C as [Clo Chi].
        pose proof (b_content_from_ge (fst x) s H) as E.
        assert (Cl : (match lo with Some a => if blt (fst x) a then a else fst x | None => fst x end) = fst x).
        { destruct lo as [a|]; [|reflexivity]. cbn [in_lo] in Clo. apply negb_true_iff in Clo. rewrite Clo. reflexivity. }
        rewrite Cl, (rest_from_ge s x r H R), R in E.
        destruct (from_ge_split (fst x) (b_content s)) as (pre & P & _). exists pre. rewrite <- E. exact P.
      + exists (b_content s). symmetry. apply app_nil_r.
    - (* fuel *)
      intros s H. pose proof (L_fuel _ _ _ _ L s H). unfold b_content, in_bounds.
      pose proof (take_hi_length hi (drop_lo lo (content s))).
      assert ((length (drop_lo lo (content s)) <= length (content s))%nat)
        by (destruct lo; cbn [drop_lo]; [apply from_ge_length|lia]).
      lia.
    - (* valid *) apply b_valid.
    - (* key *)
      intros s H V. rewrite V. unfold b_rest. rewrite V. rewrite (check_rest s H) in V.
      destruct (rest s) as [|x r] eqn:R; [discriminate|].
      destruct (head_facts I ok content rest L s x r H R) as (_ & K & _).
      apply andb_true_iff in V. destruct V as [_ V]. cbn [take_hi]. rewrite V. exact K.
    - intros s H V. rewrite V. unfold b_rest. rewrite V. rewrite (check_rest s H) in V.
      destruct (rest s) as [|x r] eqn:R; [discriminate|].
      destruct (head_facts I ok content rest L s x r H R) as (_ & _ & W & _).
      apply andb_true_iff in V. destruct V as [_ V]. cbn [take_hi]. rewrite V. exact W.
    - intros s H V. rewrite V. unfold b_rest. rewrite V. rewrite (check_rest s H) in V.
      destruct (rest s) as [|x r] eqn:R; [discriminate|].
      destruct (head_facts I ok content rest L s x r H R) as (_ & _ & _ & T).
      apply andb_true_iff in V. destruct V as [_ V]. cbn [take_hi andb]. rewrite V. exact T.
    - (* SeekToFirst *)
      intros s H. unfold b_first. destruct lo as [a|] eqn:Elo.
      + destruct (L_seek _ _ _ _ L a s H) as (A1 & A2 & A3). split; [exact A1|].
        split; [unfold b_content; rewrite A2; reflexivity|].
        unfold b_content, in_bounds. rewrite Elo. cbn [drop_lo].
        destruct A3 as [[E _]|(E1 & E2 & _)].
        * rewrite <- A2. apply b_rest_after_seek; [exact A1|rewrite A2; exact E|].
          rewrite Elo. cbn [in_lo]. rewrite blt_irrefl. reflexivity.
        * rewrite E1. cbn [take_hi]. unfold b_rest. rewrite (check_rest _ A1), E2.
          destruct (rest s) as [|x r] eqn:R; [reflexivity|].
          assert (Hx : In x (content s)) by (apply rest_in_content; [exact H|rewrite R; left; reflexivity]).
          apply from_ge_nil_iff in E1. rewrite Forall_forall in E1. specialize (E1 x Hx).
          rewrite Elo. cbn [in_lo]. rewrite E1. reflexivity.
      + destruct (L_first _ _ _ _ L s H) as (A1 & A2 & A3). split; [exact A1|].
        split; [unfold b_content; rewrite A2; reflexivity|].
        unfold b_content, in_bounds. rewrite Elo. cbn [drop_lo]. rewrite <- A3.
        apply b_rest_eq; [exact A1|]. destruct (rest (i_first I s)); [constructor|].
        rewrite Elo. reflexivity.
    - (* Next *)
      intros s H V. unfold b_next. rewrite V.
      pose proof V as C. rewrite (check_rest s H) in C. destruct (rest s) as [|x r] eqn:R; [discriminate|].
      apply andb_true_iff in C. destruct C as [Clo Chi].
      destruct (head_facts I ok content rest L s x r H R) as (Vi & _).
      destruct (L_next _ _ _ _ L s H Vi) as (N1 & N2 & N3 & N4). rewrite R in N3, N4. cbn [tl] in N3, N4.
      destruct (i_next I s) as [s' ret]. cbn [fst snd] in *.
      assert (Hr' : b_rest s' = take_hi hi r).
      { rewrite <- N3. apply b_rest_eq; [exact N1|]. rewrite N3. destruct r as [|y r']; [constructor|].
        pose proof (rest_sorted _ _ _ _ _ L s H) as Hs. rewrite R in Hs.
        apply (in_lo_mono lo (fst x) (fst y)); [|exact Clo]. apply (ksorted_hd x (y :: r') y Hs). left. reflexivity. }
      assert (Hold : tl (b_rest s) = take_hi hi r).
      { unfold b_rest. rewrite V, R. cbn [take_hi]. rewrite Chi. reflexivity. }
      assert (Goal : ok s' /\ b_content s' = b_content s /\ b_rest s' = tl (b_rest s) /\
                     (if ret then b_check I lo hi s' else false) = nonempty (tl (b_rest s))).
      { split; [exact N1|]. split; [unfold b_content; rewrite N2; reflexivity|]. split; [congruence|].
        rewrite Hold, <- Hr'. destruct ret.
        - apply b_valid. exact N1.
        - rewrite Hr'. destruct r; [reflexivity|discriminate]. }
      destruct ret; exact Goal.
    - (* Seek *)
      intros t s H. unfold b_seek, b_seek_gen.
      set (t' := match lo with Some a => if blt t a then a else t | None => t end).
      assert (Hlo' : in_lo lo t' = true) by apply in_lo_true_clamp.
      pose proof (b_content_from_ge t s H) as Bc. fold t' in Bc.
      (* a target at or behind the end bound finds nothing *)
      assert (Miss : (match hi with Some e => negb (blt t' e) | None => false end) = true ->
                     from_ge t (b_content s) = []).
      { intros M. rewrite Bc. destruct hi as [e|]; [|discriminate]. apply negb_true_iff in M.
        pose proof (from_ge_all t' (content s) (kstrict_ksorted _ (Hstrict s H))) as F.
        destruct (from_ge t' (content s)) as [|y r]; [reflexivity|]. cbn [take_hi in_hi].
        pose proof (Forall_inv F) as B. cbn beta in B.
        destruct (blt (fst y) e) eqn:C; [|reflexivity].
        pose proof (le_lt_trans _ _ _ B C). congruence. }
      destruct (negb bounded_seek_miss_moves && match hi with Some e => negb (blt t' e) | None => false end) eqn:Early.
      + apply andb_true_iff in Early. destruct Early as [_ M]. cbn [fst snd].
        split; [exact H|]. split; [reflexivity|]. right. split; [apply Miss; exact M|split; reflexivity].
      + destruct (L_seek _ _ _ _ L t' s H) as (A1 & A2 & A3).
        destruct (i_seek I t' s) as [s' ret]. cbn [fst snd] in *.
        assert (Hc : b_content s' = b_content s) by (unfold b_content; rewrite A2; reflexivity).
        destruct A3 as [[E Er]|(E1 & E2 & Er)].
        * assert (Hr' : b_rest s' = from_ge t (b_content s)).
          { rewrite Bc, <- A2. apply b_rest_after_seek; [exact A1|rewrite A2; exact E|exact Hlo']. }
          assert (Goal : ok s' /\ b_content s' = b_content s /\
                         ((b_rest s' = from_ge t (b_content s) /\
                           (if ret then b_check I lo hi s' else false) = nonempty (from_ge t (b_content s))) \/
                          (from_ge t (b_content s) = [] /\ b_rest s' = b_rest s /\
                           (if ret then b_check I lo hi s' else false) = false))).
          { split; [exact A1|]. split; [exact Hc|]. left. split; [exact Hr'|]. rewrite <- Hr'.
            destruct ret; [apply b_valid; exact A1|].
            rewrite Hr', Bc. destruct (from_ge t' (content s)); [reflexivity|discriminate Er]. }
          destruct ret; cbn [fst snd]; exact Goal.
        * (* the wrapped iterator did not move: nothing is at or behind the target *)
          assert (Hn : from_ge t (b_content s) = []) by (rewrite Bc, E1; reflexivity).
          assert (Hr' : b_rest s' = b_rest s).
          { unfold b_rest. rewrite (check_rest s' A1), (check_rest s H), E2. reflexivity. }
          subst ret. cbn [fst snd]. split; [exact A1|]. split; [exact Hc|]. right. auto.
    - (* SeekToLast *)
      intros s H. unfold b_last. pose proof (Hstrict s H) as Ks.
      pose proof (in_bounds_kstrict lo hi _ Ks) as Kb. fold (b_content s) in Kb.
      destruct hi as [e|] eqn:Ehi.
      + destruct (L_first _ _ _ _ L s H) as (F1 & F2 & F3).
        pose proof (b_walk_spec (i_fuel I (i_first I s)) e (i_first I s) None F1
                      (rest_length _ _ _ _ _ L _ F1)) as (W1 & W2 & W3 & W4).
        destruct (b_walk I (i_fuel I (i_first I s)) e (i_first I s) None) as [s1 lastk]. cbn [fst snd] in *.
        rewrite F3 in W3, W4. rewrite F2 in W2.
        destruct lastk as [k|].
        * symmetry in W4. destruct (walk_keys_spec e (content s) None k (kstrict_ksorted _ Ks) W4)
            as [[Q _]|(z & Hz & Ez & Bz & Hm)]; [discriminate|].
          destruct (L_seek _ _ _ _ L k s1 W1) as (A1 & A2 & A3). rewrite W2 in A2.
          assert (Hz1 : In z (from_ge k (content s))).
          { apply from_ge_in; [apply kstrict_ksorted; exact Ks|]. split; [exact Hz|]. rewrite Ez. apply blt_irrefl. }
          assert (E : rest (fst (i_seek I k s1)) = from_ge k (content s)).
          { destruct A3 as [[E _]|(E1 & _)]; [rewrite W2 in E; exact E|].
            rewrite W2 in E1. rewrite E1 in Hz1. destruct Hz1. }
          split; [exact A1|]. split; [unfold b_content; rewrite A2; reflexivity|].
          (* the position shows exactly the entry of key k, if k is at or behind the start bound *)
          assert (Hrest : forall x, In x (take_hi (Some e) (from_ge k (content s))) <-> x = z).
          { intros x. rewrite take_hi_in by (apply from_ge_ksorted; apply kstrict_ksorted; exact Ks).
            rewrite from_ge_in by (apply kstrict_ksorted; exact Ks). cbn [in_hi]. split.
            - intros [[Hx Bx] Be]. apply (kstrict_key_inj _ _ _ Ks Hx Hz). rewrite Ez.
              apply le_antisym; [exact Bx|apply Hm; assumption].
            - intros ->. rewrite Ez. split; [split; [exact Hz|apply blt_irrefl]|exact Bz]. }
          assert (Hsingle : take_hi (Some e) (from_ge k (content s)) = [z]).
          { apply single_ext; [|exact Hrest]. apply take_hi_kstrict. apply from_ge_kstrict. exact Ks. }
          unfold b_rest. rewrite (check_rest _ A1), E.
          destruct (from_ge k (content s)) as [|x r] eqn:G; [destruct Hz1|].
          assert (Ex : x = z).
          { apply Hrest. rewrite Hsingle. cbn [take_hi in_hi] in Hsingle.
            destruct (blt (fst x) e); [injection Hsingle as -> _; left; reflexivity|discriminate]. }
          subst x. rewrite Ehi. cbn [in_hi]. rewrite Ez, Bz. rewrite Hsingle.
          destruct (in_lo lo k) eqn:Clo; cbn [andb].
          -- symmetry. apply last_run_single; [exact Kb| |].
             ++ apply in_bounds_in; [exact Ks|]. rewrite Ez, Ehi. cbn [in_hi]. auto.
             ++ intros y Hy. apply in_bounds_in in Hy; [|exact Ks]. destruct Hy as (Hy & _ & Hyh).
                rewrite Ehi in Hyh. cbn [in_hi] in Hyh. rewrite Ez. apply Hm; assumption.
          -- (* k is before the start bound: nothing is in range *)
             assert (Hemp : b_content s = []).
             { destruct (b_content s) as [|y r'] eqn:Bc; [reflexivity|exfalso].
               assert (Hy : In y (b_content s)) by (rewrite Bc; left; reflexivity).
               apply in_bounds_in in Hy; [|exact Ks]. destruct Hy as (Hy & Hyl & Hyh).
               rewrite Ehi in Hyh. cbn [in_hi] in Hyh. pose proof (Hm y Hy Hyh) as Le.
               rewrite (in_lo_mono lo _ _ Le Hyl) in Clo. discriminate. }
             rewrite Hemp. reflexivity.
        * (* no key below the end bound *)
          symmetry in W4. pose proof (walk_keys_none e (content s) W4) as Hd.
          split; [exact W1|]. split; [unfold b_content; rewrite W2; reflexivity|].
          assert (Hemp : b_content s = []).
          { destruct (b_content s) as [|y r'] eqn:Bc; [reflexivity|exfalso].
            assert (Hy : In y (b_content s)) by (rewrite Bc; left; reflexivity).
            apply in_bounds_in in Hy; [|exact Ks]. destruct Hy as (Hy & _ & Hyh). rewrite Ehi in Hyh. cbn [in_hi] in Hyh.
            destruct (content s) as [|x r] eqn:Cs; [destruct Hy|].
            assert (Le : blt (fst y) (fst x) = false).
            { destruct Hy as [<-|Hy]; [apply blt_irrefl|].
              apply (ksorted_hd x r y (kstrict_ksorted _ Ks) Hy). }
            pose proof (le_lt_trans _ _ _ Le Hyh). congruence. }
          rewrite Hemp. cbn [last_run last_suffix]. unfold b_rest. rewrite (check_rest _ W1), W3.
          destruct (content s) as [|x r] eqn:Cs; [reflexivity|]. cbn [from_ge]. rewrite Hd.
          rewrite Ehi. cbn [in_hi]. rewrite Hd. rewrite andb_false_r. reflexivity.
      + (* no end bound: the last key of the wrapped iterator, if it is at or behind the start *)
        destruct (L_last _ _ _ _ L s H) as (A1 & A2 & A3).
        split; [exact A1|]. split; [unfold b_content; rewrite A2; reflexivity|].
        unfold b_rest. rewrite (check_rest _ A1), A3.
        destruct (content s) as [|c0 c'] eqn:Cs.
        * unfold b_content. rewrite Cs. destruct lo; reflexivity.
        * rewrite <- Cs in *.
          destruct (last_run_spec (content s) (kstrict_ksorted _ Ks) ltac:(rewrite Cs; discriminate))
            as (z & r & E & Hz & Hm & _).
          rewrite (last_run_strict _ Ks) in E.
          assert (Er : r = []).
          { destruct (last_suffix_cases (content s)) as [[_ Q]|(p & x & _ & Q)]; rewrite Q in E; [discriminate|].
            injection E as _ <-. reflexivity. }
          subst r. rewrite (last_run_strict _ Ks), E. rewrite Ehi. cbn [in_hi take_hi]. rewrite andb_true_r.
          destruct (in_lo lo (fst z)) eqn:Clo.
          -- symmetry. apply last_run_single; [exact Kb| |].
             ++ apply in_bounds_in; [exact Ks|]. rewrite Ehi. cbn [in_hi]. auto.
             ++ intros y Hy. apply in_bounds_in in Hy; [|exact Ks]. apply Hm. tauto.
          -- assert (Hemp : b_content s = []).
             { destruct (b_content s) as [|y r'] eqn:Bc; [reflexivity|exfalso].
               assert (Hy : In y (b_content s)) by (rewrite Bc; left; reflexivity).
               apply in_bounds_in in Hy; [|exact Ks]. destruct Hy as (Hy & Hyl & _).
               rewrite (in_lo_mono lo _ _ (Hm y Hy) Hyl) in Clo. discriminate. }
             rewrite Hemp. reflexivity.
  Qed.
End BoundedLawful.

(* ------------------------------------------------------------------------------------ *)
(* Part 6: positions, in words                                                            *)
(* ------------------------------------------------------------------------------------ *)

(* p is the entry of the least key >= t of l (None: there is none) *)
Definition least_ge (l : list kv) (t : bytes) (p : option kv) : Prop :=
  match p with
  | Some x => In x l /\ blt (fst x) t = false /\
              forall y, In y l -> blt (fst y) t = false -> blt (fst y) (fst x) = false
  | None => forall y, In y l -> blt (fst y) t = true
  end.

(* p is the entry of the greatest key of l (None: l is empty) *)
Definition greatest (l : list kv) (p : option kv) : Prop :=
  match p with
  | Some x => In x l /\ forall y, In y l -> blt (fst x) (fst y) = false
  | None => l = []
  end.

(* p is the entry of the least key > k of l (None: there is none) *)
Definition least_gt (l : list kv) (k : bytes) (p : option kv) : Prop :=
  match p with
  | Some x => In x l /\ blt k (fst x) = true /\
              forall y, In y l -> blt k (fst y) = true -> blt (fst y) (fst x) = false
  | None => forall y, In y l -> blt k (fst y) = false
  end.

Lemma from_ge_least : forall t l, ksorted l -> least_ge l t (ohd (from_ge t l)).
Proof.
  intros t l Hs. destruct (from_ge t l) as [|x r] eqn:G; cbn [ohd least_ge].
  - intros y Hy. apply from_ge_nil_iff in G. rewrite Forall_forall in G. apply G. exact Hy.
  - assert (Hx : In x (from_ge t l)) by (rewrite G; left; reflexivity).
    apply from_ge_in in Hx; [|exact Hs]. destruct Hx as [Hx Bx]. split; [exact Hx|]. split; [exact Bx|].
    intros y Hy By. assert (Hy' : In y (from_ge t l)) by (apply from_ge_in; [exact Hs|split; assumption]).
    rewrite G in Hy'. destruct Hy' as [<-|Hy']; [apply blt_irrefl|].
    pose proof (from_ge_ksorted t l Hs) as Hg. rewrite G in Hg. apply (ksorted_hd x r y Hg Hy').
Qed.

Lemma from_gt_least : forall k l, ksorted l -> least_gt l k (ohd (from_gt k l)).
Proof.
  intros k l Hs. destruct (from_gt k l) as [|x r] eqn:G; cbn [ohd least_gt].
  - intros y Hy. apply from_gt_nil_iff in G. rewrite Forall_forall in G. apply G. exact Hy.
  - assert (Hx : In x (from_gt k l)) by (rewrite G; left; reflexivity).
    apply from_gt_in in Hx; [|exact Hs]. destruct Hx as [Hx Bx]. split; [exact Hx|]. split; [exact Bx|].
    intros y Hy By. assert (Hy' : In y (from_gt k l)) by (apply from_gt_in; [exact Hs|split; assumption]).
    rewrite G in Hy'. destruct Hy' as [<-|Hy']; [apply blt_irrefl|].
    pose proof (from_gt_ksorted k l Hs) as Hg. rewrite G in Hg. apply (ksorted_hd x r y Hg Hy').
Qed.

Lemma last_run_greatest : forall l, ksorted l -> greatest l (ohd (last_run l)).
Proof.
  intros l Hs. destruct l as [|x0 l0] eqn:El; [reflexivity|]. rewrite <- El in *.
  destruct (last_run_spec l Hs ltac:(rewrite El; discriminate)) as (z & r & E & Hz & Hm & _).
  rewrite E. cbn [ohd greatest]. split; assumption.
Qed.

(* for one entry per key: what lies behind the head of a suffix is what is greater *)
Lemma strict_tl_from_gt : forall pre x r, kstrict (pre ++ x :: r) -> from_gt (fst x) (pre ++ x :: r) = r.
Proof.
  induction pre as [|y pre IH]; intros x r H; cbn [app from_gt].
  - assert (B : ble (fst x) (fst x) = true) by (apply ble_true_iff; apply blt_irrefl). rewrite B.
    inversion H as [|? ? _ Hf]; subst. destruct r as [|z r']; [reflexivity|]. cbn [from_gt].
    pose proof (Forall_inv Hf) as C. unfold klt in C. apply ble_false_iff in C. rewrite C. reflexivity.
  - inversion H as [|? ? Hs Hf]; subst. rewrite Forall_forall in Hf.
    assert (B : klt y x) by (apply Hf; apply in_or_app; right; left; reflexivity). unfold klt in B.
    assert (B' : ble (fst y) (fst x) = true) by (apply ble_true_iff; apply blt_asym; exact B).
    rewrite B'. apply IH. exact Hs.
Qed.

Section Positions.
  Context {S : Type} (I : Iter S) (ok : S -> Prop) (content rest : S -> list kv).
  Context (L : Lawful I ok content rest).

  (* where the iterator stands: its key and value, None when it is not valid *)
  Definition pos (s : S) : option kv := if i_valid I s then Some (i_key I s, i_value I s) else None.

  Lemma pos_ohd : forall s, ok s -> pos s = ohd (rest s).
  Proof. intros s H. exact (cand_ohd I ok content rest L s H). Qed.

  (* Seek that repositions: the least key >= target *)
  Theorem seek_least : forall t s, ok s -> ExactSeek I ok content rest ->
    least_ge (content s) t (pos (fst (i_seek I t s))).
  Proof.
    intros t s H X. destruct (L_seek _ _ _ _ L t s H) as (A1 & _ & _).
    rewrite (pos_ohd _ A1), (proj1 (X t s H)). apply from_ge_least. apply (L_sorted _ _ _ _ L s H).
  Qed.

  (* Seek in general: the least key >= target, or nothing is >= target and the position did not move *)
  Theorem seek_least_weak : forall t s, ok s ->
    least_ge (content s) t (pos (fst (i_seek I t s))) \/
    ((forall y, In y (content s) -> blt (fst y) t = true) /\ pos (fst (i_seek I t s)) = pos s /\
     snd (i_seek I t s) = false).
  Proof.
    intros t s H. destruct (L_seek _ _ _ _ L t s H) as (A1 & _ & [[E _]|(E1 & E2 & E3)]).
    - left. rewrite (pos_ohd _ A1), E. apply from_ge_least. apply (L_sorted _ _ _ _ L s H).
    - right. split; [|split; [|exact E3]].
      + intros y Hy. apply from_ge_nil_iff in E1. rewrite Forall_forall in E1. apply E1. exact Hy.
      + rewrite (pos_ohd _ A1), (pos_ohd _ H), E2. reflexivity.
  Qed.

  Theorem last_greatest : forall s, ok s -> greatest (content s) (pos (i_last I s)).
  Proof.
    intros s H. destruct (L_last _ _ _ _ L s H) as (A1 & _ & A3).
    rewrite (pos_ohd _ A1), A3. apply last_run_greatest. apply (L_sorted _ _ _ _ L s H).
  Qed.

  Theorem first_least : forall s, ok s -> least_ge (content s) [] (pos (i_first I s)).
  Proof.
    intros s H. destruct (L_first _ _ _ _ L s H) as (A1 & _ & A3).
    rewrite (pos_ohd _ A1), A3.
    replace (content s) with (from_ge [] (content s)) at 2.
    - apply from_ge_least. apply (L_sorted _ _ _ _ L s H).
    - destruct (content s) as [|x r]; [reflexivity|]. cbn [from_ge].
      assert (B : blt (fst x) [] = false) by (unfold blt; destruct (fst x); reflexivity). rewrite B. reflexivity.
  Qed.

  (* Next on a valid position of an iterator with one entry per key: the least greater key *)
  Theorem next_least_gt : forall s, ok s -> kstrict (content s) -> i_valid I s = true ->
    least_gt (content s) (i_key I s) (pos (fst (i_next I s))).
  Proof.
    intros s H K V. destruct (L_next _ _ _ _ L s H V) as (A1 & _ & A3 & _).
    rewrite (pos_ohd _ A1), A3. rewrite (L_key _ _ _ _ L s H V).
    destruct (L_suffix _ _ _ _ L s H) as (pre & E).
    destruct (rest s) as [|x r] eqn:R; [rewrite (L_valid _ _ _ _ L s H), R in V; discriminate|].
    cbn [tl hd_key]. rewrite E in K. rewrite <- (strict_tl_from_gt pre x r K), <- E.
    apply from_gt_least. apply (L_sorted _ _ _ _ L s H).
  Qed.
End Positions.

(* ------------------------------------------------------------------------------------ *)
(* Part 4b: the filtered iterator over a lawful iterator                                   *)
(* ------------------------------------------------------------------------------------ *)

Section FilteredLawful.
  Context {S : Type} (I : Iter S) (ok : S -> Prop) (content rest : S -> list kv).
  Context (L : Lawful I ok content rest).
  Context (f : bytes -> bool).

  Definition fk (x : kv) : bool := f (fst x).
  Definition f_content (s : S) : list kv := filter fk (content s).
  Definition f_rest (s : S) : list kv := if f_valid I f s then filter fk (rest s) else [].

  (* skip the entries that do not pass *)
  Fixpoint skipf (l : list kv) : list kv :=
    match l with
    | [] => []
    | x :: r => if fk x then l else skipf r
    end.

  Lemma filter_skipf : forall l, filter fk (skipf l) = filter fk l.
  Proof.
    induction l as [|x r IH]; [reflexivity|]. cbn [skipf]. destruct (fk x) eqn:B; [reflexivity|].
    cbn [filter]. rewrite B. exact IH.
  Qed.

  Lemma nonempty_skipf : forall l, nonempty (skipf l) = nonempty (filter fk l).
  Proof.
    induction l as [|x r IH]; [reflexivity|]. cbn [skipf filter]. destruct (fk x); [reflexivity|exact IH].
  Qed.

  Lemma skipf_head : forall l, match skipf l with x :: _ => fk x = true | [] => True end.
  Proof.
    induction l as [|x r IH]; [constructor|]. cbn [skipf]. destruct (fk x) eqn:B; [exact B|exact IH].
  Qed.

  Lemma ksorted_filter : forall l, ksorted l -> ksorted (filter fk l).
  Proof.
    intros l H. induction H as [|x r Hs IH Hf]; cbn [filter]; [constructor|].
    destruct (fk x); [|exact IH]. constructor; [exact IH|].
    rewrite Forall_forall in *. intros y Hy. apply filter_In in Hy. apply Hf. tauto.
  Qed.

  Lemma filter_from_ge : forall t l, ksorted l -> filter fk (from_ge t l) = from_ge t (filter fk l).
  Proof.
    intros t l. induction l as [|x r IH]; intros H; [reflexivity|]. cbn [from_ge filter].
    destruct (blt (fst x) t) eqn:B.
    - rewrite (IH (ksorted_tl _ _ H)). destruct (fk x); [cbn [from_ge]; rewrite B|]; reflexivity.
    - cbn [filter]. destruct (fk x); [cbn [from_ge]; rewrite B; reflexivity|].
      symmetry. apply from_ge_id; [apply ksorted_filter; eapply ksorted_tl; eauto|].
      intros y Hy. apply filter_In in Hy. destruct Hy as [Hy _].
      pose proof (ksorted_hd _ _ _ H Hy) as Le. eapply le_trans; eauto.
  Qed.

  Lemma f_valid_rest : forall s, ok s ->
    f_valid I f s = match rest s with x :: _ => fk x | [] => false end.
  Proof.
    intros s H. unfold f_valid. destruct (rest s) as [|x r] eqn:R.
    - rewrite (L_valid _ _ _ _ L s H), R. reflexivity.
    - destruct (head_facts I ok content rest L s x r H R) as (V & K & _). rewrite V, K. reflexivity.
  Qed.

  Lemma f_rest_eq : forall s, ok s ->
    (match rest s with x :: _ => fk x = true | [] => True end) -> f_rest s = filter fk (rest s).
  Proof.
    intros s H Hd. unfold f_rest. rewrite (f_valid_rest s H). destruct (rest s) as [|x r]; [reflexivity|].
    rewrite Hd. reflexivity.
  Qed.

  Lemma f_valid_nonempty : forall s, ok s -> f_valid I f s = nonempty (f_rest s).
  Proof.
    intros s H. unfold f_rest. destruct (f_valid I f s) eqn:V; [|reflexivity].
    rewrite (f_valid_rest s H) in V. destruct (rest s) as [|x r]; [discriminate|].
    cbn [filter]. rewrite V. reflexivity.
  Qed.

  (* the loop of Next, started on a valid wrapped position *)
  Lemma f_next_loop_spec : forall fuel s, ok s -> i_valid I s = true -> (length (rest s) <= fuel)%nat ->
    ok (fst (f_next_loop I f fuel s)) /\ content (fst (f_next_loop I f fuel s)) = content s /\
    rest (fst (f_next_loop I f fuel s)) = skipf (tl (rest s)) /\
    snd (f_next_loop I f fuel s) = nonempty (skipf (tl (rest s))).
  Proof.
    induction fuel as [|n IH]; intros s H V Hf.
    - rewrite (L_valid _ _ _ _ L s H) in V. destruct (rest s); [discriminate|cbn [length] in Hf; lia].
    - cbn [f_next_loop]. destruct (L_next _ _ _ _ L s H V) as (N1 & N2 & N3 & N4).
      destruct (i_next I s) as [s' ret]. cbn [fst snd] in *.
      destruct (rest s) as [|x r] eqn:R; [rewrite (L_valid _ _ _ _ L s H), R in V; discriminate|].
      cbn [tl] in *. destruct ret.
      + destruct r as [|y r']; [discriminate|].
        destruct (head_facts I ok content rest L s' y r' N1 N3) as (V' & K' & _). rewrite K'.
        cbn [skipf]. unfold fk. destruct (f (fst y)) eqn:B; cbn [fst snd].
        * repeat split; assumption.
        * destruct (IH s' N1 V' ltac:(rewrite N3; cbn [length] in *; lia)) as (A1 & A2 & A3 & A4).
          rewrite N3 in A3, A4. cbn [tl] in A3, A4. split; [exact A1|]. split; [congruence|]. split; assumption.
      + destruct r; [|discriminate]. cbn [fst snd skipf]. repeat split; assumption.
  Qed.

  Lemma f_next_spec : forall s, ok s -> i_valid I s = true ->
    ok (fst (f_next I f s)) /\ content (fst (f_next I f s)) = content s /\
    rest (fst (f_next I f s)) = skipf (tl (rest s)) /\
    snd (f_next I f s) = nonempty (skipf (tl (rest s))).
  Proof.
    intros s H V. apply f_next_loop_spec; [exact H|exact V|].
    pose proof (rest_length _ _ _ _ _ L s H). lia.
  Qed.

  (* after the loop the filtered view is what passes of the skipped-to position *)
  Lemma f_rest_after_next : forall s, ok s -> i_valid I s = true ->
    f_rest (fst (f_next I f s)) = filter fk (tl (rest s)).
  Proof.
    intros s H V. destruct (f_next_spec s H V) as (A1 & _ & A3 & _).
    rewrite (f_rest_eq _ A1) by (rewrite A3; apply skipf_head). rewrite A3. apply filter_skipf.
  Qed.

  (* the keys the backward search of SeekToLast remembers *)
  Fixpoint walkf (l : list kv) (lastk : option bytes) : option bytes :=
    match l with
    | [] => lastk
    | x :: r => walkf r (if fk x then Some (fst x) else lastk)
    end.

  Lemma f_walk_spec : forall fuel s lastk, ok s -> (length (rest s) < fuel)%nat ->
    ok (fst (f_walk I f fuel s lastk)) /\ content (fst (f_walk I f fuel s lastk)) = content s /\
    snd (f_walk I f fuel s lastk) = walkf (rest s) lastk.
  Proof.
    induction fuel as [|n IH]; intros s lastk H Hf; [lia|]. cbn [f_walk].
    destruct (rest s) as [|x r] eqn:R.
    - rewrite (L_valid _ _ _ _ L s H), R. cbn [nonempty fst snd walkf]. auto.
    - destruct (head_facts I ok content rest L s x r H R) as (V & K & _). rewrite V, K.
      destruct (L_next _ _ _ _ L s H V) as (N1 & N2 & N3 & _). rewrite R in N3. cbn [tl] in N3.
      destruct (IH (fst (i_next I s)) (if f (fst x) then Some (fst x) else lastk) N1
                  ltac:(rewrite N3; cbn [length] in Hf; lia)) as (A1 & A2 & A3).
      rewrite N3 in A3. split; [exact A1|]. split; [congruence|]. exact A3.
  Qed.

  Lemma walkf_some : forall l lastk k, walkf l lastk = Some k ->
    (lastk = Some k /\ filter fk l = []) \/
    (exists pre x post, l = pre ++ x :: post /\ fk x = true /\ fst x = k /\ filter fk post = []).
  Proof.
    induction l as [|x r IH]; intros lastk k E; cbn [walkf] in E; [left; split; [exact E|reflexivity]|].
    destruct (IH _ _ E) as [[Q F]|(pre & y & post & -> & By & Ey & F)].
    - destruct (fk x) eqn:B.
      + injection Q as <-. right. exists [], x, r. repeat split; assumption.
      + left. split; [exact Q|]. cbn [filter]. rewrite B. exact F.
    - right. exists (x :: pre), y, post. repeat split; assumption.
  Qed.

  Lemma walkf_from_some : forall l k, walkf l (Some k) <> None.
  Proof.
    induction l as [|x r IH]; intros k; cbn [walkf]; [discriminate|]. destruct (fk x); apply IH.
  Qed.

  Lemma walkf_none : forall l, walkf l None = None -> filter fk l = [].
  Proof.
    induction l as [|x r IH]; intros E; [reflexivity|]. cbn [walkf] in E. cbn [filter].
    destruct (fk x) eqn:B; [|apply IH; exact E]. exfalso. exact (walkf_from_some r _ E).
  Qed.

  Lemma last_run_filter : forall c pre x post, ksorted c -> c = pre ++ x :: post -> fk x = true ->
    filter fk post = [] -> last_run (filter fk c) = filter fk (from_ge (fst x) c).
  Proof.
    intros c pre x post Hs -> Bx Fp. rewrite (filter_from_ge (fst x) _ Hs).
    rewrite filter_app. cbn [filter]. rewrite Bx, Fp. unfold last_run.
    rewrite (last_suffix_snoc (filter fk pre) x). reflexivity.
  Qed.

  Lemma filter_length_le : forall l, (length (filter fk l) <= length l)%nat.
  Proof. induction l as [|x r IH]; cbn [filter length]; [lia|]. destruct (fk x); cbn [length]; lia. Qed.

  (* the head of from_ge k c has key k when c has an entry of key k *)
  Lemma from_ge_head_key : forall k c x, ksorted c -> In x c -> fst x = k ->
    exists y r, from_ge k c = y :: r /\ fst y = k.
  Proof.
    intros k c x Hs Hx Ex.
    assert (Hin : In x (from_ge k c)) by (apply from_ge_in; [exact Hs|split; [exact Hx|rewrite Ex; apply blt_irrefl]]).
    destruct (from_ge k c) as [|y r] eqn:G; [destruct Hin|]. exists y, r. split; [reflexivity|].
    pose proof (from_ge_all k c Hs) as F. rewrite G in F. pose proof (Forall_inv F) as By. cbn beta in By.
    apply le_antisym; [exact By|].
    destruct Hin as [<-|Hin]; [rewrite Ex; apply blt_irrefl|].
    pose proof (from_ge_ksorted k c Hs) as Hg. rewrite G in Hg.
    pose proof (ksorted_hd y r x Hg Hin) as Le. rewrite Ex in Le. exact Le.
  Qed.

  Theorem filtered_lawful : Lawful (filtered_iter I f) ok f_content f_rest.
  Proof.
    constructor; cbn [filtered_iter i_first i_seek i_next i_last i_valid i_key i_value i_tomb i_fuel].
    - intros s H. apply ksorted_filter. apply (L_sorted _ _ _ _ L s H).
    - intros s H. unfold f_rest, f_content. destruct (L_suffix _ _ _ _ L s H) as (pre & E).
      destruct (f_valid I f s).
      + exists (filter fk pre). rewrite E at 1. apply filter_app.
      + exists (filter fk (content s)). symmetry. apply app_nil_r.
    - intros s H. pose proof (L_fuel _ _ _ _ L s H). pose proof (filter_length_le (content s)).
      unfold f_content. lia.
    - apply f_valid_nonempty.
    - intros s H V. unfold f_rest. rewrite V. rewrite (f_valid_rest s H) in V.
      destruct (rest s) as [|x r] eqn:R; [discriminate|].
      destruct (head_facts I ok content rest L s x r H R) as (_ & K & _). cbn [filter]. rewrite V. exact K.
    - intros s H V. unfold f_rest. rewrite V. rewrite (f_valid_rest s H) in V.
      destruct (rest s) as [|x r] eqn:R; [discriminate|].
      destruct (head_facts I ok content rest L s x r H R) as (_ & _ & W & _). cbn [filter]. rewrite V. exact W.
    - intros s H V. unfold f_rest. rewrite V. rewrite (f_valid_rest s H) in V.
      destruct (rest s) as [|x r] eqn:R; [discriminate|].
      destruct (head_facts I ok content rest L s x r H R) as (_ & _ & _ & T). cbn [filter]. rewrite V. exact T.
    - (* SeekToFirst *)
      intros s H. unfold f_first. destruct (L_first _ _ _ _ L s H) as (A1 & A2 & A3).
      set (s1 := i_first I s) in *. unfold f_content.
      destruct (i_valid I s1 && negb (f (i_key I s1))) eqn:C.
      + apply andb_true_iff in C. destruct C as [V Nf]. apply negb_true_iff in Nf.
        destruct (f_next_spec s1 A1 V) as (B1 & B2 & _). split; [exact B1|]. split; [congruence|].
        rewrite (f_rest_after_next s1 A1 V), A3.
        destruct (content s) as [|x r] eqn:Cs; [reflexivity|].
        destruct (head_facts I ok content rest L s1 x r A1 A3) as (_ & K & _). rewrite K in Nf.
        cbn [tl filter]. unfold fk at 2. rewrite Nf. reflexivity.
      + split; [exact A1|]. split; [rewrite A2; reflexivity|]. rewrite <- A3.
        apply f_rest_eq; [exact A1|]. destruct (rest s1) as [|x r] eqn:R; [constructor|].
        destruct (head_facts I ok content rest L s1 x r A1 R) as (V & K & _). rewrite V, K in C.
        cbn [andb] in C. apply negb_false_iff in C. exact C.
    - (* Next *)
      intros s H V. pose proof V as Vr. rewrite (f_valid_rest s H) in Vr.
      destruct (rest s) as [|x r] eqn:R; [discriminate|].
      destruct (head_facts I ok content rest L s x r H R) as (Vi & _).
      destruct (f_next_spec s H Vi) as (B1 & B2 & B3 & B4). rewrite R in B3, B4. cbn [tl] in B3, B4.
      pose proof (f_rest_after_next s H Vi) as Fr. rewrite R in Fr. cbn [tl] in Fr.
      assert (Ht : tl (f_rest s) = filter fk r).
      { unfold f_rest. rewrite V, R. cbn [filter]. rewrite Vr. reflexivity. }
      split; [exact B1|]. split; [unfold f_content; rewrite B2; reflexivity|]. split; [congruence|].
      rewrite B4, Ht. apply nonempty_skipf.
    - (* Seek *)
      intros t s H. unfold f_seek. destruct (L_seek _ _ _ _ L t s H) as (A1 & A2 & A3).
      pose proof (L_sorted _ _ _ _ L s H) as Hs.
      destruct (i_seek I t s) as [s1 ret]. cbn [fst snd] in *.
      assert (Hc : f_content s1 = f_content s) by (unfold f_content; rewrite A2; reflexivity).
      destruct A3 as [[E Er]|(E1 & E2 & Er)].
      + subst ret. destruct (from_ge t (content s)) as [|y r] eqn:G; cbn [nonempty].
        * cbn [fst snd]. split; [exact A1|]. split; [exact Hc|]. left.
          unfold f_content. rewrite <- (filter_from_ge t _ Hs), G. cbn [filter nonempty].
          split; [|reflexivity]. unfold f_rest. rewrite (f_valid_rest s1 A1), E. reflexivity.
        * destruct (head_facts I ok content rest L s1 y r A1 E) as (V & K & _). rewrite K.
          unfold f_content. rewrite <- (filter_from_ge t _ Hs), G.
          destruct (f (fst y)) eqn:B; cbn [fst snd].
          -- split; [exact A1|]. split; [exact Hc|]. left.
             rewrite (f_rest_eq s1 A1) by (rewrite E; exact B). rewrite E. split; [reflexivity|].
             cbn [filter]. unfold fk at 1. rewrite B. reflexivity.
          -- destruct (f_next_spec s1 A1 V) as (B1 & B2 & B3 & B4). rewrite E in B3, B4. cbn [tl] in B3, B4.
             pose proof (f_rest_after_next s1 A1 V) as Fr. rewrite E in Fr. cbn [tl] in Fr.
             split; [exact B1|]. split; [unfold f_content; rewrite B2, A2; reflexivity|]. left.
             assert (Ff : filter fk (y :: r) = filter fk r) by (cbn [filter]; unfold fk at 1; rewrite B; reflexivity).
             rewrite Ff. split; [exact Fr|]. rewrite B4. apply nonempty_skipf.
      + subst ret. cbn [fst snd]. split; [exact A1|]. split; [exact Hc|]. right.
        split; [unfold f_content; rewrite <- (filter_from_ge t _ Hs), E1; reflexivity|].
        split; [|reflexivity]. unfold f_rest. rewrite (f_valid_rest s1 A1), (f_valid_rest s H), E2. reflexivity.
    - (* SeekToLast *)
      intros s H. unfold f_last. destruct (L_last _ _ _ _ L s H) as (A1 & A2 & A3).
      pose proof (L_sorted _ _ _ _ L s H) as Hs.
      set (s1 := i_last I s) in *.
      destruct (i_valid I s1 && negb (f (i_key I s1))) eqn:C.
      + (* the last key does not pass: search from the first key for the last one that does *)
        destruct (L_first _ _ _ _ L s1 A1) as (F1 & F2 & F3). rewrite A2 in F2, F3.
        set (s2 := i_first I s1) in *.
        pose proof (f_walk_spec (i_fuel I s2) s2 None F1 (rest_length _ _ _ _ _ L _ F1)) as (W1 & W2 & W3).
        destruct (f_walk I f (i_fuel I s2) s2 None) as [s3 lastk]. cbn [fst snd] in *.
        rewrite F3 in W3. rewrite F2 in W2. subst lastk.
        destruct (walkf (content s) None) as [k|] eqn:Wk.
        * destruct (walkf_some _ _ _ Wk) as [[Q _]|(pre & x & post & Ec & Bx & Ex & Fp)]; [discriminate|].
          assert (Hx : In x (content s)) by (rewrite Ec; apply in_or_app; right; left; reflexivity).
          destruct (from_ge_head_key k (content s) x Hs Hx Ex) as (y & r & G & Ey).
          destruct (L_seek _ _ _ _ L k s3 W1) as (B1 & B2 & B3). rewrite W2 in B2, B3.
          assert (E : rest (fst (i_seek I k s3)) = from_ge k (content s)).
          { destruct B3 as [[E _]|(E1 & _)]; [exact E|]. rewrite G in E1. discriminate. }
          split; [exact B1|]. split; [unfold f_content; rewrite B2; reflexivity|].
          rewrite (f_rest_eq _ B1) by (rewrite E, G; unfold fk; rewrite Ey, <- Ex; exact Bx).
          rewrite E. unfold f_content. rewrite (last_run_filter _ pre x post Hs Ec Bx Fp), Ex. reflexivity.
        * pose proof (walkf_none _ Wk) as Fn.
          destruct (L_first _ _ _ _ L s3 W1) as (G1 & G2 & G3). rewrite W2 in G2, G3.
          split; [exact G1|]. split; [unfold f_content; rewrite G2; reflexivity|].
          unfold f_content. rewrite Fn. cbn [last_run last_suffix].
          unfold f_rest. rewrite (f_valid_rest _ G1), G3.
          destruct (content s) as [|x r]; [reflexivity|]. cbn [filter] in Fn.
          destruct (fk x); [discriminate|reflexivity].
      + split; [exact A1|]. split; [unfold f_content; rewrite A2; reflexivity|].
        assert (Hd : match rest s1 with x :: _ => fk x = true | [] => True end).
        { destruct (rest s1) as [|x r] eqn:R; [constructor|].
          destruct (head_facts I ok content rest L s1 x r A1 R) as (V & K & _). rewrite V, K in C.
          cbn [andb] in C. apply negb_false_iff in C. exact C. }
        rewrite (f_rest_eq s1 A1 Hd), A3. unfold f_content.
        destruct (last_suffix_cases (content s)) as [[Ec El]|(pre & x & Ec & El)].
        * rewrite Ec. reflexivity.
        * rewrite A3 in Hd. unfold last_run in Hd |- *. rewrite El in Hd |- *.
          destruct (from_ge_head_key (fst x) (content s) x Hs
                      ltac:(rewrite Ec; apply in_or_app; right; left; reflexivity) eq_refl) as (y & r & G & Ey).
          rewrite G in Hd. unfold fk in Hd. rewrite Ey in Hd.
          fold (last_run (filter fk (content s))).
          rewrite (last_run_filter (content s) pre x [] Hs Ec Hd eq_refl). reflexivity.
  Qed.

  Theorem filtered_exact : ExactSeek I ok content rest -> ExactSeek (filtered_iter I f) ok f_content f_rest.
  Proof.
    intros X t s H. destruct (L_seek _ _ _ _ (filtered_lawful) t s H) as (_ & _ & [A|(E1 & E2 & E3)]); [exact A|].
    (* the wrapped iterator repositioned, so the weak case coincides with the exact one *)
    cbn [filtered_iter i_seek] in *. unfold f_seek in *. destruct (X t s H) as (Xr & Xs).
    destruct (L_seek _ _ _ _ L t s H) as (A1 & _ & _).
    pose proof (L_sorted _ _ _ _ L s H) as Hs.
    destruct (i_seek I t s) as [s1 ret]. cbn [fst snd] in *. subst ret.
    assert (Ef : filter fk (from_ge t (content s)) = []).
    { unfold f_content in E1. rewrite <- (filter_from_ge t _ Hs) in E1. exact E1. }
    rewrite E1. destruct (from_ge t (content s)) as [|y r] eqn:G; cbn [nonempty] in *.
    - cbn [fst snd]. split; [|reflexivity]. unfold f_rest. rewrite (f_valid_rest s1 A1), Xr. reflexivity.
    - destruct (head_facts I ok content rest L s1 y r A1 Xr) as (V & K & _). rewrite K in *.
      destruct (f (fst y)) eqn:B; [cbn [snd] in E3; discriminate|].
      split; [|exact E3]. rewrite (f_rest_after_next s1 A1 V), Xr. cbn [tl].
      cbn [filter] in Ef. unfold fk at 1 in Ef. rewrite B in Ef. exact Ef.
  Qed.
End FilteredLawful.

(* ------------------------------------------------------------------------------------ *)
(* Part 7: a scan interleaved with writers of other keys                                   *)
(* ------------------------------------------------------------------------------------ *)

Lemma first_val_ext : forall ke k cs cs',
  Forall2 (fun c c' => forall k, k <> ke -> lookup k c' = lookup k c) cs cs' -> k <> ke ->
  first_val k cs' = first_val k cs.
Proof.
  intros ke k cs cs' H Hk. induction H as [|c c' r r' Hc _ IH]; [reflexivity|].
  cbn [first_val]. rewrite (Hc k Hk), IH. reflexivity.
Qed.

Lemma kstrict_snoc : forall l x, kstrict l -> (forall y, In y l -> klt y x) -> kstrict (l ++ [x]).
Proof.
  induction l as [|a l IH]; intros x Hs Hx; cbn [app]; [repeat constructor|].
  inversion Hs as [|? ? Hs' Hf]; subst. constructor.
  - apply IH; [exact Hs'|]. intros y Hy. apply Hx. right. exact Hy.
  - apply Forall_app. split; [exact Hf|]. constructor; [apply Hx; left; reflexivity|constructor].
Qed.

Section ConcProofs.
  Context {S : Type} (I : Iter S) (ok : S -> Prop) (content rest : S -> list kv).
  Context (L : Lawful I ok content rest).
  (* the keys no writer touches during the scan *)
  Context (W : bytes -> Prop).

  (* writer steps: the sources may change in any way that keeps them lawful and leaves the
     entries of every key but the written one where they are *)
  Fixpoint legal (h : hier S) (steps : list (cstep S)) : Prop :=
    match steps with
    | [] => True
    | CNext :: r => legal (fst (hier_next I h)) r
    | CWrite ke srcs' :: r =>
        ~ W ke /\ Forall ok srcs' /\
        Forall2 (fun s s' => forall k, k <> ke -> lookup k (rest s') = lookup k (rest s)) (h_srcs h) srcs' /\
        legal (set_srcs h srcs') r
    end.

  Lemma rests_sorted : forall srcs, Forall ok srcs -> Forall ksorted (map rest srcs).
  Proof.
    intros srcs H. induction H as [|s r Hs Hr IH]; cbn [map]; constructor; [|exact IH].
    apply (rest_sorted _ _ _ _ _ L s Hs).
  Qed.

  Variable cs0 : list (list kv).

  Definition cinv (h : hier S) (out : list kv) : Prop :=
    Forall ok (h_srcs h) /\ kstrict out /\
    (h_valid h = true ->
       (forall y, In y out -> blt (h_key h) (fst y) = false) /\
       (forall k, W k -> blt (h_key h) k = true -> first_val k (map rest (h_srcs h)) = first_val k cs0)) /\
    (forall k v, W k -> first_val k cs0 = Some v ->
                 (h_valid h = true -> blt (h_key h) k = false) -> In (k, v) out).

  (* landing on the smallest head of the re-positioned sources *)
  Lemma cinv_land : forall (prev : option bytes) srcs' rests out,
    Forall ok srcs' -> map rest srcs' = map (drop_prev prev) rests -> Forall ksorted rests ->
    kstrict out ->
    (forall y, In y out -> match prev with Some p => blt p (fst y) = false | None => False end) ->
    (forall k, W k -> match prev with Some p => blt p k = true | None => True end ->
               first_val k rests = first_val k cs0) ->
    (forall k v, W k -> first_val k cs0 = Some v ->
                 match prev with Some p => blt p k = false | None => False end -> In (k, v) out) ->
    forall kh vh,
    match hmin (map rest srcs') with
    | Some x => cinv (mkH srcs' true (fst x) (snd x)) (out ++ [(fst x, snd x)])
    | None => cinv (mkH srcs' false kh vh) out
    end.
  Proof.
    intros prev srcs' rests out Hok Hr Hs Hst Hle Hw Hin kh vh.
    assert (Hs' : Forall ksorted (map (drop_prev prev) rests)).
    { destruct prev as [p|].
      - change (drop_prev (Some p)) with (from_gt p). apply Forall_ksorted_from_gt. exact Hs.
      - change (drop_prev None) with (fun l : list kv => l). rewrite map_id. exact Hs. }
    assert (Fv : forall k, match prev with Some p => blt p k = true | None => True end ->
                           first_val k (map (drop_prev prev) rests) = first_val k rests).
    { intros k Hk. destruct prev as [p|].
      - change (drop_prev (Some p)) with (from_gt p). rewrite first_val_from_gt by exact Hs. rewrite Hk. reflexivity.
      - change (drop_prev None) with (fun l : list kv => l). rewrite map_id. reflexivity. }
    rewrite Hr. destruct (hmin (map (drop_prev prev) rests)) as [[kx vx]|] eqn:Hm; cbn [fst snd].
    - assert (Hgt : match prev with Some p => blt p kx = true | None => True end).
      { destruct prev as [p|]; [|constructor]. change (drop_prev (Some p)) with (from_gt p) in Hm.
        apply (hmin_from_gt_gt p rests (kx, vx) Hs Hm). }
      pose proof (hmin_first_val _ _ Hs' Hm) as Fx. cbn [fst snd] in Fx.
      unfold cinv. cbn [h_srcs h_valid h_key h_val]. split; [exact Hok|]. split; [|split].
      + apply kstrict_snoc; [exact Hst|]. intros y Hy. specialize (Hle y Hy). unfold klt. cbn [fst].
        destruct prev as [p|]; [|destruct Hle]. eapply le_lt_trans; eauto.
      + intros _. split.
        * intros y Hy. apply in_app_or in Hy. destruct Hy as [Hy|[<-|[]]]; [|apply blt_irrefl].
          specialize (Hle y Hy). destruct prev as [p|]; [|destruct Hle]. cbn [fst].
          apply blt_asym. eapply le_lt_trans; eauto.
        * intros k Wk Hk. rewrite Hr.
          assert (Hk' : match prev with Some p => blt p k = true | None => True end).
          { destruct prev as [p|]; [|constructor]. eapply blt_trans; eauto. }
          rewrite (Fv k Hk'). apply Hw; assumption.
      + intros k v Wk Fk Hk. specialize (Hk eq_refl). apply in_or_app.
        destruct (match prev with Some p => blt p k | None => true end) eqn:Pk.
        * right. left.
          assert (Hk' : match prev with Some p => blt p k = true | None => True end).
          { destruct prev as [p|]; [exact Pk|constructor]. }
          pose proof (Fv k Hk') as F1. rewrite (Hw k Wk Hk'), Fk in F1.
          destruct (first_val_some_in _ _ _ F1) as (c & Hc & Hkc).
          pose proof (hmin_le _ _ Hs' Hm c (k, v) Hc Hkc) as Le. cbn [fst] in Le.
          assert (E : k = kx) by (apply le_antisym; assumption). subst k.
          rewrite Fx in F1. injection F1 as ->. reflexivity.
        * left. apply Hin; [exact Wk|exact Fk|]. destruct prev as [p|]; [exact Pk|discriminate].
    - unfold cinv. cbn [h_srcs h_valid]. split; [exact Hok|]. split; [exact Hst|]. split; [discriminate|].
      intros k v Wk Fk _.
      destruct (match prev with Some p => blt p k | None => true end) eqn:Pk.
      + exfalso.
        assert (Hk' : match prev with Some p => blt p k = true | None => True end).
        { destruct prev as [p|]; [exact Pk|constructor]. }
        pose proof (Fv k Hk') as F1. rewrite (Hw k Wk Hk'), Fk in F1.
        destruct (first_val_some_in _ _ _ F1) as (c & Hc & Hkc).
        apply hmin_none_iff in Hm. rewrite Forall_forall in Hm. rewrite (Hm c Hc) in Hkc. destruct Hkc.
      + apply Hin; [exact Wk|exact Fk|]. destruct prev as [p|]; [exact Pk|discriminate].
  Qed.

  Lemma cinv_next : forall h out, cinv h out ->
    cinv (fst (hier_next I h)) (if h_valid h then out ++ hpos (fst (hier_next I h)) else out).
  Proof.
    intros h out (Hok & Hst & Hv & Hin). unfold hier_next. destruct (h_valid h) eqn:V.
    - destruct (Hv eq_refl) as (Hle & Hw).
      rewrite (find_next_spec I ok content rest L h (Some (h_key h)) Hok).
      destruct (Forall_adv1 I ok content rest L (Some (h_key h)) (h_srcs h) Hok) as (Hok' & _ & Hr').
      pose proof (cinv_land (Some (h_key h)) _ (map rest (h_srcs h)) out Hok' Hr'
                    (rests_sorted _ Hok) Hst Hle Hw (fun k v Wk Fk Hk => Hin k v Wk Fk (fun _ => Hk))
                    (h_key h) (h_val h)) as Ld.
      destruct (hmin (map rest (map (adv1 I (Some (h_key h))) (h_srcs h)))) as [[kx vx]|]; cbn [fst snd] in *.
      + unfold hpos. cbn [h_valid h_key h_val]. exact Ld.
      + unfold hpos. cbn [h_valid]. rewrite app_nil_r. exact Ld.
    - cbn [fst]. unfold cinv. rewrite V. repeat split; try assumption; discriminate.
  Qed.

  Lemma cinv_write : forall h out ke srcs', cinv h out -> ~ W ke -> Forall ok srcs' ->
    Forall2 (fun s s' => forall k, k <> ke -> lookup k (rest s') = lookup k (rest s)) (h_srcs h) srcs' ->
    cinv (set_srcs h srcs') out.
  Proof.
    intros h out ke srcs' (Hok & Hst & Hv & Hin) Hke Hok' Hf.
    unfold cinv, set_srcs. cbn [h_srcs h_valid h_key h_val]. split; [exact Hok'|]. split; [exact Hst|].
    split; [|exact Hin]. intros V. destruct (Hv V) as (Hle & Hw). split; [exact Hle|].
    intros k Wk Hk. rewrite <- (Hw k Wk Hk). apply (first_val_ext ke).
    - clear - Hf. induction Hf as [|s s' r r' Hs _ IH]; cbn [map]; constructor; assumption.
    - intros ->. contradiction.
  Qed.

  Lemma cinv_run : forall steps h out, cinv h out -> legal h steps ->
    cinv (fst (crun I h steps out)) (snd (crun I h steps out)).
  Proof.
    induction steps as [|st r IH]; intros h out Hc Hl; [exact Hc|]. destruct st as [|ke srcs']; cbn [crun legal] in *.
    - apply IH; [apply cinv_next; exact Hc|exact Hl].
    - destruct Hl as (Hke & Hok' & Hf & Hl). apply IH; [|exact Hl].
      apply (cinv_write h out ke srcs'); assumption.
  Qed.
End ConcProofs.

(* A scan over lawful sources, interleaved in any way with writers that leave the keys of W
   alone: the surfaced keys are strictly ascending (no duplicates), and once the scan is
   through, every key of W that the sources held at the start has been surfaced, with the
   value (or deletion marker) the stack showed for it at the start. *)
Theorem conc_scan : forall S (I : Iter S) ok content rest (L : Lawful I ok content rest)
    (W : bytes -> Prop) srcs steps,
  Forall ok srcs -> legal I ok rest W (hier_first I (hier_new srcs)) steps ->
  let res := cscan I srcs steps in
  kstrict (snd res) /\
  (h_valid (fst res) = false ->
   forall k v, W k -> first_val k (map content srcs) = Some v -> In (k, v) (snd res)).
Proof.
  intros S I ok content rest L W srcs steps Hok Hl res.
  assert (C0 : cinv ok rest W (map content srcs) (hier_first I (hier_new srcs))
                 (hpos (hier_first I (hier_new srcs)))).
  { unfold hier_first. cbn [hier_new h_srcs h_valid h_key h_val].
    destruct (first_sources I ok content rest L srcs Hok) as (Hok1 & Hc1 & Hr1).
    set (h1 := mkH (map (i_first I) srcs) false [] None).
    rewrite (find_next_spec I ok content rest L h1 None Hok1). cbn [h_srcs h1].
    rewrite (map_adv1_none I).
    assert (Hs : Forall ksorted (map content srcs)) by (apply (contents_sorted I ok content rest L); exact Hok).
    pose proof (cinv_land ok rest W (map content srcs) None (map (i_first I) srcs)
                  (map content srcs) [] Hok1
                  ltac:(change (drop_prev None) with (fun l : list kv => l); rewrite map_id; exact Hr1) Hs
                  ltac:(constructor) ltac:(intros y []) ltac:(intros; reflexivity)
                  ltac:(intros k v _ _ []) [] None) as Ld.
    destruct (hmin (map rest (map (i_first I) srcs))) as [[kx vx]|]; cbn [fst snd] in *.
    - unfold hpos. cbn [h_valid h_key h_val]. exact Ld.
    - unfold hpos. cbn [h_valid]. exact Ld. }
  pose proof (cinv_run I ok content rest L W (map content srcs) steps _ _ C0 Hl) as (_ & Hst & _ & Hin).
  fold (cscan I srcs steps) in Hst, Hin. fold res in Hst, Hin. split; [exact Hst|].
  intros V k v Wk Fk. apply Hin; [exact Wk|exact Fk|]. rewrite V. discriminate.
Qed.

(* ---------- a memtable insert is such a writer step ---------- *)

Lemma lookup_ins_at : forall k i e l, k <> fst e -> lookup k (ins_at i e l) = lookup k l.
Proof.
  intros k i e l Hk. revert l. induction i as [|n IH]; intros l.
  - cbn [ins_at lookup]. assert (B : beq (fst e) k = false) by (apply beq_false_iff; congruence).
    destruct l; cbn [ins_at lookup]; rewrite B; reflexivity.
  - destruct l as [|x r]; cbn [ins_at lookup].
    + assert (B : beq (fst e) k = false) by (apply beq_false_iff; congruence). rewrite B. reflexivity.
    + rewrite IH. reflexivity.
Qed.

Lemma ins_at_app_le : forall i e a b, (i <= length a)%nat -> ins_at i e (a ++ b) = ins_at i e a ++ b.
Proof.
  induction i as [|n IH]; intros e a b H.
  - destruct a; reflexivity.
  - destruct a as [|x a]; [cbn [length] in H; lia|]. cbn [app ins_at]. rewrite IH by (cbn [length] in H; lia). reflexivity.
Qed.

Lemma ins_at_app_gt : forall i e a b, (length a < i)%nat -> b <> [] ->
  ins_at i e (a ++ b) = a ++ ins_at (i - length a) e b.
Proof.
  intros i e a. revert i. induction a as [|x a IH]; intros i b H Hb.
  - cbn [app length]. rewrite Nat.sub_0_r. reflexivity.
  - destruct i as [|n]; [lia|]. cbn [app ins_at length]. rewrite IH by (cbn [length] in H; lia || exact Hb).
    reflexivity.
Qed.

Theorem src_write_step : forall i e s, src_ok s -> s_kind s = KMem -> ksorted (ins_at i e (s_all s)) ->
  src_ok (src_write i e s) /\
  (forall k, k <> fst e -> lookup k (s_cur (src_write i e s)) = lookup k (s_cur s)) /\
  (forall k, k <> fst e -> lookup k (s_all (src_write i e s)) = lookup k (s_all s)).
Proof.
  intros i e s (Hs & Hk & (pre & Ep)) Km Hsorted. unfold src_write. cbn [s_all s_cur s_kind].
  assert (Hb : (length (s_all s) - length (s_cur s))%nat = length pre).
  { rewrite Ep, app_length. lia. }
  rewrite Hb. split; [|split].
  - unfold src_ok. cbn [s_all s_cur s_kind]. split; [exact Hsorted|]. split; [left; exact Km|].
    destruct (s_cur s) as [|x r] eqn:C.
    + exists (ins_at i e (s_all s)). symmetry. apply app_nil_r.
    + destruct (Nat.leb i (length pre)) eqn:Le.
      * apply Nat.leb_le in Le. exists (ins_at i e pre). rewrite Ep. apply ins_at_app_le. exact Le.
      * apply Nat.leb_gt in Le. exists pre. rewrite Ep. apply ins_at_app_gt; [exact Le|discriminate].
  - intros k Hke. destruct (s_cur s) as [|x r]; [reflexivity|].
    destruct (Nat.leb i (length pre)); [reflexivity|]. apply lookup_ins_at. exact Hke.
  - intros k Hke. apply lookup_ins_at. exact Hke.
Qed.

(* ------------------------------------------------------------------------------------ *)
(* Part 8: with the repaired Seek the bounded iterator always repositions                  *)
(* ------------------------------------------------------------------------------------ *)

Section BoundedExact.
  Context {S : Type} (I : Iter S) (ok : S -> Prop) (content rest : S -> list kv).
  Context (L : Lawful I ok content rest).
  Context (Hstrict : forall s, ok s -> kstrict (content s)).
  Context (X : ExactSeek I ok content rest).
  Context (lo hi : option bytes).
  Context (Hflag : bounded_seek_miss_moves = true).

  Theorem bounded_exact :
    ExactSeek (bounded_iter I lo hi) ok (b_content content lo hi) (b_rest I rest lo hi).
  Proof.
    intros t s H. cbn [bounded_iter i_seek]. unfold b_seek, b_seek_gen. rewrite Hflag. cbn [negb andb].
    set (t' := match lo with Some a => if blt t a then a else t | None => t end).
    destruct (L_seek _ _ _ _ L t' s H) as (A1 & A2 & _). destruct (X t' s H) as (Xr & Xs).
    pose proof (b_content_from_ge I ok content Hstrict lo hi t s H) as Bc. fold t' in Bc.
    destruct (i_seek I t' s) as [s' ret]. cbn [fst snd] in *.
    assert (Hr' : b_rest I rest lo hi s' = from_ge t (b_content content lo hi s)).
    { rewrite Bc, <- A2. apply (b_rest_after_seek I ok content rest L Hstrict lo hi); [exact A1|rewrite A2; exact Xr|].
      apply (in_lo_true_clamp I lo hi t). }
    assert (G : b_rest I rest lo hi s' = from_ge t (b_content content lo hi s) /\
                (if ret then b_check I lo hi s' else false) = nonempty (from_ge t (b_content content lo hi s))).
    { split; [exact Hr'|]. rewrite <- Hr'. destruct ret; [apply (b_valid I ok content rest L lo hi); exact A1|].
      rewrite Hr', Bc. destruct (from_ge t' (content s)); [reflexivity|discriminate Xs]. }
    destruct ret; cbn [fst snd]; exact G.
  Qed.
End BoundedExact.
