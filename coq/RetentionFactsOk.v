(* RetentionFactsOk.v — the retention rule of the model is the rule of the code.
   gen/RetentionFacts.v (gofacts/retention.go) lists the comparisons of WAL.ManageRetention that
   involve MinSequenceKeep and mark a file for deletion; Engine.retention_keeps deletes a closed
   log file iff its highest sequence number is strictly below the acknowledged one. *)
From Coq Require Import String List NArith Bool.
From KV Require Import WalCodec Engine.
From KV.gen Require RetentionFacts.
Import ListNotations.
Local Open Scope string_scope.

Lemma retention_rule_is_the_codes :
  RetentionFacts.retention_delete_tests = [("fi.MaxSeq", "<", "config.MinSequenceKeep")].
Proof. reflexivity. Qed.

Local Open Scope N_scope.

(* ... hence a file whose highest number EQUALS the acknowledged one stays: as long as no newer
   file holds an entry, the highest number handed out so far remains on disk and a restart cannot
   fall behind it *)
Lemma retention_keeps_at_acknowledged : forall f, retention_keeps (file_max f) f = true.
Proof. intros f. unfold retention_keeps. destruct f; [reflexivity|]. rewrite N.ltb_irrefl. reflexivity. Qed.

Lemma retention_keeps_above : forall acked f, acked <= file_max f -> retention_keeps acked f = true.
Proof.
  intros acked f H. unfold retention_keeps. destruct f; [reflexivity|].
  apply negb_true_iff, N.ltb_ge. exact H.
Qed.
