(* ScanSpec.v — what a scan must return, on top of Spec.v (write history, spec_get).
   Definitions only; facts about them are in ScanProofs.v. *)
From KV Require Export Bytes Spec.
Open Scope N_scope.

(* insert a key into a strictly ascending key list *)
Fixpoint kinsert (k : bytes) (l : list bytes) : list bytes :=
  match l with
  | [] => [k]
  | x :: r => match bcmp k x with
              | Lt => k :: l
              | Eq => l
              | Gt => x :: kinsert k r
              end
  end.

(* the keys a history ever wrote, ascending, each once *)
Definition spec_keys (h : list wop) : list bytes := fold_right kinsert [] (map fst (flat h)).

(* start inclusive, end exclusive; None = unbounded *)
Definition in_range (lo hi : option bytes) (k : bytes) : bool :=
  match lo with Some a => negb (blt k a) | None => true end &&
  match hi with Some e => blt k e | None => true end.

(* the scan of the key set {k | lo <= k < hi, sel k}: the live keys of the set, ascending,
   each once, with the latest value *)
Definition spec_scan (h : list wop) (lo hi : option bytes) (sel : bytes -> bool) : list (bytes * bytes) :=
  spec_live h (filter (fun k => in_range lo hi k && sel k) (spec_keys h)).

(* with a limit (0 = none): the first `limit` of them *)
Definition spec_scan_limit (h : list wop) (lo hi : option bytes) (sel : bytes -> bool) (limit : N)
  : list (bytes * bytes) :=
  if 0 <? limit then firstn (N.to_nat limit) (spec_scan h lo hi sel) else spec_scan h lo hi sel.

(* the iterator-level view: every written key with its latest effect (None = deleted) *)
Definition spec_view (h : list wop) : list (bytes * option bytes) :=
  map (fun k => (k, match latest h k with Some x => x | None => None end)) (spec_keys h).
