(* BlockView.v — decidable checks over the generated call-graph facts (gen/Blocking.v, property
   C15) and their byte-string views for the extracted runner (names as list N, fully evaluated,
   so that Coq's String module is not extracted).  Model file: no proofs. *)
From Coq Require Import String Ascii List NArith Bool.
From KV.gen Require Import Blocking.
Import ListNotations.
Open Scope string_scope.

Definition str_in (x : string) (l : list string) : bool := existsb (String.eqb x) l.

(* kinds of operations that wait for a peer (another process, or a goroutine serving one) *)
Definition peer_kinds : list string := ["grpc_stream"; "grpc_call"; "chan_send"; "wait"; "sleep_long"].

Definition is_client_site (s : bsite) : bool := str_in (bs_root s) client_roots.
(* a site inside `if x.f == nil {..}` for a field f that this code always sets when it builds
   the value (gen: always_set_fields) is not reached at run time: the direct stream write kept
   for sessions without a sender (hand-built in tests) *)
Definition unreached_fallback (s : bsite) : bool := str_in (bs_guard s) always_set_fields.
Definition peer_blocking (s : bsite) : bool :=
  str_in (bs_kind s) peer_kinds && negb (unreached_fallback s).
Definition holds_lock (s : bsite) : bool := match bs_held s with [] => false | _ => true end.

(* a client read/write path reaches an operation that may block on a peer while a lock is held *)
Definition bad_site (s : bsite) : bool := is_client_site s && peer_blocking s && holds_lock s.

Definition no_blocking_under_lock : bool := forallb (fun s => negb (bad_site s)) blocking_sites.

(* the one class found on the pinned tree (D19, repaired by 5fc1d1b): a send on a replication
   stream reached through the WAL observer callback of the replication primary *)
Definition observer_fns : list string :=
  ["replication.Primary.OnWALEntryWritten"; "replication.Primary.OnWALBatchWritten"; "replication.Primary.OnWALSync"].
Definition via_observer_send (s : bsite) : bool :=
  String.eqb (bs_kind s) "grpc_stream" && existsb (fun f => str_in f observer_fns) (bs_path s).

Definition only_observer_sends : bool :=
  forallb (fun s => negb (bad_site s) || via_observer_send s) blocking_sites.

(* ---------- lock order ---------- *)
Definition pair_eqb (a b : string * string) : bool :=
  String.eqb (fst a) (fst b) && String.eqb (snd a) (snd b).

Fixpoint dedup (l : list (string * string)) : list (string * string) :=
  match l with
  | [] => []
  | x :: r => if existsb (pair_eqb x) r then dedup r else x :: dedup r
  end.

Definition order_pairs (es : list ledge) : list (string * string) :=
  dedup (map (fun e => (le_from e, le_to e)) es).

(* nodes reachable from a set in at most n steps *)
Fixpoint reach_from (n : nat) (ps : list (string * string)) (front : list string) : list string :=
  match n with
  | O => front
  | S n' =>
      let next := flat_map (fun a => map snd (filter (fun p => String.eqb (fst p) a) ps)) front in
      reach_from n' ps (front ++ filter (fun x => negb (str_in x front)) next)
  end.

Definition reaches (ps : list (string * string)) (a b : string) : bool :=
  str_in b (reach_from (length ps) ps (map snd (filter (fun p => String.eqb (fst p) a) ps))).

(* the edges between different locks that lie on a cycle: a -> b with b reaching a *)
Definition cyclic_pairs (ps : list (string * string)) : list (string * string) :=
  filter (fun p => negb (String.eqb (fst p) (snd p)) && reaches ps (snd p) (fst p)) ps.

(* acquisitions of a lock while a lock of the same (type, field) is held: two instances (the
   table merges instances); listed with the acquiring function so that each one is reviewed *)
Definition self_nestings (es : list ledge) : list (string * string) :=
  dedup (map (fun e => (le_from e, le_fn e)) (filter (fun e => String.eqb (le_from e) (le_to e)) es)).

Definition lock_order_acyclic (es : list ledge) : bool :=
  match cyclic_pairs (order_pairs es) with [] => true | _ => false end.

(* the lock acquisitions made by the catch-up fetch (getWALEntriesFromSequence and the WAL
   calls below it) while a replication lock is held — the poll, initial-fetch and retransmission
   paths (D19b, repaired by c7e8cb8): without them the order was acyclic *)
Definition fetch_fns : list string :=
  ["replication.Primary.getWALEntriesFromSequence"; "wal.WAL.GetNextSequence"; "wal.WAL.GetEntriesFrom"].
Definition fetch_under_replication_lock (e : ledge) : bool :=
  str_in (le_fn e) fetch_fns &&
  (String.eqb (le_from e) "replication.Primary.mu" || String.eqb (le_from e) "replication.ReplicaSession.mu").

Definition lock_order_acyclic_otherwise : bool :=
  lock_order_acyclic (filter (fun e => negb (fetch_under_replication_lock e)) lock_edges).

(* ---------- views for the runner ---------- *)
Definition name_bytes (s : string) : list N := map N_of_ascii (list_ascii_of_string s).

Definition site_view : list (list (list N) * (list (list N) * (list N * list N))) :=
  Eval vm_compute in
  map (fun s => (map name_bytes (bs_path s), (map name_bytes (bs_held s), (name_bytes (bs_kind s), name_bytes (bs_root s)))))
      blocking_sites.

Definition edge_view : list ((list N * list N) * list N) :=
  Eval vm_compute in
  map (fun e => ((name_bytes (le_from e), name_bytes (le_to e)), name_bytes (le_fn e))) lock_edges.

Fixpoint bytes_eqb (a b : list N) : bool :=
  match a, b with
  | [], [] => true
  | x :: a', y :: b' => N.eqb x y && bytes_eqb a' b'
  | _, _ => false
  end.

Fixpoint path_eqb (a b : list (list N)) : bool :=
  match a, b with
  | [], [] => true
  | x :: a', y :: b' => bytes_eqb x y && path_eqb a' b'
  | _, _ => false
  end.

(* the observed call chain of a blocked client operation is a path of the table that ends in a
   peer-blocking operation under at least one lock *)
Definition known_blocked_path (chain : list (list N)) : bool :=
  existsb (fun v => path_eqb (fst v) chain && match fst (snd v) with [] => false | _ => true end) site_view.

(* an observed pair of goroutines waiting for each other: one acquires some lock X in function
   fa while holding the WAL mutex, the other acquires the WAL mutex in function fb while
   holding X — both edges are in the table *)
Definition wal_mu : list N := Eval vm_compute in name_bytes "wal.WAL.mu".
Definition known_inversion (fa fb : list N) : bool :=
  existsb (fun e1 =>
    bytes_eqb (fst (fst e1)) wal_mu && bytes_eqb (snd e1) fa &&
    existsb (fun e2 => bytes_eqb (fst (fst e2)) (snd (fst e1)) && bytes_eqb (snd (fst e2)) wal_mu &&
                       bytes_eqb (snd e2) fb) edge_view) edge_view.
