(* SSTable.v — logical (L1) model of pkg/sstable: the writer's block-cut rule
   (writer.go AddWithSequence/flushBlock, block_builder.go AddWithSequence/EstimatedSize),
   the block iterator as a position in the entry list of one block (block_iterator.go
   SeekToFirst/SeekToLast/Seek/SeekForPrev/Next/Valid), the table iterator state machine
   (iterator.go: index iterator + data block iterator) and Reader.Get (reader.go
   FindBlockForKey/Get/SearchBlockForKey with the per-block filter lookup).
   The byte layout of blocks and files is Block.v / SSTFile.v.
   Model only; theorems are in SSTableProofs.v. *)
From KV Require Export Bytes Engine.
From KV.gen Require Import Consts.
Open Scope N_scope.

Notation block := (list sentry) (only parsing).

(* ---------- writer: which entries go into which data block ---------- *)

Definition u32 (x : N) : N := x mod 4294967296.

Definition val_len (e : sentry) : N := match sval e with Some v => len v | None => 0 end.

(* block.Builder: currentSize (uint32), restartIdx, len(restartPoints), entries *)
Record bstate := mkBS { bs_rev : list sentry; bs_size : N; bs_ridx : N; bs_nrestart : N }.
Definition bs_empty : bstate := mkBS [] 0 0 0.

(* Builder.AddWithSequence (the ordering check is the caller's obligation here) *)
Definition bs_add (b : bstate) (e : sentry) : bstate :=
  let newr := (bs_ridx b =? 0) || (block_RestartInterval <=? bs_ridx b) in
  mkBS (e :: bs_rev b)
       (u32 (bs_size b + u32 (len (sk e) + val_len e + 16)))
       ((if newr then 0 else bs_ridx b) + 1)
       (if newr then bs_nrestart b + 1 else bs_nrestart b).

(* Builder.EstimatedSize *)
Definition bs_est (b : bstate) : N :=
  match bs_rev b with
  | [] => 0
  | _ => u32 (bs_size b + u32 (bs_nrestart b * 4) + block_BlockFooterSize)
  end.

(* Writer.AddWithSequence for every entry, then Writer.Finish's flush of the pending block *)
Fixpoint cut_from (b : bstate) (es : list sentry) : list block :=
  match es with
  | [] => match bs_rev b with [] => [] | r => [rev r] end
  | e :: rest =>
    let b' := bs_add b e in
    if sstable_IndexKeyInterval <=? bs_est b'
    then rev (bs_rev b') :: cut_from bs_empty rest
    else cut_from b' rest
  end.
Definition cut (es : list sentry) : list block := cut_from bs_empty es.

(* ---------- block iterator, logically: a position in the key list of the block ---------- *)

(* validity of a positioned iterator used to demand a non-empty key (len(currentKey) > 0); since
   f30cabd every decoded key is valid: the empty key is a key *)
Definition key_nonempty (k : bytes) : bool := true.
Arguments key_nonempty : simpl never.

Record biter := mkBI { bi_init : bool; bi_cur : option nat }.
Definition bi_fresh : biter := mkBI false None.

Definition bi_key (ks : list bytes) (it : biter) : option bytes :=
  match bi_cur it with Some i => nth_error ks i | None => None end.

(* Iterator.Valid: currentKey != nil *)
Definition bi_valid (ks : list bytes) (it : biter) : bool :=
  match bi_key ks it with Some k => key_nonempty k | None => false end.

Definition bi_first (ks : list bytes) : biter :=
  mkBI true (match ks with [] => None | _ => Some 0%nat end).
Definition bi_last (ks : list bytes) : biter :=
  mkBI true (match ks with [] => None | _ => Some (length ks - 1)%nat end).

(* first position whose key is >= t *)
Fixpoint find_ge (t : bytes) (ks : list bytes) : option nat :=
  match ks with
  | [] => None
  | k :: r => if ble t k then Some 0%nat else option_map S (find_ge t r)
  end.
(* SeekForPrev: walk forward for as long as the next key is <= t *)
Fixpoint find_le (t : bytes) (ks : list bytes) : option nat :=
  match ks with
  | [] => None
  | k :: r => if ble k t
              then Some (match find_le t r with Some i => S i | None => 0%nat end)
              else None
  end.
Definition bi_seek (ks : list bytes) (t : bytes) : biter := mkBI true (find_ge t ks).
Definition bi_seek_prev (ks : list bytes) (t : bytes) : biter := mkBI true (find_le t ks).

(* Iterator.Next, with its boolean result *)
Definition bi_next (ks : list bytes) (it : biter) : biter * bool :=
  if negb (bi_init it) then (bi_first ks, bi_valid ks (bi_first ks))
  else match bi_cur it with
       | None => (it, false)
       | Some i => if Nat.ltb (S i) (length ks) then (mkBI true (Some (S i)), true)
                   else (mkBI true None, false)
       end.

(* ---------- table ---------- *)

(* t_filter j = the filter registered under the offset of data block j, if the reader has
   one; t_hasf = Reader.hasBloomFilter; t_bad j = FetchBlock fails for data block j (its
   bytes do not pass block.NewReader: false for every block of a file as written) *)
Record table := mkT { t_ikeys : list bytes;   (* keys of the index block: first key of every data block *)
                      t_blocks : list block; t_hasf : bool; t_filter : nat -> option (bytes -> bool);
                      t_bad : nat -> bool }.

Definition bfirst (b : block) : bytes := match b with e :: _ => sk e | [] => [] end.
Definition ikeys (tb : table) : list bytes := t_ikeys tb.
Definition bkeys (tb : table) (j : nat) : list bytes := map sk (nth j (t_blocks tb) []).

(* what the writer produces; fh b = membership test of the filter built from the keys of b *)
Definition write (fh : block -> bytes -> bool) (bloom : bool) (es : list sentry) : table :=
  let bs := cut es in
  mkT (map bfirst bs) bs (bloom && negb (match bs with [] => true | _ => false end))
      (fun j => if bloom then option_map fh (nth_error bs j) else None)
      (fun _ => false).

(* sstable.Iterator: initialized, indexIterator, (block number of currentBlock, dataBlockIter),
   err != nil *)
Record titer := mkTI { ti_init : bool; ti_ix : biter; ti_blk : option (nat * biter); ti_err : bool }.

(* Reader.NewIterator: the index iterator is positioned at the first index entry *)
Definition ti_new (tb : table) : titer := mkTI false (bi_first (ikeys tb)) None false.

(* loadCurrentDataBlock, called only when the index iterator is valid (all call sites check):
   the loaded block, and whether it.err was set (FetchBlock failed) *)
Definition ti_load (tb : table) (ix : biter) : option (nat * biter) * bool :=
  if bi_valid (ikeys tb) ix
  then match bi_cur ix with
       | Some j => if t_bad tb j then (None, true) else (Some (j, bi_fresh), false)
       | None => (None, false)
       end
  else (None, false).

Definition ti_valid (tb : table) (it : titer) : bool :=
  ti_init it &&
  match ti_blk it with Some (j, b) => bi_valid (bkeys tb j) b | None => false end.

(* the entry under the iterator (Key/Value/IsTombstone/SequenceNumber read its fields) *)
Definition ti_cur (tb : table) (it : titer) : option sentry :=
  if ti_valid tb it then
    match ti_blk it with
    | Some (j, b) => match bi_cur b with Some i => nth_error (nth j (t_blocks tb) []) i | None => None end
    | None => None
    end
  else None.

(* seekToFirstLocked *)
Definition ti_seek_first (tb : table) : titer :=
  let ix := bi_first (ikeys tb) in
  match ti_load tb ix with
  | (Some (j, _), _) => mkTI true ix (Some (j, bi_first (bkeys tb j))) false
  | (None, e) => mkTI true ix None e
  end.

(* findNextUniqueBlock / the loop of seekInNextBlocks: advance the index iterator to the
   next valid index entry (offsets of distinct blocks are distinct) *)
Fixpoint ix_next_valid (tb : table) (fuel : nat) (ix : biter) : biter * bool :=
  match fuel with
  | O => (ix, false)
  | S f =>
    let (ix', ok) := bi_next (ikeys tb) ix in
    if ok then (if bi_valid (ikeys tb) ix' then (ix', true) else ix_next_valid tb f ix')
    else (ix', false)
  end.

(* advanceToNextBlock; err0 = the error state before the call *)
Definition ti_advance (tb : table) (ix : biter) (err0 : bool) : titer * bool :=
  let (ix', found) := ix_next_valid tb (S (length (ikeys tb))) ix in
  if found then
    match ti_load tb ix' with
    | (Some (j, _), _) => let b := bi_first (bkeys tb j) in
                          (mkTI true ix' (Some (j, b)) err0, bi_valid (bkeys tb j) b)
    | (None, e) => (mkTI true ix' None (err0 || e), false)
    end
  else (mkTI true ix' None err0, false).

(* seekInNextBlocks: like advance, but a block whose first entry is not valid is skipped *)
Fixpoint ti_seek_next (tb : table) (fuel : nat) (ix : biter) : titer * bool :=
  match fuel with
  | O => (mkTI true ix None false, false)
  | S f =>
    let (ix', ok) := bi_next (ikeys tb) ix in
    if ok then
      match ti_load tb ix' with
      | (Some (j, _), _) => let b := bi_first (bkeys tb j) in
                            if bi_valid (bkeys tb j) b then (mkTI true ix' (Some (j, b)) false, true)
                            else ti_seek_next tb f ix'
      | (None, true) => (mkTI true ix' None true, false)   (* FetchBlock failed: return false *)
      | (None, false) => ti_seek_next tb f ix'             (* invalid index entry: skipped *)
      end
    else (mkTI true ix' None false, false)
  end.

(* Iterator.Next *)
Definition ti_next (tb : table) (it : titer) : titer * bool :=
  if negb (ti_init it) then let it' := ti_seek_first tb in (it', ti_valid tb it')
  else match ti_blk it with
       | None =>
         match ti_load tb (ti_ix it) with
         | (Some (j, _), _) => let b := bi_first (bkeys tb j) in
                               (mkTI true (ti_ix it) (Some (j, b)) (ti_err it), bi_valid (bkeys tb j) b)
         | (None, e) => (mkTI true (ti_ix it) None (ti_err it || e), false)
         end
       | Some (j, b) =>
         let (b', ok) := bi_next (bkeys tb j) b in
         if ok then (mkTI true (ti_ix it) (Some (j, b')) (ti_err it), true)
         else ti_advance tb (ti_ix it) (ti_err it)
       end.

(* Iterator.Seek *)
Definition ti_seek (tb : table) (t : bytes) : titer * bool :=
  let ix0 := bi_seek_prev (ikeys tb) t in
  let ix := if bi_valid (ikeys tb) ix0 then ix0 else bi_first (ikeys tb) in
  match ti_load tb ix with
  | (None, e) => (mkTI true ix None e, false)
  | (Some (j, _), _) =>
    let b := bi_seek (bkeys tb j) t in
    match bi_cur b with
    | Some _ => (mkTI true ix (Some (j, b)) false, true)
    | None => ti_seek_next tb (S (length (ikeys tb))) ix
    end
  end.

(* Iterator.SeekToLast: findLastUniqueBlockOffset walks the index while it is valid *)
Fixpoint valid_run (ks : list bytes) : nat :=
  match ks with
  | k :: r => if key_nonempty k then S (valid_run r) else O
  | [] => O
  end.
Definition ti_seek_last (tb : table) : titer :=
  match valid_run (ikeys tb) with
  | O => mkTI true (bi_first (ikeys tb)) None false
  | S j => let ix := mkBI true (Some j) in
           if t_bad tb j then mkTI true ix None true
           else mkTI true ix (Some (j, bi_last (bkeys tb j))) false
  end.

(* ---------- Reader.Get ---------- *)

Inductive gres := GNotFound | GTomb | GVal (v : bytes) | GErr.
Definition gres_of (e : sentry) : gres := match sval e with Some v => GVal v | None => GTomb end.

(* the backup linear scan of SearchBlockForKey: for SeekToFirst; Valid; Next *)
Fixpoint scan_valid (k : bytes) (b : block) : option sentry :=
  match b with
  | [] => None
  | e :: r => if key_nonempty (sk e) then (if beq (sk e) k then Some e else scan_valid k r) else None
  end.

(* SearchBlockForKey *)
Definition search_block (b : block) (k : bytes) : option sentry :=
  match find_ge k (map sk b) with
  | Some i => match nth_error b i with
              | Some e => if beq (sk e) k then Some e else scan_valid k b
              | None => scan_valid k b
              end
  | None => scan_valid k b
  end.

Definition t_get (tb : table) (k : bytes) : gres :=
  let ix := bi_seek_prev (ikeys tb) k in
  if bi_valid (ikeys tb) ix then
    match bi_cur ix with
    | None => GNotFound
    | Some j =>
      (* only a filter registered for the block that answers "no" skips the block *)
      let pass := if t_hasf tb
                  then match t_filter tb j with Some f => f k | None => true end
                  else true in
      if pass then
        if t_bad tb j then GErr   (* FetchBlock fails *)
        else match search_block (nth j (t_blocks tb) []) k with
             | Some e => gres_of e
             | None => GNotFound
             end
      else GNotFound
    end
  else GNotFound.

(* ---------- scripts (for the correspondence and the theorems) ---------- *)

Fixpoint collect (tb : table) (fuel : nat) (it : titer) : list sentry :=
  match fuel with
  | O => []
  | S f => match ti_cur tb it with
           | Some e => e :: collect tb f (fst (ti_next tb it))
           | None => []
           end
  end.

Fixpoint nexts (tb : table) (n : nat) (it : titer) : titer :=
  match n with O => it | S m => nexts tb m (fst (ti_next tb it)) end.

(* ---------- specification side ---------- *)

Definition first_ge (t : bytes) (es : list sentry) : option sentry :=
  find (fun e => ble t (sk e)) es.
Definition lookup (k : bytes) (es : list sentry) : gres :=
  match find (fun e => beq (sk e) k) es with Some e => gres_of e | None => GNotFound end.

(* guards *)
Definition wf_sentry (e : sentry) : bool :=
  (1 <=? len (sk e)) && (len (sk e) <=? 65535) && (val_len e <? 4294967295) &&
  (sseq e <? 18446744073709551616) && wf_bytes (sk e) &&
  match sval e with Some v => wf_bytes v | None => true end.

Fixpoint ascending (es : list sentry) : bool :=
  match es with
  | a :: ((b :: _) as r) => blt (sk a) (sk b) && ascending r
  | _ => true
  end.
