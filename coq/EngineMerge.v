(* EngineMerge.v — batches with merge operands (Engine.mixed_batch / Engine.merge_batch) and C08.
   A batch that consists only of merge entries is an acknowledged write that consumes a sequence
   number and is logged but changes no memtable; recovery has nothing to rebuild from its
   entries and yet has to count their number when it restores the sequence counter.
   The history invariant [Inv] of EngineProofs.v ties the log to the memtable entries and has no
   room for such a write, and [Engine.op] has no constructor for it. This file therefore works
   with a smaller invariant that speaks about the counters and the log only ([SeqInv]) and with
   programs over the sum of the old operations and the new write ([xop], [run_m]); the old
   per-operation lemmas (apply_batch_ok, put_as_batch, add_all_spec, flush_spec, reopen_some,
   the lost_log lemmas) are reused for the old operations.
     Part 1  what one mixed / merge-only batch does        (merge_batch_ok, _nil, _overflow,
                                                             mixed_batch_plain)
     Part 2  the log maximum, [SeqInv], one lemma per operation
     Part 3  programs with merge writes: C08 for them       (C08m_monotone, C08m_reported_monotone,
             C08m_log_order, C08m_reopen_restores, C08m_merge_survives_reopen, C08m_not_reused)
   Not proved here: C01 (reads) for programs with mixed batches — for a merge-only batch the
   reads are unchanged (merge_batch_ok), for a batch that mixes puts/deletes with merges the
   model function is checked against the code by the correspondence run only. *)
From Coq Require Import Lia ZifyN ZifyNat ZifyBool Sorted.
From KV Require Import Bytes Spec Memtable MemtableProofs WalCodec Engine EngineProofs.
Open Scope N_scope.

(* ------------------------------------------------------------------------------------ *)
(* Part 1: one batch                                                                      *)
(* ------------------------------------------------------------------------------------ *)

Definition mwrite_state (s : st) (ops : list eop) : st :=
  let q := wal_next s in
  fold_left (eop_apply q) ops
            (upd_wal s (q + 1) (log_append (wal_files s) (map (eop_entry q) ops))).

Lemma mixed_batch_nil : forall s, mixed_batch s [] = (s, WrOk (wal_next s)).
Proof. reflexivity. Qed.

Lemma mixed_batch_overflow : forall s ops,
  (MaxSeq <=? wal_next s) = true -> ops <> [] -> mixed_batch s ops = (s, WrOverflow).
Proof.
  intros s [|o r] H Hne; [congruence|]. unfold mixed_batch. rewrite H. reflexivity.
Qed.

Lemma mixed_batch_ok : forall s ops,
  (MaxSeq <=? wal_next s) = false -> ops <> [] ->
  mixed_batch s ops = (maybe_schedule (mwrite_state s ops), WrOk (wal_next s)).
Proof.
  intros s [|o r] H Hne; [congruence|]. unfold mixed_batch. rewrite H. reflexivity.
Qed.

(* what the loop over the entries leaves alone *)
Lemma eop_fold_spec : forall q ops s,
  let s' := fold_left (eop_apply q) ops s in
  cfg s' = cfg s /\ wal_next s' = wal_next s /\ wal_files s' = wal_files s /\
  imms s' = imms s /\ pending s' = pending s /\ ssts s' = ssts s /\
  lost_log s' = lost_log s /\ (ops <> [] -> last_seq s' = q).
Proof.
  intros q ops. induction ops as [|o r IH]; intros s; cbn zeta.
  - cbn [fold_left]. repeat split; try reflexivity. intros H. congruence.
  - cbn [fold_left]. specialize (IH (eop_apply q s o)). cbn zeta in IH.
    destruct IH as (H1 & H2 & H3 & H4 & H5 & H6 & H7 & H8).
    assert (F : cfg (eop_apply q s o) = cfg s /\ wal_next (eop_apply q s o) = wal_next s /\
                wal_files (eop_apply q s o) = wal_files s /\ imms (eop_apply q s o) = imms s /\
                pending (eop_apply q s o) = pending s /\ ssts (eop_apply q s o) = ssts s /\
                lost_log (eop_apply q s o) = lost_log s /\ last_seq (eop_apply q s o) = q).
    { unfold eop_apply. destruct (snd o); unfold set_last, pool_add; proj;
        repeat split; reflexivity. }
    destruct F as (F1 & F2 & F3 & F4 & F5 & F6 & F7 & F8).
    rewrite H1, H2, H3, H4, H5, H6, H7, F1, F2, F3, F4, F5, F6, F7.
    do 7 (split; [reflexivity|]). intros _. destruct r as [|o' r'].
    + cbn [fold_left]. exact F8.
    + apply H8. discriminate.
Qed.

(* a batch without merge entries is the batch of EngineProofs.v *)
Definition eop_of_bop (o : bop) : eop :=
  (fst o, match snd o with Some v => EPut v | None => EDel end).

Lemma mixed_batch_plain : forall s ops, mixed_batch s (map eop_of_bop ops) = apply_batch s ops.
Proof.
  intros s ops. destruct ops as [|o r]; [reflexivity|].
  assert (E : forall q l, map (eop_entry q) (map eop_of_bop l) = map (bop_entry q) l).
  { intros q l. rewrite map_map. apply map_ext. intros [k [v|]]; reflexivity. }
  assert (G : forall q l a, fold_left (eop_apply q) (map eop_of_bop l) a =
                            fold_left (fun a o => set_last (pool_add a (bop_mentry q o)) q) l a).
  { intros q l. induction l as [|x l IH]; intros a; [reflexivity|].
    cbn [map fold_left]. rewrite IH. f_equal. destruct x as [k [v|]]; reflexivity. }
  unfold mixed_batch, apply_batch. change (map eop_of_bop (o :: r)) with (eop_of_bop o :: map eop_of_bop r).
  destruct (MaxSeq <=? wal_next s); [reflexivity|].
  change (eop_of_bop o :: map eop_of_bop r) with (map eop_of_bop (o :: r)).
  rewrite E, G. reflexivity.
Qed.

(* ---------- the merge-only batch ---------- *)

Definition merge_entry (q : N) (e : bytes * bytes) : wentry := mkW OpMerge q (fst e) (snd e).

Lemma merge_only_entries : forall q es, map (eop_entry q) (merge_only es) = map (merge_entry q) es.
Proof. intros q es. unfold merge_only. rewrite map_map. apply map_ext. intros [k v]. reflexivity. Qed.

Lemma merge_only_nil : forall es, merge_only es = [] <-> es = [].
Proof. intros [|e r]; split; intros H; try reflexivity; discriminate. Qed.

Lemma set_last_idem : forall s q, set_last (set_last s q) q = set_last s q.
Proof. reflexivity. Qed.

Lemma merge_fold : forall q es s, es <> [] ->
  fold_left (eop_apply q) (merge_only es) s = set_last s q.
Proof.
  intros q es. induction es as [|e r IH]; intros s Hne; [congruence|].
  change (merge_only (e :: r)) with ((fst e, EMerge (snd e)) :: merge_only r).
  cbn [fold_left]. change (eop_apply q s (fst e, EMerge (snd e))) with (set_last s q).
  destruct r as [|e' r']; [reflexivity|].
  rewrite IH by discriminate. apply set_last_idem.
Qed.

Lemma get_maybe_schedule : forall s k, get (maybe_schedule s) k = get s k.
Proof.
  intros s k. unfold maybe_schedule. destruct (flush_pending s); [|reflexivity].
  unfold get, mem_layers, schedule_flush; proj. rewrite rev_unit. reflexivity.
Qed.

Lemma merge_batch_nil : forall s, merge_batch s [] = (s, WrOk (wal_next s)).
Proof. reflexivity. Qed.

Lemma merge_batch_overflow : forall s es,
  MaxSeq <= wal_next s -> es <> [] -> merge_batch s es = (s, WrOverflow).
Proof.
  intros s es H Hne. unfold merge_batch. apply mixed_batch_overflow.
  - apply N.leb_le. exact H.
  - rewrite merge_only_nil. exact Hne.
Qed.

Lemma maybe_schedule_seq : forall s,
  wal_next (maybe_schedule s) = wal_next s /\ last_seq (maybe_schedule s) = last_seq s /\
  wal_files (maybe_schedule s) = wal_files s.
Proof. intros s. unfold maybe_schedule. destruct (flush_pending s); repeat split; reflexivity. Qed.

(* (a) a merge-only batch on a state with room: acknowledged with the next number of the log,
   both counters move to it, its entries are appended to the log, no read changes *)
Theorem merge_batch_ok : forall s es,
  es <> [] -> wal_next s < MaxSeq ->
  let s' := fst (merge_batch s es) in
  snd (merge_batch s es) = WrOk (wal_next s) /\
  wal_next s' = wal_next s + 1 /\
  last_seq s' = wal_next s /\
  concat (wal_files s') = concat (wal_files s) ++ map (merge_entry (wal_next s)) es /\
  lost_log s' = lost_log s /\
  (forall k, get s' k = get s k).
Proof.
  intros s es Hne Hroom. cbn zeta. unfold merge_batch.
  assert (M : (MaxSeq <=? wal_next s) = false) by (apply N.leb_gt; exact Hroom).
  assert (Hne' : merge_only es <> []) by (rewrite merge_only_nil; exact Hne).
  rewrite (mixed_batch_ok s (merge_only es) M Hne'). cbn [fst snd].
  unfold mwrite_state. rewrite (merge_fold _ es _ Hne), merge_only_entries.
  set (X := set_last (upd_wal s (wal_next s + 1)
              (log_append (wal_files s) (map (merge_entry (wal_next s)) es))) (wal_next s)).
  destruct (maybe_schedule_seq X) as (S1 & S2 & S3).
  split; [reflexivity|]. rewrite S1, S2, S3, lost_log_maybe_schedule.
  split; [reflexivity|]. split; [reflexivity|]. split; [|split; [reflexivity|]].
  - unfold X, set_last, upd_wal; proj. apply concat_log_append.
  - intros k. rewrite get_maybe_schedule. reflexivity.
Qed.

(* ------------------------------------------------------------------------------------ *)
(* Part 2: the counters and the log                                                       *)
(* ------------------------------------------------------------------------------------ *)

(* the highest sequence number in the log, as RecoverFromWAL computes it *)
Definition log_max (es : list wentry) : N := fold_left rec_max es 0.
Definition wseq_le (a b : wentry) : Prop := w_seq a <= w_seq b.

Record SeqInv (s : st) : Prop := mkSeqInv {
  si_next : wal_next s = last_seq s + 1;
  si_last : last_seq s = log_max (concat (wal_files s));
  si_sorted : StronglySorted wseq_le (concat (wal_files s))
}.

Lemma rec_max_ge : forall l d, d <= fold_left rec_max l d.
Proof.
  induction l as [|a l IH]; intros d; cbn [fold_left]; [lia|].
  specialize (IH (rec_max d a)). unfold rec_max in *. destruct (d <? w_seq a) eqn:L; lia.
Qed.

Lemma rec_max_in : forall l d x, In x l -> w_seq x <= fold_left rec_max l d.
Proof.
  induction l as [|a l IH]; intros d x Hx; [contradiction|]. cbn [fold_left].
  destruct Hx as [<-|Hx]; [|apply IH; exact Hx].
  pose proof (rec_max_ge l (rec_max d a)) as G. unfold rec_max in *.
  destruct (d <? w_seq a) eqn:L; lia.
Qed.

Lemma rec_max_const : forall new d q,
  d <= q -> Forall (fun e => w_seq e = q) new -> new <> [] -> fold_left rec_max new d = q.
Proof.
  induction new as [|e r IH]; intros d q Hd Hf Hne; [congruence|].
  inversion Hf as [|? ? He Hr]; subst. cbn [fold_left].
  assert (E : rec_max d e = w_seq e).
  { unfold rec_max. destruct (d <? w_seq e) eqn:L; lia. }
  rewrite E. destruct r as [|e' r']; [reflexivity|].
  apply IH; [lia|exact Hr|discriminate].
Qed.

Lemma log_max_append : forall l new q,
  log_max l < q -> Forall (fun e => w_seq e = q) new -> new <> [] -> log_max (l ++ new) = q.
Proof.
  intros l new q Hl Hf Hne. unfold log_max in *. rewrite fold_left_app.
  apply rec_max_const; [lia|exact Hf|exact Hne].
Qed.

(* recovery returns the log maximum whatever the entry types are *)
Lemma recover_tables_max : forall c es tables maxseq tbls m',
  recover_tables c es tables maxseq = Some (tbls, m') -> m' = fold_left rec_max es maxseq.
Proof.
  intros c es. induction es as [|e r IH]; intros tables maxseq tbls m' H.
  - cbn [recover_tables] in H. injection H as _ <-. reflexivity.
  - cbn [recover_tables] in H. fold (rec_max maxseq e) in H. cbn [fold_left].
    destruct tables as [|cur older]; [discriminate|].
    destruct (c_memsize c <=? mt_size cur).
    + destruct (c_maxmem c <=? N.of_nat (length (cur :: older))); [discriminate|].
      eapply IH. exact H.
    + eapply IH. exact H.
Qed.

Lemma SeqInv_init : forall c, SeqInv (init c).
Proof. intros c. constructor; unfold init; proj; cbn [concat app]; [reflexivity|reflexivity|constructor]. Qed.

(* an operation that leaves the counters and the content of the log alone *)
Lemma SeqInv_frame : forall s s',
  SeqInv s -> wal_next s' = wal_next s -> last_seq s' = last_seq s ->
  concat (wal_files s') = concat (wal_files s) -> SeqInv s'.
Proof.
  intros s s' [I1 I2 I3] H1 H2 H3. constructor; rewrite ?H1, ?H2, ?H3; assumption.
Qed.

(* a write: non-empty entries, all stamped with the next number of the log *)
Lemma SeqInv_write : forall s s' new,
  SeqInv s -> new <> [] -> Forall (fun e => w_seq e = wal_next s) new ->
  concat (wal_files s') = concat (wal_files s) ++ new ->
  wal_next s' = wal_next s + 1 -> last_seq s' = wal_next s -> SeqInv s'.
Proof.
  intros s s' new [I1 I2 I3] Hne Hf Hc Hn Hl. constructor.
  - rewrite Hn, Hl. reflexivity.
  - rewrite Hl, Hc. symmetry. apply log_max_append; [lia|exact Hf|exact Hne].
  - rewrite Hc. apply SS_app. split; [exact I3|]. split.
    + clear Hc Hne. induction new as [|e r IHr]; constructor.
      * apply IHr. inversion Hf; assumption.
      * inversion Hf as [|? ? He Hr]; subst. rewrite Forall_forall in *. intros x Hx.
        unfold wseq_le. rewrite He, (Hr x Hx). lia.
    + intros a b Ha Hb. rewrite Forall_forall in Hf. unfold wseq_le. rewrite (Hf b Hb).
      pose proof (rec_max_in _ 0 a Ha) as G. fold (log_max (concat (wal_files s))) in G. lia.
Qed.

(* what a step reports and what it does to the counters: nothing acknowledged and both counters
   unchanged, or the next number of the log acknowledged and both counters moved to it *)
Definition eff_ok (s s' : st) (qs : list N) : Prop :=
  (qs = [] /\ wal_next s' = wal_next s /\ last_seq s' = last_seq s) \/
  (qs = [wal_next s] /\ wal_next s' = wal_next s + 1 /\ last_seq s' = wal_next s).

Definition bseq {A : Type} (ops : list A) (r : wr_res) : list N :=
  match ops, r with
  | _ :: _, WrOk q => [q]
  | _, _ => []
  end.

Lemma apply_batch_eff : forall s ops, SeqInv s ->
  SeqInv (fst (apply_batch s ops)) /\
  eff_ok s (fst (apply_batch s ops)) (bseq ops (snd (apply_batch s ops))).
Proof.
  intros s ops I. destruct ops as [|o r].
  - cbn [apply_batch fst snd bseq]. split; [exact I|]. left. repeat split; reflexivity.
  - assert (Hne : o :: r <> []) by discriminate.
    destruct (MaxSeq <=? wal_next s) eqn:M.
    + rewrite (apply_batch_overflow _ _ M Hne). cbn [fst snd bseq]. split; [exact I|].
      left. repeat split; reflexivity.
    + rewrite (apply_batch_ok _ _ M Hne). cbn [fst snd bseq].
      destruct (maybe_schedule_seq (write_state s (o :: r))) as (S1 & S2 & S3).
      pose proof (add_all_spec (wal_next s) (o :: r)
        (upd_wal s (wal_next s + 1)
           (log_append (wal_files s) (map (bop_entry (wal_next s)) (o :: r))))) as A.
      cbn zeta in A. fold (write_state s (o :: r)) in A.
      destruct A as (_ & A2 & A3 & _ & _ & _ & _ & _ & _ & A10 & _).
      specialize (A10 Hne). unfold upd_wal in A2, A3. revert A2 A3. proj. intros A2 A3.
      split.
      * eapply SeqInv_write with (new := map (bop_entry (wal_next s)) (o :: r)).
        -- exact I.
        -- discriminate.
        -- rewrite Forall_forall. intros x Hx. apply in_map_iff in Hx.
           destruct Hx as (b & <- & _). apply wseq_bop_entry.
        -- rewrite S3, A3. apply concat_log_append.
        -- rewrite S1. exact A2.
        -- rewrite S2. exact A10.
      * right. rewrite S1, S2. repeat split; assumption.
Qed.

Lemma mixed_batch_eff : forall s ops, SeqInv s ->
  SeqInv (fst (mixed_batch s ops)) /\
  eff_ok s (fst (mixed_batch s ops)) (bseq ops (snd (mixed_batch s ops))).
Proof.
  intros s ops I. destruct ops as [|o r].
  - cbn [mixed_batch fst snd bseq]. split; [exact I|]. left. repeat split; reflexivity.
  - assert (Hne : o :: r <> []) by discriminate.
    destruct (MaxSeq <=? wal_next s) eqn:M.
    + rewrite (mixed_batch_overflow _ _ M Hne). cbn [fst snd bseq]. split; [exact I|].
      left. repeat split; reflexivity.
    + rewrite (mixed_batch_ok _ _ M Hne). cbn [fst snd bseq].
      destruct (maybe_schedule_seq (mwrite_state s (o :: r))) as (S1 & S2 & S3).
      pose proof (eop_fold_spec (wal_next s) (o :: r)
        (upd_wal s (wal_next s + 1)
           (log_append (wal_files s) (map (eop_entry (wal_next s)) (o :: r))))) as A.
      cbn zeta in A. fold (mwrite_state s (o :: r)) in A.
      destruct A as (_ & A2 & A3 & _ & _ & _ & _ & A8).
      specialize (A8 Hne). unfold upd_wal in A2, A3. revert A2 A3. proj. intros A2 A3.
      split.
      * eapply SeqInv_write with (new := map (eop_entry (wal_next s)) (o :: r)).
        -- exact I.
        -- discriminate.
        -- rewrite Forall_forall. intros x Hx. apply in_map_iff in Hx.
           destruct Hx as ([k [v| |v]] & <- & _); reflexivity.
        -- rewrite S3, A3. apply concat_log_append.
        -- rewrite S1. exact A2.
        -- rewrite S2. exact A8.
      * right. rewrite S1, S2. repeat split; assumption.
Qed.

Lemma lost_log_mixed_batch : forall s ops, lost_log (fst (mixed_batch s ops)) = lost_log s.
Proof.
  intros s ops. destruct ops as [|o r]; [reflexivity|].
  destruct (MaxSeq <=? wal_next s) eqn:M.
  - rewrite mixed_batch_overflow by (assumption || discriminate). reflexivity.
  - rewrite mixed_batch_ok by (assumption || discriminate). cbn [fst].
    rewrite lost_log_maybe_schedule. unfold mwrite_state.
    pose proof (eop_fold_spec (wal_next s) (o :: r)
      (upd_wal s (wal_next s + 1)
         (log_append (wal_files s) (map (eop_entry (wal_next s)) (o :: r))))) as A.
    cbn zeta in A. destruct A as (_ & _ & _ & _ & _ & _ & A7 & _). rewrite A7. reflexivity.
Qed.

Lemma flush_eff : forall s, SeqInv s -> SeqInv (flush s) /\ eff_ok s (flush s) [].
Proof.
  intros s I. destruct (flush_spec s) as (_ & G2 & G3 & G4 & _). split.
  - eapply SeqInv_frame; eassumption.
  - left. repeat split; assumption.
Qed.

(* close and reopen: a recovery that fails starts a new log at 1; one that succeeds restores
   both counters exactly — whatever the types of the logged entries are *)
Lemma reopen_eff : forall s, SeqInv s ->
  SeqInv (reopen s) /\ (lost_log (reopen s) = false -> eff_ok s (reopen s) []).
Proof.
  intros s I. destruct (recovered s) as [[tbls maxseq]|] eqn:R.
  - pose proof R as R'. unfold recovered in R'. apply recover_tables_max in R'.
    rewrite concat_reopen_files in R'. fold (log_max (concat (wal_files s))) in R'.
    rewrite <- (si_last s I) in R'. subst maxseq.
    rewrite (reopen_some s tbls _ R).
    assert (N1 : (if last_seq s =? 0 then 1 else last_seq s + 1) = last_seq s + 1).
    { destruct (last_seq s =? 0) eqn:Z; [|reflexivity]. apply N.eqb_eq in Z. rewrite Z. reflexivity. }
    rewrite N1. split.
    + constructor; proj; rewrite ?concat_reopen_files.
      * reflexivity.
      * exact (si_last s I).
      * exact (si_sorted s I).
    + intros _. left. proj. repeat split. symmetry. exact (si_next s I).
  - rewrite (reopen_none s R). split.
    + constructor; proj; cbn [concat app]; [reflexivity|reflexivity|constructor].
    + proj. discriminate.
Qed.

(* ------------------------------------------------------------------------------------ *)
(* Part 3: programs with merge writes                                                     *)
(* ------------------------------------------------------------------------------------ *)

(* the old operations and the new write: ApplyBatch on entries of any type *)
Inductive xop := XOp (o : op) | XMixed (ops : list eop).
Definition XMerge (es : list (bytes * bytes)) : xop := XMixed (merge_only es).

Definition xstep (s : st) (x : xop) : st :=
  match x with
  | XOp o => step s o
  | XMixed ops => fst (mixed_batch s ops)
  end.

Definition run_m (c : config) (xs : list xop) : st := fold_left xstep xs (init c).

(* the sequence number one step returns, when it acknowledges a non-empty write *)
Definition xseq1 (s : st) (x : xop) : list N :=
  match x with
  | XOp o => seq1 s o
  | XMixed ops => bseq ops (snd (mixed_batch s ops))
  end.

Fixpoint ack_seqs_m (s : st) (xs : list xop) : list N :=
  match xs with
  | [] => []
  | x :: r => xseq1 s x ++ ack_seqs_m (xstep s x) r
  end.

(* the reported last sequence after every step *)
Fixpoint last_trace (s : st) (xs : list xop) : list N :=
  match xs with
  | [] => []
  | x :: r => last_seq (xstep s x) :: last_trace (xstep s x) r
  end.

Definition reachable_m (s : st) : Prop := exists c xs, s = run_m c xs.

(* programs without the new write are the programs of EngineProofs.v *)
Lemma run_m_plain : forall c ops, run_m c (map XOp ops) = run c ops.
Proof.
  intros c ops. unfold run_m, run. generalize (init c). induction ops as [|o r IH]; intros s;
    [reflexivity|]. cbn [map fold_left xstep]. apply IH.
Qed.

Lemma ack_seqs_m_plain : forall ops s, ack_seqs_m s (map XOp ops) = ack_seqs s ops.
Proof.
  induction ops as [|o r IH]; intros s; [reflexivity|].
  cbn [map ack_seqs_m ack_seqs xseq1 xstep]. rewrite IH. reflexivity.
Qed.

Lemma ack_seqs_m_app : forall xs ys s,
  ack_seqs_m s (xs ++ ys) = ack_seqs_m s xs ++ ack_seqs_m (fold_left xstep xs s) ys.
Proof.
  induction xs as [|x r IH]; intros ys s; [reflexivity|].
  cbn [app ack_seqs_m fold_left]. rewrite IH, app_assoc. reflexivity.
Qed.

Lemma xstep_eff : forall s x, SeqInv s ->
  SeqInv (xstep s x) /\ (lost_log (xstep s x) = false -> eff_ok s (xstep s x) (xseq1 s x)).
Proof.
  intros s x I. destruct x as [o|ops]; cbn [xstep xseq1].
  - destruct o as [k v|k|ops|ops|ops| | |k]; cbn [step seq1].
    + rewrite put_as_batch. destruct (apply_batch_eff s [(k, Some v)] I) as [A B].
      split; [exact A|intros _; exact B].
    + rewrite del_as_batch. destruct (apply_batch_eff s [(k, None)] I) as [A B].
      split; [exact A|intros _; exact B].
    + destruct (apply_batch_eff s ops I) as [A B]. split; [exact A|intros _].
      destruct ops; exact B.
    + rewrite tx_commit_as_batch. destruct (apply_batch_eff s (buffer_ops ops) I) as [A B].
      split; [exact A|intros _]. destruct (buffer_ops ops); exact B.
    + split; [exact I|]. intros _. left. repeat split; reflexivity.
    + destruct (flush_eff s I) as [A B]. split; [exact A|intros _; exact B].
    + apply reopen_eff. exact I.
    + split; [exact I|]. intros _. left. repeat split; reflexivity.
  - destruct (mixed_batch_eff s ops I) as [A B]. split; [exact A|intros _; exact B].
Qed.

Lemma SeqInv_xsteps : forall xs s, SeqInv s -> SeqInv (fold_left xstep xs s).
Proof.
  induction xs as [|x r IH]; intros s I; [exact I|]. cbn [fold_left]. apply IH.
  apply xstep_eff. exact I.
Qed.

Lemma SeqInv_run_m : forall c xs, SeqInv (run_m c xs).
Proof. intros. unfold run_m. apply SeqInv_xsteps. apply SeqInv_init. Qed.

Lemma reachable_m_SeqInv : forall s, reachable_m s -> SeqInv s.
Proof. intros s (c & xs & ->). apply SeqInv_run_m. Qed.

Lemma lost_log_xstep_mono : forall s x, lost_log s = true -> lost_log (xstep s x) = true.
Proof.
  intros s [o|ops] H; cbn [xstep].
  - apply lost_log_step_mono. exact H.
  - rewrite lost_log_mixed_batch. exact H.
Qed.

Lemma lost_log_xsteps_false : forall xs s,
  lost_log (fold_left xstep xs s) = false -> lost_log s = false.
Proof.
  induction xs as [|x r IH]; intros s H; [exact H|].
  cbn [fold_left] in H. apply IH in H. destruct (lost_log s) eqn:L; [|reflexivity].
  rewrite (lost_log_xstep_mono s x L) in H. discriminate.
Qed.

(* the generalised statement: from any state that satisfies the invariant *)
Lemma ack_seqs_m_from : forall xs s,
  SeqInv s -> lost_log (fold_left xstep xs s) = false ->
  StronglySorted N.lt (ack_seqs_m s xs) /\
  Forall (fun q => wal_next s <= q) (ack_seqs_m s xs) /\
  wal_next s <= wal_next (fold_left xstep xs s) /\
  last_seq (fold_left xstep xs s) = last (ack_seqs_m s xs) (last_seq s).
Proof.
  induction xs as [|x r IH]; intros s I Hl.
  - cbn [ack_seqs_m fold_left last]. repeat split; try constructor. lia.
  - cbn [fold_left] in *. cbn [ack_seqs_m].
    destruct (xstep_eff s x I) as [I' E].
    specialize (E (lost_log_xsteps_false _ _ Hl)).
    destruct (IH _ I' Hl) as (H1 & H2 & H3 & H4).
    destruct E as [(-> & E1 & E2)|(-> & E1 & E2)]; cbn [app].
    + rewrite E1 in *. rewrite E2 in *. repeat split; assumption.
    + rewrite E1 in *. rewrite E2 in *. repeat split.
      * constructor; [exact H1|]. eapply Forall_impl; [|exact H2]. cbn beta. intros a Ha. lia.
      * constructor; [lia|]. eapply Forall_impl; [|exact H2]. cbn beta. intros a Ha. lia.
      * lia.
      * rewrite last_cons_default. exact H4.
Qed.

(* C08 for programs with merge writes: the acknowledged numbers increase strictly, across
   rotation, flush, and reopen, also when the last write before a reopen is a merge-only batch *)
Theorem C08m_monotone : forall c xs,
  lost_log (run_m c xs) = false -> StronglySorted N.lt (ack_seqs_m (init c) xs).
Proof.
  intros c xs Hl. exact (proj1 (ack_seqs_m_from xs (init c) (SeqInv_init c) Hl)).
Qed.

Theorem C08m_reported_monotone :
  (forall c xs x, lost_log (xstep (run_m c xs) x) = false ->
     last_seq (run_m c xs) <= last_seq (xstep (run_m c xs) x)) /\
  (forall c xs, lost_log (run_m c xs) = false ->
     last_seq (run_m c xs) = last (ack_seqs_m (init c) xs) 0 /\
     last_seq (run_m c xs) < wal_next (run_m c xs)).
Proof.
  split.
  - intros c xs x Hl. pose proof (SeqInv_run_m c xs) as I.
    destruct (xstep_eff _ x I) as [_ E]. specialize (E Hl).
    pose proof (si_next _ I) as Nx.
    destruct E as [(_ & _ & E2)|(_ & _ & E2)]; rewrite E2; lia.
  - intros c xs Hl. split.
    + exact (proj2 (proj2 (proj2 (ack_seqs_m_from xs (init c) (SeqInv_init c) Hl)))).
    + rewrite (si_next _ (SeqInv_run_m c xs)). lia.
Qed.

(* the log: numbers never decrease along it, every number is below the next one of the log,
   and the reported last sequence is the highest number in it (so a recovery that takes the
   maximum over ALL entries restores both counters) — also after a log loss *)
Theorem C08m_log_order : forall c xs,
  StronglySorted wseq_le (concat (wal_files (run_m c xs))) /\
  Forall (fun e => w_seq e < wal_next (run_m c xs)) (concat (wal_files (run_m c xs))) /\
  last_seq (run_m c xs) = log_max (concat (wal_files (run_m c xs))).
Proof.
  intros c xs. pose proof (SeqInv_run_m c xs) as I. split; [exact (si_sorted _ I)|]. split.
  - rewrite Forall_forall. intros e He. pose proof (rec_max_in _ 0 e He) as G.
    fold (log_max (concat (wal_files (run_m c xs)))) in G.
    rewrite <- (si_last _ I) in G. rewrite (si_next _ I). lia.
  - exact (si_last _ I).
Qed.

(* close and reopen of any reachable state restores both counters exactly *)
Theorem C08m_reopen_restores : forall s,
  reachable_m s -> lost_log (reopen s) = false ->
  wal_next (reopen s) = wal_next s /\ last_seq (reopen s) = last_seq s.
Proof.
  intros s R Hl. destruct (reopen_eff s (reachable_m_SeqInv s R)) as [_ E].
  destruct (E Hl) as [(_ & E1 & E2)|(C & _)]; [split; assumption|discriminate].
Qed.

(* on a reachable state a merge-only batch raises both counters strictly *)
Theorem C08m_merge_raises : forall s es,
  reachable_m s -> es <> [] -> wal_next s < MaxSeq ->
  last_seq s < last_seq (fst (merge_batch s es)) /\
  wal_next s < wal_next (fst (merge_batch s es)).
Proof.
  intros s es R Hne Hroom. destruct (merge_batch_ok s es Hne Hroom) as (_ & M2 & M3 & _).
  rewrite M2, M3. rewrite (si_next _ (reachable_m_SeqInv s R)). lia.
Qed.

(* (b) a merge-only batch as the last write before a reopen: its number is the reported last
   sequence after the reopen and the log continues above it *)
Theorem C08m_merge_survives_reopen : forall s es,
  reachable_m s -> es <> [] -> wal_next s < MaxSeq ->
  let s' := fst (merge_batch s es) in
  lost_log (reopen s') = false ->
  snd (merge_batch s es) = WrOk (wal_next s) /\
  last_seq (reopen s') = wal_next s /\
  wal_next (reopen s') = wal_next s + 1 /\
  (forall k v, snd (put (reopen s') k v) = WrOk (wal_next s + 1) \/
               snd (put (reopen s') k v) = WrOverflow).
Proof.
  intros s es R Hne Hroom. cbn zeta. intros Hl.
  destruct (merge_batch_ok s es Hne Hroom) as (M1 & M2 & M3 & _).
  assert (R' : reachable_m (fst (merge_batch s es))).
  { destruct R as (c & xs & ->). exists c, (xs ++ [XMerge es]).
    unfold run_m. rewrite fold_left_app. reflexivity. }
  destruct (C08m_reopen_restores _ R' Hl) as [E1 E2].
  split; [exact M1|]. split; [rewrite E2; exact M3|]. split; [rewrite E1; exact M2|].
  intros k v. unfold put. destruct (MaxSeq <=? wal_next (reopen (fst (merge_batch s es)))).
  - right. reflexivity.
  - left. cbn [snd]. rewrite E1, M2. reflexivity.
Qed.

(* the number of a write is never handed out again: everything acknowledged before it is
   below it, everything acknowledged after it — whatever lies between — is above it *)
Theorem C08m_not_reused : forall c xs x ys q,
  lost_log (run_m c (xs ++ x :: ys)) = false ->
  xseq1 (run_m c xs) x = [q] ->
  Forall (fun q' => q' < q) (ack_seqs_m (init c) xs) /\
  Forall (fun q' => q < q') (ack_seqs_m (xstep (run_m c xs) x) ys).
Proof.
  intros c xs x ys q Hl Hq. pose proof (C08m_monotone c _ Hl) as S.
  rewrite ack_seqs_m_app in S. cbn [ack_seqs_m] in S. fold (run_m c xs) in S. rewrite Hq in S.
  apply SS_app in S. destruct S as (_ & S2 & S3). split.
  - rewrite Forall_forall. intros a Ha. apply S3; [exact Ha|left; reflexivity].
  - cbn [app] in S2. inversion S2; subst. assumption.
Qed.

(* ---------- non-vacuity: put a; put b; ApplyBatch [merge, merge]; close; reopen; put c ---------- *)
Module C08m_example.
  Definition c0 := mkCfg 4096 1000.
  Definition ka : bytes := [97]. Definition kb : bytes := [98]. Definition kc : bytes := [99].
  Definition ctr : bytes := [99; 116; 114].
  Definition prog : list xop :=
    [XOp (OPut ka [1]); XOp (OPut kb [2]); XMerge [(ctr, [43; 1]); (ctr, [43; 2])];
     XOp OReopen; XOp (OPut kc [3])].
  Example seqs : ack_seqs_m (init c0) prog = [1; 2; 3; 4].
  Proof. vm_compute. reflexivity. Qed.
  Example reported : last_trace (init c0) prog = [1; 2; 3; 3; 4].
  Proof. vm_compute. reflexivity. Qed.
  Example log : map (fun e => (w_op e, w_seq e)) (concat (wal_files (run_m c0 prog))) =
                [(OpPut, 1); (OpPut, 2); (OpMerge, 3); (OpMerge, 3); (OpPut, 4)].
  Proof. vm_compute. reflexivity. Qed.
  Example no_loss : lost_log (run_m c0 prog) = false.
  Proof. vm_compute. reflexivity. Qed.
  (* the merge batch changes no read; the writes around it are read back after the reopen *)
  Example reads : map (get (run_m c0 prog)) [ka; kb; kc; ctr] = [Some [1]; Some [2]; Some [3]; None].
  Proof. vm_compute. reflexivity. Qed.
  (* the hypotheses of C08m_merge_survives_reopen hold in the scenario *)
  Example survives :
    let s := run_m c0 (firstn 2 prog) in
    let s' := fst (merge_batch s [(ctr, [43; 1]); (ctr, [43; 2])]) in
    wal_next s = 3 /\ lost_log (reopen s') = false /\ last_seq (reopen s') = 3 /\
    wal_next (reopen s') = 4.
  Proof. vm_compute. repeat split; reflexivity. Qed.
  (* a batch that mixes a put with merge operands, then an empty merge batch *)
  Example mixed :
    ack_seqs_m (init c0)
      [XOp (OPut ka [1]); XMixed [(ctr, EMerge [1]); (kb, EPut [2]); (ka, EDel)]; XMerge [];
       XOp OReopen; XOp (ODel kb)] = [1; 2; 3].
  Proof. vm_compute. reflexivity. Qed.
End C08m_example.
