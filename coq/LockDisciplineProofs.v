(* LockDisciplineProofs.v — soundness of the lockset discipline (no data race) and of ranked
   lock acquisition (no wait-for cycle), and soundness of the decision procedures that are
   evaluated on the generated table. *)
From Coq Require Import List String Bool Arith Relations Lia.
From KV Require Import LockDiscipline.
Import ListNotations.

(* ---------- basic facts ---------- *)
Lemma mode_eqb_eq : forall a b, mode_eqb a b = true <-> a = b.
Proof. destruct a, b; simpl; split; intro H; try reflexivity; try discriminate. Qed.

Lemma hold_eqb_eq : forall a b, hold_eqb a b = true <-> a = b.
Proof.
  intros [[t l] m] [[t' l'] m']; simpl. rewrite !andb_true_iff, Nat.eqb_eq, String.eqb_eq, mode_eqb_eq.
  split; [intros [[-> ->] ->]; reflexivity | intro H; inversion H; auto].
Qed.

Lemma hold_eq_dec : forall a b : hold, {a = b} + {a <> b}.
Proof.
  intros a b. destruct (hold_eqb a b) eqn:E.
  - left; apply hold_eqb_eq; exact E.
  - right; intro H; apply hold_eqb_eq in H; congruence.
Qed.

Lemma event_eq_dec : forall a b : event, {a = b} + {a <> b}.
Proof.
  decide equality; try apply Nat.eq_dec; try apply string_dec; decide equality.
Qed.

Lemma remove_one_subset : forall x y h, In x (remove_one y h) -> In x h.
Proof.
  induction h as [|z h IH]; simpl; auto. destruct (hold_eqb y z); simpl; intuition.
Qed.

Lemma remove_one_other : forall x y h, In x h -> x <> y -> In x (remove_one y h).
Proof.
  induction h as [|z h IH]; simpl; auto. intros [->|H] N.
  - destruct (hold_eqb y x) eqn:E; [apply hold_eqb_eq in E; congruence | left; reflexivity].
  - destruct (hold_eqb y z); [exact H | right; auto].
Qed.

Lemma run_app : forall a b h, run h (a ++ b) = run (run h a) b.
Proof. induction a; simpl; auto. Qed.

Lemma wf_app : forall a b h, wf_from h (a ++ b) <-> wf_from h a /\ wf_from (run h a) b.
Proof. induction a; simpl; intros; [tauto|]. rewrite IHa. tauto. Qed.

Lemma nth_error_skipn : forall (A : Type) (l : list A) i k, nth_error (skipn i l) k = nth_error l (i + k).
Proof. induction l; destruct i; simpl; intros; auto. destruct k; reflexivity. Qed.

Lemma firstn_split_at : forall (A : Type) (l : list A) i j, i <= j ->
  firstn j l = firstn i l ++ firstn (j - i) (skipn i l).
Proof.
  induction l; intros i j L.
  - rewrite !firstn_nil, skipn_nil, firstn_nil. reflexivity.
  - destruct i; simpl.
    + rewrite Nat.sub_0_r. reflexivity.
    + destruct j; [lia|]. simpl. f_equal. apply IHl. lia.
Qed.

(* ---------- mutual exclusion invariant ---------- *)
Definition compat (h : list hold) : Prop :=
  forall t t' l m m', In (t, l, m) h -> In (t', l, m') h -> t <> t' -> m = Sh /\ m' = Sh.

Lemma compat_step : forall h e, compat h -> step_ok h e -> compat (step h e).
Proof.
  intros h e C OK. destruct e as [t l m|t l m| | |]; simpl; auto.
  - intros a b l0 ma mb [Ha|Ha] [Hb|Hb] N.
    + inversion Ha; inversion Hb; congruence.
    + inversion Ha; subst. destruct ma; simpl in OK.
      * destruct mb; auto. exfalso; eapply OK; eauto.
      * exfalso; eapply OK; eauto.
    + inversion Hb; subst. destruct mb; simpl in OK.
      * destruct ma; auto. exfalso; eapply OK; eauto.
      * exfalso; eapply OK; eauto.
    + eapply C; eauto.
  - intros a b l0 ma mb Ha Hb N. apply remove_one_subset in Ha. apply remove_one_subset in Hb. eapply C; eauto.
Qed.

Lemma compat_run : forall tr h, compat h -> wf_from h tr -> compat (run h tr).
Proof. induction tr; simpl; auto. intros h C [OK W]. apply IHtr; auto. apply compat_step; auto. Qed.

Lemma compat_nil : compat [].
Proof. intros ? ? ? ? ? []. Qed.

(* ---------- the two trace lemmas ---------- *)
(* a hold that conflicts with a later acquisition was released before it *)
Lemma release_between : forall tr h d t l m t' m',
  wf_from h tr -> In (t, l, m) h -> nth_error tr d = Some (Acq t' l m') -> (m = Ex \/ m' = Ex) ->
  exists k, k < d /\ nth_error tr k = Some (Rel t l m).
Proof.
  induction tr as [|e tr IH]; intros h d t l m t' m' W I N X.
  - destruct d; discriminate.
  - destruct W as [OK W]. destruct d.
    + simpl in N. inversion N; subst. simpl in OK. destruct m'.
      * destruct X as [->|X]; [|discriminate]. exfalso; eapply OK; eauto.
      * exfalso; eapply OK; eauto.
    + simpl in N. destruct (event_eq_dec e (Rel t l m)) as [->|NE].
      * exists 0. split; [lia|reflexivity].
      * assert (I' : In (t, l, m) (step h e)).
        { destruct e as [a b c|a b c| | |]; simpl; auto.
          apply remove_one_other; auto. intro E; inversion E; subst; congruence. }
        destruct (IH _ _ _ _ _ _ _ W I' N X) as [k [Lk Nk]].
        exists (S k). split; [lia|exact Nk].
Qed.

(* a hold that was not there before was acquired in between *)
Lemma acquired_since : forall tr h d t l m,
  ~ In (t, l, m) h -> In (t, l, m) (run h (firstn d tr)) ->
  exists a, a < d /\ nth_error tr a = Some (Acq t l m).
Proof.
  induction tr as [|e tr IH]; intros h d t l m NI I.
  - rewrite firstn_nil in I. simpl in I. contradiction.
  - destruct d; [simpl in I; contradiction|]. simpl in I.
    destruct (event_eq_dec e (Acq t l m)) as [->|NE].
    + exists 0. split; [lia|reflexivity].
    + assert (NI' : ~ In (t, l, m) (step h e)).
      { destruct e as [a b c|a b c| | |]; simpl; auto.
        - intros [E|E]; [inversion E; subst; congruence|auto].
        - intro E. apply remove_one_subset in E. auto. }
      destruct (IH _ _ _ _ _ NI' I) as [a [La Na]].
      exists (S a). split; [lia|exact Na].
Qed.

(* ---------- lockset soundness ---------- *)
Lemma ordered_pair : forall tr l i j t t' mi mj,
  wf tr -> i < j -> t <> t' -> (mi = Ex \/ mj = Ex) ->
  (exists e, nth_error tr i = Some e /\ thread_of e = t /\ (forall a b c, e <> Rel a b c)) ->
  (exists e, nth_error tr j = Some e /\ thread_of e = t' /\ (forall a b c, e <> Acq a b c)) ->
  In (t, l, mi) (state_at tr i) -> In (t', l, mj) (state_at tr j) ->
  hb tr i j.
Proof.
  intros tr l i j t t' mi mj W L NT X [ei [Ni [Ti NRi]]] [ej [Nj [Tj NAj]]] Hi Hj.
  unfold state_at in *.
  set (pre := firstn i tr) in *. set (suf := skipn i tr).
  assert (Etr : tr = pre ++ suf) by (symmetry; apply firstn_skipn).
  assert (Wsuf : wf_from (run [] pre) suf).
  { unfold wf in W. rewrite Etr in W. apply wf_app in W. tauto. }
  assert (Wpre : wf_from [] pre).
  { unfold wf in W. rewrite Etr in W. apply wf_app in W. tauto. }
  assert (C : compat (run [] pre)) by (apply compat_run; [apply compat_nil|exact Wpre]).
  rewrite (firstn_split_at _ tr i j) in Hj by lia. fold pre in Hj. fold suf in Hj.
  rewrite run_app in Hj.
  destruct (in_dec hold_eq_dec (t', l, mj) (run [] pre)) as [I|NI].
  - exfalso. destruct (C _ _ _ _ _ Hi I NT) as [A B]. destruct X; congruence.
  - destruct (acquired_since _ _ _ _ _ _ NI Hj) as [a [La Na]].
    destruct (release_between _ _ _ _ _ _ _ _ Wsuf Hi Na X) as [k [Lk Nk]].
    unfold suf in Na, Nk. rewrite nth_error_skipn in Na, Nk.
    assert (k <> 0).
    { intro; subst k. rewrite Nat.add_0_r in Nk. rewrite Ni in Nk. inversion Nk. eapply NRi; eauto. }
    assert (i + a <> j).
    { intro E. rewrite E in Na. rewrite Nj in Na. inversion Na. eapply NAj; eauto. }
    apply t_trans with (i + k).
    { apply t_step. eapply hb_po; eauto. lia. }
    apply t_trans with (i + a).
    { apply t_step. eapply hb_sync; eauto. lia. }
    apply t_step. eapply hb_po; eauto. lia.
Qed.

Theorem lockset_sound : forall tr,
  wf tr -> (forall x, exists l, guarded tr x l) -> ~ race tr.
Proof.
  intros tr W G [i [j [e [e' [L [Ni [Nj [Cf NH]]]]]]]].
  apply NH. clear NH.
  destruct e as [a0 b0 c0|a0 b0 c0|t x|t x|a0 b0]; destruct e' as [a1 b1 c1|a1 b1 c1|t' x'|t' x'|a1 b1]; simpl in Cf; try contradiction;
    destruct Cf as [<- NT]; destruct (G x) as [l Gl].
  - (* Rd / Wr *)
    destruct (Gl i t) as [_ R]. destruct (R Ni) as [m Hi].
    destruct (Gl j t') as [Wj _]. specialize (Wj Nj).
    eapply ordered_pair with (mi := m) (mj := Ex); eauto.
    + eexists; repeat split; eauto; discriminate.
    + eexists; repeat split; eauto; discriminate.
  - (* Wr / Rd *)
    destruct (Gl i t) as [Wi _]. specialize (Wi Ni).
    destruct (Gl j t') as [_ R]. destruct (R Nj) as [m Hj].
    eapply ordered_pair with (mi := Ex) (mj := m); eauto.
    + eexists; repeat split; eauto; discriminate.
    + eexists; repeat split; eauto; discriminate.
  - (* Wr / Wr *)
    destruct (Gl i t) as [Wi _]. specialize (Wi Ni).
    destruct (Gl j t') as [Wj _]. specialize (Wj Nj).
    eapply ordered_pair with (mi := Ex) (mj := Ex); eauto.
    + eexists; repeat split; eauto; discriminate.
    + eexists; repeat split; eauto; discriminate.
Qed.

(* ---------- non-vacuity of lockset_sound ---------- *)
Definition ex_good : trace :=
  [Fork 0 1; Acq 0 "mu" Ex; Wr 0 "x"; Rel 0 "mu" Ex; Acq 1 "mu" Sh; Rd 1 "x"; Rel 1 "mu" Sh]%string.

Example ex_good_wf : wf ex_good.
Proof.
  unfold wf, ex_good; simpl. repeat split; auto; try (intros ? ? F; simpl in F; intuition congruence);
    try (intros ? F; simpl in F; intuition congruence).
Qed.

Example ex_good_no_race : ~ race ex_good.
Proof.
  apply lockset_sound; [exact ex_good_wf|].
  intro x. exists "mu"%string. intros i t. unfold ex_good, state_at.
  split; intro H; repeat (destruct i as [|i]; simpl in H; try discriminate);
    inversion H; subst; simpl; eauto.
Qed.

Lemma hb1_lt : forall tr i j, hb1 tr i j -> i < j.
Proof. intros tr i j H; inversion H; auto. Qed.

Lemma hb_lt : forall tr i j, hb tr i j -> i < j.
Proof. induction 1; [eapply hb1_lt; eauto | lia]. Qed.

(* the same two accesses without the lock do race: the definition of `race` is inhabited *)
Definition ex_bad : trace := [Wr 0 "x"; Rd 1 "x"]%string.

Example ex_bad_race : race ex_bad.
Proof.
  exists 0, 1, (Wr 0 "x"%string), (Rd 1 "x"%string). repeat split; auto; try discriminate.
  intro H. apply clos_trans_t1n in H. inversion H as [y H1|y z H1 H2]; subst.
  - inversion H1; subst; simpl in *;
      repeat match goal with
             | H : Some _ = Some _ |- _ => inversion H; clear H; subst
             end; simpl in *; try discriminate; try congruence.
  - apply hb1_lt in H1. apply clos_t1n_trans in H2. apply hb_lt in H2. lia.
Qed.

(* ---------- ranked acquisition: no wait-for cycle ---------- *)
Lemma ranked_app : forall rank a b h,
  ranked_from rank h (a ++ b) <-> ranked_from rank h a /\ ranked_from rank (run h a) b.
Proof. induction a; simpl; intros; [tauto|]. rewrite IHa. tauto. Qed.

Lemma chain_rank : forall rank h pend,
  (forall t l, In (t, l) pend -> ordered_acq rank h t l) ->
  forall t t', clos_trans tid (waits_for h pend) t t' ->
  exists l l' m', In (t, l) pend /\ In (t', l', m') h /\ rank l <= rank l'.
Proof.
  intros rank h pend O t t' H. apply clos_trans_tn1 in H. induction H as [t' [l [m' [P I]]] | t' u [l [m' [P I]]] H IH].
  - exists l, l, m'. auto.
  - destruct IH as [l0 [l1 [m1 [P0 [I1 Le]]]]].
    exists l0, l, m'. repeat split; auto.
    specialize (O _ _ P _ _ I1). lia.
Qed.

(* the state reached by a trace all of whose extensions by a blocked acquisition are still
   ranked has no wait-for cycle among the blocked threads *)
Theorem ranked_no_deadlock : forall rank tr pend,
  (forall t l, In (t, l) pend -> forall m, ranked rank (tr ++ [Acq t l m])) ->
  ~ wait_cycle (run [] tr) pend.
Proof.
  intros rank tr pend R [t Cy].
  assert (O : forall t l, In (t, l) pend -> ordered_acq rank (run [] tr) t l).
  { intros t0 l P. specialize (R _ _ P Ex). unfold ranked in R. apply ranked_app in R.
    destruct R as [_ R]. simpl in R. tauto. }
  destruct (chain_rank _ _ _ O _ _ Cy) as [l [l' [m' [P [I Le]]]]].
  specialize (O _ _ P _ _ I). lia.
Qed.

(* non-vacuity: two threads taking two locks in opposite orders reach a wait-for cycle, and
   that trace is indeed not ranked by any rank *)
Definition ex_dead : trace := [Acq 0 "a" Ex; Acq 1 "b" Ex]%string.
Definition ex_dead_pend : list pending := [(0, "b"); (1, "a")]%string.

Example ex_dead_cycle : wait_cycle (run [] ex_dead) ex_dead_pend.
Proof.
  exists 0. apply t_trans with 1; apply t_step.
  - exists "b"%string, Ex. simpl. auto.
  - exists "a"%string, Ex. simpl. auto.
Qed.

Example ex_dead_unranked : forall rank,
  ~ (forall t l, In (t, l) ex_dead_pend -> forall m, ranked rank (ex_dead ++ [Acq t l m])).
Proof.
  intros rank R. exact (ranked_no_deadlock rank ex_dead ex_dead_pend R ex_dead_cycle).
Qed.

(* a recursive acquisition is a one-thread cycle *)
Example ex_self_cycle : wait_cycle (run [] [Acq 0 "a"%string Sh]) [(0, "a"%string)].
Proof. exists 0. apply t_step. exists "a"%string, Sh. simpl. auto. Qed.

Example ex_ordered_ranked :
  ranked (fun l => if String.eqb l "a" then 0 else 1)
         [Acq 0 "a" Ex; Acq 0 "b" Ex; Rel 0 "b" Ex; Rel 0 "a" Ex; Acq 1 "a" Ex; Acq 1 "b" Sh]%string.
Proof.
  unfold ranked; simpl. repeat split; auto; intros l' m' H; simpl in H;
    repeat (destruct H as [H|H]; [inversion H; subst; simpl; lia|]); contradiction.
Qed.

(* ---------- decision procedures ---------- *)
Lemma held_mem_In : forall l m hs, held_mem l m hs = true -> In (l, m) hs.
Proof.
  unfold held_mem. intros l m hs H. apply existsb_exists in H. destruct H as [[l' m'] [I E]].
  simpl in E. apply andb_true_iff in E. destruct E as [E1 E2].
  apply String.eqb_eq in E1. apply mode_eqb_eq in E2. subst. exact I.
Qed.

Theorem protectedb_sound : forall t, protectedb t = true -> protected t.
Proof.
  unfold protectedb, row_okb, protected. intros t H r I.
  rewrite forallb_forall in H. specialize (H r I). apply existsb_exists in H.
  destruct H as [[l m] [_ F]]. simpl in F. exists l. intros r' I' E.
  rewrite forallb_forall in F. apply F. unfold rows_of. apply filter_In. split; auto.
  rewrite E. apply String.eqb_refl.
Qed.

(* the table discipline gives the lockset discipline on every conforming trace *)
Theorem table_no_race : forall t tr,
  protected t -> wf tr -> conforms t tr -> ~ race tr.
Proof.
  intros t tr P W Cf. apply lockset_sound; auto.
  intro x.
  destruct (existsb (fun r => String.eqb (a_loc r) x) t) eqn:E.
  - apply existsb_exists in E. destruct E as [r [I E]]. apply String.eqb_eq in E.
    destruct (P r I) as [l G]. exists l. intros i th. split; intro N.
    + specialize (Cf i _ N). simpl in Cf. destruct Cf as [r' [I' [L' [Wr' H']]]].
      apply H'. apply held_mem_In. specialize (G r' I'). rewrite L', E in G. specialize (G eq_refl).
      unfold guards in G. rewrite Wr' in G. exact G.
    + specialize (Cf i _ N). simpl in Cf. destruct Cf as [r' [I' [L' [Wr' H']]]].
      specialize (G r' I'). rewrite L', E in G. specialize (G eq_refl).
      unfold guards in G. rewrite Wr' in G. apply orb_true_iff in G. destruct G as [G|G].
      * exists Sh. apply H'. apply held_mem_In. exact G.
      * exists Ex. apply H'. apply held_mem_In. exact G.
  - (* no row talks about x: a conforming trace has no access to x *)
    exists ""%string. intros i th. split; intro N; exfalso;
      specialize (Cf i _ N); simpl in Cf; destruct Cf as [r' [I' [L' _]]];
      assert (X : existsb (fun r => String.eqb (a_loc r) x) t = true)
        by (apply existsb_exists; exists r'; split; auto; rewrite L'; apply String.eqb_refl);
      congruence.
Qed.

Theorem acyclicb_sound : forall g, acyclicb g = true -> acyclic g.
Proof.
  unfold acyclicb, acyclic. intros g H. exists (fun k => lookup k (rank_of g)).
  intros a b I. rewrite forallb_forall in H. specialize (H _ I). simpl in H.
  apply Nat.ltb_lt in H. exact H.
Qed.

(* an acyclic order has no cycle in the usual sense *)
Lemma acyclic_no_cycle : forall g, acyclic g ->
  forall a, ~ clos_trans lock (fun x y => In (x, y) g) a a.
Proof.
  intros g [rank R] a C.
  assert (forall x y, clos_trans lock (fun x y => In (x, y) g) x y -> rank x < rank y).
  { induction 1; [auto | lia]. }
  specialize (H _ _ C). lia.
Qed.

Lemma follows_ranked : forall g rank, (forall a b, In (a, b) g -> rank a < rank b) ->
  forall tr h, follows_from g h tr -> ranked_from rank h tr.
Proof.
  induction tr; simpl; auto. intros h [F1 F2]. split; [|auto].
  destruct a; auto. intros l' m' I. apply H. eapply F1; eauto.
Qed.

(* an acyclic lock order excludes a wait-for cycle in every state reached by a trace whose
   nested acquisitions (the blocked ones included) are instances of order edges *)
Theorem order_no_deadlock : forall g tr pend,
  acyclic g ->
  (forall t l, In (t, l) pend -> forall m, follows g (tr ++ [Acq t l m])) ->
  ~ wait_cycle (run [] tr) pend.
Proof.
  intros g tr pend [rank R] F. apply (ranked_no_deadlock rank).
  intros t l P m. apply follows_ranked with g; auto. apply F; auto.
Qed.

(* non-vacuity of the decision procedures *)
Example protectedb_yes : protectedb
  [mkAccess "T.f" "T.Set" true [("T.mu", Ex)]; mkAccess "T.f" "T.Get" false [("T.mu", Sh); ("U.mu", Ex)]]%string = true.
Proof. reflexivity. Qed.

Example protectedb_no_unlocked : protectedb
  [mkAccess "T.f" "T.Set" true [("T.mu", Ex)]; mkAccess "T.f" "T.Peek" false []]%string = false.
Proof. reflexivity. Qed.

Example protectedb_no_write_shared : protectedb
  [mkAccess "T.f" "T.Set" true [("T.mu", Sh)]; mkAccess "T.f" "T.Get" false [("T.mu", Sh)]]%string = false.
Proof. reflexivity. Qed.

Example protectedb_no_two_locks : protectedb
  [mkAccess "T.f" "T.A" true [("T.mu", Ex)]; mkAccess "T.f" "T.B" true [("T.flushMu", Ex)]]%string = false.
Proof. reflexivity. Qed.

Example acyclicb_yes : acyclicb [("a", "b"); ("b", "c"); ("a", "c")]%string = true.
Proof. reflexivity. Qed.

Example acyclicb_cycle : acyclicb [("a", "b"); ("b", "c"); ("c", "a")]%string = false.
Proof. reflexivity. Qed.

Example acyclicb_self : acyclicb [("a", "a")]%string = false.
Proof. reflexivity. Qed.
