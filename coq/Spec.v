(* Spec.v — the specification the engine is measured against: a write history and what a key
   reads as after it. Short enough to read in a minute. *)
From KV Require Export Bytes.
Open Scope N_scope.

(* one acknowledged write; a batch (transaction commit, ApplyBatch) takes effect as a whole,
   its operations in order: (key, None) deletes the key *)
Inductive wop :=
| WPut (k v : bytes)
| WDel (k : bytes)
| WBatch (ops : list (bytes * option bytes)).

(* the flat sequence of single-key effects of a history, oldest first *)
Definition effects (w : wop) : list (bytes * option bytes) :=
  match w with
  | WPut k v => [(k, Some v)]
  | WDel k => [(k, None)]
  | WBatch ops => ops
  end.

Definition flat (h : list wop) : list (bytes * option bytes) := flat_map effects h.

(* the last effect on key k: None = never written, Some None = deleted, Some (Some v) = value *)
Fixpoint last_effect (k : bytes) (l : list (bytes * option bytes)) : option (option bytes) :=
  match l with
  | [] => None
  | (k', v) :: r =>
      match last_effect k r with
      | Some x => Some x
      | None => if beq k' k then Some v else None
      end
  end.

Definition latest (h : list wop) (k : bytes) : option (option bytes) := last_effect k (flat h).

(* what Get must return: None = not found *)
Definition spec_get (h : list wop) (k : bytes) : option bytes :=
  match latest h k with
  | Some (Some v) => Some v
  | _ => None
  end.

(* the live keys with their values, ascending — what a full scan must return *)
Definition spec_live (h : list wop) (keys : list bytes) : list (bytes * bytes) :=
  flat_map (fun k => match spec_get h k with Some v => [(k, v)] | None => [] end) keys.
