(* Bytes.v — byte strings, lexicographic order, little-endian integers, CRC-32.
   Model only (executable definitions); lemmas live in BytesProofs.v. *)
From Coq Require Export List NArith Bool.
Export ListNotations.
Open Scope N_scope.

Definition byte := N.
Definition bytes := list N.

Definition wf_byte (b : N) : bool := b <? 256.
Definition wf_bytes (l : bytes) : bool := forallb wf_byte l.

(* Go bytes.Compare *)
Fixpoint bcmp (a b : bytes) : comparison :=
  match a, b with
  | [], [] => Eq
  | [], _ :: _ => Lt
  | _ :: _, [] => Gt
  | x :: a', y :: b' =>
      match N.compare x y with
      | Eq => bcmp a' b'
      | c => c
      end
  end.

Definition beq (a b : bytes) : bool := match bcmp a b with Eq => true | _ => false end.
Definition blt (a b : bytes) : bool := match bcmp a b with Lt => true | _ => false end.
Definition ble (a b : bytes) : bool := match bcmp a b with Gt => false | _ => true end.

Fixpoint has_prefix (p s : bytes) : bool :=
  match p, s with
  | [], _ => true
  | _ :: _, [] => false
  | x :: p', y :: s' => (x =? y) && has_prefix p' s'
  end.

Definition has_suffix (p s : bytes) : bool := has_prefix (rev p) (rev s).

(* little endian, n bytes (truncating: the Go casts uint16(..)/uint32(..) wrap the same way) *)
Fixpoint le (n : nat) (x : N) : bytes :=
  match n with
  | O => []
  | S n' => (x mod 256) :: le n' (x / 256)
  end.

Fixpoint unle (l : bytes) : N :=
  match l with
  | [] => 0
  | b :: l' => b + 256 * unle l'
  end.

Definition len (l : bytes) : N := N.of_nat (length l).

(* CRC-32 / IEEE (reflected, polynomial 0xEDB88320), as hash/crc32.ChecksumIEEE *)
Definition crc_poly : N := 3988292384.   (* 0xEDB88320 *)
Definition crc_mask : N := 4294967295.   (* 0xFFFFFFFF *)

Definition crc_bit (c : N) : N :=
  if N.odd c then N.lxor (N.shiftr c 1) crc_poly else N.shiftr c 1.

Definition crc_byte (c : N) (b : N) : N :=
  let c := N.lxor c (b mod 256) in
  crc_bit (crc_bit (crc_bit (crc_bit (crc_bit (crc_bit (crc_bit (crc_bit c))))))).

Definition crc32 (l : bytes) : N :=
  N.lxor (fold_left crc_byte l crc_mask) crc_mask.

