(* ApiView.v — the generated API fact table (gen/Api.v) with names as byte strings, fully
   evaluated, so that the extracted model carries it without Coq's String module (whose
   extraction would shadow OCaml's String in the driver). Model file: no proofs. *)
From Coq Require Import String Ascii List NArith.
From KV.gen Require Import Api.
Import ListNotations.

Record arow := mkArow {
  r_facade : bool; r_name : list N; r_iface : bool; r_mutates : bool; r_guarded : bool; r_leaks : bool }.

Definition name_bytes (s : string) : list N := map N_of_ascii (list_ascii_of_string s).

Definition conv (m : api_row) : arow :=
  mkArow (match a_api m with Facade => true | Service => false end) (name_bytes (a_name m)) (a_iface m)
         (a_writes m || a_begins_rw m) (a_guarded m) (a_leaks m).

Definition api_view : list arow := Eval vm_compute in map conv api_table.
