(* Extract.v — extraction of the executable models to OCaml (ExtrOcamlBasic only;
   N/Z/positive/nat stay Coq datatypes; no Extract Constant). Run from the output dir. *)
From Coq Require Import Extraction ExtrOcamlBasic.
From KV Require Import Bytes WalCodec Memtable Engine.
From KV Require Import ReadOnly.
From KV Require Import ApiView.
From KV Require Import ReplProto.
From KV Require Import BlockView.
Extraction Language OCaml.
Set Extraction Output Directory ".".
Separate Extraction
  Bytes.crc32 Bytes.bcmp Bytes.le Bytes.unle
  WalCodec.replay_file WalCodec.replay_dir WalCodec.dir_status WalCodec.entries_from
  WalCodec.encode_log WalCodec.encode_entry WalCodec.encode_batch
  WalCodec.wal_append WalCodec.wal_append_batch WalCodec.wal_append_seq
  WalCodec.wal_new_file WalCodec.wal_update_next WalCodec.canon WalCodec.wf_entry
  Memtable.mt_iter_entries Memtable.seek_ge Memtable.mt_put Memtable.mt_del Memtable.mt_get
  Memtable.mt_set_imm Memtable.mt_empty
  Engine.init Engine.put Engine.del Engine.apply_batch Engine.tx_commit Engine.get Engine.flush
  Engine.reopen Engine.run Engine.buffer_ops
  ReadOnly.start ReadOnly.step_client ReadOnly.step_repl ReadOnly.node_get ReadOnly.tx_get
  ReadOnly.node_scan ReadOnly.node_info ReadOnly.rw_open ReadOnly.any_open ApiView.api_view
  ReplProto.sys_init ReplProto.step ReplProto.settle ReplProto.views_agree ReplProto.scan_of
  ReplProto.idle ReplProto.good
  BlockView.known_blocked_path BlockView.known_inversion.
