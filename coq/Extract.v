(* Extract.v — (append `From … Require` lines and root lines; the command ends with the lone `.` line)
 extraction of the executable models to OCaml (ExtrOcamlBasic only;
   N/Z/positive/nat stay Coq datatypes; no Extract Constant). Run from the output dir. *)
From Coq Require Import Extraction ExtrOcamlBasic.
From KV Require Import Bytes WalCodec Memtable Engine.
From KV Require Import ReadOnly.
From KV Require Import ApiView.
From KV Require Import ReplProto.
From KV Require Import BlockView.
From KV Require Import Config.
From KV Require Import Hist.
From KV Require Import LockDiscipline.
From KV.gen Require Locks.
From KV Require Import SSTable Xxhash Block SSTFile.
From KV Require Import Iter.
From KV Require Import Compaction.
From KV Require Import Txn.
From KV Require Import TxnAtomic.
From KV Require Import Service.
From KV Require Import Repl.
From KV Require Import Registry.
From KV Require Import MemPool.
From KV.gen Require Import RegFacts.
Extraction Language OCaml.
(* Coq's String module (identifiers of the C07 lock table) must not shadow OCaml's: it is emitted as String0 *)
Extraction Blacklist String.
Set Extraction Output Directory ".".
Separate Extraction
  Bytes.crc32 Bytes.bcmp Bytes.le Bytes.unle
  WalCodec.replay_file WalCodec.replay_dir WalCodec.dir_status WalCodec.entries_from
  WalCodec.encode_log WalCodec.encode_entry WalCodec.encode_batch
  WalCodec.wal_append WalCodec.wal_append_batch WalCodec.wal_append_seq
  WalCodec.wal_new_file WalCodec.wal_update_next WalCodec.canon WalCodec.wf_entry
  Memtable.mt_iter_entries Memtable.seek_ge Memtable.mt_put Memtable.mt_del Memtable.mt_get
  Memtable.mt_set_imm Memtable.mt_empty
  Memtable.h_new Memtable.h_first Memtable.h_seek Memtable.h_next
  MemPool.pl_empty MemPool.pl_put MemPool.pl_del MemPool.pl_switch MemPool.pl_tables MemPool.pl_get
  Engine.init Engine.put Engine.del Engine.apply_batch Engine.tx_commit Engine.get Engine.flush
  Engine.reopen Engine.run Engine.buffer_ops
  Engine.mixed_batch Engine.merge_batch
  ReadOnly.start ReadOnly.step_client ReadOnly.step_repl ReadOnly.node_get ReadOnly.tx_get
  ReadOnly.node_scan ReadOnly.node_info ReadOnly.rw_open ReadOnly.any_open ApiView.api_view
  ReplProto.sys_init ReplProto.step ReplProto.settle ReplProto.views_agree ReplProto.scan_of
  ReplProto.idle ReplProto.good
  BlockView.known_blocked_path BlockView.known_inversion
  Config.default_config Config.zero_config Config.field_lookup Config.kind_of Config.name_of Config.all_fields
  Config.get_int Config.get_str Config.set_int Config.set_str Config.set_ratio Config.validate Config.encode
  Config.save Config.load Config.load_bytes Config.open_db Config.no_dir Config.mkdir Config.truncate_manifest
  Config.flip_bit Config.pnum Config.float_of_num Config.enc_int Config.N_of_dec Config.dec_of_N
  Hist.lin_check Hist.lin_verdicts
  LockDiscipline.protectedb LockDiscipline.flagged_rows LockDiscipline.acyclicb Locks.gen_accesses Locks.gen_order
  SSTable.write SSTable.cut SSTable.ti_new SSTable.ti_seek_first SSTable.ti_seek_last SSTable.ti_seek SSTable.ti_next
  SSTable.ti_valid SSTable.ti_cur SSTable.t_get SSTable.wf_sentry SSTable.ascending
  Xxhash.xxh64 Block.encode_block Block.new_reader Block.it_new Block.it_seek_first Block.it_next
  Block.it_seek Block.it_seek_prev Block.it_seek_last Block.it_valid Block.it_entry Block.block_scan
  SSTFile.file_parts SSTFile.parts_bytes SSTFile.enc_footer SSTFile.read_file SSTFile.upd
  SSTFile.bl_of_block SSTFile.bl_contains SSTFile.bl_bytes SSTFile.parse_locator SSTFile.filters_bytes
  Block.slice
  Iter.eng_it Iter.eng_range_it Iter.tx_it Iter.tx_range_it Iter.eng_iter Iter.tx_full Iter.tx_range
  Iter.filtered_iter Iter.prefix_filter Iter.suffix_filter Iter.scan Iter.collect Iter.eng_sources
  Compaction.cinit Compaction.cput Compaction.cdel Compaction.cbatch Compaction.ccommit Compaction.cflush
  Compaction.cfull Compaction.ctrigger Compaction.crange Compaction.creopen Compaction.cget Compaction.select
  Compaction.select_range Compaction.dsort Compaction.nfresh
  Txn.ser_check Txn.ser_why
  TxnAtomic.atomic_check TxnAtomic.first_reject TxnAtomic.crun TxnAtomic.twrites TxnAtomic.cinit
  Service.service_step Service.sstep Service.srun Service.sinit Service.code_limits Service.req_size
  Repl.new_replica Repl.process Repl.stream_start Repl.acknowledge_up_to Repl.seg Repl.pick Repl.poll
  Repl.view Repl.primary_view Repl.deserialize Repl.to_proto
  Registry.init Registry.step Registry.run Registry.lock_state Registry.reg_size Registry.db_get Registry.has_pending RegFacts.registry_begin_timeout_ms
.
