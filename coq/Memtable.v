(* Memtable.v — executable model of pkg/memtable: the skip list as a sorted multi-version
   list (key ascending, sequence number descending, most recent insert first on ties), Find,
   the snapshot-filtered iterator, MemTable (immutable flag, size, nextSeqNum). *)
From KV Require Export Bytes.
Open Scope N_scope.

Inductive kind := KVal | KDel.

Record mentry := mkM { mk : bytes; mseq : N; mkind : kind; mval : bytes }.

(* entry.compareWithEntry a b < 0 *)
Definition elt (a b : mentry) : bool :=
  match bcmp (mk a) (mk b) with
  | Lt => true
  | Gt => false
  | Eq => mseq b <? mseq a
  end.

(* SkipList.Insert at level 0: the new node goes before the first node x with not (x < e) *)
Fixpoint insert (e : mentry) (l : list mentry) : list mentry :=
  match l with
  | [] => [e]
  | x :: r => if elt x e then x :: insert e r else e :: x :: r
  end.

(* SkipList.Find: skip nodes with smaller key; if the next node has the key, walk over all
   nodes with that key and keep the one with the strictly greatest sequence number *)
Fixpoint best_of_run (k : bytes) (cur : mentry) (l : list mentry) : mentry :=
  match l with
  | [] => cur
  | x :: r => if beq (mk x) k
              then best_of_run k (if mseq cur <? mseq x then x else cur) r
              else cur
  end.

Fixpoint find (k : bytes) (l : list mentry) : option mentry :=
  match l with
  | [] => None
  | x :: r => match bcmp (mk x) k with
              | Lt => find k r
              | Eq => Some (best_of_run k x r)
              | Gt => None
              end
  end.

(* entry.size() *)
Definition esize (e : mentry) : N := len (mk e) + len (mval e) + 16.

Record memtable := mkMT { mt_entries : list mentry; mt_size : N; mt_next : N; mt_imm : bool }.

Definition mt_empty : memtable := mkMT [] 0 0 false.

(* MemTable.Put / Delete (ignored when immutable); nextSeqNum update as in the code *)
Definition mt_add (m : memtable) (e : mentry) : memtable :=
  if mt_imm m then m else
  mkMT (insert e (mt_entries m)) (mt_size m + esize e)
       (if mt_next m <? mseq e then (mseq e + 1) mod 2^64 else mt_next m) false.
(* nextSeqNum is a uint64: seqNum+1 wraps to 0 for seqNum = 2^64-1 (then the snapshot filter of a
   mutable table's iterator hides entries; unreachable through the WAL, which rejects sequence
   numbers >= MaxSequenceNumber — the theorems carry the guard mseq < 2^64-1) *)

Definition mt_put (m : memtable) (k v : bytes) (s : N) : memtable := mt_add m (mkM k s KVal v).
Definition mt_del (m : memtable) (k : bytes) (s : N) : memtable := mt_add m (mkM k s KDel []).
Definition mt_set_imm (m : memtable) : memtable := mkMT (mt_entries m) (mt_size m) (mt_next m) true.

(* MemTable.Get: None = not present; Some None = deletion marker; Some (Some v) = value *)
Definition mt_get (m : memtable) (k : bytes) : option (option bytes) :=
  match find k (mt_entries m) with
  | None => None
  | Some e => Some (match mkind e with KDel => None | KVal => Some (mval e) end)
  end.

(* iterator visibility: snapshot 0 = no filtering *)
Definition visible (snap : N) (e : mentry) : bool := (snap =? 0) || (mseq e <=? snap).

(* MemTable.NewIterator: immutable tables are not filtered, mutable ones use nextSeqNum *)
Definition mt_snapshot (m : memtable) : N := if mt_imm m then 0 else mt_next m.
Definition mt_iter_entries (m : memtable) : list mentry :=
  filter (visible (mt_snapshot m)) (mt_entries m).

(* Iterator.Seek: first visible entry with key >= target *)
Fixpoint seek_ge (t : bytes) (l : list mentry) : list mentry :=
  match l with
  | [] => []
  | x :: r => if blt (mk x) t then seek_ge t r else l
  end.

(* ---------- an iterator held while the writer goes on (C18, second sentence) ---------- *)
(* skiplist.Iterator: the snapshot number taken by MemTable.NewIterator and the node it stands
   on.  It walks the LIVE list: Next follows the level-0 pointer of the current node in the list
   as it is now and skips the nodes its snapshot does not show.  A node is identified by key and
   sequence number (the writer never reuses a pair in the programs this is run on). *)
Record hiter := mkH { h_snap : N; h_cur : option mentry }.

Definition same_node (a b : mentry) : bool := beq (mk a) (mk b) && (mseq a =? mseq b).

Fixpoint after (e : mentry) (l : list mentry) : list mentry :=
  match l with
  | [] => []
  | x :: r => if same_node x e then r else after e r
  end.

Definition first_visible (snap : N) (l : list mentry) : option mentry :=
  match filter (visible snap) l with [] => None | x :: _ => Some x end.

Definition h_new (m : memtable) : hiter := mkH (mt_snapshot m) None.
Definition h_first (m : memtable) (h : hiter) : hiter :=
  mkH (h_snap h) (first_visible (h_snap h) (mt_entries m)).
Definition h_seek (t : bytes) (m : memtable) (h : hiter) : hiter :=
  mkH (h_snap h) (first_visible (h_snap h) (seek_ge t (mt_entries m))).
Definition h_next (m : memtable) (h : hiter) : hiter :=
  match h_cur h with
  | None => h
  | Some e => mkH (h_snap h) (first_visible (h_snap h) (after e (mt_entries m)))
  end.
