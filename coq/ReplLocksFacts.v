(* ReplLocksFacts.v — the slice of the generated lock table (gen/Locks.v, gofacts/locks.go) that
   concerns the primary side of pkg/replication, for C15 ("replicas cannot stall or FAIL the
   primary"): the state shared between a client's write path (the WAL observer callbacks of
   replication.Primary, run with the WAL mutex held), the gRPC handlers a replica drives
   (StreamWAL / Acknowledge / NegativeAcknowledge), the per-session sender goroutines and the
   heartbeat monitor.  A map of that state written under a shared lock (or none) makes the Go
   runtime abort the whole process ("concurrent map iteration and map write") when a session
   ends while a client write broadcasts: a replica failing the primary.

   The lemmas are recomputed by vm_compute on every run, on the rows whose location belongs to
   pkg/replication only, so that a lost lock elsewhere in the engine (C07's business) does not
   break C15.  Definitions and lemmas about the TABLE; what ties the table to the code is the
   translator (approximations in gofacts/locks.go, trusted base of C07 and C15). *)
From Coq Require Import List String Bool Ascii.
From KV Require Import LockDiscipline LockDisciplineProofs.
From KV.gen Require Import Locks.
From KV.gen Require LockLeaks NilChecks.
Import ListNotations.
Open Scope string_scope.

Definition repl_prefix : string := "replication.".

Definition is_repl_loc (x : loc) : bool := String.prefix repl_prefix x.

(* rows of replication locations; row_okb looks only at rows of the same location, so the
   slice is closed under "rows of one location" *)
Definition repl_accesses : table := filter (fun r => is_repl_loc (a_loc r)) gen_accesses.

(* order edges that touch a replication lock, closed with every edge between the locks that can
   be held when one is reached: the whole generated order is the honest graph for acyclicity,
   so the lemma below is stated on all of gen_order *)
Definition touches_repl (e : lock * lock) : bool := is_repl_loc (fst e) || is_repl_loc (snd e).
Definition repl_edges : order := filter touches_repl gen_order.

Lemma repl_fields_protected : protectedb repl_accesses = true.
Proof. vm_compute. reflexivity. Qed.

Lemma repl_lock_order_acyclic : acyclicb gen_order = true.
Proof. vm_compute. reflexivity. Qed.

(* no replication lock is acquired while the same (type, field) lock is held *)
Definition repl_self_nested (e : lock * lock) : bool := is_repl_loc (fst e) && String.eqb (fst e) (snd e).

Lemma repl_no_self_nesting : existsb repl_self_nested gen_order = false.
Proof. vm_compute. reflexivity. Qed.

(* the session map itself: listed, written, and every row holds Primary.mu — the writes
   exclusively (this is the row set a `delete` under RLock breaks) *)
Definition sessions_rows : table := rows_of "replication.Primary.sessions" gen_accesses.

Definition primary_mu : lock := "replication.Primary.mu".

Lemma repl_sessions_under_primary_mu :
  forallb (guards primary_mu) sessions_rows = true.
Proof. vm_compute. reflexivity. Qed.

(* non-vacuity: the slice is not empty, the session map is written by reachable code (register,
   unregister, Close) and read on the client write path (broadcastToReplicas), the WAL observer
   callbacks are in the table with the WAL mutex held, and the write path nests the
   replication locks under the WAL mutex *)
Example repl_table_nonvacuous :
  Nat.leb 20 (List.length repl_accesses) = true /\
  Nat.leb 2 (List.length (filter a_write sessions_rows)) = true /\
  existsb (fun r => String.eqb (a_fn r) "replication.(*Primary).broadcastToReplicas" &&
                    negb (a_write r) && held_mem "wal.WAL.mu" Ex (a_held r)) sessions_rows = true /\
  existsb (fun r => String.eqb (a_fn r) "replication.(*Primary).unregisterReplicaSession" &&
                    a_write r) sessions_rows = true /\
  existsb (fun e => String.eqb (fst e) "wal.WAL.mu" && String.eqb (snd e) "replication.Primary.mu") gen_order = true /\
  existsb (fun e => String.eqb (fst e) "replication.Primary.mu" && String.eqb (snd e) "replication.ReplicaSession.mu") gen_order = true /\
  Nat.leb 8 (List.length repl_edges) = true.
Proof. vm_compute. repeat split; reflexivity. Qed.

(* what the table lemma implies: a trace whose replication accesses are instances of the rows
   (with the row's locks held) and that respects mutual exclusion has no data race *)
Theorem repl_conforming_traces_race_free : forall tr,
  wf tr -> conforms repl_accesses tr -> ~ race tr.
Proof.
  intros tr W C. apply (table_no_race repl_accesses); auto.
  apply protectedb_sound. exact repl_fields_protected.
Qed.

(* explicit Lock()/Unlock() pairs in pkg/replication (gen/LockLeaks.v, gofacts/lockleaks.go): no
   way out of a function or loop iteration with a mutex still locked (the next taker - a client
   write that broadcasts, the heartbeat monitor - waits for ever), and no Unlock reached on a path
   that has released the mutex already (the Go runtime aborts the whole primary with "unlock of
   unlocked mutex": a replica failing the primary). *)
Definition repl_lock_exits : list (string * string * string * string) :=
  filter (fun r => match r with (p, _, _, _) => String.eqb p "pkg/replication" end) LockLeaks.lock_leaks.

Lemma repl_locks_released_exactly_once : repl_lock_exits = [].
Proof. vm_compute. reflexivity. Qed.

(* look-up functions (one pointer result, nil for "not there": Primary.getSession answers nil for a
   session that was removed between two look-ups of one handler) and the uses of their results
   before a comparison with nil (gen/NilChecks.v, gofacts/nilchecks.go): none in pkg/replication.
   A handler that dereferences the nil answer panics, grpc-go does not recover handler panics, the
   primary process ends: a replica failing the primary. *)
Definition repl_nil_unchecked : list (string * string * string * string) :=
  filter (fun r => match r with (p, _, _, _) => String.eqb p "pkg/replication" end) NilChecks.nil_unchecked.

Lemma repl_lookups_tested_before_use : repl_nil_unchecked = [].
Proof. vm_compute. reflexivity. Qed.

(* non-vacuity: the session look-up is among the functions the translator follows *)
Example repl_lookups_nonvacuous :
  existsb (fun r => String.eqb (fst r) "pkg/replication" && String.eqb (snd r) "Primary.getSession")
          NilChecks.lookup_functions = true.
Proof. vm_compute. reflexivity. Qed.
