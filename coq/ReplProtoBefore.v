(* ReplProtoBefore.v — the replication protocol of the PINNED tree (before f62340e, c7e8cb8,
   5fc1d1b, cb2d442, 7f7e08d, 2996cf8), kept as a regression note: the model that was faithful
   to that code, and the histories on which a connected replica never converged.  Each history
   is a corpus case (corpus/C14/fixed-*.case) that failed on the pinned tree and passes now;
   ReplProtoProofs.v proves that the repaired protocol (ReplProto.v) converges on every history.
   Nothing outside this file depends on it.

   Facts of the pinned code the old model was built from:
   P1  The primary served ONE wal.WAL object, the one the engine had when the replication manager
       started; rotateWAL (every flush) installed a fresh WAL without observers and closed the
       old one: nothing pushed any more, GetNextSequence frozen, GetEntriesFrom -> ErrWALClosed.
   P2  getWALEntriesFromSequence cut a response to the first 100 ENTRIES, also inside a
       transaction.
   P3  StartSequence = LastAckSequence = the replica's next expected number: pushes skipped
       entries numbered <= StartSequence and the catch-up polled from LastAckSequence+1.
   P4  pushed responses were flagged Compressed (ZSTD) although not compressed: never decodable.
   R1-R4 as in ReplProto.v (the replica's code did not change). *)
From KV Require Import Bytes Spec WalCodec MemtableProofs.
From Coq Require Import Lia.
Open Scope N_scope.

Module BeforeFixes.


(* ---------- log entries ---------- *)
Definition entry := wentry.
Definition eseq (e : entry) : N := w_seq e.

Definition beqb (a b : bytes) : bool := beq a b.

(* equality of the serialized payload (type, number, key, value) *)
Definition entry_eqb (a b : entry) : bool :=
  (w_op a =? w_op b) && (w_seq a =? w_seq b) && beqb (w_key a) (w_key b) && beqb (w_val a) (w_val b).

(* the number of entries one response carries at most: the literal of
   Primary.getWALEntriesFromSequence (checked against the source by gofacts: gen/ReplFacts.v) *)
Definition MaxFetch : nat := 100.

(* ---------- primary ---------- *)
Record pstate := mkP {
  p_log : list entry;      (* every entry ever logged, oldest first (log files are never retired) *)
  p_next : N;              (* next sequence number of the engine's current WAL *)
  p_obs_next : N;          (* nextSequence of the WAL object the replication primary holds *)
  p_live : bool;           (* that object is still the engine's WAL (no rotation since start) *)
  p_dirty : bool           (* the memtable holds data: a flush rotates the log *)
}.

Definition p_init : pstate := mkP [] 1 1 true false.

Definition cur (p : pstate) : N := p_obs_next p - 1.

Inductive fres := FOk (es : list entry) | FErr.

Definition from_seq (from : N) (l : list entry) : list entry :=
  filter (fun e => from <=? eseq e) l.

(* the leading entries numbered s *)
Fixpoint same_seq (s : N) (l : list entry) : list entry :=
  match l with
  | e :: r => if eseq e =? s then e :: same_seq s r else []
  | [] => []
  end.

(* the first k entries, extended to the end of the sequence number the cut falls in *)
Definition cut_at (k : nat) (l : list entry) : list entry :=
  let a := firstn k l in
  a ++ same_seq (eseq (last a (mkW 0 0 [] []))) (skipn k l).

Definition cut_fetch (l : list entry) : list entry := cut_at MaxFetch l.

(* the code before f62340e: a plain cut *)
Definition cut_fetch_old (l : list entry) : list entry := firstn MaxFetch l.

Definition fetch (p : pstate) (from : N) : fres :=
  if (cur p =? 0) || (cur p <? from) then FOk []
  else if p_live p then FOk (cut_fetch_old (from_seq from (p_log p)))
  else FErr.

(* a write of the primary's client *)
Inductive wr :=
| WSingle (op : N) (k v : bytes)               (* Put / Delete: wal.Append *)
| WMulti (ops : list (N * bytes * bytes)).     (* transaction commit / ApplyBatch: wal.AppendBatch *)

Definition stamp_ops (s : N) (ops : list (N * bytes * bytes)) : list entry :=
  map (fun o => match o with (op, k, v) => mkW op s k v end) ops.

Definition entries_of (s : N) (w : wr) : list entry :=
  match w with
  | WSingle op k v => [mkW op s k v]
  | WMulti ops => stamp_ops s ops
  end.

(* the sequence number the observer callback sees in entries[0] (P4) *)
Definition obs_seq (s : N) (w : wr) : N :=
  match w with WSingle _ _ _ => s | WMulti _ => 0 end.

Definition is_noop (w : wr) : bool := match w with WMulti [] => true | _ => false end.

Definition p_write (p : pstate) (w : wr) : pstate :=
  if is_noop w then p else
  let s := p_next p in
  mkP (p_log p ++ entries_of s w) (s + 1)
      (if p_live p then s + 1 else p_obs_next p) (p_live p) true.

Definition p_flush (p : pstate) : pstate :=
  if p_dirty p then mkP (p_log p) (p_next p) (p_obs_next p) false true else p.

(* ---------- replica ---------- *)
Inductive msg :=
| MPlain (es : list entry)     (* initial / polled entries, sent uncompressed *)
| MPush                        (* pushed batch, flagged compressed (P4): never decodable *)
| MErr.                        (* the stream ended with an error *)

Inductive rmode := RDown | RConnecting | RStreaming.

Record rstate := mkR {
  r_mode : rmode;
  r_link : bool;               (* the network path to the primary is up *)
  r_start : N;                 (* StartSequence = LastAckSequence of the current session *)
  r_inbox : list msg;          (* one-shot messages of the current stream, oldest first *)
  r_exp : N;                   (* WALBatchApplier.expectedNextSeq (= maxAppliedSeq + 1) *)
  r_gseq : N;                  (* WALBatchApplier.groupSeq *)
  r_gapp : list entry;         (* WALBatchApplier.groupApplied *)
  r_store : list entry         (* entries applied to the replica's engine, in order *)
}.

Definition r_init : rstate := mkR RDown true 0 [] 1 1 [] [].

(* --- ApplyEntries (R3) --- *)
Fixpoint contiguous (prev : N) (es : list entry) : bool :=
  match es with
  | [] => true
  | e :: r => ((eseq e =? prev) || (eseq e =? prev + 1)) && contiguous (eseq e) r
  end.

Fixpoint drop_below (g : N) (es : list entry) : list entry :=
  match es with
  | [] => []
  | e :: r => if eseq e <? g then drop_below g r else es
  end.

Fixpoint run_len (g : N) (es : list entry) : nat :=
  match es with
  | [] => O
  | e :: r => if eseq e =? g then S (run_len g r) else O
  end.

Fixpoint prefix_eqb (n : nat) (a b : list entry) : bool :=
  match n with
  | O => true
  | S n' => match a, b with
            | x :: a', y :: b' => entry_eqb x y && prefix_eqb n' a' b'
            | _, _ => false
            end
  end.

(* applying the remaining entries: (groupSeq, groupApplied, store) *)
Fixpoint apply_rest (g : N) (ga st : list entry) (es : list entry) : N * list entry * list entry :=
  match es with
  | [] => (g, ga, st)
  | e :: r =>
      if eseq e =? g then apply_rest g (ga ++ [e]) (st ++ [e]) r
      else apply_rest (eseq e) [e] (st ++ [e]) r
  end.

Definition last_seq (es : list entry) : N := eseq (last es (mkW 0 0 [] [])).

Inductive ares := AGap | AOk (r : rstate).

Definition apply_entries (r : rstate) (es : list entry) : ares :=
  match es with
  | [] => AOk r
  | e0 :: tl =>
      if r_exp r <? eseq e0 then AGap
      else if negb (contiguous (eseq e0) tl) then AGap
      else
        let es1 := drop_below (r_gseq r) es in
        let n := Nat.min (run_len (r_gseq r) es1) (length (r_gapp r)) in
        let es2 := if negb (Nat.eqb n 0) && prefix_eqb n es1 (r_gapp r) then skipn n es1 else es1 in
        match apply_rest (r_gseq r) (r_gapp r) (r_store r) es2 with
        | (g, ga, st) =>
            let l := last_seq es in
            let ex := if r_exp r - 1 <? l then l + 1 else r_exp r in   (* advanceTo *)
            AOk (mkR (r_mode r) (r_link r) (r_start r) (r_inbox r) ex g ga st)
        end
  end.

(* --- session / state machine --- *)
Definition disconnect (r : rstate) : rstate :=
  mkR RConnecting (r_link r) (r_start r) [] (r_exp r) (r_gseq r) (r_gapp r) (r_store r).

Definition set_inbox (r : rstate) (ib : list msg) : rstate :=
  mkR (r_mode r) (r_link r) (r_start r) ib (r_exp r) (r_gseq r) (r_gapp r) (r_store r).

Definition connect (p : pstate) (r : rstate) : rstate :=
  let s := r_exp r in
  let ib := match fetch p s with
            | FOk [] => []
            | FOk es => [MPlain es]
            | FErr => [MErr]
            end in
  mkR RStreaming (r_link r) s ib (r_exp r) (r_gseq r) (r_gapp r) (r_store r).

(* the periodic catch-up of StreamWAL (P3) *)
Definition poll (p : pstate) (r : rstate) : option msg :=
  if r_start r <? cur p then
    match fetch p (r_start r + 1) with
    | FOk (e :: es) => Some (MPlain (e :: es))
    | _ => None
    end
  else None.

(* scheduling choices of one tick: the environment the theorems quantify over *)
Record choice := mkC {
  c_lose : bool;     (* the message is swallowed by a stale receiver (R2); pushes and polls only *)
  c_stay : bool      (* a clean delivery is picked up by the WAITING_FOR_DATA handler (R1) *)
}.
Definition good : choice := mkC false false.
Definition is_bad (c : choice) : bool := c_lose c || c_stay c.

Definition deliver (c : choice) (r : rstate) (m : msg) : rstate :=
  match m with
  | MErr => disconnect r
  | MPush => disconnect r
  | MPlain es =>
      match apply_entries r es with
      | AGap => disconnect r
      | AOk r' => if c_stay c then r' else disconnect r'
      end
  end.

Definition tick (c : choice) (p : pstate) (r : rstate) : rstate :=
  match r_mode r with
  | RDown => r
  | RConnecting => if r_link r then connect p r else r
  | RStreaming =>
      match r_inbox r with
      | MPush :: rest =>
          if c_lose c then set_inbox r rest else deliver c (set_inbox r rest) MPush
      | m :: rest => deliver c (set_inbox r rest) m
      | [] =>
          match poll p r with
          | Some m => if c_lose c then r else deliver c r m
          | None => r
          end
      end
  end.

(* --- what a write / flush of the primary does to a connected replica (P4) --- *)
Definition push_of (p : pstate) (s : N) (w : wr) (r : rstate) : rstate :=
  match r_mode r with
  | RStreaming =>
      if p_live p && (r_start r <? obs_seq s w) then set_inbox r (r_inbox r ++ [MPush]) else r
  | _ => r
  end.

(* --- replica life cycle --- *)
Definition r_stop (r : rstate) : rstate :=
  mkR RDown (r_link r) (r_start r) [] (r_exp r) (r_gseq r) (r_gapp r) (r_store r).
(* Manager.startReplica: lastApplied := 0, NewWALBatchApplier(0) (R4) *)
Definition r_start_again (r : rstate) : rstate :=
  mkR RConnecting (r_link r) 0 [] 1 1 [] (r_store r).
Definition r_cut (r : rstate) : rstate :=
  match r_mode r with
  | RDown => mkR RDown false (r_start r) [] (r_exp r) (r_gseq r) (r_gapp r) (r_store r)
  | _ => mkR RConnecting false (r_start r) [] (r_exp r) (r_gseq r) (r_gapp r) (r_store r)
  end.
Definition r_heal (r : rstate) : rstate :=
  mkR (r_mode r) true (r_start r) (r_inbox r) (r_exp r) (r_gseq r) (r_gapp r) (r_store r).

(* ---------- the system: a primary and one replica (sessions are the only per-replica state
   of the primary, so replicas do not influence one another in the model) ---------- *)
Inductive event :=
| EWrite (w : wr)
| EFlush
| ETick (c : choice)
| EStart | EStop | ECut | EHeal.

Definition sys := (pstate * rstate)%type.

Definition step (s : sys) (e : event) : sys :=
  let (p, r) := s in
  match e with
  | EWrite w => if is_noop w then s else (p_write p w, push_of p (p_next p) w r)
  | EFlush => (p_flush p, r)
  | ETick c => (p, tick c p r)
  | EStart => (p, match r_mode r with RDown => r_start_again r | _ => r end)
  | EStop => (p, r_stop r)
  | ECut => (p, r_cut r)
  | EHeal => (p, r_heal r)
  end.

Definition run (evs : list event) (s : sys) : sys := fold_left step evs s.
Definition sys_init : sys := (p_init, r_init).

Definition ticks (cs : list choice) (p : pstate) (r : rstate) : rstate :=
  fold_left (fun r c => tick c p r) cs r.

(* ---------- views ---------- *)
Definition wop_of (e : entry) : wop :=
  if w_op e =? OpDel then WDel (w_key e) else WPut (w_key e) (w_val e).
Definition hist (l : list entry) : list wop := map wop_of l.
Definition view_get (l : list entry) (k : bytes) : option bytes := spec_get (hist l) k.

Definition keys_of (l : list entry) : list bytes := map w_key l.

Definition opt_beq (a b : option bytes) : bool :=
  match a, b with
  | None, None => true
  | Some x, Some y => beq x y
  | _, _ => false
  end.

(* executable agreement of the replica's data with the primary's on every key either ever wrote *)
Definition views_agree (p : pstate) (r : rstate) : bool :=
  forallb (fun k => opt_beq (view_get (r_store r) k) (view_get (p_log p) k))
          (keys_of (p_log p) ++ keys_of (r_store r)).

(* the replica's full scan: live keys ascending *)
Fixpoint ins_key (k : bytes) (l : list bytes) : list bytes :=
  match l with
  | [] => [k]
  | x :: r => match bcmp k x with Lt => k :: l | Eq => l | Gt => x :: ins_key k r end
  end.
Definition sorted_keys (l : list entry) : list bytes :=
  fold_left (fun acc e => ins_key (w_key e) acc) l [].
Definition scan_of (l : list entry) : list (bytes * bytes) := spec_live (hist l) (sorted_keys l).

(* quiescent fixpoint test used by the runner: nothing more will be delivered *)
Definition idle (p : pstate) (r : rstate) : bool :=
  match r_mode r with
  | RStreaming => match r_inbox r with [] => match poll p r with None => true | _ => false end | _ => false end
  | RDown => true
  | RConnecting => negb (r_link r)
  end.

(* run good ticks until idle, at most n of them *)
Fixpoint settle (n : nat) (p : pstate) (r : rstate) : rstate :=
  match n with
  | O => r
  | S n' => if idle p r then r else settle n' p (tick good p r)
  end.

(* ---------- lemmas ---------- *)
Lemma idle_fix : forall p r c, idle p r = true -> tick c p r = r.
Proof.
  intros p r c H. unfold idle, tick in *. destruct (r_mode r); [reflexivity| |].
  - destruct (r_link r); [discriminate|reflexivity].
  - destruct (r_inbox r); [|discriminate]. destruct (poll p r); [discriminate|reflexivity].
Qed.

Lemma idle_ticks : forall p cs r, idle p r = true -> ticks cs p r = r.
Proof.
  intros p cs. induction cs as [|c cs IH]; intros r H; [reflexivity|].
  unfold ticks in *. cbn [fold_left]. rewrite idle_fix by exact H. apply IH. exact H.
Qed.

Lemma stuck_forever : forall p r, idle p r = true -> views_agree p r = false ->
  forall cs, views_agree p (ticks cs p r) = false.
Proof. intros p r Hid V cs. rewrite idle_ticks by exact Hid. exact V. Qed.

Definition connected (r : rstate) : Prop := r_mode r <> RDown /\ r_link r = true.

Definition put1 (k v : N) : event := EWrite (WSingle OpPut [k] [v]).
Definition tx2 (k1 v1 k2 v2 : N) : event := EWrite (WMulti [(OpPut, [k1], [v1]); (OpPut, [k2], [v2])]).
Definition tgood (n : nat) : list event := repeat (ETick good) n.

(* D18a (repaired by cb2d442): the replica joins, two writes arrive, it has caught up; the primary
   flushes (its log is rotated); two more writes.  The replica stayed where it was under every
   schedule.  corpus/C14/fixed-rotation-after-join.case *)
Definition w_rotation : list event :=
  [EStart; ETick good; put1 97 1; put1 98 2] ++ tgood 6 ++ [EFlush; put1 99 3; put1 100 4].

Theorem rotation_refuted :
  let p := fst (run w_rotation sys_init) in
  let r := snd (run w_rotation sys_init) in
  connected r /\ forall cs, views_agree p (ticks cs p r) = false.
Proof.
  split; [split; [vm_compute; discriminate|vm_compute; reflexivity]|].
  apply stuck_forever; vm_compute; reflexivity.
Qed.

(* D18a: a replica that joined after the rotation got nothing: every fetch failed on the closed
   log, the stream ended with an error, the replica reconnected, for ever.
   corpus/C14/fixed-rotation-before-join.case *)
Definition w_join_after_rotation : list event :=
  [put1 97 1; put1 98 2; EFlush; put1 99 3; EStart; ETick good; ETick good].

Theorem join_after_rotation_refuted :
  let p := fst (run w_join_after_rotation sys_init) in
  let r := snd (run w_join_after_rotation sys_init) in
  connected r /\ forall cs, views_agree p (ticks cs p r) = false.
Proof.
  cbv zeta. set (p := fst (run w_join_after_rotation sys_init)).
  set (r := snd (run w_join_after_rotation sys_init)).
  split; [split; [vm_compute; discriminate|vm_compute; reflexivity]|].
  set (r2 := tick good p r).
  assert (T1 : forall c, tick c p r = r2) by (intros [[|] [|]]; vm_compute; reflexivity).
  assert (T2 : forall c, tick c p r2 = r) by (intros [[|] [|]]; vm_compute; reflexivity).
  assert (V1 : views_agree p r = false) by (vm_compute; reflexivity).
  assert (V2 : views_agree p r2 = false) by (vm_compute; reflexivity).
  assert (H : forall cs, (views_agree p (ticks cs p r) = false) /\ (views_agree p (ticks cs p r2) = false)).
  { induction cs as [|c cs [IH1 IH2]]; [split; assumption|].
    unfold ticks in *. cbn [fold_left]. rewrite T1, T2. split; assumption. }
  intros cs. apply H.
Qed.

(* D18d (repaired by 7f7e08d): the replica has joined an empty primary; one write.  Its number
   equalled the session's start sequence: not pushed (<= StartSequence), not polled (the poll
   started one above).  corpus/C14/fixed-last-write-single.case *)
Definition w_last_write : list event := [EStart; ETick good; put1 107 118].

Theorem last_write_refuted :
  let p := fst (run w_last_write sys_init) in
  let r := snd (run w_last_write sys_init) in
  connected r /\ forall cs, views_agree p (ticks cs p r) = false.
Proof.
  split; [split; [vm_compute; discriminate|vm_compute; reflexivity]|].
  apply stuck_forever; vm_compute; reflexivity.
Qed.

(* D18e (repaired by f62340e): 99 single writes, a transaction of two entries, one more write;
   the replica joins afterwards.  The first response carried 100 entries and ended inside the
   transaction; the replica applied them, moved on to the next number and never got the
   transaction's second entry.  corpus/C14/fixed-tx-split-99-plus-2.case *)
Definition puts (n : nat) : list event := map (fun i => put1 (N.of_nat i) 1) (seq 1 n).
Definition w_tx_cut : list event :=
  puts 99 ++ [tx2 200 1 201 2; put1 250 9; EStart] ++ tgood 8.

Theorem tx_cut_refuted :
  let p := fst (run w_tx_cut sys_init) in
  let r := snd (run w_tx_cut sys_init) in
  connected r /\
  view_get (r_store r) [200] = Some [1] /\ view_get (r_store r) [201] = None /\
  forall cs, views_agree p (ticks cs p r) = false.
Proof.
  split; [split; [vm_compute; discriminate|vm_compute; reflexivity]|].
  split; [vm_compute; reflexivity|]. split; [vm_compute; reflexivity|].
  apply stuck_forever; vm_compute; reflexivity.
Qed.

End BeforeFixes.
