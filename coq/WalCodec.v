(* WalCodec.v — executable model of pkg/wal: record encoding (wal.go writeRecord,
   writeRawRecord, writeFragmentedRecord, AppendBatch) and decoding (reader.go readRecord,
   ReadEntry, parseEntryData, ReplayWALFile, ReplayWALDir, getEntriesFromFile). *)
From KV Require Export Bytes.
From KV.gen Require Import Consts.
Open Scope N_scope.

Record wentry := mkW { w_op : N; w_seq : N; w_key : bytes; w_val : bytes }.

Definition OpPut : N := wal_OpTypePut.
Definition OpDel : N := wal_OpTypeDelete.
Definition OpMerge : N := wal_OpTypeMerge.
Definition RtFull : N := wal_RecordTypeFull.
Definition RtFirst : N := wal_RecordTypeFirst.
Definition RtMiddle : N := wal_RecordTypeMiddle.
Definition RtLast : N := wal_RecordTypeLast.

Definition MaxRec : N := wal_MaxRecordSize.
Definition HdrSize : N := wal_HeaderSize.

Definition valid_op (o : N) : bool := (o =? OpPut) || (o =? OpDel) || (o =? OpMerge).

(* ---------- encoding ---------- *)

(* type(1) seq(8) keylen(4) key [vallen(4) val] *)
Definition payload (e : wentry) : bytes :=
  [w_op e] ++ le 8 (w_seq e) ++ le 4 (len (w_key e)) ++ w_key e ++
  (if w_op e =? OpDel then [] else le 4 (len (w_val e)) ++ w_val e).

Definition phys (ty : N) (d : bytes) : bytes :=
  le 4 (crc32 d) ++ le 2 (len d) ++ [ty] ++ d.

(* the MIDDLE* LAST tail of writeFragmentedRecord; fuel = number of loop iterations *)
Fixpoint chunks (fuel : nat) (rem : bytes) : bytes :=
  match fuel with
  | O => []
  | S f =>
      if MaxRec <? len rem
      then phys RtMiddle (firstn (N.to_nat MaxRec) rem) ++ chunks f (skipn (N.to_nat MaxRec) rem)
      else match rem with [] => [] | _ => phys RtLast rem end
  end.

Definition first_len (e : wentry) : N := 13 + N.min (len (w_key e)) (MaxRec - 13).

Definition encode_fragmented (e : wentry) : bytes :=
  let p := payload e in
  let n := N.to_nat (first_len e) in
  phys RtFirst (firstn n p) ++ chunks (S (length p)) (skipn n p).

(* Append: one FULL record or a fragmented one *)
Definition encode_entry (e : wentry) : bytes :=
  if len (payload e) <=? MaxRec then phys RtFull (payload e) else encode_fragmented e.

Definition encode_log (es : list wentry) : bytes := flat_map encode_entry es.

(* ---------- decoding ---------- *)

Inductive rec_res :=
| RecOk (ty : N) (data rest : bytes)
| RecEOF            (* io.EOF: no byte left *)
| RecTorn           (* io.ErrUnexpectedEOF: header or payload cut short *)
| RecBad (rest : bytes).   (* invalid record type (header consumed) or CRC mismatch (record consumed) *)

Definition read_record (bs : bytes) : rec_res :=
  match bs with
  | [] => RecEOF
  | _ =>
    if len bs <? HdrSize then RecTorn else
    let crc := unle (firstn 4 bs) in
    let ln := unle (firstn 2 (skipn 4 bs)) in
    let ty := nth 6 bs 0 in
    if (ty <? RtFull) || (RtLast <? ty) then RecBad (skipn 7 bs) else
    let body := skipn 7 bs in
    if len body <? ln then RecTorn else
    let data := firstn (N.to_nat ln) body in
    if crc32 data =? crc then RecOk ty data (skipn (N.to_nat ln) body)
    else RecBad (skipn (N.to_nat ln) body)
  end.

(* parseEntryData; None = an error whose text contains "corrupt" or "invalid" *)
Definition parse_entry (d : bytes) : option wentry :=
  if len d <? 13 then None else
  let op := nth 0 d 0 in
  if negb (valid_op op) then None else
  let seq := unle (firstn 8 (skipn 1 d)) in
  let klen := unle (firstn 4 (skipn 9 d)) in
  if len d <? 13 + klen then None else
  let key := firstn (N.to_nat klen) (skipn 13 d) in
  let off := 13 + klen in
  if op =? OpDel then Some (mkW op seq key []) else
  if len d <? off + 4 then None else
  let vlen := unle (firstn 4 (skipn (N.to_nat off) d)) in
  if len d <? off + 4 + vlen then None else
  Some (mkW op seq key (firstn (N.to_nat vlen) (skipn (N.to_nat (off + 4)) d))).

(* ReadEntry: the fragment buffer survives across calls exactly as r.fragments does *)
Inductive ent_res :=
| EntOk (e : wentry) (rest : bytes) (frags : list bytes)
| EntEOF                          (* clean end *)
| EntTorn                         (* unexpected EOF (also: EOF with pending fragments) *)
| EntBad (rest : bytes) (frags : list bytes)   (* corrupt / invalid; reader positioned at rest *)
| EntFuel.

Fixpoint read_entry (fuel : nat) (bs : bytes) (frags : list bytes) : ent_res :=
  match fuel with
  | O => EntFuel
  | S f =>
    match read_record bs with
    | RecEOF => match frags with [] => EntEOF | _ => EntTorn end
    | RecTorn => EntTorn
    | RecBad rest => EntBad rest frags
    | RecOk ty data rest =>
        if ty =? RtFull then
          match frags with
          | _ :: _ => EntBad rest []       (* full record inside a fragmented entry *)
          | [] =>
            match parse_entry data with
            | Some e => EntOk e rest []
            | None => EntBad rest []
            end
          end
        else if ty =? RtFirst then
          match frags, data with
          | _ :: _, _ => EntBad rest []    (* first fragment inside a fragmented entry *)
          | [], [] => EntBad rest []       (* empty first fragment *)
          | [], _ => read_entry f rest [data]
          end
        else if ty =? RtMiddle then
          match frags with
          | [] => EntBad rest frags
          | _ => read_entry f rest (frags ++ [data])
          end
        else (* RtLast *)
          match frags with
          | [] => EntBad rest frags
          | _ => match parse_entry (concat (frags ++ [data])) with
                 | Some e => EntOk e rest []
                 | None => EntBad rest []
                 end
          end
    end
  end.

Inductive rstatus := Clean | TornTail | Damaged | OutOfFuel.

(* ReplayWALFile (repaired policy): entries up to the first torn or damaged record of the
   file; nothing after it is interpreted. *)
Fixpoint replay_file_aux (fuel : nat) (bs : bytes) (frags : list bytes) (acc : list wentry)
  : list wentry * rstatus :=
  match fuel with
  | O => (rev acc, OutOfFuel)
  | S f =>
    match read_entry (S (length bs)) bs frags with
    | EntOk e rest fr => replay_file_aux f rest fr (e :: acc)
    | EntEOF => (rev acc, Clean)
    | EntTorn => (rev acc, TornTail)
    | EntBad _ _ => (rev acc, Damaged)
    | EntFuel => (rev acc, OutOfFuel)
    end
  end.

Definition replay_file (bs : bytes) : list wentry * rstatus :=
  replay_file_aux (S (length bs)) bs [] [].

(* ReplayWALDir: files in name order; a damaged file contributes its prefix and the next
   file is still replayed. *)
Definition replay_dir (files : list bytes) : list wentry :=
  flat_map (fun f => fst (replay_file f)) files.

Definition dir_status (files : list bytes) : list rstatus :=
  map (fun f => snd (replay_file f)) files.

(* GetEntriesFrom on a clean directory *)
Definition entries_from (s : N) (files : list bytes) : list wentry :=
  filter (fun e => s <=? w_seq e) (replay_dir files).

(* ---------- batches (AppendBatch) ---------- *)
(* every op of the batch carries the batch's sequence number *)
Definition stamp (seq : N) (e : wentry) : wentry := mkW (w_op e) seq (w_key e) (w_val e).
Definition encode_batch (seq : N) (ops : list wentry) : bytes :=
  flat_map (fun e => encode_entry (stamp seq e)) ops.

(* canonical form of an entry as the log stores it: deletes carry no value *)
Definition canon (e : wentry) : wentry :=
  if w_op e =? OpDel then mkW (w_op e) (w_seq e) (w_key e) [] else e.

Definition wf_entry (e : wentry) : bool :=
  valid_op (w_op e) && (w_seq e <? 2^64) && (len (w_key e) <? 2^32) && (len (w_val e) <? 2^32)
  && wf_bytes (w_key e) && wf_bytes (w_val e).

(* ---------- the writer as a state machine (sequence assignment) ---------- *)
(* files newest last; each file is the byte string handed to the OS so far *)
Record wal := mkWal { wl_next : N; wl_files : list bytes }.

Definition MaxSeq : N := wal_MaxSequenceNumber.

Definition app_last (files : list bytes) (b : bytes) : list bytes :=
  match rev files with
  | [] => [b]
  | f :: r => rev r ++ [f ++ b]
  end.

Inductive wres := WOk (seq : N) | WErrInvalidOp | WErrOverflow | WErrTooLarge.

(* WAL.Append *)
Definition wal_append (w : wal) (op : N) (k v : bytes) : wal * wres :=
  if negb (valid_op op) then (w, WErrInvalidOp) else
  if MaxSeq <=? wl_next w then (w, WErrOverflow) else
  let s := wl_next w in
  (mkWal (s + 1) (app_last (wl_files w) (encode_entry (mkW op s k v))), WOk s).

(* WAL.AppendBatch: one sequence number for the whole batch; empty batch is a no-op that
   returns the next sequence number *)
Definition wal_append_batch (w : wal) (ops : list wentry) : wal * wres :=
  match ops with
  | [] => (w, WOk (wl_next w))
  | _ =>
    if MaxSeq <=? wl_next w then (w, WErrOverflow) else
    (* every op type is checked before the first record is written *)
    if negb (forallb (fun e => valid_op (w_op e)) ops) then (w, WErrInvalidOp) else
    let s := wl_next w in
    (mkWal (s + 1) (app_last (wl_files w) (encode_batch s ops)), WOk s)
  end.

(* WAL.AppendWithSequence *)
Definition wal_append_seq (w : wal) (op : N) (k v : bytes) (s : N) : wal * wres :=
  if negb (valid_op op) then (w, WErrInvalidOp) else
  if MaxSeq <=? s then (w, WErrOverflow) else
  (mkWal (if wl_next w <=? s then s + 1 else wl_next w)
         (app_last (wl_files w) (encode_entry (mkW op s k v))), WOk s).

(* NewWAL after the old one was closed: a fresh file; the counter is whatever the caller
   hands over (UpdateNextSequence only ever raises it) *)
Definition wal_new_file (w : wal) : wal := mkWal (wl_next w) (wl_files w ++ [[]]).
Definition wal_update_next (w : wal) (n : N) : wal :=
  mkWal (if wl_next w <? n then n else wl_next w) (wl_files w).
