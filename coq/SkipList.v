(* SkipList.v — executable model of the multi-level structure of pkg/memtable/skiplist.go.
   A skip list is its level-0 chain (the nodes after head, in order); every node carries
   its height (1..MaxHeight). Node n is linked on level i iff i < height n, so the level-i
   chain is the sub-list of nodes with height > i. A position ("current" in the Go loops) is
   represented by the list of nodes that follow it on level 0: head = the whole list.
   Model only; lemmas live in SkipListProofs.v. *)
From Coq Require Import List NArith Bool.
From KV Require Export Bytes Memtable.
Import ListNotations.

Definition MaxHeight : nat := 12.

Definition tnode : Type := (mentry * nat)%type.
Definition tower : Type := list tnode.

Definition linked (lv : nat) (p : tnode) : bool := Nat.ltb lv (snd p).

(* the level-lv chain: nodes reachable from head by next[lv] *)
Definition chain (lv : nat) (t : tower) : tower := filter (linked lv) t.

(* One level of the search loop shared by Insert, Find and Seek:
     next := current.getNext(lv)
     for next != nil && less(next.entry) { current = next; next = current.getNext(lv) }
   cur  = the nodes after `current` (level 0); scan = the part of cur not yet looked at.
   current.getNext(lv) is the first node of scan that is linked on level lv; shorter nodes
   are not on that chain and are passed over without being compared. Result: the nodes
   after the final `current`. *)
Fixpoint walk (less : mentry -> bool) (lv : nat) (cur scan : tower) : tower :=
  match scan with
  | [] => cur                                    (* next == nil *)
  | p :: r =>
      if linked lv p then
        if less (fst p) then walk less lv r r    (* current = next *)
        else cur                                 (* next >= target: stop *)
      else walk less lv cur r
  end.

(* for level := lv; level >= 0; level-- : the positions prev[lv], prev[lv-1], .., prev[0],
   each tagged with its level *)
Fixpoint descend_prevs (less : mentry -> bool) (lv : nat) (cur : tower) : list (nat * tower) :=
  let cur' := walk less lv cur cur in
  (lv, cur') :: match lv with
                | O => []
                | S lv' => descend_prevs less lv' cur'
                end.

Fixpoint descend (less : mentry -> bool) (lv : nat) (cur : tower) : tower :=
  let cur' := walk less lv cur cur in
  match lv with
  | O => cur'
  | S lv' => descend less lv' cur'
  end.

(* for level := height-1 downto 0, starting at head; returns the nodes after prev[0] *)
Definition search (less : mentry -> bool) (height : nat) (t : tower) : tower :=
  match height with
  | O => t
  | S top => descend less top t
  end.

(* the two comparisons used by the loops *)
Definition less_entry (e : mentry) (x : mentry) : bool := elt x e.      (* compareWithEntry(e) < 0 *)
Definition less_key (k : bytes) (x : mentry) : bool := blt (mk x) k.     (* compare(key) < 0 *)

(* link node n right after the position `after` (a suffix of t) *)
Definition splice (t after : tower) (n : tnode) : tower :=
  firstn (length t - length after) t ++ n :: after.

Record skiplist := mkSL { sl_nodes : tower; sl_height : nat }.

Definition sl_empty : skiplist := mkSL [] 1.

(* SkipList.Insert with the height h drawn by randomHeight() *)
Definition sl_insert (e : mentry) (h : nat) (s : skiplist) : skiplist :=
  let ch := Nat.max (sl_height s) h in
  mkSL (splice (sl_nodes s) (search (less_entry e) ch (sl_nodes s)) (e, h)) ch.

(* SkipList.Find *)
Definition sl_find (k : bytes) (s : skiplist) : option mentry :=
  match search (less_key k) (sl_height s) (sl_nodes s) with
  | [] => None
  | (x, _) :: r => if beq (mk x) k then Some (best_of_run k x (map fst r)) else None
  end.

(* Iterator.Seek (no snapshot): the entries from the iterator position on *)
Definition sl_seek (k : bytes) (s : skiplist) : list mentry :=
  map fst (search (less_key k) (sl_height s) (sl_nodes s)).

(* a sequence of inserts with the heights the random source happened to give *)
Definition sl_build (ehs : list (mentry * nat)) : skiplist :=
  fold_left (fun s p => sl_insert (fst p) (snd p) s) ehs sl_empty.
